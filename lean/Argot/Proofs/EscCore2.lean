/- C14 core, second part: a multi-threaded pointer machine with struct fields (interior pointers),
   globals and panic; the abstraction relation to an escape graph with field subnodes; the proof that
   every instruction of the fragment, executed by any thread, preserves it. -/
import Argot.Model.EscCore2
import Argot.Proofs.EscCore
import Argot.Proofs.EGraphMono2

namespace Argot.EscCore2
open Argot.EGraph Argot.EGraph.EGraph Argot.EscCore

/-! ### the machine -/

abbrev Tid := Nat

/-- an object is allocated by an instruction (`heap n`) or is the cell of a global (`glob gn`, where
`gn` is the global's node: a global is its own allocation site) -/
inductive Ob where
  | heap (n : Nat)
  | glob (gn : Node)
  deriving DecidableEq, Repr

/-- a memory cell: an object and a field path into it (`[]` = the object's own cell) -/
abbrev Cell := Ob × List Nat

/-- the interior pointer `&c.f` -/
def fld (c : Cell) (f : Nat) : Cell := (c.1, c.2 ++ [f])

/-- Threads `0 … nthreads-1`, each with its own variables; one heap (every cell holds nil or a
pointer to a cell); `roots`: cells handed to a `go` call or to `panic`; `cells`: the cells that have
been materialised (allocated, or addressed by a `fieldAddr`/`global`); `site`: allocation site of a
heap object; `owner`: the thread that allocated the object (ghost, never read by a step). -/
structure CState2 where
  nthreads : Nat
  val : Tid → Node → Option Cell
  heap : Cell → Option Cell
  roots : List Cell
  used : List Nat
  cells : List Cell
  site : Nat → Node
  owner : Ob → Tid

def updF {α β : Type} [DecidableEq α] (f : α → β) (a : α) (b : β) : α → β := fun x => if x = a then b else f x

def setVar (val : Tid → Node → Option Cell) (t : Tid) (v : Node) (x : Option Cell) : Tid → Node → Option Cell :=
  fun t' v' => if t' = t ∧ v' = v then x else val t' v'

/-- thread `t` executes one instruction.  `go f(v)` hands the cell to a new thread whose only
variable holding a pointer is `v`; a nil pointer operand makes the instruction a no-op (it panics in Go). -/
inductive Step2 : CState2 → Tid → Instr2 → CState2 → Prop where
  | alloc (σ : CState2) (t : Tid) (v a : Node) (n : Nat) (hfresh : n ∉ σ.used) :
      Step2 σ t (.alloc v a)
        { σ with val := setVar σ.val t v (some (.heap n, [])), used := n :: σ.used,
                 cells := (.heap n, []) :: σ.cells, site := updF σ.site n a,
                 owner := updF σ.owner (.heap n) t }
  | copy (σ : CState2) (t : Tid) (v w : Node) :
      Step2 σ t (.copy v w) { σ with val := setVar σ.val t v (σ.val t w) }
  | store (σ : CState2) (t : Tid) (a v : Node) (c : Cell) (h : σ.val t a = some c) :
      Step2 σ t (.store a v) { σ with heap := updF σ.heap c (σ.val t v) }
  | load (σ : CState2) (t : Tid) (v a : Node) (c : Cell) (h : σ.val t a = some c) :
      Step2 σ t (.load v a) { σ with val := setVar σ.val t v (σ.heap c) }
  | goCall (σ : CState2) (t : Tid) (v : Node) (c : Cell) (h : σ.val t v = some c) :
      Step2 σ t (.goCall v)
        { σ with roots := c :: σ.roots, nthreads := σ.nthreads + 1,
                 val := fun t' x => if t' = σ.nthreads then (if x = v then some c else none) else σ.val t' x }
  | fieldAddr (σ : CState2) (t : Tid) (v p : Node) (f : Nat) (c : Cell) (h : σ.val t p = some c) :
      Step2 σ t (.fieldAddr v p f)
        { σ with val := setVar σ.val t v (some (fld c f)), cells := fld c f :: σ.cells }
  | global (σ : CState2) (t : Tid) (v gn : Node) :
      Step2 σ t (.global v gn)
        { σ with val := setVar σ.val t v (some (.glob gn, [])), cells := (.glob gn, []) :: σ.cells }
  | panic (σ : CState2) (t : Tid) (v : Node) (c : Cell) (h : σ.val t v = some c) :
      Step2 σ t (.panic v) { σ with roots := c :: σ.roots }
  | nil (σ : CState2) (t : Tid) (i : Instr2) (a : Node) (h : ptrOperand i = some a) (hn : σ.val t a = none) :
      Step2 σ t i σ

/-- reachability in memory: through the pointer a cell holds, or into a field of the cell -/
inductive Reach2 (σ : CState2) : Cell → Cell → Prop where
  | refl (c) : Reach2 σ c c
  | heap {a b c} : Reach2 σ a b → σ.heap b = some c → Reach2 σ a c
  | field {a b} (f : Nat) : Reach2 σ a b → Reach2 σ a (fld b f)

/-- the cell is reachable by a goroutine other than `t`: from a cell handed to `go` / `panic`, from a
global, or from a variable of another thread -/
def SharedWith (σ : CState2) (t : Tid) (c : Cell) : Prop :=
  (∃ r, r ∈ σ.roots ∧ Reach2 σ r c) ∨ (∃ gn, Reach2 σ (.glob gn, []) c) ∨
  (∃ t' v r, t' ≠ t ∧ σ.val t' v = some r ∧ Reach2 σ r c)

/-- pointers point to materialised cells; materialised cells are prefix closed and allocated -/
structure Cwf2 (σ : CState2) : Prop where
  val : ∀ t v c, σ.val t v = some c → c ∈ σ.cells
  heap : ∀ c c', σ.heap c = some c' → c ∈ σ.cells ∧ c' ∈ σ.cells
  roots : ∀ r, r ∈ σ.roots → r ∈ σ.cells
  pre : ∀ c f, fld c f ∈ σ.cells → c ∈ σ.cells
  used : ∀ c n, c ∈ σ.cells → c.1 = .heap n → n ∈ σ.used

/-! ### abstraction -/

def siteO (site : Nat → Node) : Ob → Node
  | .heap n => site n
  | .glob gn => gn

/-- the node of a cell: the allocation site of its object, then field subnodes along the path -/
def absC (cfg : Cfg) (site : Nat → Node) (c : Cell) : Node := c.2.foldl cfg.sub (siteO site c.1)

/-- **the abstraction relation**: every concrete pointer has an edge; a pointer held by thread `t`
points to an object `t` allocated or to a Leaked node, a cell points into an object with the same
owner or to a Leaked node; handed-over cells and globals are Leaked; materialised field cells have
their subnode edge. -/
structure Abs2 (cfg : Cfg) (σ : CState2) (g : EGraph) : Prop where
  vars : ∀ t v c, σ.val t v = some c →
    PEdge g v (absC cfg σ.site c) ∧ (σ.owner c.1 = t ∨ g.st (absC cfg σ.site c) = 2)
  heap : ∀ c c', σ.heap c = some c' →
    PEdge g (absC cfg σ.site c) (absC cfg σ.site c') ∧
    (σ.owner c.1 = σ.owner c'.1 ∨ g.st (absC cfg σ.site c') = 2)
  roots : ∀ r, r ∈ σ.roots → g.st (absC cfg σ.site r) = 2
  globs : ∀ gn, ((Ob.glob gn, []) : Cell) ∈ σ.cells → g.st gn = 2
  flds : ∀ c f, fld c f ∈ σ.cells →
    (g.fl (absC cfg σ.site c) (cfg.sub (absC cfg σ.site c) f)).sub = true

variable {cfg : Cfg}

theorem st2_mono {g h : EGraph} (hle : LE g h) (h2 : ∀ n, h.st n ≤ 2) {n : Node} (e : g.st n = 2) : h.st n = 2 :=
  Nat.le_antisymm (h2 _) (by rw [← e]; exact hle.st _)

theorem Abs2.mono {σ : CState2} {g h : EGraph} (ha : Abs2 cfg σ g) (hle : LE g h) (h2 : ∀ n, h.st n ≤ 2) :
    Abs2 cfg σ h :=
  ⟨fun t v c hv => ⟨(ha.vars t v c hv).1.mono hle, (ha.vars t v c hv).2.imp id (st2_mono hle h2)⟩,
   fun c c' hh => ⟨(ha.heap c c' hh).1.mono hle, (ha.heap c c' hh).2.imp id (st2_mono hle h2)⟩,
   fun r hr => st2_mono hle h2 (ha.roots r hr),
   fun gn hm => st2_mono hle h2 (ha.globs gn hm),
   fun c f hm => Flags.sub_of_le (hle.fl _ _) (ha.flds c f hm)⟩

theorem absC_fld (site : Nat → Node) (c : Cell) (f : Nat) :
    absC cfg site (fld c f) = cfg.sub (absC cfg site c) f := by
  simp [absC, fld, List.foldl_append]

theorem absC_updF {site : Nat → Node} {n : Nat} {a : Node} {c : Cell} (h : c.1 ≠ .heap n) :
    absC cfg (updF site n a) c = absC cfg site c := by
  obtain ⟨o, p⟩ := c
  cases o with
  | heap m =>
    have : m ≠ n := fun e => h (by simp [e])
    simp [absC, siteO, updF, this]
  | glob gn => rfl

theorem fld_inj {a b : Cell} {f f' : Nat} (h : fld a f = fld b f') : a = b ∧ f = f' := by
  obtain ⟨a1, a2⟩ := a
  obtain ⟨b1, b2⟩ := b
  simp only [fld, Prod.mk.injEq] at h
  obtain ⟨h1, h2⟩ := h
  obtain ⟨h3, h4⟩ := List.append_inj' h2 rfl
  simp at h4
  exact ⟨by rw [h1, h3], h4⟩

theorem fld_ne_base {c : Cell} {f : Nat} {o : Ob} : fld c f ≠ (o, []) := by
  intro h
  simp [fld] at h

theorem vars_setVar {val : Tid → Node → Option Cell} {P : Tid → Node → Cell → Prop} {t0 : Tid} {v0 : Node}
    {x : Option Cell} (h : ∀ t v c, val t v = some c → P t v c) (hx : ∀ c, x = some c → P t0 v0 c) :
    ∀ t v c, setVar val t0 v0 x t v = some c → P t v c := by
  intro t v c hv
  unfold setVar at hv
  split at hv
  · rename_i e; obtain ⟨rfl, rfl⟩ := e; exact hx c hv
  · exact h t v c hv

theorem heap_updF {hp : Cell → Option Cell} {P : Cell → Cell → Prop} {c0 : Cell} {x : Option Cell}
    (h : ∀ c c', hp c = some c' → P c c') (hx : ∀ c', x = some c' → P c0 c') :
    ∀ c c', updF hp c0 x c = some c' → P c c' := by
  intro c c' hv
  unfold updF at hv
  split at hv
  · rename_i e; subst e; exact hx c' hv
  · exact h c c' hv

theorem leaked_of_any {g : EGraph} {I : Node → Nat} (hg : WF I g) {a b : Node} (e : (g.fl a b).any = true)
    (h : g.st a = 2) : g.st b = 2 :=
  Nat.le_antisymm (hg.le2 _) (by rw [← h]; exact hg.closed _ _ e)

theorem any_of_sub {c : Flags} (h : c.sub = true) : c.any = true := by
  simp [Flags.any, h]

/-! ### abstract side -/

/-- `fieldSub` is the model's `fieldSubnode` on a node group that holds the subnode -/
theorem fieldSubnode_eq_fieldSub (ng : NG) (g : EGraph) (base : Node) (f : Nat)
    (h : ng.sub base f = some (cfg.sub base f)) (hI : ng.intr = cfg.I) :
    fieldSubnode ng g base f = (ng, fieldSub cfg g base f, cfg.sub base f) := by
  rw [fieldSubnode_some h, hI]; rfl

theorem addEdge_flag {I : Node → Nat} (hI : ∀ n, I n ≤ 2) {g : EGraph} (hg : WF I g) (a b : Node) (f : Flags) :
    f.le ((addEdge I g a b f).fl a b) = true := by
  rw [addEdge_fl hI hg.toRep, if_pos ⟨rfl, rfl⟩]
  generalize g.fl a b = c
  rcases c with ⟨c1, c2, c3⟩
  rcases f with ⟨f1, f2, f3⟩
  cases c1 <;> cases c2 <;> cases c3 <;> cases f1 <;> cases f2 <;> cases f3 <;> rfl

theorem fieldAddr_spec (hI : ∀ n, cfg.I n ≤ 2) {g : EGraph} (hg : WF cfg.I g) (v p : Node) (f : Nat) :
    WF cfg.I (transfer2 cfg g (.fieldAddr v p f)) ∧ LE g (transfer2 cfg g (.fieldAddr v p f)) ∧
    ∀ q, q ∈ pointees g p →
      ((transfer2 cfg g (.fieldAddr v p f)).fl q (cfg.sub q f)).sub = true ∧
      ((transfer2 cfg g (.fieldAddr v p f)).fl v (cfg.sub q f)).int = true := by
  have key := foldl_inv (fieldAddrStep cfg v f)
    (fun c => WF cfg.I c ∧ LE g c)
    (fun q c => (c.fl q (cfg.sub q f)).sub = true ∧ (c.fl v (cfg.sub q f)).int = true)
    (pointees g p) g ⟨hg, LE.refl g⟩
    (fun c q _ inv => by
      have w1 : WF cfg.I (fieldSub cfg c q f) := addEdge_wf hI inv.1 _ _ _
      have l1 : LE c (fieldSub cfg c q f) := addEdge_le hI inv.1.toRep _ _ _
      have w2 : WF cfg.I (fieldAddrStep cfg v f c q) := addEdge_wf hI w1 _ _ _
      have l2 : LE (fieldSub cfg c q f) (fieldAddrStep cfg v f c q) := addEdge_le hI w1.toRep _ _ _
      have s1 : ((fieldSub cfg c q f).fl q (cfg.sub q f)).sub = true :=
        Flags.sub_of_le (addEdge_flag hI inv.1 q (cfg.sub q f) Flags.subnode) rfl
      have s2 : ((fieldAddrStep cfg v f c q).fl v (cfg.sub q f)).int = true :=
        Flags.int_of_le (addEdge_flag hI w1 v (cfg.sub q f) Flags.internal) rfl
      exact ⟨⟨w2, inv.2.trans (l1.trans l2)⟩, Flags.sub_of_le (l2.fl _ _) s1, s2⟩)
    (fun c q q' _ inv hq => by
      have w1 : WF cfg.I (fieldSub cfg c q' f) := addEdge_wf hI inv.1 _ _ _
      have l1 : LE c (fieldSub cfg c q' f) := addEdge_le hI inv.1.toRep _ _ _
      have l2 : LE (fieldSub cfg c q' f) (fieldAddrStep cfg v f c q') := addEdge_le hI w1.toRep _ _ _
      have l := l1.trans l2
      exact ⟨Flags.sub_of_le (l.fl _ _) hq.1, Flags.int_of_le (l.fl _ _) hq.2⟩)
  exact ⟨key.1.1, key.1.2, key.2⟩

theorem leak_spec {I : Node → Nat} {g : EGraph} (hg : WF I g) (v : Node) :
    WF I (transfer I g (.goCall v)) ∧ LE g (transfer I g (.goCall v)) ∧
    ∀ n, n ∈ pointees g v → (transfer I g (.goCall v)).st n = 2 := by
  have hns : ∀ n, n ∈ pointees g v → n ∈ g.dom := fun n hn => (mem_succs.1 hn).1
  obtain ⟨h1, h2, h3, h4, h5, _⟩ := leakAll_spec hg (pointees g v) hns
  have e : transfer I g (.goCall v) = (pointees g v).foldl (fun g n => mergeNodeStatus g n 2) g := rfl
  rw [e]
  exact ⟨h1, ⟨fun a b => by rw [h3]; exact Flags.le_refl _, fun x hx => by rw [h2]; exact hx, h4⟩,
    fun n hn => Nat.le_antisymm (h1.le2 _) (h5 n hn)⟩

theorem panic_eq_go (g : EGraph) (v : Node) : transfer2 cfg g (.panic v) = transfer cfg.I g (.goCall v) := rfl

theorem transfer2_wf_le (hI : ∀ n, cfg.I n ≤ 2) {g : EGraph} (hg : WF cfg.I g) (i : Instr2) :
    WF cfg.I (transfer2 cfg g i) ∧ LE g (transfer2 cfg g i) := by
  cases i with
  | alloc v a => exact transfer_wf_le hI hg (.alloc v a)
  | copy v w => exact transfer_wf_le hI hg (.copy v w)
  | store a v => exact transfer_wf_le hI hg (.store a v)
  | load v a => exact transfer_wf_le hI hg (.load v a)
  | goCall v => exact transfer_wf_le hI hg (.goCall v)
  | fieldAddr v p f => exact ⟨(fieldAddr_spec hI hg v p f).1, (fieldAddr_spec hI hg v p f).2.1⟩
  | global v gn => exact ⟨addEdge_wf hI hg v gn _, addEdge_le hI hg.toRep v gn _⟩
  | panic v => exact transfer_wf_le hI hg (.goCall v)

/-! ### one step of any thread -/

theorem step_sound2 (hI : ∀ n, cfg.I n ≤ 2) {σ σ' : CState2} {g : EGraph} {t : Tid} {i : Instr2}
    (hg : WF cfg.I g) (hok : GlobOk cfg i) (hc : Cwf2 σ) (ha : Abs2 cfg σ g) (hs : Step2 σ t i σ') :
    Abs2 cfg σ' (transfer2 cfg g i) ∧ Cwf2 σ' := by
  obtain ⟨hwf', hle⟩ := transfer2_wf_le hI hg i
  have hm : Abs2 cfg σ (transfer2 cfg g i) := ha.mono hle hwf'.le2
  cases hs with
  | nil i a h hn => exact ⟨hm, hc⟩
  | copy v w =>
    refine ⟨⟨vars_setVar hm.vars ?_, hm.heap, hm.roots, hm.globs, hm.flds⟩,
            ⟨vars_setVar hc.val (fun c hx => hc.val t w c hx), hc.heap, hc.roots, hc.pre, hc.used⟩⟩
    intro c hx
    exact ⟨Or.inr ((waFlat_spec hI hg v w).edges _ (ha.vars t w c hx).1), (hm.vars t w c hx).2⟩
  | store a v c h =>
    have hp : absC cfg σ.site c ∈ pointees g a := mem_pointees_of_pedge hg (ha.vars t a c h).1
    refine ⟨⟨hm.vars, heap_updF hm.heap ?_, hm.roots, hm.globs, hm.flds⟩,
            ⟨hc.val, heap_updF hc.heap (fun c' hx => ⟨hc.val t a c h, hc.val t v c' hx⟩), hc.roots, hc.pre, hc.used⟩⟩
    intro c' hx
    have he : PEdge (transfer2 cfg g (.store a v)) (absC cfg σ.site c) (absC cfg σ.site c') :=
      Or.inr ((foldPairs_spec hI hg ((pointees g a).map fun p => (p, v))).2.2 (absC cfg σ.site c, v)
        (List.mem_map.2 ⟨_, hp, rfl⟩) (absC cfg σ.site c') (ha.vars t v c' hx).1)
    refine ⟨he, ?_⟩
    rcases (hm.vars t v c' hx).2 with o2 | l2
    · rcases (hm.vars t a c h).2 with o1 | l1
      · exact Or.inl (o1.trans o2.symm)
      · exact Or.inr (leaked_of_any hwf' he.any l1)
    · exact Or.inr l2
  | load v a c h =>
    have hp : absC cfg σ.site c ∈ pointees g a := mem_pointees_of_pedge hg (ha.vars t a c h).1
    refine ⟨⟨vars_setVar hm.vars ?_, hm.heap, hm.roots, hm.globs, hm.flds⟩,
            ⟨vars_setVar hc.val (fun c' hx => (hc.heap c c' hx).2), hc.heap, hc.roots, hc.pre, hc.used⟩⟩
    intro c' hx
    have he : PEdge (transfer2 cfg g (.load v a)) v (absC cfg σ.site c') :=
      Or.inr ((foldPairs_spec hI hg ((pointees g a).map fun p => (v, p))).2.2 (v, absC cfg σ.site c)
        (List.mem_map.2 ⟨_, hp, rfl⟩) (absC cfg σ.site c') (ha.heap c c' hx).1)
    refine ⟨he, ?_⟩
    rcases (hm.heap c c' hx).2 with o2 | l2
    · rcases (hm.vars t a c h).2 with o1 | l1
      · exact Or.inl (o2.symm.trans o1)
      · exact Or.inr (leaked_of_any hwf' (hm.heap c c' hx).1.any l1)
    · exact Or.inr l2
  | goCall v c h =>
    have hp : absC cfg σ.site c ∈ pointees g v := mem_pointees_of_pedge hg (ha.vars t v c h).1
    have hl : (transfer2 cfg g (.goCall v)).st (absC cfg σ.site c) = 2 := (leak_spec hg v).2.2 _ hp
    refine ⟨⟨?_, hm.heap, ?_, hm.globs, hm.flds⟩, ⟨?_, hc.heap, ?_, hc.pre, hc.used⟩⟩
    · intro t' x c' hv
      simp only at hv
      split at hv
      · split at hv
        · rename_i _ e; subst e; cases hv; exact ⟨(hm.vars t x c h).1, Or.inr hl⟩
        · exact absurd hv (by simp)
      · exact hm.vars t' x c' hv
    · intro r hr
      rcases List.mem_cons.1 hr with rfl | hr'
      · exact hl
      · exact hm.roots r hr'
    · intro t' x c' hv
      simp only at hv
      split at hv
      · split at hv
        · cases hv; exact hc.val t v c h
        · exact absurd hv (by simp)
      · exact hc.val t' x c' hv
    · intro r hr
      rcases List.mem_cons.1 hr with rfl | hr'
      · exact hc.val t v r h
      · exact hc.roots r hr'
  | panic v c h =>
    have hp : absC cfg σ.site c ∈ pointees g v := mem_pointees_of_pedge hg (ha.vars t v c h).1
    have hl : (transfer2 cfg g (.panic v)).st (absC cfg σ.site c) = 2 := (leak_spec hg v).2.2 _ hp
    refine ⟨⟨hm.vars, hm.heap, ?_, hm.globs, hm.flds⟩, ⟨hc.val, hc.heap, ?_, hc.pre, hc.used⟩⟩
    · intro r hr
      rcases List.mem_cons.1 hr with rfl | hr'
      · exact hl
      · exact hm.roots r hr'
    · intro r hr
      rcases List.mem_cons.1 hr with rfl | hr'
      · exact hc.val t v r h
      · exact hc.roots r hr'
  | fieldAddr v p f c h =>
    have hp : absC cfg σ.site c ∈ pointees g p := mem_pointees_of_pedge hg (ha.vars t p c h).1
    obtain ⟨s1, s2⟩ := (fieldAddr_spec hI hg v p f).2.2 _ hp
    have hcc : c ∈ σ.cells := hc.val t p c h
    refine ⟨⟨vars_setVar hm.vars ?_, hm.heap, hm.roots, ?_, ?_⟩, ⟨vars_setVar ?_ ?_, ?_, ?_, ?_, ?_⟩⟩
    · intro c' hx
      cases hx
      show PEdge _ v (absC cfg σ.site (fld c f)) ∧ (σ.owner c.1 = t ∨ _ = 2)
      rw [absC_fld]
      refine ⟨Or.inr s2, ?_⟩
      rcases (hm.vars t p c h).2 with o | l
      · exact Or.inl o
      · exact Or.inr (leaked_of_any hwf' (any_of_sub s1) l)
    · intro gn hmem
      rcases List.mem_cons.1 hmem with e | h'
      · exact absurd e.symm fld_ne_base
      · exact hm.globs gn h'
    · intro c2 f2 hmem
      rcases List.mem_cons.1 hmem with e | h'
      · obtain ⟨rfl, rfl⟩ := fld_inj e; exact s1
      · exact hm.flds c2 f2 h'
    · exact fun t' x c' hv => List.mem_cons_of_mem _ (hc.val t' x c' hv)
    · intro c' hx; cases hx; exact List.mem_cons_self
    · exact fun c1 c2 hh => ⟨List.mem_cons_of_mem _ (hc.heap c1 c2 hh).1, List.mem_cons_of_mem _ (hc.heap c1 c2 hh).2⟩
    · exact fun r hr => List.mem_cons_of_mem _ (hc.roots r hr)
    · intro c2 f2 hmem
      rcases List.mem_cons.1 hmem with e | h'
      · obtain ⟨rfl, rfl⟩ := fld_inj e; exact List.mem_cons_of_mem _ hcc
      · exact List.mem_cons_of_mem _ (hc.pre c2 f2 h')
    · intro c2 n hmem e1
      rcases List.mem_cons.1 hmem with e | h'
      · subst e; exact hc.used c n hcc e1
      · exact hc.used c2 n h' e1
  | global v gn =>
    have hgn : (transfer2 cfg g (.global v gn)).st gn = 2 := by
      have hd : gn ∈ (transfer2 cfg g (.global v gn)).dom :=
        (addEdge_dom hg.toRep v gn Flags.external gn).2 (Or.inr (Or.inr rfl))
      have h1 := hwf'.intr gn hd
      have h2 : cfg.I gn = 2 := hok
      exact Nat.le_antisymm (hwf'.le2 _) (by rw [← h2]; exact h1)
    have he : ((transfer2 cfg g (.global v gn)).fl v gn).ext = true :=
      Flags.ext_of_le (addEdge_flag hI hg v gn Flags.external) rfl
    refine ⟨⟨vars_setVar hm.vars ?_, hm.heap, hm.roots, ?_, ?_⟩, ⟨vars_setVar ?_ ?_, ?_, ?_, ?_, ?_⟩⟩
    · intro c' hx
      cases hx
      exact ⟨Or.inl he, Or.inr hgn⟩
    · intro gn' hmem
      rcases List.mem_cons.1 hmem with e | h'
      · cases e; exact hgn
      · exact hm.globs gn' h'
    · intro c2 f2 hmem
      rcases List.mem_cons.1 hmem with e | h'
      · exact absurd e fld_ne_base
      · exact hm.flds c2 f2 h'
    · exact fun t' x c' hv => List.mem_cons_of_mem _ (hc.val t' x c' hv)
    · intro c' hx; cases hx; exact List.mem_cons_self
    · exact fun c1 c2 hh => ⟨List.mem_cons_of_mem _ (hc.heap c1 c2 hh).1, List.mem_cons_of_mem _ (hc.heap c1 c2 hh).2⟩
    · exact fun r hr => List.mem_cons_of_mem _ (hc.roots r hr)
    · intro c2 f2 hmem
      rcases List.mem_cons.1 hmem with e | h'
      · exact absurd e fld_ne_base
      · exact List.mem_cons_of_mem _ (hc.pre c2 f2 h')
    · intro c2 n hmem e1
      rcases List.mem_cons.1 hmem with e | h'
      · subst e; cases e1
      · exact hc.used c2 n h' e1
  | alloc v a n hfresh =>
    have hne : ∀ c, c ∈ σ.cells → c.1 ≠ Ob.heap n := fun c hcell e => hfresh (hc.used c n hcell e)
    have hA : ∀ c, c ∈ σ.cells → absC cfg (updF σ.site n a) c = absC cfg σ.site c :=
      fun c hcell => absC_updF (hne c hcell)
    have hO : ∀ c, c ∈ σ.cells → updF σ.owner (Ob.heap n) t c.1 = σ.owner c.1 := by
      intro c hcell; simp [updF, hne c hcell]
    have hint : ((transfer2 cfg g (.alloc v a)).fl v a).int = true :=
      Flags.int_of_le (addEdge_flag hI hg v a Flags.internal) rfl
    refine ⟨⟨vars_setVar ?_ ?_, ?_, ?_, ?_, ?_⟩, ⟨vars_setVar ?_ ?_, ?_, ?_, ?_, ?_⟩⟩
    · intro t' x c' hv
      have hcell := hc.val t' x c' hv
      show PEdge _ x (absC cfg (updF σ.site n a) c') ∧ (updF σ.owner (Ob.heap n) t c'.1 = t' ∨ _ = 2)
      rw [hA c' hcell, hO c' hcell]
      exact hm.vars t' x c' hv
    · intro c' hx
      cases hx
      show PEdge _ v (absC cfg (updF σ.site n a) (Ob.heap n, [])) ∧ (updF σ.owner (Ob.heap n) t (Ob.heap n) = t ∨ _ = 2)
      have e1 : absC cfg (updF σ.site n a) (Ob.heap n, []) = a := by simp [absC, siteO, updF]
      rw [e1]
      exact ⟨Or.inr hint, Or.inl (by simp [updF])⟩
    · intro c1 c2 hh
      obtain ⟨h1, h2⟩ := hc.heap c1 c2 hh
      show PEdge _ (absC cfg (updF σ.site n a) c1) (absC cfg (updF σ.site n a) c2) ∧
        (updF σ.owner (Ob.heap n) t c1.1 = updF σ.owner (Ob.heap n) t c2.1 ∨ _ = 2)
      rw [hA c1 h1, hA c2 h2, hO c1 h1, hO c2 h2]
      exact hm.heap c1 c2 hh
    · intro r hr
      show (transfer2 cfg g (.alloc v a)).st (absC cfg (updF σ.site n a) r) = 2
      rw [hA r (hc.roots r hr)]
      exact hm.roots r hr
    · intro gn hmem
      rcases List.mem_cons.1 hmem with e | h'
      · cases e
      · exact hm.globs gn h'
    · intro c2 f2 hmem
      rcases List.mem_cons.1 hmem with e | h'
      · exact absurd e fld_ne_base
      · show ((transfer2 cfg g (.alloc v a)).fl (absC cfg (updF σ.site n a) c2)
          (cfg.sub (absC cfg (updF σ.site n a) c2) f2)).sub = true
        rw [hA c2 (hc.pre c2 f2 h')]
        exact hm.flds c2 f2 h'
    · exact fun t' x c' hv => List.mem_cons_of_mem _ (hc.val t' x c' hv)
    · intro c' hx; cases hx; exact List.mem_cons_self
    · exact fun c1 c2 hh => ⟨List.mem_cons_of_mem _ (hc.heap c1 c2 hh).1, List.mem_cons_of_mem _ (hc.heap c1 c2 hh).2⟩
    · exact fun r hr => List.mem_cons_of_mem _ (hc.roots r hr)
    · intro c2 f2 hmem
      rcases List.mem_cons.1 hmem with e | h'
      · exact absurd e fld_ne_base
      · exact List.mem_cons_of_mem _ (hc.pre c2 f2 h')
    · intro c2 n' hmem e1
      rcases List.mem_cons.1 hmem with e | h'
      · subst e; cases e1; exact List.mem_cons_self
      · exact List.mem_cons_of_mem _ (hc.used c2 n' h' e1)

/-! ### consequences of the relation -/

theorem reach_cells {σ : CState2} (hc : Cwf2 σ) {r c : Cell} (hr : Reach2 σ r c) : c ∈ σ.cells → r ∈ σ.cells := by
  induction hr with
  | refl => exact id
  | heap _ hb ih => exact fun _ => ih (hc.heap _ _ hb).1
  | field f _ ih => exact fun h => ih (hc.pre _ f h)

/-- Leaked is carried along memory reachability (status closed along pointing and subnode edges) -/
theorem reach_leaked {σ : CState2} {g : EGraph} (hg : WF cfg.I g) (hc : Cwf2 σ) (ha : Abs2 cfg σ g)
    {r c : Cell} (hr : Reach2 σ r c) :
    c ∈ σ.cells → g.st (absC cfg σ.site r) = 2 → g.st (absC cfg σ.site c) = 2 := by
  induction hr with
  | refl => exact fun _ h => h
  | heap _ hb ih =>
    intro _ h
    exact leaked_of_any hg (ha.heap _ _ hb).1.any (ih (hc.heap _ _ hb).1 h)
  | @field b f _ ih =>
    intro hcell h
    rw [absC_fld]
    exact leaked_of_any hg (any_of_sub (ha.flds b f hcell)) (ih (hc.pre _ f hcell) h)

/-- what a thread reaches from one of its pointers is an object it allocated, or Leaked -/
theorem reach_owned {σ : CState2} {g : EGraph} (hg : WF cfg.I g) (hc : Cwf2 σ) (ha : Abs2 cfg σ g) {t : Tid}
    {r c : Cell} (hr : Reach2 σ r c) :
    c ∈ σ.cells → (σ.owner r.1 = t ∨ g.st (absC cfg σ.site r) = 2) →
    (σ.owner c.1 = t ∨ g.st (absC cfg σ.site c) = 2) := by
  induction hr with
  | refl => exact fun _ h => h
  | @heap b c _ hb ih =>
    intro _ h
    rcases ih (hc.heap _ _ hb).1 h with o | l
    · rcases (ha.heap _ _ hb).2 with o2 | l2
      · exact Or.inl (o2.symm.trans o)
      · exact Or.inr l2
    · exact Or.inr (leaked_of_any hg (ha.heap _ _ hb).1.any l)
  | @field b f _ ih =>
    intro hcell h
    rcases ih (hc.pre _ f hcell) h with o | l
    · exact Or.inl o
    · rw [absC_fld]
      exact Or.inr (leaked_of_any hg (any_of_sub (ha.flds b f hcell)) l)

end Argot.EscCore2
