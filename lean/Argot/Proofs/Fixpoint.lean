/-
Generic chaotic iteration (used by C15; core Lean only).

A monotone framework: a preorder `le` with a least element and a bounded height, `n` components
(basic blocks of a function, or functions of a call-graph), one monotone transfer function per
component reading the whole vector (it merges the predecessors' values itself).  A schedule says
which component is recomputed at each step.  For every fair schedule the iteration reaches a
fixpoint, that fixpoint is the least (post-)fixpoint, and therefore any two fair schedules reach
equivalent results: the result does not depend on the worklist order.
-/
namespace Argot.Fixpoint

structure Framework (L : Type) (n : Nat) where
  le : L → L → Prop
  refl : ∀ a, le a a
  trans : ∀ a b c, le a b → le b c → le a c
  bot : L
  bot_le : ∀ a, le bot a
  F : Fin n → (Fin n → L) → L
  mono : ∀ i x y, (∀ j, le (x j) (y j)) → le (F i x) (F i y)
  /-- finite height: a bounded measure that strictly grows along strict increases -/
  ht : L → Nat
  H : Nat
  ht_le : ∀ a, ht a ≤ H
  ht_mono : ∀ a b, le a b → ht a ≤ ht b
  ht_strict : ∀ a b, le a b → ¬ le b a → ht a < ht b

variable {L : Type} {n : Nat}

def upd (x : Fin n → L) (k : Fin n) (v : L) : Fin n → L := fun i => if i = k then v else x i

@[simp] theorem upd_same (x : Fin n → L) (k : Fin n) (v : L) : upd x k v k = v := by simp [upd]

theorem upd_other (x : Fin n → L) {k i : Fin n} (v : L) (h : i ≠ k) : upd x k v i = x i := by simp [upd, h]

/-- every component is recomputed again and again -/
def Fair (σ : Nat → Fin n) : Prop := ∀ t i, ∃ t', t ≤ t' ∧ σ t' = i

namespace Framework

variable (fw : Framework L n)

/-- the iteration under schedule `σ`, started at bottom -/
def run (σ : Nat → Fin n) : Nat → (Fin n → L)
  | 0 => fun _ => fw.bot
  | t + 1 => upd (run σ t) (σ t) (fw.F (σ t) (run σ t))

/-- `y` is a post-fixpoint: recomputing any component gives nothing new -/
def PostFix (y : Fin n → L) : Prop := ∀ i, fw.le (fw.F i y) (y i)

/-- invariant: every component is below its own recomputation, and the vector only grows -/
theorem run_pre_and_step (σ : Nat → Fin n) (t : Nat) :
    (∀ i, fw.le (fw.run σ t i) (fw.F i (fw.run σ t))) ∧ (∀ i, fw.le (fw.run σ t i) (fw.run σ (t + 1) i)) := by
  induction t with
  | zero =>
    have h0 : ∀ i, fw.le (fw.run σ 0 i) (fw.F i (fw.run σ 0)) := fun i => fw.bot_le _
    refine ⟨h0, ?_⟩
    intro i
    show fw.le _ (upd (fw.run σ 0) (σ 0) (fw.F (σ 0) (fw.run σ 0)) i)
    by_cases h : i = σ 0
    · subst h; rw [upd_same]; exact h0 _
    · rw [upd_other _ _ h]; exact fw.refl _
  | succ t ih =>
    obtain ⟨hpre, hstep⟩ := ih
    have hpre' : ∀ i, fw.le (fw.run σ (t + 1) i) (fw.F i (fw.run σ (t + 1))) := by
      intro i
      have hm := fw.mono i (fw.run σ t) (fw.run σ (t + 1)) hstep
      show fw.le (upd (fw.run σ t) (σ t) (fw.F (σ t) (fw.run σ t)) i) _
      by_cases h : i = σ t
      · subst h; rw [upd_same]; exact hm
      · rw [upd_other _ _ h]; exact fw.trans _ _ _ (hpre i) hm
    refine ⟨hpre', ?_⟩
    intro i
    show fw.le _ (upd (fw.run σ (t + 1)) (σ (t + 1)) (fw.F (σ (t + 1)) (fw.run σ (t + 1))) i)
    by_cases h : i = σ (t + 1)
    · subst h; rw [upd_same]; exact hpre' _
    · rw [upd_other _ _ h]; exact fw.refl _

theorem run_mono_le (σ : Nat → Fin n) {t t' : Nat} (h : t ≤ t') (i : Fin n) :
    fw.le (fw.run σ t i) (fw.run σ t' i) := by
  induction h with
  | refl => exact fw.refl _
  | step _ ih => exact fw.trans _ _ _ ih ((fw.run_pre_and_step σ _).2 i)

/-- the iteration stays below every post-fixpoint -/
theorem run_below (σ : Nat → Fin n) (y : Fin n → L) (hy : fw.PostFix y) (t : Nat) (i : Fin n) :
    fw.le (fw.run σ t i) (y i) := by
  induction t generalizing i with
  | zero => exact fw.bot_le _
  | succ t ih =>
    show fw.le (upd (fw.run σ t) (σ t) (fw.F (σ t) (fw.run σ t)) i) _
    by_cases h : i = σ t
    · subst h; rw [upd_same]
      exact fw.trans _ _ _ (fw.mono _ _ _ ih) (hy _)
    · rw [upd_other _ _ h]; exact ih i

/-! ### the height of a vector -/

theorem sum_map_le {α : Type} (l : List α) (f g : α → Nat) (h : ∀ a, a ∈ l → f a ≤ g a) :
    (l.map f).sum ≤ (l.map g).sum := by
  induction l with
  | nil => simp
  | cons a l ih =>
    simp only [List.map_cons, List.sum_cons]
    have := h a List.mem_cons_self
    have := ih (fun b hb => h b (List.mem_cons_of_mem _ hb))
    omega

theorem sum_map_lt {α : Type} (l : List α) (f g : α → Nat) (h : ∀ a, a ∈ l → f a ≤ g a)
    (k : α) (hk : k ∈ l) (hlt : f k < g k) : (l.map f).sum < (l.map g).sum := by
  induction l with
  | nil => simp at hk
  | cons a l ih =>
    simp only [List.map_cons, List.sum_cons]
    have ha := h a List.mem_cons_self
    have hl := sum_map_le l f g (fun b hb => h b (List.mem_cons_of_mem _ hb))
    rcases List.mem_cons.1 hk with rfl | hk'
    · omega
    · have := ih (fun b hb => h b (List.mem_cons_of_mem _ hb)) hk'
      omega

theorem sum_map_bound {α : Type} (l : List α) (f : α → Nat) (B : Nat) (h : ∀ a, f a ≤ B) :
    (l.map f).sum ≤ l.length * B := by
  induction l with
  | nil => simp
  | cons a l ih =>
    simp only [List.map_cons, List.sum_cons, List.length_cons]
    have := h a
    rw [Nat.succ_mul]; omega

def phi (x : Fin n → L) : Nat := ((List.finRange n).map fun i => fw.ht (x i)).sum

theorem phi_le (x : Fin n → L) : fw.phi x ≤ n * fw.H := by
  have := sum_map_bound (List.finRange n) (fun i => fw.ht (x i)) fw.H (fun i => fw.ht_le _)
  simpa [phi] using this

theorem phi_mono (x y : Fin n → L) (h : ∀ i, fw.le (x i) (y i)) : fw.phi x ≤ fw.phi y :=
  sum_map_le _ _ _ (fun i _ => fw.ht_mono _ _ (h i))

theorem phi_strict (x y : Fin n → L) (h : ∀ i, fw.le (x i) (y i)) (k : Fin n) (hk : ¬ fw.le (y k) (x k)) :
    fw.phi x < fw.phi y :=
  sum_map_lt _ _ _ (fun i _ => fw.ht_mono _ _ (h i)) k (List.mem_finRange k) (fw.ht_strict _ _ (h k) hk)

/-! ### bounded monotone sequences of naturals are eventually constant -/

theorem seq_mono (f : Nat → Nat) (hm : ∀ t, f t ≤ f (t + 1)) {a b : Nat} (h : a ≤ b) : f a ≤ f b := by
  induction h with
  | refl => exact Nat.le_refl _
  | step _ ih => exact Nat.le_trans ih (hm _)

theorem eventually_const (d : Nat) : ∀ (f : Nat → Nat) (B : Nat), (∀ t, f t ≤ f (t + 1)) → (∀ t, f t ≤ B) →
    B - f 0 ≤ d → ∃ T, ∀ t, T ≤ t → f t = f T := by
  induction d with
  | zero =>
    intro f B hm hb hd
    refine ⟨0, fun t _ => ?_⟩
    have := seq_mono f hm (Nat.zero_le t)
    have := hb t
    have := hb 0
    omega
  | succ d ih =>
    intro f B hm hb hd
    by_cases hall : ∀ t, f t = f 0
    · exact ⟨0, fun t _ => hall t⟩
    · have : ∃ t0, f t0 ≠ f 0 := Classical.not_forall.1 hall
      obtain ⟨t0, ht0⟩ := this
      have hgt : f 0 < f t0 := by
        have := seq_mono f hm (Nat.zero_le t0); omega
      obtain ⟨T', hT'⟩ := ih (fun s => f (t0 + s)) B (fun s => hm (t0 + s)) (fun s => hb _)
        (by have := hb t0; simp only [Nat.add_zero]; omega)
      refine ⟨t0 + T', fun t ht => ?_⟩
      have := hT' (t - t0) (by omega)
      have e : t0 + (t - t0) = t := by omega
      simp only [e] at this
      exact this

/-- from some time on nothing changes any more (up to equivalence) -/
theorem stabilizes (σ : Nat → Fin n) :
    ∃ T, ∀ t, T ≤ t → ∀ i, fw.le (fw.run σ t i) (fw.run σ T i) := by
  obtain ⟨T, hT⟩ := eventually_const (n * fw.H) (fun t => fw.phi (fw.run σ t)) (n * fw.H)
    (fun t => fw.phi_mono _ _ (fw.run_pre_and_step σ t).2) (fun t => fw.phi_le _) (Nat.sub_le _ _)
  refine ⟨T, fun t ht => ?_⟩
  induction ht with
  | refl => exact fun i => fw.refl _
  | @step t ht ih =>
    intro i
    refine fw.trans _ _ _ ?_ (ih i)
    apply Classical.byContradiction
    intro hc
    have h1 := fw.phi_strict (fw.run σ t) (fw.run σ (t + 1)) (fw.run_pre_and_step σ t).2 i hc
    have h2 := hT t ht
    have h3 := hT (t + 1) (Nat.le_succ_of_le ht)
    omega

/-- **Chaotic iteration reaches the least fixpoint.**  For every fair schedule there is a time at
which the vector is a post-fixpoint (every component absorbs its recomputation) and it is below
every post-fixpoint. -/
theorem reaches_least_fixpoint (σ : Nat → Fin n) (hfair : Fair σ) :
    ∃ T, fw.PostFix (fw.run σ T) ∧ ∀ y, fw.PostFix y → ∀ i, fw.le (fw.run σ T i) (y i) := by
  obtain ⟨T, hT⟩ := fw.stabilizes σ
  refine ⟨T, ?_, fun y hy i => fw.run_below σ y hy T i⟩
  intro i
  obtain ⟨t', ht', hσ⟩ := hfair T i
  have h1 : fw.le (fw.F i (fw.run σ T)) (fw.F i (fw.run σ t')) :=
    fw.mono i _ _ (fun j => fw.run_mono_le σ ht' j)
  have h2 : fw.run σ (t' + 1) i = fw.F i (fw.run σ t') := by
    show upd (fw.run σ t') (σ t') (fw.F (σ t') (fw.run σ t')) i = _
    rw [hσ, upd_same]
  have h3 := hT (t' + 1) (Nat.le_succ_of_le ht') i
  rw [h2] at h3
  exact fw.trans _ _ _ h1 h3

/-- **The result does not depend on the (fair) order.** -/
theorem order_independent (σ τ : Nat → Fin n) (hσ : Fair σ) (hτ : Fair τ) :
    ∃ T T', fw.PostFix (fw.run σ T) ∧ fw.PostFix (fw.run τ T') ∧
      (∀ i, fw.le (fw.run σ T i) (fw.run τ T' i)) ∧ (∀ i, fw.le (fw.run τ T' i) (fw.run σ T i)) := by
  obtain ⟨T, h1, l1⟩ := fw.reaches_least_fixpoint σ hσ
  obtain ⟨T', h2, l2⟩ := fw.reaches_least_fixpoint τ hτ
  exact ⟨T, T', h1, h2, l1 _ h2, l2 _ h1⟩

end Framework
end Argot.Fixpoint
