/- Helper lemmas for C08 (soundness of the executable checks of `Intra.closed`). -/
import Argot.Spec.Intra

namespace Argot.Intra

theorem subsetS_sound {α} [BEq α] [LawfulBEq α] (lt : α → α → Bool) :
    ∀ (a b : List α), subsetS lt a b = true → ∀ x ∈ a, x ∈ b
  | [], _, _, x, hx => by cases hx
  | a :: as, bs, h, x, hx => by
    unfold subsetS at h
    split at h
    · exact absurd h (by simp)
    · rename_i b bs' hd
      simp only [Bool.and_eq_true, beq_iff_eq] at h
      have hsub : ∀ y ∈ b :: bs', y ∈ bs := by
        intro y hy
        have : y ∈ bs.dropWhile (fun b => lt b a) := hd ▸ hy
        exact (List.dropWhile_sublist _).subset this
      rcases List.mem_cons.1 hx with rfl | hx'
      · exact hsub _ (h.1 ▸ List.mem_cons_self)
      · exact hsub _ (subsetS_sound lt as (b :: bs') h.2 x hx')

theorem mem_marksOf {l : List Fact} {v m : Nat} : m ∈ marksOf l v ↔ (v, m) ∈ l := by
  unfold marksOf
  constructor
  · intro h
    obtain ⟨p, hp, rfl⟩ := List.mem_map.1 h
    obtain ⟨hp1, hp2⟩ := List.mem_filter.1 hp
    have : p.1 = v := by simpa using hp2
    cases p; simp_all
  · intro h
    exact List.mem_map.2 ⟨(v, m), List.mem_filter.2 ⟨h, by simp⟩, rfl⟩

theorem has_iff {S : State} {i v m : Nat} : has S i v m = true ↔ (v, m) ∈ S i := by
  unfold has; simp

theorem instr_succs_lt {f : Func} {i j : Nat} (h : j ∈ (f.instr i).succs) : i < f.instrs.size := by
  apply Classical.byContradiction
  intro hn
  have : f.instr i = default := by
    unfold Func.instr
    simp [Array.getD, hn]
  rw [this] at h
  exact absurd h (by simp [default])

theorem instr_res_lt {f : Func} {i : Nat} (h : (f.instr i).res ≠ 0) : i < f.instrs.size := by
  apply Classical.byContradiction
  intro hn
  have : f.instr i = default := by
    unfold Func.instr
    simp [Array.getD, hn]
  rw [this] at h
  exact h (by simp [default])

theorem Reach.trans {f : Func} {i j k : Nat} (h1 : Reach f i j) (h2 : Reach f j k) : Reach f i k := by
  induction h2 with
  | refl => exact h1
  | step _ hk ih => exact Reach.step ih hk

theorem Reach.head {f : Func} {i j k : Nat} (h : j ∈ (f.instr i).succs) (h2 : Reach f j k) : Reach f i k :=
  Reach.trans (Reach.step (Reach.refl i) h) h2

/-- a successor-closed set containing `i` contains everything reachable from `i`. -/
theorem reach_in_closed {f : Func} {P : Array Bool} {i k : Nat}
    (hcl : ∀ a, P.getD a false = true → ∀ b ∈ (f.instr a).succs, P.getD b false = true)
    (hi : P.getD i false = true) (h : Reach f i k) : P.getD k false = true := by
  induction h with
  | refl => exact hi
  | step _ hk ih => exact hcl _ ih _ hk

theorem closure_of_all {f : Func} {P : Array Bool}
    (h : ((List.range f.instrs.size).all fun i =>
      !P.getD i false || (f.instrs.getD i default).succs.all fun j => P.getD j false) = true) :
    ∀ a, P.getD a false = true → ∀ b ∈ (f.instr a).succs, P.getD b false = true := by
  intro a ha b hb
  have hlt := instr_succs_lt hb
  have := List.all_eq_true.1 h a (List.mem_range.2 hlt)
  simp only [Bool.or_eq_true, Bool.not_eq_true', ha] at this
  rcases this with h0 | h1
  · exact absurd h0 (by simp)
  · exact List.all_eq_true.1 h1 b hb

theorem chain_reach {f : Func} {o : Origin} {i v : Nat} (h : Chain f o i v) : Reach f o.loc i := by
  induction h with
  | base => exact Reach.refl _
  | carry _ hj ih => exact Reach.step ih hj
  | step _ _ ih => exact ih

theorem dataOps_call {x : Instr} (h : x.kind = .call) : dataOps x = [] := by
  unfold dataOps; simp [h]

/-- a chain from a call result either has not moved at all or has made at least one CFG step. -/
theorem chain_call_plus {f : Func} {o : Origin} (hk : (f.instr o.loc).kind = .call) {i v : Nat}
    (h : Chain f o i v) : (i = o.loc ∧ v = o.val) ∨ ReachPlus f o.loc i := by
  induction h with
  | base => exact Or.inl ⟨rfl, rfl⟩
  | @carry i j v _ hj ih =>
    rcases ih with ⟨rfl, _⟩ | ⟨j0, hj0, hr⟩
    · exact Or.inr ⟨j, hj, Reach.refl _⟩
    · exact Or.inr ⟨j0, hj0, Reach.step hr hj⟩
  | @step i a _ hs ih =>
    rcases ih with ⟨rfl, _⟩ | hp
    · have := hs.2.1
      rw [dataOps_call hk] at this
      cases this
    · exact Or.inr hp

theorem chain_along {f : Func} {o : Origin} {i j v : Nat} (h : Chain f o i v) (hr : Reach f i j) :
    Chain f o j v := by
  induction hr with
  | refl => exact h
  | step _ hk ih => exact Chain.carry ih hk

/-- what `reachLoop` marks is reachable from `src`, provided the work list and the marks it starts
from are. -/
theorem reachLoop_sound (f : Func) (src : Nat) : ∀ (fuel : Nat) (stack : List Nat) (vis : Array Bool),
    (∀ s ∈ stack, Reach f src s) → (∀ j, vis.getD j false = true → Reach f src j) →
    ∀ j, (reachLoop f fuel stack vis).getD j false = true → Reach f src j := by
  intro fuel
  induction fuel with
  | zero => intro stack vis _ hv j hj; simpa [reachLoop] using hv j (by simpa [reachLoop] using hj)
  | succ n ih =>
    intro stack vis hs hv j hj
    cases stack with
    | nil => exact hv j (by simpa [reachLoop] using hj)
    | cons i rest =>
      unfold reachLoop at hj
      split at hj
      · exact ih rest vis (fun s hs' => hs s (List.mem_cons_of_mem _ hs')) hv j hj
      · refine ih _ _ ?_ ?_ j hj
        · intro s hs'
          rcases List.mem_append.1 hs' with h1 | h1
          · exact Reach.step (hs i List.mem_cons_self) h1
          · exact hs s (List.mem_cons_of_mem _ h1)
        · intro k hk
          by_cases hki : k = i
          · subst hki; exact hs k List.mem_cons_self
          · apply hv k
            have : (vis.setIfInBounds i true)[k]? = vis[k]? := by
              rw [Array.getElem?_setIfInBounds]; simp [Ne.symm hki]
            simpa [Array.getD_eq_getD_getElem?, this] using hk

theorem reachFrom_sound {f : Func} {d j : Nat} (h : (reachFrom f d).getD j false = true) : Reach f d j := by
  unfold reachFrom reachSeeds at h
  refine reachLoop_sound f d _ [d] _ ?_ ?_ j h
  · intro s hs; rw [List.mem_singleton.1 hs]; exact Reach.refl _
  · intro k hk
    exfalso
    simp [Array.getD_eq_getD_getElem?, Array.getElem?_replicate] at hk
    split at hk <;> simp at hk

end Argot.Intra
