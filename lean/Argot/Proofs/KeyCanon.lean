/- Helper lemmas for C06 `key_canonical`: the string built by `VisitorNode.Key()` determines its components.
   Strings are `List Char`. Core Lean only. -/

namespace Argot.KeyCanon

abbrev Str := List Char

/-- `strings.Join(l, sep)` for a one-character separator -/
def joinWith (sep : Char) : List Str → Str
  | [] => []
  | [x] => x
  | x :: y :: r => x ++ sep :: joinWith sep (y :: r)

/-- splitting at the first separator: the part before it is determined -/
theorem split_first {c : Char} : ∀ {a a' b b' : Str}, a ++ c :: b = a' ++ c :: b' → c ∉ a → c ∉ a' →
    a = a' ∧ b = b'
  | [], [], _, _, h, _, _ => by simp at h; exact ⟨rfl, h⟩
  | [], x :: a', _, _, h, _, h2 => by
    simp at h; exact absurd (by simp [h.1]) h2
  | x :: a, [], _, _, h, h1, _ => by
    simp at h; exact absurd (by simp [h.1]) h1
  | x :: a, y :: a', b, b', h, h1, h2 => by
    simp at h
    obtain ⟨rfl, h⟩ := h
    have := split_first (a := a) (a' := a') h (fun hc => h1 (by simp [hc])) (fun hc => h2 (by simp [hc]))
    exact ⟨by rw [this.1], this.2⟩

theorem mem_joinWith_sep {sep : Char} (x y : Str) (r : List Str) : sep ∈ joinWith sep (x :: y :: r) := by
  simp [joinWith]

theorem not_mem_join_single {sep : Char} {x : Str} (h : sep ∉ x) : sep ∉ joinWith sep [x] := by
  simpa [joinWith] using h

/-- `Join` is injective on lists of separator-free, NON-EMPTY strings (node identifiers) -/
theorem joinWith_inj_nonempty {sep : Char} : ∀ {l₁ l₂ : List Str},
    (∀ x ∈ l₁, sep ∉ x ∧ x ≠ []) → (∀ x ∈ l₂, sep ∉ x ∧ x ≠ []) →
    joinWith sep l₁ = joinWith sep l₂ → l₁ = l₂
  | [], [], _, _, _ => rfl
  | [], [y], _, h2, h => by
    simp [joinWith] at h; exact absurd h (h2 y (by simp)).2
  | [], y :: z :: r, _, h2, h => by
    simp [joinWith] at h
  | [x], [], h1, _, h => by
    simp [joinWith] at h; exact absurd h (h1 x (by simp)).2
  | x :: y :: r, [], h1, _, h => by
    simp [joinWith] at h
  | [x], [y], _, _, h => by simp [joinWith] at h; rw [h]
  | [x], y :: z :: r, h1, _, h => by
    have : sep ∈ joinWith sep [x] := by rw [h]; exact mem_joinWith_sep y z r
    exact absurd this (not_mem_join_single (h1 x (by simp)).1)
  | x :: y :: r, [z], _, h2, h => by
    have : sep ∈ joinWith sep [z] := by rw [← h]; exact mem_joinWith_sep x y r
    exact absurd this (not_mem_join_single (h2 z (by simp)).1)
  | x :: y :: r, x' :: y' :: r', h1, h2, h => by
    simp only [joinWith] at h
    obtain ⟨rfl, ht⟩ := split_first h (h1 x (by simp)).1 (h2 x' (by simp)).1
    have := joinWith_inj_nonempty (l₁ := y :: r) (l₂ := y' :: r')
      (fun a ha => h1 a (by simp [ha])) (fun a ha => h2 a (by simp [ha])) ht
    rw [this]

/-- `Join` is injective on NON-EMPTY lists of separator-free strings (access paths, which may be "") -/
theorem joinWith_inj_paths {sep : Char} : ∀ {l₁ l₂ : List Str}, l₁ ≠ [] → l₂ ≠ [] →
    (∀ x ∈ l₁, sep ∉ x) → (∀ x ∈ l₂, sep ∉ x) → joinWith sep l₁ = joinWith sep l₂ → l₁ = l₂
  | [], _, h, _, _, _, _ => absurd rfl h
  | _ :: _, [], _, h, _, _, _ => absurd rfl h
  | [x], [y], _, _, _, _, h => by simp [joinWith] at h; rw [h]
  | [x], y :: z :: r, _, _, h1, _, h => by
    have : sep ∈ joinWith sep [x] := by rw [h]; exact mem_joinWith_sep y z r
    exact absurd this (not_mem_join_single (h1 x (by simp)))
  | x :: y :: r, [z], _, _, _, h2, h => by
    have : sep ∈ joinWith sep [z] := by rw [← h]; exact mem_joinWith_sep x y r
    exact absurd this (not_mem_join_single (h2 z (by simp)))
  | x :: y :: r, x' :: y' :: r', _, _, h1, h2, h => by
    simp only [joinWith] at h
    obtain ⟨rfl, ht⟩ := split_first h (h1 x (by simp)) (h2 x' (by simp))
    have := joinWith_inj_paths (l₁ := y :: r) (l₂ := y' :: r') (by simp) (by simp)
      (fun a ha => h1 a (by simp [ha])) (fun a ha => h2 a (by simp [ha])) ht
    rw [this]

theorem not_mem_joinWith {c sep : Char} (hc : c ≠ sep) : ∀ {l : List Str}, (∀ x ∈ l, c ∉ x) → c ∉ joinWith sep l
  | [], _ => by simp [joinWith]
  | [x], h => by simpa [joinWith] using h x (by simp)
  | x :: y :: r, h => by
    simp only [joinWith, List.mem_append, List.mem_cons, not_or]
    exact ⟨h x (by simp), hc, not_mem_joinWith hc (fun a ha => h a (by simp [ha]))⟩

end Argot.KeyCanon
