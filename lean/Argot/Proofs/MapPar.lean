/- Helper lemmas for C20 (MapParallel LTS): inversion of `step`, the invariant and its preservation,
   the measure. Property theorems live in Argot/Props/C20.lean. -/
import Argot.Model.MapPar

namespace Argot.MapPar

variable {α β : Type}

/-! ### lists: replacing one element -/

theorem getElem?_decomp {γ : Type} : ∀ {l : List γ} {i : Nat} {x : γ}, l[i]? = some x →
    ∃ l₁ l₂, l = l₁ ++ x :: l₂ ∧ ∀ y, l.set i y = l₁ ++ y :: l₂
  | [], _, _, h => by simp at h
  | b :: l, 0, x, h => by
    simp at h; subst h; exact ⟨[], l, rfl, fun y => rfl⟩
  | b :: l, i + 1, x, h => by
    simp at h
    obtain ⟨l₁, l₂, e, hs⟩ := getElem?_decomp h
    exact ⟨b :: l₁, l₂, by simp [e], fun y => by simp [hs y]⟩

theorem mem_getElem? {γ : Type} {l : List γ} {x : γ} (h : x ∈ l) : ∃ i : Nat, l[i]? = some x := by
  obtain ⟨i, hi, e⟩ := List.mem_iff_getElem.1 h
  exact ⟨i, by simp [List.getElem?_eq_getElem hi, e]⟩

/-! ### worker bookkeeping -/

/-- the index a worker carries -/
def W.idx : W β → Option Nat
  | .busy i => some i
  | .hold i _ => some i
  | _ => none

/-- indices held by workers (running `f` or waiting to deliver) -/
def inflight (ws : List (W β)) : List Nat := ws.filterMap W.idx

def W.live : W β → Nat
  | .done => 0
  | _ => 1

/-- number of workers that have not returned -/
def live (ws : List (W β)) : Nat := (ws.map W.live).sum

def prodIdx (a : List α) : Prod → Nat
  | .unspawned => 0
  | .loop i => i
  | .done => a.length

theorem live_zero {ws : List (W β)} : live ws = 0 ↔ ∀ w ∈ ws, w = .done := by
  induction ws with
  | nil => simp [live]
  | cons w ws ih =>
    simp only [live, List.map_cons, List.sum_cons] at ih ⊢
    cases w <;> simp [W.live, ih] <;> omega

theorem inflight_nil_of_done {ws : List (W β)} (h : ∀ w ∈ ws, w = .done) : inflight ws = [] := by
  induction ws with
  | nil => rfl
  | cons w ws ih =>
    have hw := h w (by simp)
    subst hw
    simp only [inflight, List.filterMap_cons, W.idx] at ih ⊢
    exact ih (fun w hw => h w (by simp [hw]))

/-! ### inversion of `step` -/

theorem step_send {f : α → β} {a n w} {σ σ' : State β} (h : step f a n (.send w) σ = some σ') :
    σ.err = false ∧ ∃ i, σ.prod = .loop i ∧ σ.ws[w]? = some .idle ∧ i < a.length ∧ σ.inClosed = false ∧
      σ' = { σ with prod := .loop (i + 1), ws := σ.ws.set w (.busy i) } := by
  unfold step at h
  split at h
  · simp at h
  · rename_i he
    simp only [] at h
    split at h
    · rename_i i hp hw
      split at h
      · rename_i hc
        simp at h
        exact ⟨by simpa using he, i, hp, hw, hc.1, hc.2, h.symm⟩
      · simp at h
    · simp at h

theorem step_noerr {f : α → β} {a n l} {σ σ' : State β} (h : step f a n l σ = some σ') : σ.err = false := by
  unfold step at h
  split at h
  · simp at h
  · rename_i he; simpa using he

theorem step_spawnProd {f : α → β} {a n} {σ σ' : State β} (h : step f a n .spawnProd σ = some σ') :
    σ.main = .start ∧ σ' = { σ with main := .addWg, prod := .loop 0 } := by
  unfold step at h
  split at h
  · simp at h
  · simp only [] at h
    split at h
    · rename_i hm; simp at h; exact ⟨hm, h.symm⟩
    · simp at h

theorem step_wgAdd {f : α → β} {a n} {σ σ' : State β} (h : step f a n .wgAdd σ = some σ') :
    σ.main = .addWg ∧ σ' = { σ with main := .spawnW, wg := σ.wg + effWorkers n } := by
  unfold step at h
  split at h
  · simp at h
  · simp only [] at h
    split at h
    · rename_i hm; simp at h; exact ⟨hm, h.symm⟩
    · simp at h

theorem step_spawnWorker {f : α → β} {a n} {σ σ' : State β} (h : step f a n .spawnWorker σ = some σ') :
    σ.main = .spawnW ∧ σ.ws.length < effWorkers n ∧ σ' = { σ with ws := σ.ws ++ [.idle] } := by
  unfold step at h
  split at h
  · simp at h
  · simp only [] at h
    split at h
    · rename_i hm
      split at h
      · rename_i hc; simp at h; exact ⟨hm, hc, h.symm⟩
      · simp at h
    · simp at h

theorem step_spawnCloser {f : α → β} {a n} {σ σ' : State β} (h : step f a n .spawnCloser σ = some σ') :
    σ.main = .spawnW ∧ σ.closer = .unspawned ∧ ¬ σ.ws.length < effWorkers n ∧
      σ' = { σ with main := .collect, closer := .waiting } := by
  unfold step at h
  split at h
  · simp at h
  · simp only [] at h
    split at h
    · rename_i hm hc
      split at h
      · simp at h
      · rename_i hl; simp at h; exact ⟨hm, hc, hl, h.symm⟩
    · simp at h

theorem step_closeIn {f : α → β} {a n} {σ σ' : State β} (h : step f a n .closeIn σ = some σ') :
    ∃ i, σ.prod = .loop i ∧ ¬ i < a.length ∧
      ((σ.inClosed = true ∧ σ' = { σ with err := true }) ∨
       (σ.inClosed = false ∧ σ' = { σ with prod := .done, inClosed := true })) := by
  unfold step at h
  split at h
  · simp at h
  · simp only [] at h
    split at h
    · rename_i i hp
      split at h
      · simp at h
      · rename_i hl
        split at h
        · rename_i hc; simp at h; exact ⟨i, hp, hl, Or.inl ⟨hc, h.symm⟩⟩
        · rename_i hc; simp at h; exact ⟨i, hp, hl, Or.inr ⟨by simpa using hc, h.symm⟩⟩
    · simp at h

theorem step_compute {f : α → β} {a n w} {σ σ' : State β} (h : step f a n (.compute w) σ = some σ') :
    ∃ i x, σ.ws[w]? = some (.busy i) ∧ a[i]? = some x ∧ σ' = { σ with ws := σ.ws.set w (.hold i (f x)) } := by
  unfold step at h
  split at h
  · simp at h
  · simp only [] at h
    split at h
    · rename_i i hw
      split at h
      · rename_i x hx; simp at h; exact ⟨i, x, hw, hx, h.symm⟩
      · simp at h
    · simp at h

theorem step_recvOut {f : α → β} {a n w} {σ σ' : State β} (h : step f a n (.recvOut w) σ = some σ') :
    σ.main = .collect ∧ σ.outClosed = false ∧ ∃ i y, σ.ws[w]? = some (.hold i y) ∧
      σ' = { σ with ws := σ.ws.set w .idle, xs := σ.xs ++ [(i, y)] } := by
  unfold step at h
  split at h
  · simp at h
  · simp only [] at h
    split at h
    · rename_i i y hm hw
      split at h
      · simp at h
      · rename_i hc; simp at h; exact ⟨hm, by simpa using hc, i, y, hw, h.symm⟩
    · simp at h

theorem step_sendOnClosed {f : α → β} {a n w} {σ σ' : State β} (h : step f a n (.sendOnClosed w) σ = some σ') :
    σ.outClosed = true ∧ ∃ i y, σ.ws[w]? = some (.hold i y) := by
  unfold step at h
  split at h
  · simp at h
  · simp only [] at h
    split at h
    · rename_i i y hw
      split at h
      · rename_i hc; exact ⟨hc, i, y, hw⟩
      · simp at h
    · simp at h

theorem step_workerExit {f : α → β} {a n w} {σ σ' : State β} (h : step f a n (.workerExit w) σ = some σ') :
    σ.ws[w]? = some .idle ∧ σ.inClosed = true ∧
      ((σ.wg = 0 ∧ σ' = { σ with err := true }) ∨
       (σ.wg ≠ 0 ∧ σ' = { σ with ws := σ.ws.set w .done, wg := σ.wg - 1 })) := by
  unfold step at h
  split at h
  · simp at h
  · simp only [] at h
    split at h
    · rename_i hw
      split at h
      · rename_i hc
        split at h
        · rename_i h0; simp at h; exact ⟨hw, hc, Or.inl ⟨h0, h.symm⟩⟩
        · rename_i h0; simp at h; exact ⟨hw, hc, Or.inr ⟨h0, h.symm⟩⟩
      · simp at h
    · simp at h

theorem step_closerPass {f : α → β} {a n} {σ σ' : State β} (h : step f a n .closerPass σ = some σ') :
    σ.closer = .waiting ∧ σ.wg = 0 ∧ σ' = { σ with closer := .closing } := by
  unfold step at h
  split at h
  · simp at h
  · simp only [] at h
    split at h
    · rename_i hc
      split at h
      · rename_i h0; simp at h; exact ⟨hc, h0, h.symm⟩
      · simp at h
    · simp at h

theorem step_closeOut {f : α → β} {a n} {σ σ' : State β} (h : step f a n .closeOut σ = some σ') :
    σ.closer = .closing ∧
      ((σ.outClosed = true ∧ σ' = { σ with err := true }) ∨
       (σ.outClosed = false ∧ σ' = { σ with closer := .done, outClosed := true })) := by
  unfold step at h
  split at h
  · simp at h
  · simp only [] at h
    split at h
    · rename_i hc
      split at h
      · rename_i ho; simp at h; exact ⟨hc, Or.inl ⟨ho, h.symm⟩⟩
      · rename_i ho; simp at h; exact ⟨hc, Or.inr ⟨by simpa using ho, h.symm⟩⟩
    · simp at h

theorem step_collectEnd {f : α → β} {a n} {σ σ' : State β} (h : step f a n .collectEnd σ = some σ') :
    σ.main = .collect ∧ σ.outClosed = true ∧
      σ' = { σ with main := .place σ.xs, res := List.replicate σ.xs.length none } := by
  unfold step at h
  split at h
  · simp at h
  · simp only [] at h
    split at h
    · rename_i hm
      split at h
      · rename_i ho; simp at h; exact ⟨hm, ho, h.symm⟩
      · simp at h
    · simp at h

theorem step_placeOne {f : α → β} {a n} {σ σ' : State β} (h : step f a n .placeOne σ = some σ') :
    ∃ i y rest, σ.main = .place ((i, y) :: rest) ∧
      ((i < σ.res.length ∧ σ' = { σ with main := .place rest, res := σ.res.set i (some y) }) ∨
       (¬ i < σ.res.length ∧ σ' = { σ with err := true })) := by
  unfold step at h
  split at h
  · simp at h
  · simp only [] at h
    split at h
    · rename_i i y rest hm
      split at h
      · rename_i hl; simp at h; exact ⟨i, y, rest, hm, Or.inl ⟨hl, h.symm⟩⟩
      · rename_i hl; simp at h; exact ⟨i, y, rest, hm, Or.inr ⟨hl, h.symm⟩⟩
    · simp at h

theorem step_return {f : α → β} {a n} {σ σ' : State β} (h : step f a n .return σ = some σ') :
    σ.main = .place [] ∧ σ' = { σ with main := .ret } := by
  unfold step at h
  split at h
  · simp at h
  · simp only [] at h
    split at h
    · rename_i hm; simp at h; exact ⟨hm, h.symm⟩
    · simp at h

/-! ### the invariant -/

theorem effWorkers_pos (n : Int) : 1 ≤ effWorkers n := by
  unfold effWorkers; split <;> omega

/-- what is known in each phase of the calling goroutine -/
def Phase (a : List α) (n : Int) (σ : State β) : Prop :=
  match σ.main with
  | .start => σ.prod = .unspawned ∧ σ.ws = [] ∧ σ.wg = 0 ∧ σ.closer = .unspawned ∧ σ.xs = []
  | .addWg => σ.prod ≠ .unspawned ∧ σ.ws = [] ∧ σ.wg = 0 ∧ σ.closer = .unspawned ∧ σ.xs = []
  | .spawnW => σ.prod ≠ .unspawned ∧ σ.closer = .unspawned ∧ σ.xs = [] ∧
      σ.wg = (effWorkers n - σ.ws.length) + live σ.ws
  | .collect => σ.prod ≠ .unspawned ∧ σ.closer ≠ .unspawned ∧ σ.ws.length = effWorkers n ∧ σ.wg = live σ.ws
  | .place todo => σ.outClosed = true ∧ σ.ws.length = effWorkers n ∧ σ.wg = live σ.ws ∧
      σ.res.length = a.length ∧ (∀ p ∈ todo, p ∈ σ.xs) ∧
      (∀ p ∈ σ.xs, p ∈ todo ∨ σ.res[p.1]? = some (some p.2))
  | .ret => σ.outClosed = true ∧ σ.ws.length = effWorkers n ∧ σ.wg = live σ.ws ∧
      σ.res.length = a.length ∧ (∀ p ∈ σ.xs, σ.res[p.1]? = some (some p.2))

/-- **The multiset invariant** (`perm`): the indices the producer has handed out are, each exactly
once, either held by a worker or already collected; every carried value is `f a[i]` (`vals_*`);
plus the protocol facts that make it inductive. -/
structure Inv (f : α → β) (a : List α) (n : Int) (σ : State β) : Prop where
  noerr : σ.err = false
  perm : (inflight σ.ws ++ σ.xs.map Prod.fst).Perm (List.range (prodIdx a σ.prod))
  pidx : prodIdx a σ.prod ≤ a.length
  vals_ws : ∀ i y, W.hold i y ∈ σ.ws → (a.map f)[i]? = some y
  vals_xs : ∀ p ∈ σ.xs, (a.map f)[p.1]? = some p.2
  in_iff : σ.inClosed = true ↔ σ.prod = .done
  done_in : W.done ∈ σ.ws → σ.inClosed = true
  lenws : σ.ws.length ≤ effWorkers n
  closer_wg : σ.closer = .closing ∨ σ.closer = .done → σ.wg = 0
  out_iff : σ.outClosed = true ↔ σ.closer = .done
  phase : Phase a n σ

theorem inv_init (f : α → β) (a : List α) (n : Int) : Inv f a n (init : State β) := by
  refine { noerr := rfl, perm := ?_, pidx := ?_, vals_ws := ?_, vals_xs := ?_, in_iff := ?_, done_in := ?_,
           lenws := ?_, closer_wg := ?_, out_iff := ?_, phase := ?_ } <;>
    simp [init, inflight, prodIdx, Phase]

/-! ### preservation, one label at a time -/

section pres
variable {f : α → β} {a : List α} {n : Int} {σ σ' : State β}

theorem inv_spawnProd (I : Inv f a n σ) (h : step f a n .spawnProd σ = some σ') : Inv f a n σ' := by
  obtain ⟨hm, rfl⟩ := step_spawnProd h
  have ph := I.phase; simp only [Phase, hm] at ph
  obtain ⟨hp, hws, hwg, hc, hxs⟩ := ph
  have hin : σ.inClosed = false := by
    cases hic : σ.inClosed with
    | false => rfl
    | true => have := I.in_iff.1 hic; simp [hp] at this
  exact { noerr := I.noerr, perm := by simp [hws, hxs, inflight, prodIdx], pidx := by simp [prodIdx],
          vals_ws := I.vals_ws, vals_xs := I.vals_xs, in_iff := by simp [hin], done_in := I.done_in,
          lenws := I.lenws, closer_wg := I.closer_wg, out_iff := I.out_iff,
          phase := by simp [Phase, hws, hwg, hc, hxs] }

theorem inv_wgAdd (I : Inv f a n σ) (h : step f a n .wgAdd σ = some σ') : Inv f a n σ' := by
  obtain ⟨hm, rfl⟩ := step_wgAdd h
  have ph := I.phase; simp only [Phase, hm] at ph
  obtain ⟨hp, hws, hwg, hc, hxs⟩ := ph
  exact { noerr := I.noerr, perm := I.perm, pidx := I.pidx,
          vals_ws := I.vals_ws, vals_xs := I.vals_xs, in_iff := I.in_iff, done_in := I.done_in,
          lenws := I.lenws, closer_wg := by simp [hc], out_iff := I.out_iff,
          phase := by simp [Phase, hws, hwg, hc, hxs, hp, live] }

theorem inv_spawnWorker (I : Inv f a n σ) (h : step f a n .spawnWorker σ = some σ') : Inv f a n σ' := by
  obtain ⟨hm, hl, rfl⟩ := step_spawnWorker h
  have ph := I.phase; simp only [Phase, hm] at ph
  obtain ⟨hp, hc, hxs, hwg⟩ := ph
  exact { noerr := I.noerr,
          perm := by
            have := I.perm
            simpa [inflight, List.filterMap_append, List.filterMap_cons, W.idx] using this,
          pidx := I.pidx,
          vals_ws := by
            intro i y hy
            have : W.hold i y ∈ σ.ws := by simpa using hy
            exact I.vals_ws i y this,
          vals_xs := I.vals_xs, in_iff := I.in_iff,
          done_in := by
            intro hd
            have : W.done ∈ σ.ws := by simpa using hd
            exact I.done_in this,
          lenws := by simp; omega,
          closer_wg := I.closer_wg, out_iff := I.out_iff,
          phase := by
            simp only [Phase, hm]
            refine ⟨hp, hc, hxs, ?_⟩
            simp [live, List.map_append, List.sum_append, W.live] at hwg ⊢
            omega }

theorem inv_spawnCloser (I : Inv f a n σ) (h : step f a n .spawnCloser σ = some σ') : Inv f a n σ' := by
  obtain ⟨hm, hc, hl, rfl⟩ := step_spawnCloser h
  have ph := I.phase; simp only [Phase, hm] at ph
  obtain ⟨hp, _, hxs, hwg⟩ := ph
  have hlen : σ.ws.length = effWorkers n := by have := I.lenws; omega
  have hout : σ.outClosed = false := by
    cases ho : σ.outClosed with
    | false => rfl
    | true => have := I.out_iff.1 ho; simp [hc] at this
  exact { noerr := I.noerr, perm := I.perm, pidx := I.pidx,
          vals_ws := I.vals_ws, vals_xs := I.vals_xs, in_iff := I.in_iff, done_in := I.done_in,
          lenws := I.lenws, closer_wg := by simp, out_iff := by simp [hout],
          phase := by
            simp only [Phase]
            refine ⟨hp, by simp, hlen, ?_⟩
            simp [hwg, hlen] }

/-- once workers exist, the WaitGroup counter is (workers still to spawn) + (workers not returned) -/
theorem Inv.wg_eq (I : Inv f a n σ) (hne : σ.ws ≠ []) : σ.wg = (effWorkers n - σ.ws.length) + live σ.ws := by
  have ph := I.phase
  unfold Phase at ph
  split at ph
  · exact absurd ph.2.1 hne
  · exact absurd ph.2.1 hne
  · exact ph.2.2.2
  · rw [ph.2.2.1]; simp [ph.2.2.2]
  · rw [ph.2.1]; simp [ph.2.2.1]
  · rw [ph.2.1]; simp [ph.2.2.1]

/-- the closer is past `wg.Wait()` only when every worker has returned -/
theorem Inv.all_done (I : Inv f a n σ) (hc : σ.closer = .closing ∨ σ.closer = .done) :
    σ.ws.length = effWorkers n ∧ ∀ w ∈ σ.ws, w = .done := by
  have hwg := I.closer_wg hc
  have ph := I.phase
  have hcu : σ.closer ≠ .unspawned := by rcases hc with h | h <;> simp [h]
  unfold Phase at ph
  split at ph
  · exact absurd ph.2.2.2.1 hcu
  · exact absurd ph.2.2.2.1 hcu
  · exact absurd ph.2.1 hcu
  · exact ⟨ph.2.2.1, live_zero.1 (by rw [← ph.2.2.2]; exact hwg)⟩
  · exact ⟨ph.2.1, live_zero.1 (by rw [← ph.2.2.1]; exact hwg)⟩
  · exact ⟨ph.2.1, live_zero.1 (by rw [← ph.2.2.1]; exact hwg)⟩

/-- `Phase` only looks at these components -/
theorem Phase.congr {σ₁ σ₂ : State β} (h : Phase a n σ₁) (hm : σ₂.main = σ₁.main) (hp : σ₂.prod ≠ .unspawned)
    (hl : σ₂.ws.length = σ₁.ws.length) (hw : σ₂.ws ≠ [])
    (hwg : σ₁.wg = (effWorkers n - σ₁.ws.length) + live σ₁.ws → σ₂.wg = (effWorkers n - σ₂.ws.length) + live σ₂.ws)
    (hc : σ₂.closer = σ₁.closer) (ho : σ₂.outClosed = σ₁.outClosed)
    (hx : σ₁.main ≠ .collect → σ₂.xs = σ₁.xs) (hr : σ₂.res = σ₁.res) : Phase a n σ₂ := by
  have hw1 : σ₁.ws ≠ [] := by
    intro e; rw [e] at hl; exact hw (List.length_eq_zero_iff.1 hl)
  unfold Phase at h ⊢
  rw [hm]
  split at h
  · exact absurd h.2.1 hw1
  · exact absurd h.2.1 hw1
  · rename_i hm1
    have hx := hx (by simp [hm1])
    exact ⟨hp, hc ▸ h.2.1, hx ▸ h.2.2.1, hwg h.2.2.2⟩
  · refine ⟨hp, hc ▸ h.2.1, hl ▸ h.2.2.1, ?_⟩
    have := hwg (by rw [h.2.2.2, h.2.2.1]; simp)
    rw [this, hl, h.2.2.1]; simp
  · rename_i todo hm1
    have hx := hx (by simp [hm1])
    obtain ⟨h1, h2, h3, h4, h5, h6⟩ := h
    refine ⟨ho ▸ h1, hl ▸ h2, ?_, hr ▸ h4, hx ▸ h5, ?_⟩
    · have := hwg (by rw [h3, h2]; simp)
      rw [this, hl, h2]; simp
    · rw [hx, hr]; exact h6
  · rename_i hm1
    have hx := hx (by simp [hm1])
    obtain ⟨h1, h2, h3, h4, h5⟩ := h
    refine ⟨ho ▸ h1, hl ▸ h2, ?_, hr ▸ h4, ?_⟩
    · have := hwg (by rw [h3, h2]; simp)
      rw [this, hl, h2]; simp
    · rw [hx, hr]; exact h5

theorem inv_send {w} (I : Inv f a n σ) (h : step f a n (.send w) σ = some σ') : Inv f a n σ' := by
  obtain ⟨_, i, hp, hw, hi, hc, rfl⟩ := step_send h
  obtain ⟨l₁, l₂, e, hs⟩ := getElem?_decomp hw
  have hperm := I.perm
  rw [hp, e] at hperm
  simp only [inflight, prodIdx, List.filterMap_append, List.filterMap_cons, W.idx] at hperm
  exact { noerr := I.noerr,
          perm := by
            simp only [hs, inflight, prodIdx, List.filterMap_append, List.filterMap_cons, W.idx, List.range_succ]
            simp only [List.append_assoc, List.cons_append] at hperm ⊢
            exact (List.perm_middle).trans ((List.Perm.cons i hperm).trans (List.perm_append_singleton i _).symm),
          pidx := by simp [prodIdx]; omega,
          vals_ws := by
            intro j y hy
            rw [hs] at hy
            apply I.vals_ws j y
            rw [e]; simp at hy ⊢; exact hy,
          vals_xs := I.vals_xs,
          in_iff := by simp [hc],
          done_in := by
            intro hd
            rw [hs] at hd
            apply I.done_in
            rw [e]; simp at hd ⊢; exact hd,
          lenws := by simp; exact I.lenws,
          closer_wg := I.closer_wg, out_iff := I.out_iff,
          phase := by
            refine I.phase.congr rfl (by simp) (by simp) (by simp [hs]) ?_ rfl rfl (fun _ => rfl) rfl
            simp only [List.length_set]
            rw [hs, e]; simp [live, W.live] }

theorem inv_compute {w} (I : Inv f a n σ) (h : step f a n (.compute w) σ = some σ') : Inv f a n σ' := by
  obtain ⟨i, x, hw, hx, rfl⟩ := step_compute h
  obtain ⟨l₁, l₂, e, hs⟩ := getElem?_decomp hw
  have hpu : σ.prod ≠ .unspawned := by
    intro hpu
    have := I.perm
    rw [hpu, e] at this
    simp [inflight, prodIdx, W.idx, List.filterMap_append] at this
  exact { noerr := I.noerr,
          perm := by
            have := I.perm
            rw [e] at this
            simpa [hs, inflight, List.filterMap_append, List.filterMap_cons, W.idx] using this,
          pidx := I.pidx,
          vals_ws := by
            intro j y hy
            rw [hs] at hy
            simp at hy
            rcases hy with hy | hy | hy
            · exact I.vals_ws j y (by rw [e]; simp [hy])
            · obtain ⟨rfl, rfl⟩ := hy
              simp [hx]
            · exact I.vals_ws j y (by rw [e]; simp [hy]),
          vals_xs := I.vals_xs, in_iff := I.in_iff,
          done_in := by
            intro hd
            rw [hs] at hd
            apply I.done_in
            rw [e]; simp at hd ⊢; exact hd,
          lenws := by simp; exact I.lenws,
          closer_wg := I.closer_wg, out_iff := I.out_iff,
          phase := by
            refine I.phase.congr rfl hpu (by simp) (by simp [hs]) ?_ rfl rfl (fun _ => rfl) rfl
            simp only [List.length_set]
            rw [hs, e]; simp [live, W.live] }

theorem inv_recvOut {w} (I : Inv f a n σ) (h : step f a n (.recvOut w) σ = some σ') : Inv f a n σ' := by
  obtain ⟨hm, ho, i, y, hw, rfl⟩ := step_recvOut h
  obtain ⟨l₁, l₂, e, hs⟩ := getElem?_decomp hw
  have ph := I.phase; simp only [Phase, hm] at ph
  exact { noerr := I.noerr,
          perm := by
            have := I.perm
            rw [e] at this
            simp only [hs, inflight, List.filterMap_append, List.filterMap_cons, W.idx, List.map_append,
              List.map_cons, List.map_nil, List.append_assoc, List.cons_append] at this ⊢
            refine List.Perm.trans ?_ this
            refine List.Perm.append_left _ ?_
            rw [← List.append_assoc]
            exact List.perm_append_singleton i _,
          pidx := I.pidx,
          vals_ws := by
            intro j y' hy
            rw [hs] at hy
            apply I.vals_ws j y'
            rw [e]; simp at hy ⊢; rcases hy with hy | hy <;> simp [hy],
          vals_xs := by
            intro p hp
            simp at hp
            rcases hp with hp | rfl
            · exact I.vals_xs p hp
            · exact I.vals_ws i y (by rw [e]; simp),
          in_iff := I.in_iff,
          done_in := by
            intro hd
            rw [hs] at hd
            apply I.done_in
            rw [e]; simp at hd ⊢; exact hd,
          lenws := by simp; exact I.lenws,
          closer_wg := I.closer_wg, out_iff := I.out_iff,
          phase := by
            refine I.phase.congr rfl ph.1 (by simp) (by simp [hs]) ?_ rfl rfl (fun hne => absurd hm hne) rfl
            simp only [List.length_set]
            rw [hs, e]; simp [live, W.live] }

theorem inv_workerExit {w} (I : Inv f a n σ) (h : step f a n (.workerExit w) σ = some σ') : Inv f a n σ' := by
  obtain ⟨hw, hic, hcase⟩ := step_workerExit h
  obtain ⟨l₁, l₂, e, hs⟩ := getElem?_decomp hw
  have hne : σ.ws ≠ [] := by rw [e]; simp
  have hwg := I.wg_eq hne
  have hlive : 1 ≤ live σ.ws := by rw [e]; simp [live, W.live]; omega
  rcases hcase with ⟨h0, _⟩ | ⟨_, rfl⟩
  · omega
  · have hpd := I.in_iff.1 hic
    exact { noerr := I.noerr,
            perm := by
              have := I.perm
              rw [e] at this
              simpa [hs, inflight, List.filterMap_append, List.filterMap_cons, W.idx] using this,
            pidx := I.pidx,
            vals_ws := by
              intro j y' hy
              rw [hs] at hy
              apply I.vals_ws j y'
              rw [e]; simp at hy ⊢; exact hy,
            vals_xs := I.vals_xs, in_iff := I.in_iff,
            done_in := fun _ => hic,
            lenws := by simp; exact I.lenws,
            closer_wg := by
              intro hc
              have := (I.all_done hc).2 .idle (by rw [e]; simp)
              simp at this,
            out_iff := I.out_iff,
            phase := by
              refine I.phase.congr rfl (by simp [hpd]) (by simp) (by simp [hs]) ?_ rfl rfl (fun _ => rfl) rfl
              simp only [List.length_set]
              intro hh
              rw [hh, hs, e]; simp [live, W.live]; omega }

/-- `Phase` does not look at `prod` beyond "spawned", nor at `inClosed`, `closer` beyond "spawned" -/
theorem inv_closeIn (I : Inv f a n σ) (h : step f a n .closeIn σ = some σ') : Inv f a n σ' := by
  obtain ⟨i, hp, hi, hcase⟩ := step_closeIn h
  rcases hcase with ⟨hc, _⟩ | ⟨hc, rfl⟩
  · have := I.in_iff.1 hc; simp [hp] at this
  · have hpi := I.pidx
    rw [hp] at hpi; simp only [prodIdx] at hpi
    have hil : i = a.length := by omega
    exact { noerr := I.noerr,
            perm := by have := I.perm; rw [hp] at this; simpa [prodIdx, hil] using this,
            pidx := by simp [prodIdx],
            vals_ws := I.vals_ws, vals_xs := I.vals_xs, in_iff := by simp,
            done_in := fun _ => rfl, lenws := I.lenws, closer_wg := I.closer_wg, out_iff := I.out_iff,
            phase := by
              have ph := I.phase
              unfold Phase at ph ⊢
              simp only
              split at ph
              · simp [hp] at ph
              · simp only [ne_eq, reduceCtorEq, not_false_eq_true, true_and]; exact ph.2
              · simp only [ne_eq, reduceCtorEq, not_false_eq_true, true_and]; exact ph.2
              · simp only [ne_eq, reduceCtorEq, not_false_eq_true, true_and]; exact ph.2
              · exact ph
              · exact ph }

theorem inv_closerPass (I : Inv f a n σ) (h : step f a n .closerPass σ = some σ') : Inv f a n σ' := by
  obtain ⟨hc, h0, rfl⟩ := step_closerPass h
  have hout : σ.outClosed = false := by
    cases ho : σ.outClosed with
    | false => rfl
    | true => have := I.out_iff.1 ho; simp [hc] at this
  exact { noerr := I.noerr, perm := I.perm, pidx := I.pidx, vals_ws := I.vals_ws, vals_xs := I.vals_xs,
          in_iff := I.in_iff, done_in := I.done_in, lenws := I.lenws, closer_wg := fun _ => h0,
          out_iff := by simp [hout],
          phase := by
            have ph := I.phase
            unfold Phase at ph ⊢
            simp only
            split at ph
            · simp [hc] at ph
            · simp [hc] at ph
            · simp [hc] at ph
            · simp only [ne_eq, reduceCtorEq, not_false_eq_true, true_and]; exact ⟨ph.1, ph.2.2⟩
            · exact ph
            · exact ph }

theorem inv_closeOut (I : Inv f a n σ) (h : step f a n .closeOut σ = some σ') : Inv f a n σ' := by
  obtain ⟨hc, hcase⟩ := step_closeOut h
  rcases hcase with ⟨ho, _⟩ | ⟨ho, rfl⟩
  · have := I.out_iff.1 ho; simp [hc] at this
  · have h0 := I.closer_wg (Or.inl hc)
    exact { noerr := I.noerr, perm := I.perm, pidx := I.pidx, vals_ws := I.vals_ws, vals_xs := I.vals_xs,
            in_iff := I.in_iff, done_in := I.done_in, lenws := I.lenws, closer_wg := fun _ => h0,
            out_iff := by simp,
            phase := by
              have ph := I.phase
              unfold Phase at ph ⊢
              simp only
              split at ph
              · simp [hc] at ph
              · simp [hc] at ph
              · simp [hc] at ph
              · simp only [ne_eq, reduceCtorEq, not_false_eq_true, true_and]; exact ⟨ph.1, ph.2.2⟩
              · simp [ho] at ph
              · simp [ho] at ph }

/-- after `close(out)`: everybody has returned and exactly the indices `0 … len-1` were collected -/
theorem Inv.closed_facts (I : Inv f a n σ) (ho : σ.outClosed = true) :
    (∀ w ∈ σ.ws, w = .done) ∧ σ.ws.length = effWorkers n ∧ σ.prod = .done ∧ σ.inClosed = true ∧
    (σ.xs.map Prod.fst).Perm (List.range a.length) := by
  have hcd := I.out_iff.1 ho
  obtain ⟨hlen, hall⟩ := I.all_done (Or.inr hcd)
  have hpos := effWorkers_pos n
  have hmem : W.done ∈ σ.ws := by
    cases hws : σ.ws with
    | nil => rw [hws] at hlen; simp at hlen; omega
    | cons w ws => have := hall w (by simp [hws]); simp [this]
  have hic := I.done_in hmem
  have hpd := I.in_iff.1 hic
  refine ⟨hall, hlen, hpd, hic, ?_⟩
  have := I.perm
  rw [inflight_nil_of_done hall, hpd] at this
  simpa [prodIdx] using this

theorem inv_collectEnd (I : Inv f a n σ) (h : step f a n .collectEnd σ = some σ') : Inv f a n σ' := by
  obtain ⟨hm, ho, rfl⟩ := step_collectEnd h
  obtain ⟨_, _, _, _, hperm⟩ := I.closed_facts ho
  have ph := I.phase; simp only [Phase, hm] at ph
  have hlen : σ.xs.length = a.length := by
    have := hperm.length_eq; simpa using this
  exact { noerr := I.noerr, perm := I.perm, pidx := I.pidx, vals_ws := I.vals_ws, vals_xs := I.vals_xs,
          in_iff := I.in_iff, done_in := I.done_in, lenws := I.lenws, closer_wg := I.closer_wg,
          out_iff := I.out_iff,
          phase := by
            simp only [Phase]
            exact ⟨ho, ph.2.2.1, ph.2.2.2, by simp [hlen], fun p hp => hp, fun p hp => Or.inl hp⟩ }

theorem inv_placeOne (I : Inv f a n σ) (h : step f a n .placeOne σ = some σ') : Inv f a n σ' := by
  obtain ⟨i, y, rest, hm, hcase⟩ := step_placeOne h
  have ph := I.phase; simp only [Phase, hm] at ph
  obtain ⟨ho, hl, hwg, hres, hsub, hcov⟩ := ph
  obtain ⟨_, _, _, _, hperm⟩ := I.closed_facts ho
  have hmem : (i, y) ∈ σ.xs := hsub _ (by simp)
  have hi : i < a.length := by
    have : i ∈ σ.xs.map Prod.fst := List.mem_map.2 ⟨(i, y), hmem, rfl⟩
    simpa using (hperm.mem_iff).1 this
  rcases hcase with ⟨_, rfl⟩ | ⟨hlt, _⟩
  · exact { noerr := I.noerr, perm := I.perm, pidx := I.pidx, vals_ws := I.vals_ws, vals_xs := I.vals_xs,
            in_iff := I.in_iff, done_in := I.done_in, lenws := I.lenws, closer_wg := I.closer_wg,
            out_iff := I.out_iff,
            phase := by
              simp only [Phase]
              refine ⟨ho, hl, hwg, by simp [hres], fun p hp => hsub p (by simp [hp]), ?_⟩
              intro p hp
              by_cases hpi : p.1 = i
              · right
                have h1 := I.vals_xs p hp
                have h2 := I.vals_xs _ hmem
                rw [hpi] at h1
                simp only at h2
                have : p.2 = y := by rw [h1] at h2; exact Option.some.inj h2
                rw [hpi, this, List.getElem?_set_self (by omega)]
              · rcases hcov p hp with hc | hc
                · simp at hc
                  rcases hc with rfl | hc
                  · exact absurd rfl hpi
                  · exact Or.inl hc
                · right; rw [List.getElem?_set_ne (by omega)]; exact hc }
  · omega

theorem inv_return (I : Inv f a n σ) (h : step f a n .return σ = some σ') : Inv f a n σ' := by
  obtain ⟨hm, rfl⟩ := step_return h
  have ph := I.phase; simp only [Phase, hm] at ph
  obtain ⟨ho, hl, hwg, hres, _, hcov⟩ := ph
  exact { noerr := I.noerr, perm := I.perm, pidx := I.pidx, vals_ws := I.vals_ws, vals_xs := I.vals_xs,
          in_iff := I.in_iff, done_in := I.done_in, lenws := I.lenws, closer_wg := I.closer_wg,
          out_iff := I.out_iff,
          phase := by
            simp only [Phase]
            exact ⟨ho, hl, hwg, hres, fun p hp => by simpa using hcov p hp⟩ }

theorem inv_sendOnClosed {w} (I : Inv f a n σ) (h : step f a n (.sendOnClosed w) σ = some σ') : False := by
  obtain ⟨ho, i, y, hw⟩ := step_sendOnClosed h
  have := (I.closed_facts ho).1 _ (List.mem_of_getElem? hw)
  simp at this

/-- **the invariant is inductive** -/
theorem inv_step (I : Inv f a n σ) {l : Label} (h : step f a n l σ = some σ') : Inv f a n σ' := by
  cases l with
  | spawnProd => exact inv_spawnProd I h
  | wgAdd => exact inv_wgAdd I h
  | spawnWorker => exact inv_spawnWorker I h
  | spawnCloser => exact inv_spawnCloser I h
  | send w => exact inv_send I h
  | closeIn => exact inv_closeIn I h
  | compute w => exact inv_compute I h
  | recvOut w => exact inv_recvOut I h
  | workerExit w => exact inv_workerExit I h
  | closerPass => exact inv_closerPass I h
  | closeOut => exact inv_closeOut I h
  | collectEnd => exact inv_collectEnd I h
  | placeOne => exact inv_placeOne I h
  | «return» => exact inv_return I h
  | sendOnClosed w => exact (inv_sendOnClosed I h).elim

end pres

theorem inv_reachable {f : α → β} {a : List α} {n : Int} {σ : State β} (h : Reachable f a n σ) : Inv f a n σ := by
  induction h with
  | init => exact inv_init f a n
  | step _ hs ih => obtain ⟨l, hl⟩ := hs; exact inv_step ih hl

/-! ### the measure decreases on every transition (no hypothesis on the state) -/

theorem wsWeight_set {ws : List (W β)} {w : Nat} {x : W β} (h : ws[w]? = some x) (y : W β) :
    wsWeight (ws.set w y) + x.weight = wsWeight ws + y.weight := by
  obtain ⟨l₁, l₂, e, hs⟩ := getElem?_decomp h
  rw [hs y, e]
  simp [wsWeight, List.sum_append]
  omega

theorem measure_step {f : α → β} {a : List α} {n : Int} {σ σ' : State β} {l : Label}
    (h : step f a n l σ = some σ') : measure a n σ' < measure a n σ := by
  have he := step_noerr h
  cases l with
  | spawnProd =>
    obtain ⟨hm, rfl⟩ := step_spawnProd h
    simp [measure, hm, he]; omega
  | wgAdd =>
    obtain ⟨hm, rfl⟩ := step_wgAdd h
    simp [measure, hm, he]; omega
  | spawnWorker =>
    obtain ⟨hm, hl, rfl⟩ := step_spawnWorker h
    simp [measure, hm, he, wsWeight, List.sum_append, W.weight]; omega
  | spawnCloser =>
    obtain ⟨hm, hc, hl, rfl⟩ := step_spawnCloser h
    simp [measure, hm, he, hc]; omega
  | send w =>
    obtain ⟨_, i, hp, hw, hi, hc, rfl⟩ := step_send h
    have := wsWeight_set hw (.busy i)
    simp [measure, he, hp, W.weight] at this ⊢; omega
  | closeIn =>
    obtain ⟨i, hp, hi, hcase⟩ := step_closeIn h
    rcases hcase with ⟨hc, rfl⟩ | ⟨hc, rfl⟩
    · simp [measure, he]
    · simp [measure, he, hp]
  | compute w =>
    obtain ⟨i, x, hw, hx, rfl⟩ := step_compute h
    have := wsWeight_set hw (.hold i (f x))
    simp [measure, he, W.weight] at this ⊢; omega
  | recvOut w =>
    obtain ⟨hm, ho, i, y, hw, rfl⟩ := step_recvOut h
    have := wsWeight_set hw (.idle)
    simp [measure, he, hm, W.weight] at this ⊢; omega
  | workerExit w =>
    obtain ⟨hw, hic, hcase⟩ := step_workerExit h
    rcases hcase with ⟨h0, rfl⟩ | ⟨_, rfl⟩
    · simp [measure, he]
    · have := wsWeight_set hw (.done)
      simp [measure, he, W.weight] at this ⊢; omega
  | closerPass =>
    obtain ⟨hc, h0, rfl⟩ := step_closerPass h
    simp [measure, he, hc]
  | closeOut =>
    obtain ⟨hc, hcase⟩ := step_closeOut h
    rcases hcase with ⟨ho, rfl⟩ | ⟨ho, rfl⟩
    · simp [measure, he]
    · simp [measure, he, hc]
  | collectEnd =>
    obtain ⟨hm, ho, rfl⟩ := step_collectEnd h
    simp [measure, he, hm]
  | placeOne =>
    obtain ⟨i, y, rest, hm, hcase⟩ := step_placeOne h
    rcases hcase with ⟨_, rfl⟩ | ⟨_, rfl⟩
    · simp [measure, he, hm]
    · simp [measure, he]
  | «return» =>
    obtain ⟨hm, rfl⟩ := step_return h
    simp [measure, he, hm]
  | sendOnClosed w =>
    unfold step at h
    rw [he] at h
    simp only [Bool.false_eq_true, ↓reduceIte] at h
    split at h
    · split at h
      · simp at h; subst h; simp [measure, he]
      · simp at h
    · simp at h

end Argot.MapPar
