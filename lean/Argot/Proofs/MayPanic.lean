/- Helper lemmas for C19 (may-panic analysis). Property theorems live in Argot/Props/C19.lean. -/
import Argot.Spec.MayPanic

namespace Argot.MayPanic

theorem mem_goPairs {T : Tables} {P : Prog} {f pos : Nat} :
    (f, pos) ∈ goPairs T P ↔ ∃ h ∈ P, ∃ s ∈ h.gos, f ∈ launchTargets T s ∧ s.pos = pos := by
  simp only [goPairs, List.mem_flatMap, List.mem_map, Prod.mk.injEq]
  constructor
  · rintro ⟨h, hh, s, hs, g, hg, rfl, rfl⟩; exact ⟨h, hh, s, hs, hg, rfl⟩
  · rintro ⟨h, hh, s, hs, hg, rfl⟩; exact ⟨h, hh, s, hs, f, hg, rfl, rfl⟩

theorem mem_creators {T : Tables} {P : Prog} {f pos : Nat} :
    pos ∈ creators T P f ↔ (f, pos) ∈ goPairs T P := by
  simp only [creators, List.mem_map, List.mem_filter, beq_iff_eq]
  constructor
  · rintro ⟨⟨a, b⟩, ⟨hm, rfl⟩, rfl⟩; exact hm
  · intro h; exact ⟨(f, pos), ⟨h, rfl⟩, rfl⟩

theorem reported_iff {T : Tables} {excl : List String} {P : Prog} {f pos : Nat} :
    Reported T excl P f pos ↔
      f < P.length ∧ (f, pos) ∈ goPairs T P ∧ excludedFn T excl P f = false ∧ doesDeferRecover T P f = false := by
  simp only [Reported, report, List.mem_map, List.mem_filter, List.mem_range, Prod.mk.injEq]
  constructor
  · rintro ⟨cs, ⟨g, ⟨hlt, hrep⟩, rfl, rfl⟩, hpos⟩
    simp only [isReported, Bool.and_eq_true, Bool.not_eq_true'] at hrep
    exact ⟨hlt, mem_creators.1 hpos, hrep.1.2, hrep.2⟩
  · rintro ⟨hlt, hp, he, hd⟩
    refine ⟨creators T P f, ⟨f, ⟨hlt, ?_⟩, rfl, rfl⟩, mem_creators.2 hp⟩
    simp only [isReported, Bool.and_eq_true, Bool.not_eq_true', List.any_eq_true, beq_iff_eq]
    exact ⟨⟨⟨(f, pos), hp, rfl⟩, he⟩, hd⟩

/-- the site's well-formedness, unpacked per form -/
theorem siteWf_fn {n : Nat} {s : Site} (h : siteWf n s = true) (hf : s.form = .fn ∨ s.form = .closure) :
    ∃ t, s.target = some t ∧ s.callees = [t] := by
  unfold siteWf at h
  rcases hf with hf | hf <;> rw [hf] at h <;> cases ht : s.target <;> simp [ht] at h <;> exact ⟨_, rfl, h.2⟩

theorem siteWf_builtin {n : Nat} {s : Site} (h : siteWf n s = true) (hf : s.form = .builtin) :
    s.callees = [] := by
  unfold siteWf at h
  rw [hf] at h
  cases ht : s.target <;> simp [ht] at h
  exact h.2

theorem siteWf_lt {n : Nat} {s : Site} (h : siteWf n s = true) {f : Nat} (hf : f ∈ s.callees) : f < n := by
  unfold siteWf at h
  simp only [Bool.and_eq_true, List.all_eq_true, decide_eq_true_eq] at h
  exact h.1 f hf

/-- a handled form records every call-graph callee of the go statement -/
theorem callees_sub_launchTargets {T : Tables} {n : Nat} {s : Site} (hw : siteWf n s = true)
    (hh : handlesGo T s.form = true) {f : Nat} (hf : f ∈ s.callees) : f ∈ launchTargets T s := by
  unfold launchTargets
  cases hform : s.form with
  | invoke => simp [handlesGo, hform] at hh; simp [hh, hf]
  | value => simp [handlesGo, hform] at hh; simp [hh, hf]
  | builtin => rw [siteWf_builtin hw hform] at hf; simp at hf
  | fn =>
    simp [handlesGo, hform] at hh
    obtain ⟨t, ht, hc⟩ := siteWf_fn hw (Or.inl hform)
    rw [hc] at hf; simp at hf; simp [hh, ht, hf]
  | closure =>
    simp [handlesGo, hform] at hh
    obtain ⟨t, ht, hc⟩ := siteWf_fn hw (Or.inr hform)
    rw [hc] at hf; simp at hf; simp [hh, ht, hf]

theorem wf_go {P : Prog} (hw : wf P = true) {h : Fn} (hh : h ∈ P) {s : Site} (hs : s ∈ h.gos) :
    siteWf P.length s = true := by
  simp only [wf, List.all_eq_true, Bool.and_eq_true] at hw
  exact (hw h hh).1.1 s hs

theorem wf_defer {P : Prog} (hw : wf P = true) {h : Fn} (hh : h ∈ P) {s : Site} (hs : s ∈ h.defers) :
    siteWf P.length s = true := by
  simp only [wf, List.all_eq_true, Bool.and_eq_true] at hw
  exact (hw h hh).1.2 s hs

theorem fnAt_mem {P : Prog} {f : Nat} (h : f < P.length) : fnAt P f ∈ P := by
  unfold fnAt
  rw [List.getD_eq_getElem?_getD, List.getElem?_eq_getElem h]
  exact List.getElem_mem h

theorem doesRecover_callsRecover {T : Tables} {g : Fn} (h : doesRecover T g = true) : callsRecover g = true := by
  simp only [doesRecover, isRecoverCall, List.any_eq_true, Bool.and_eq_true] at h
  obtain ⟨c, hc, ⟨_, h1⟩, h2⟩ := h
  simp only [callsRecover, List.any_eq_true, Bool.and_eq_true]
  exact ⟨c, hc, h1, h2⟩

/-- **the tool's "recovers" judgement is never wider than the property's**, whatever the tables:
a function judged recovering really has a defer statement that may enter a function calling `recover`.
(Only this direction matters for completeness of the report.) -/
theorem doesDeferRecover_sound {T : Tables} {P : Prog} (hw : wf P = true) {f : Nat} (hf : f < P.length)
    (h : doesDeferRecover T P f = true) : defersRecoverSpec P f = true := by
  simp only [doesDeferRecover, List.any_eq_true] at h
  obtain ⟨d, hd, hr⟩ := h
  have hdw := wf_defer hw (fnAt_mem hf) hd
  simp only [defersRecoverSpec, List.any_eq_true, Bool.and_eq_true, decide_eq_true_eq]
  unfold deferRecovers at hr
  split at hr
  · rename_i t hform htgt
    obtain ⟨t', ht', hc⟩ := siteWf_fn hdw (Or.inl hform)
    rw [htgt] at ht'; cases ht'
    simp only [Bool.and_eq_true, decide_eq_true_eq] at hr
    exact ⟨d, hd, t, by simp [hc], hr.1.2, doesRecover_callsRecover hr.2⟩
  · rename_i t hform htgt
    obtain ⟨t', ht', hc⟩ := siteWf_fn hdw (Or.inr hform)
    rw [htgt] at ht'; cases ht'
    simp only [Bool.and_eq_true, decide_eq_true_eq] at hr
    exact ⟨d, hd, t, by simp [hc], hr.1.2, doesRecover_callsRecover hr.2⟩
  · exact Bool.noConfusion hr

end Argot.MayPanic
