/-
Helper lemmas for C02: the LIFO search of `FindPathBetweenBlocks` (soundness, completeness,
termination within `fuelBound`), the conditions collected along a block list, the edge-cut
reachability criterion and the polarity of validator conditions.
-/
import Argot.Spec.PathCond

namespace Argot.PathCond

/-! ### walks -/

theorem IsWalk.snoc {g : Cfg} {p : List Nat} {a c : Nat}
    (h : IsWalk g (p ++ [a])) (hc : c ∈ succsOf g a) : IsWalk g (p ++ [a, c]) := by
  induction p with
  | nil => exact .cons hc (.single c)
  | cons x xs ih =>
    cases xs with
    | nil =>
      simp only [List.cons_append, List.nil_append] at h ⊢
      cases h with
      | cons h1 h2 => exact .cons h1 (ih h2)
    | cons y ys =>
      simp only [List.cons_append] at h ⊢ ih
      cases h with
      | cons h1 h2 => exact .cons h1 (ih h2)

theorem IsWalk.tail {g : Cfg} {a : Nat} {p : List Nat} (h : IsWalk g (a :: p)) : IsWalk g p := by
  cases h with
  | single => exact .nil
  | cons _ h2 => exact h2

/-- everything after the head of a walk that starts in (or at the root of) a successor-closed set
lies in the set. -/
theorem walk_in_closed {g : Cfg} {b : Nat} {V : List Nat}
    (hb : ∀ s ∈ succsOf g b, s ∈ V) (hV : ∀ v ∈ V, ∀ s ∈ succsOf g v, s ∈ V) :
    ∀ (p : List Nat) (a : Nat), IsWalk g (a :: p) → (a = b ∨ a ∈ V) → ∀ x ∈ p, x ∈ V := by
  intro p
  induction p with
  | nil => intro a _ _ x hx; cases hx
  | cons c rest ih =>
    intro a hw ha x hx
    cases hw with
    | cons h1 h2 =>
      have hc : c ∈ V := by
        rcases ha with rfl | ha
        · exact hb c h1
        · exact hV a ha c h1
      rcases List.mem_cons.1 hx with rfl | hx
      · exact hc
      · exact ih c h2 (Or.inr hc) x hx

theorem reach1_in_closed {g : Cfg} {b t : Nat} {V : List Nat}
    (hb : ∀ s ∈ succsOf g b, s ∈ V) (hV : ∀ v ∈ V, ∀ s ∈ succsOf g v, s ∈ V)
    (h : Reach1 g b t) : t ∈ V := by
  obtain ⟨p, hw, hh, hl, hlen⟩ := h
  match p, hh, hlen with
  | a :: c :: rest, hh, _ =>
    simp at hh
    subst hh
    have := walk_in_closed hb hV (c :: rest) a hw (Or.inl rfl)
    apply this
    have : (c :: rest).getLast? = some t := by
      simpa [List.getLast?_cons_cons] using hl
    exact List.mem_of_getLast? this

/-! ### soundness of the search -/

def GoodEntry (g : Cfg) (b : Nat) (e : Entry) : Prop :=
  IsWalk g (e.1 :: e.2).reverse ∧ (e.1 :: e.2).getLast? = some b ∧ e.2 ≠ []

theorem good_children {g : Cfg} {b : Nat} {vis : List Nat} {e : Entry} (he : GoodEntry g b e) :
    ∀ c ∈ children g vis e, GoodEntry g b c := by
  intro c hc
  simp only [children, List.mem_reverse, List.mem_map, List.mem_filter] at hc
  obtain ⟨s, ⟨hs, _⟩, rfl⟩ := hc
  obtain ⟨h1, h2, _⟩ := he
  refine ⟨?_, ?_, by simp⟩
  · have : (s :: e.1 :: e.2).reverse = e.2.reverse ++ [e.1, s] := by simp
    show IsWalk g (s :: e.1 :: e.2).reverse
    rw [this]
    have h1' : IsWalk g (e.2.reverse ++ [e.1]) := by simpa using h1
    exact h1'.snoc hs
  · show (s :: e.1 :: e.2).getLast? = some b
    rw [List.getLast?_cons_cons]; exact h2

theorem good_init (g : Cfg) (b : Nat) : ∀ e ∈ initStack g b, GoodEntry g b e := by
  intro e he
  simp only [initStack, List.mem_reverse, List.mem_map] at he
  obtain ⟨s, hs, rfl⟩ := he
  refine ⟨?_, by simp, by simp⟩
  show IsWalk g [s, b].reverse
  simpa using IsWalk.cons hs (.single s)

theorem search_sound {g : Cfg} {b t : Nat} :
    ∀ (n : Nat) (vis : List Nat) (st : List Entry) (p : List Nat),
      (∀ e ∈ st, GoodEntry g b e) → search g t n vis st = .found p →
      ∃ q, p = q ++ [t] ∧ WalkFromTo g b t q := by
  intro n
  induction n with
  | zero => intro vis st p _ h; simp [search] at h
  | succ n ih =>
    intro vis st p hgood h
    cases st with
    | nil => simp [search] at h
    | cons cur rest =>
      simp only [search] at h
      split at h
      · rename_i heq
        injection h with h
        obtain ⟨h1, h2, h3⟩ := hgood cur (by simp)
        refine ⟨(cur.1 :: cur.2).reverse, ?_, h1, ?_, ?_, ?_⟩
        · rw [← h, pathOf, heq]
        · rw [List.head?_reverse]; exact h2
        · rw [List.getLast?_reverse]; simp [heq]
        · cases hc : cur.2 with
          | nil => exact absurd hc h3
          | cons y ys => simp
      · apply ih _ _ p _ h
        intro e he
        rcases List.mem_append.1 he with he | he
        · exact good_children (hgood cur (by simp)) e he
        · exact hgood e (by simp [he])

/-! ### completeness: `notFound` means unreachable -/

def blocks (st : List Entry) : List Nat := st.map (·.1)

def KInv (g : Cfg) (b : Nat) (vis : List Nat) (st : List Entry) : Prop :=
  (∀ s ∈ succsOf g b, s ∈ vis ∨ s ∈ blocks st) ∧
  (∀ v ∈ vis, ∀ s ∈ succsOf g v, s ∈ vis ∨ s ∈ blocks st)

theorem mem_blocks_children {g : Cfg} {vis : List Nat} {e : Entry} {s : Nat}
    (hs : s ∈ succsOf g e.1) (hv : s ∉ vis) : s ∈ blocks (children g vis e) := by
  simp only [blocks, children, List.map_reverse, List.mem_reverse, List.mem_map, List.mem_filter]
  exact ⟨(s, e.1 :: e.2), ⟨s, ⟨hs, by simpa using hv⟩, rfl⟩, rfl⟩

theorem blocks_append (a b : List Entry) : blocks (a ++ b) = blocks a ++ blocks b := by
  simp [blocks]

theorem kinv_step {g : Cfg} {b : Nat} {vis : List Nat} {cur : Entry} {rest : List Entry}
    (h : KInv g b vis (cur :: rest)) :
    KInv g b (cur.1 :: vis) (children g (cur.1 :: vis) cur ++ rest) := by
  obtain ⟨h1, h2⟩ := h
  have key : ∀ s, (s ∈ vis ∨ s ∈ blocks (cur :: rest)) →
      s ∈ cur.1 :: vis ∨ s ∈ blocks (children g (cur.1 :: vis) cur ++ rest) := by
    intro s hs
    rcases hs with hs | hs
    · exact Or.inl (List.mem_cons_of_mem _ hs)
    · simp only [blocks, List.map_cons, List.mem_cons] at hs
      rcases hs with rfl | hs
      · exact Or.inl (by simp)
      · right; rw [blocks_append]; exact List.mem_append_right _ hs
  refine ⟨fun s hs => key s (h1 s hs), ?_⟩
  intro v hv s hs
  rcases List.mem_cons.1 hv with rfl | hv
  · by_cases hin : s ∈ cur.1 :: vis
    · exact Or.inl hin
    · right; rw [blocks_append]; exact List.mem_append_left _ (mem_blocks_children hs hin)
  · exact key s (h2 v hv s hs)

theorem search_notFound {g : Cfg} {b t : Nat} :
    ∀ (n : Nat) (vis : List Nat) (st : List Entry),
      KInv g b vis st → t ∉ vis → search g t n vis st = .notFound → ¬ Reach1 g b t := by
  intro n
  induction n with
  | zero => intro vis st _ _ h; simp [search] at h
  | succ n ih =>
    intro vis st hk ht h
    cases st with
    | nil =>
      intro hr
      apply ht
      apply reach1_in_closed (V := vis) _ _ hr
      · intro s hs; rcases hk.1 s hs with h | h
        · exact h
        · simp [blocks] at h
      · intro v hv s hs; rcases hk.2 v hv s hs with h | h
        · exact h
        · simp [blocks] at h
    | cons cur rest =>
      simp only [search] at h
      split at h
      · simp at h
      · rename_i hne
        apply ih _ _ (kinv_step hk) _ h
        intro hmem
        rcases List.mem_cons.1 hmem with h' | h'
        · exact hne h'.symm
        · exact ht h'

theorem kinv_init (g : Cfg) (b : Nat) : KInv g b [] (initStack g b) := by
  refine ⟨?_, by intro v hv; cases hv⟩
  intro s hs
  right
  simp only [blocks, initStack, List.map_reverse, List.mem_reverse, List.mem_map]
  exact ⟨(s, [b]), ⟨s, hs, rfl⟩, rfl⟩

/-! ### termination within the fuel bound -/

/-- total weight (out-degree + 1) of the blocks of `l` that are not yet visited. -/
def unvWeight (g : Cfg) (vis : List Nat) : List Nat → Nat
  | [] => 0
  | x :: xs => (if x ∈ vis then 0 else (succsOf g x).length + 1) + unvWeight g vis xs

theorem unvWeight_mono (g : Cfg) (vis : List Nat) (v : Nat) (l : List Nat) :
    unvWeight g (v :: vis) l ≤ unvWeight g vis l := by
  induction l with
  | nil => simp [unvWeight]
  | cons x xs ih =>
    simp only [unvWeight]
    by_cases h1 : x ∈ vis
    · have : x ∈ v :: vis := List.mem_cons_of_mem _ h1
      simp [h1, this]; exact ih
    · by_cases h2 : x ∈ v :: vis
      · simp [h1, h2]; omega
      · simp [h1, h2]; exact ih

theorem unvWeight_fresh (g : Cfg) (vis : List Nat) (v : Nat) (l : List Nat)
    (hv : v ∉ vis) (hl : v ∈ l) :
    unvWeight g (v :: vis) l + ((succsOf g v).length + 1) ≤ unvWeight g vis l := by
  induction l with
  | nil => cases hl
  | cons x xs ih =>
    simp only [unvWeight]
    by_cases hx : x = v
    · subst hx
      have := unvWeight_mono g vis x xs
      simp [hv]; omega
    · have hl' : v ∈ xs := by
        rcases List.mem_cons.1 hl with h | h
        · exact absurd h.symm hx
        · exact h
      have := ih hl'
      by_cases h1 : x ∈ vis
      · have : x ∈ v :: vis := List.mem_cons_of_mem _ h1
        simp [h1, this]; omega
      · have h2 : x ∉ v :: vis := by
          intro h; rcases List.mem_cons.1 h with h | h
          · exact hx h
          · exact h1 h
        simp [h1, h2]; omega

/-- for a visited block inside the stack, every successor is visited or sits above it. -/
def JInv (g : Cfg) (vis : List Nat) (st : List Entry) : Prop :=
  ∀ top e rest, st = top ++ e :: rest → e.1 ∈ vis →
    ∀ s ∈ succsOf g e.1, s ∈ vis ∨ s ∈ blocks top

theorem children_fresh {g : Cfg} {vis : List Nat} {e c : Entry} (h : c ∈ children g vis e) :
    c.1 ∉ vis := by
  simp only [children, List.mem_reverse, List.mem_map, List.mem_filter] at h
  obtain ⟨s, ⟨_, hs⟩, rfl⟩ := h
  simpa using hs

theorem jinv_step {g : Cfg} {vis : List Nat} {cur : Entry} {rest : List Entry}
    (h : JInv g vis (cur :: rest)) :
    JInv g (cur.1 :: vis) (children g (cur.1 :: vis) cur ++ rest) := by
  intro top e rest' hsplit he s hs
  have main : ∀ a', top = children g (cur.1 :: vis) cur ++ a' → rest = a' ++ e :: rest' →
      s ∈ cur.1 :: vis ∨ s ∈ blocks top := by
    intro a' h1 h2
    subst h1
    rcases List.mem_cons.1 he with he | he
    · -- e is a stale copy of cur
      by_cases hin : s ∈ cur.1 :: vis
      · exact Or.inl hin
      · right; rw [blocks_append]
        exact List.mem_append_left _ (mem_blocks_children (he ▸ hs) hin)
    · have := h (cur :: a') e rest' (by rw [h2]; rfl) he s hs
      rcases this with h' | h'
      · exact Or.inl (List.mem_cons_of_mem _ h')
      · simp only [blocks, List.map_cons, List.mem_cons] at h'
        rcases h' with rfl | h'
        · exact Or.inl (by simp)
        · right; rw [blocks_append]; exact List.mem_append_right _ h'
  rcases List.append_eq_append_iff.1 hsplit with ⟨a', h1, h2⟩ | ⟨c', h1, h2⟩
  · exact main a' h1 h2
  · cases c' with
    | nil =>
      simp only [List.nil_append] at h2
      exact main [] (by simpa using h1.symm) (by simpa using h2.symm)
    | cons y ys =>
      -- e lies inside the children: impossible, children are unvisited
      simp only [List.cons_append, List.cons.injEq] at h2
      have hmem : e ∈ children g (cur.1 :: vis) cur := by
        rw [h1, h2.1]; simp
      exact absurd he (children_fresh hmem)

theorem jinv_nil (g : Cfg) (st : List Entry) : JInv g [] st := by
  intro top e rest _ he; cases he

def pot (g : Cfg) (vis : List Nat) (st : List Entry) : Nat :=
  st.length + unvWeight g vis (List.range g.length)

theorem children_length_le (g : Cfg) (vis : List Nat) (e : Entry) :
    (children g vis e).length ≤ (succsOf g e.1).length := by
  simp only [children, List.length_reverse, List.length_map]
  exact List.length_filter_le _ _

theorem children_nil {g : Cfg} {vis : List Nat} {e : Entry}
    (h : ∀ s ∈ succsOf g e.1, s ∈ vis) : children g vis e = [] := by
  simp only [children, List.reverse_eq_nil_iff, List.map_eq_nil_iff, List.filter_eq_nil_iff]
  intro s hs; simpa using h s hs

theorem succsOf_of_ge {g : Cfg} {b : Nat} (h : g.length ≤ b) : succsOf g b = [] := by
  simp [succsOf, blockOf, List.getD_eq_getElem?_getD, List.getElem?_eq_none h]
  rfl

theorem search_terminates {g : Cfg} {t : Nat} :
    ∀ (n : Nat) (vis : List Nat) (st : List Entry),
      JInv g vis st → pot g vis st < n → search g t n vis st ≠ .outOfFuel := by
  intro n
  induction n with
  | zero => intro vis st _ h; omega
  | succ n ih =>
    intro vis st hj hp
    cases st with
    | nil => simp [search]
    | cons cur rest =>
      simp only [search]
      split
      · simp
      · apply ih _ _ (jinv_step hj)
        simp only [pot, List.length_cons, List.length_append] at hp ⊢
        by_cases hv : cur.1 ∈ vis
        · have hall : ∀ s ∈ succsOf g cur.1, s ∈ cur.1 :: vis := by
            intro s hs
            rcases hj [] cur rest rfl hv s hs with h | h
            · exact List.mem_cons_of_mem _ h
            · simp [blocks] at h
          rw [children_nil hall]
          have := unvWeight_mono g vis cur.1 (List.range g.length)
          simp; omega
        · have hlen := children_length_le g (cur.1 :: vis) cur
          by_cases hr : cur.1 < g.length
          · have := unvWeight_fresh g vis cur.1 (List.range g.length) hv (List.mem_range.2 hr)
            omega
          · have h0 : succsOf g cur.1 = [] := succsOf_of_ge (Nat.le_of_not_lt hr)
            rw [h0] at hlen
            have := unvWeight_mono g vis cur.1 (List.range g.length)
            have hz : (children g (cur.1 :: vis) cur).length = 0 := Nat.le_zero.1 hlen
            omega

theorem unvWeight_nil_vis (g : Cfg) (l : List Nat) :
    unvWeight g [] l = (l.map (fun v => (succsOf g v).length + 1)).sum := by
  induction l with
  | nil => rfl
  | cons x xs ih => simp [unvWeight, ih]

theorem le_sum_of_mem {f : Nat → Nat} {l : List Nat} {x : Nat} (h : x ∈ l) :
    f x ≤ (l.map f).sum := by
  induction l with
  | nil => cases h
  | cons y ys ih =>
    rcases List.mem_cons.1 h with rfl | h
    · simp
    · have := ih h; simp; omega

theorem pot_init_lt (g : Cfg) (b : Nat) : pot g [] (initStack g b) < fuelBound g := by
  simp only [pot, initStack, List.length_reverse, List.length_map, unvWeight_nil_vis, fuelBound, totalWeight]
  by_cases hb : b < g.length
  · have := le_sum_of_mem (f := fun v => (succsOf g v).length + 1) (List.mem_range.2 hb)
    omega
  · rw [succsOf_of_ge (Nat.le_of_not_lt hb)]; simp; omega

/-! ### conditions collected along a block list -/

theorem mem_stepCond {g : Cfg} {a t : Nat} {pol : Bool} {c : Nat} (h : (pol, c) ∈ stepCond g a t) :
    (blockOf g a).isIf = true ∧ (blockOf g a).cond = c ∧ BranchEdge g a pol t := by
  unfold stepCond at h
  simp only at h
  split at h
  · rename_i hif
    split at h
    · rename_i h0
      simp only [List.mem_singleton, Prod.mk.injEq] at h
      obtain ⟨rfl, rfl⟩ := h
      exact ⟨hif, rfl, by simp [BranchEdge, h0]⟩
    · rename_i h0
      split at h
      · rename_i h1
        simp only [List.mem_singleton, Prod.mk.injEq] at h
        obtain ⟨rfl, rfl⟩ := h
        exact ⟨hif, rfl, by simp [BranchEdge, h0, h1]⟩
      · cases h
  · cases h

theorem consec_cons_of {p : List Nat} {a c x : Nat} (h : Consec p a c) : Consec (x :: p) a c := by
  obtain ⟨l, r, rfl⟩ := h
  exact ⟨x :: l, r, rfl⟩

theorem mem_pathConds {g : Cfg} {pol : Bool} {c : Nat} :
    ∀ p : List Nat, (pol, c) ∈ pathConds g p →
      ∃ a t, Consec p a t ∧ (blockOf g a).isIf = true ∧ (blockOf g a).cond = c ∧ BranchEdge g a pol t := by
  intro p
  induction p with
  | nil => intro h; simp [pathConds] at h
  | cons x xs ih =>
    cases xs with
    | nil => intro h; simp [pathConds] at h
    | cons y ys =>
      intro h
      simp only [pathConds, List.mem_append] at h
      rcases h with h | h
      · obtain ⟨h1, h2, h3⟩ := mem_stepCond h
        exact ⟨x, y, ⟨[], ys, rfl⟩, h1, h2, h3⟩
      · obtain ⟨a, t, hc, rest⟩ := ih h
        exact ⟨a, t, consec_cons_of hc, rest⟩

theorem branchEdge_mem {g : Cfg} {a t : Nat} {pol : Bool} (h : BranchEdge g a pol t) : t ∈ succsOf g a := by
  unfold BranchEdge at h
  cases pol with
  | true => simp at h; exact List.mem_of_getElem? h
  | false => simp at h; exact List.mem_of_getElem? h.1

/-! ### cutting an edge -/

theorem succsOf_cutEdge (g : Cfg) (a c x : Nat) :
    succsOf (cutEdge g a c) x = if x = a then (succsOf g a).filter (· ≠ c) else succsOf g x := by
  simp only [succsOf, blockOf, cutEdge, List.getD_eq_getElem?_getD, List.getElem?_mapIdx]
  cases hx : g[x]? with
  | none =>
    by_cases hxa : x = a
    · subst hxa; simp [hx]; rfl
    · simp [hxa]
  | some blk =>
    by_cases hxa : x = a
    · subst hxa; simp [hx]
    · simp [hxa]

theorem consec_cons_iff {x y : Nat} {r : List Nat} {a c : Nat} :
    Consec (x :: y :: r) a c ↔ (x = a ∧ y = c) ∨ Consec (y :: r) a c := by
  constructor
  · rintro ⟨l, r', h⟩
    cases l with
    | nil =>
      simp only [List.nil_append, List.cons.injEq] at h
      exact Or.inl ⟨h.1, h.2.1⟩
    | cons z l' =>
      simp only [List.cons_append, List.cons.injEq] at h
      exact Or.inr ⟨l', r', h.2⟩
  · rintro (⟨rfl, rfl⟩ | h)
    · exact ⟨[], r, rfl⟩
    · exact consec_cons_of h

theorem walk_cut_of_avoid {g : Cfg} {a c : Nat} :
    ∀ p : List Nat, IsWalk g p → ¬ Consec p a c → IsWalk (cutEdge g a c) p := by
  intro p hw
  induction hw with
  | nil => intro _; exact .nil
  | single x => intro _; exact .single x
  | @cons x y rest hxy _ ih =>
    intro hn
    have h1 : ¬ (x = a ∧ y = c) := fun h => hn (consec_cons_iff.2 (Or.inl h))
    have h2 : ¬ Consec (y :: rest) a c := fun h => hn (consec_cons_iff.2 (Or.inr h))
    refine .cons ?_ (ih h2)
    rw [succsOf_cutEdge]
    by_cases hxa : x = a
    · subst hxa
      simp only [if_true, List.mem_filter]
      refine ⟨hxy, ?_⟩
      simp only [ne_eq, decide_not, Bool.not_eq_eq_eq_not, Bool.not_true, decide_eq_false_iff_not]
      intro hyc; exact h1 ⟨rfl, hyc⟩
    · simp [hxa, hxy]

theorem walk_of_cut {g : Cfg} {a c : Nat} :
    ∀ p : List Nat, IsWalk (cutEdge g a c) p → IsWalk g p ∧ ¬ Consec p a c := by
  intro p hw
  induction hw with
  | nil => exact ⟨.nil, by rintro ⟨l, r, h⟩; cases l <;> simp at h⟩
  | single x => exact ⟨.single x, by rintro ⟨l, r, h⟩; cases l with
      | nil => simp at h
      | cons z l' => cases l' <;> simp at h⟩
  | @cons x y rest hxy _ ih =>
    rw [succsOf_cutEdge] at hxy
    obtain ⟨ihw, ihn⟩ := ih
    by_cases hxa : x = a
    · subst hxa
      simp only [if_true, List.mem_filter] at hxy
      obtain ⟨hm, hne⟩ := hxy
      have hne' : y ≠ c := by simpa using hne
      refine ⟨.cons hm ihw, ?_⟩
      intro h
      rcases consec_cons_iff.1 h with ⟨_, hyc⟩ | h
      · exact hne' hyc
      · exact ihn h
    · simp only [hxa, if_false] at hxy
      refine ⟨.cons hxy ihw, ?_⟩
      intro h
      rcases consec_cons_iff.1 h with ⟨hx, _⟩ | h
      · exact hxa hx
      · exact ihn h

/-! ### polarity of validator conditions -/

theorem polarity_core (mem : Bool) (arg : VExpr) : ∀ (e : VExpr) (pol : Bool),
    isPredToG mem arg e = true → isValidatorCond e pol = true →
    ∃ k, IsValCall k e ∧ ∀ ρ : Env, verdict ρ e = some (pol == ρ k)
  | .call id pred isVal args, pol, _, hv => by
    simp only [isValidatorCond, Bool.and_eq_true] at hv
    obtain ⟨rfl, rfl⟩ := hv
    exact ⟨id, ⟨rfl, rfl⟩, fun ρ => by simp [verdict]⟩
  | .nilCheck _ x isEq, pol, hp, hv => by
    simp only [isValidatorCond, Bool.and_eq_true, beq_iff_eq] at hv
    obtain ⟨rfl, hv⟩ := hv
    have hp' : isPredToG mem arg x = true := by simpa [isPredToG] using hp
    obtain ⟨k, hk, hρ⟩ := polarity_core mem arg x true hp' hv
    refine ⟨k, hk, fun ρ => ?_⟩
    simp only [verdict, hρ ρ, Option.map_some]
    cases pol <;> cases ρ k <;> rfl
  | .not _ x, pol, hp, hv => by
    simp only [isValidatorCond] at hv
    have hp' : isPredToG mem arg x = true := by simpa [isPredToG] using hp
    obtain ⟨k, hk, hρ⟩ := polarity_core mem arg x (!pol) hp' hv
    refine ⟨k, hk, fun ρ => ?_⟩
    simp only [verdict, hρ ρ, Option.map_some]
    cases pol <;> cases ρ k <;> rfl
  | .extract _ t isLast, pol, hp, hv => by
    simp only [isValidatorCond] at hv
    simp only [isPredToG, Bool.and_eq_true] at hp
    obtain ⟨rfl, hp'⟩ := hp
    obtain ⟨k, hk, hρ⟩ := polarity_core mem arg t pol hp' hv
    exact ⟨k, hk, fun ρ => by simp [verdict, hρ ρ]⟩
  | .binOther _, _, _, hv => by simp [isValidatorCond] at hv
  | .load _ _, _, _, hv => by simp [isValidatorCond] at hv
  | .unOther _, _, _, hv => by simp [isValidatorCond] at hv
  | .fieldAddr _ _, _, _, hv => by simp [isValidatorCond] at hv
  | .makeIface _ _, _, _, hv => by simp [isValidatorCond] at hv
  | .leaf _, _, _, hv => by simp [isValidatorCond] at hv

/-! ### executions -/

theorem run_step_of_consec {g : Cfg} {tbl : CondTable} {a t : Nat} :
    ∀ (l : List Nat) (run : Run) (r : List Nat), run.map (·.1) = l ++ a :: t :: r → RunOK g tbl run →
      ∃ ρ, (a, ρ) ∈ run ∧ StepOK g tbl a ρ t := by
  intro l
  induction l with
  | nil =>
    intro run r hm hok
    match run, hm, hok with
    | (a', ρ) :: (t', ρ') :: rest, hm, hok =>
      simp only [List.map_cons, List.nil_append, List.cons.injEq] at hm
      obtain ⟨rfl, rfl, _⟩ := hm
      exact ⟨ρ, by simp, hok.1⟩
  | cons z l' ih =>
    intro run r hm hok
    match run, hm, hok with
    | x :: [], hm, _ =>
      simp only [List.map_cons, List.map_nil, List.cons_append, List.cons.injEq] at hm
      have := hm.2
      cases l' <;> simp at this
    | (x, ρx) :: (y, ρy) :: rest, hm, hok =>
      simp only [List.map_cons, List.cons_append, List.cons.injEq] at hm
      obtain ⟨ρ, hmem, hstep⟩ := ih ((y, ρy) :: rest) r (by simpa using hm.2) hok.2
      exact ⟨ρ, List.mem_cons_of_mem _ hmem, hstep⟩

/-! ### same data without the memory rules -/

theorem sameDataReg_sound : ∀ (n : Nat) (a b : VExpr), sameDataG false n a b = true → SameReg a b := by
  intro n
  induction n with
  | zero => intro a b h; simp [sameDataG] at h
  | succ n ih =>
    intro a b h
    unfold sameDataG at h
    by_cases hid : a.id = b.id
    · exact .same hid
    · simp only [hid, if_false, Bool.false_and, Bool.false_or, Bool.or_eq_true] at h
      rcases h with h | h
      · split at h
        · exact .extract (ih _ _ h)
        · cases h
      · split at h
        · exact .boxL (ih _ _ h)
        · split at h
          · exact .boxR (ih _ _ h)
          · cases h

theorem anyArg_reg {arg : VExpr} : ∀ (args : List VExpr), isPredToG.anyArg false arg args = true →
    ∃ a ∈ args, SameReg a arg
  | [], h => by simp [isPredToG.anyArg] at h
  | a :: as, h => by
    simp only [isPredToG.anyArg, Bool.or_eq_true] at h
    rcases h with h | h
    · exact ⟨a, by simp, sameDataReg_sound _ _ _ h⟩
    · obtain ⟨x, hx, hs⟩ := anyArg_reg as h
      exact ⟨x, List.mem_cons_of_mem _ hx, hs⟩

theorem isPredToReg_tests (arg : VExpr) : ∀ e : VExpr, isPredToG false arg e = true → TestsArg arg e
  | .call _ pred _ args, h => by
    simp only [isPredToG, Bool.and_eq_true] at h
    exact anyArg_reg args h.2
  | .nilCheck _ x _, h => by
    simp only [isPredToG] at h; exact isPredToReg_tests arg x h
  | .not _ x, h => by
    simp only [isPredToG] at h; exact isPredToReg_tests arg x h
  | .extract _ t _, h => by
    simp only [isPredToG, Bool.and_eq_true] at h; exact isPredToReg_tests arg t h.2
  | .binOther _, h => by simp [isPredToG] at h
  | .load _ _, h => by simp [isPredToG] at h
  | .unOther _, h => by simp [isPredToG] at h
  | .fieldAddr _ _, h => by simp [isPredToG] at h
  | .makeIface _ _, h => by simp [isPredToG] at h
  | .leaf _, h => by simp [isPredToG] at h

theorem valCallOn_of {k : Nat} {arg : VExpr} : ∀ e : VExpr, IsValCall k e → TestsArg arg e → IsValCallOn k arg e
  | .call _ _ _ _, h1, h2 => ⟨h1.1, h1.2, h2⟩
  | .nilCheck _ x _, h1, h2 => valCallOn_of x h1 h2
  | .not _ x, h1, h2 => valCallOn_of x h1 h2
  | .extract _ t _, h1, h2 => valCallOn_of t h1 h2
  | .binOther _, h1, _ => h1.elim
  | .load _ _, h1, _ => h1.elim
  | .unOther _, h1, _ => h1.elim
  | .fieldAddr _ _, h1, _ => h1.elim
  | .makeIface _ _, h1, _ => h1.elim
  | .leaf _, h1, _ => h1.elim

end Argot.PathCond
