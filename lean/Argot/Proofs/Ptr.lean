/-
Helper lemmas for C11 / C12: the invariant of the pointer machine under a closed result.

`Inv P R σ`:  every frame of every thread runs a reachable function, each of its registers is covered by
the points-to set of that register, each return will be covered in the frame below; every heap cell,
interface payload and closure environment slot is covered by the derived heap table / free-variable sets.
-/
import Argot.Spec.PtrMachine

namespace Argot.Ptr

/-! ### coverage -/

def CovL (v : Val) (L : List Label) : Prop := ∀ l, v.label = some l → l ∈ L

def Cov (v : Val) (S : Option (List Label)) : Prop := ∀ T, S = some T → CovL v T

theorem covL_nil (L : List Label) : CovL Val.nil L := by
  intro l h; simp [Val.label] at h

theorem cov_nil (S : Option (List Label)) : Cov Val.nil S := fun T _ => covL_nil T

theorem subL_iff {A B : List Label} : subL A B = true ↔ ∀ l ∈ A, l ∈ B := by
  simp [subL, List.all_eq_true]

theorem covL_sub {v : Val} {A B : List Label} (h : subL A B = true) (hv : CovL v A) : CovL v B :=
  fun l hl => subL_iff.1 h l (hv l hl)

theorem cov_some {v : Val} {A : List Label} : Cov v (some A) ↔ CovL v A :=
  ⟨fun h => h A rfl, fun h T hT => by cases hT; exact h⟩

theorem inclO_cov {v : Val} {a b : Option (List Label)} (h : inclO a b = true) (hv : Cov v a) : Cov v b := by
  cases b with
  | none => intro T hT; cases hT
  | some B =>
    cases a with
    | none => simp [inclO] at h
    | some A =>
      simp only [inclO] at h
      exact cov_some.2 (covL_sub h (cov_some.1 hv))

theorem memO_cov {v : Val} {l : Label} {S : Option (List Label)} (h : memO l S = true)
    (hv : ∀ l', v.label = some l' → l' = l) : Cov v S := by
  cases S with
  | none => intro T hT; cases hT
  | some A =>
    simp only [memO, List.contains_iff_mem] at h
    exact cov_some.2 fun l' hl' => (hv l' hl') ▸ h

theorem srcs_some {o : Option (List Label)} {k : List Label → Bool} (h : srcs o k = true) :
    ∃ S, o = some S ∧ k S = true := by
  cases o with
  | none => simp [srcs] at h
  | some S => exact ⟨S, rfl, h⟩

theorem zipAll_iff {α β : Type} {as : List α} {bs : List β} {p : α → β → Bool} :
    zipAll as bs p = true ↔ ∀ a b, (a, b) ∈ as.zip bs → p a b = true := by
  simp [zipAll, List.all_eq_true]

/-! ### invariants -/

def RegInv (R : Res) (fr : Frame) : Prop := ∀ r, Cov (fr.regs r) (R.pt fr.fn r)

structure MemInv (P : Prog) (R : Res) (m : Mem) : Prop where
  heap : ∀ o q, CovL (m.heap o q) (R.heap (o.site, absPath q))
  env : ∀ o g, o.site = Site.fn g → ∀ fv v, (fv, v) ∈ (P.fvs g).zip (m.env o) → Cov v (R.pt g fv)

/-- every `return` of the function of `fr` is covered in the result registers of a caller frame running `f'` -/
def RetOK (P : Prog) (R : Res) (fr : Frame) (f' : Nat) : Prop :=
  ∀ vs, Instr.ret vs ∈ P.code fr.fn → ∀ d v, (d, v) ∈ fr.dsts.zip vs →
    inclO (ptOp R fr.fn v) (R.pt f' d) = true

def FrameInv (R : Res) (fr : Frame) : Prop := R.reach fr.fn = true ∧ RegInv R fr

def StackInv (P : Prog) (R : Res) : List Frame → Prop
  | [] => True
  | [fr] => FrameInv R fr
  | fr :: caller :: rest => FrameInv R fr ∧ RetOK P R fr caller.fn ∧ StackInv P R (caller :: rest)

structure Inv (P : Prog) (R : Res) (σ : State) : Prop where
  threads : ∀ stk ∈ σ.threads, StackInv P R stk
  mem : MemInv P R σ.mem

theorem StackInv.head {P : Prog} {R : Res} {fr : Frame} {stk : List Frame}
    (h : StackInv P R (fr :: stk)) : FrameInv R fr := by
  cases stk with
  | nil => exact h
  | cons c rest => exact h.1

theorem StackInv.tail {P : Prog} {R : Res} {fr : Frame} {stk : List Frame}
    (h : StackInv P R (fr :: stk)) : StackInv P R stk := by
  cases stk with
  | nil => trivial
  | cons c rest => exact h.2.2

/-- replacing the top frame by one with the same function and result registers -/
theorem StackInv.replace {P : Prog} {R : Res} {fr fr' : Frame} {stk : List Frame}
    (h : StackInv P R (fr :: stk)) (hfn : fr'.fn = fr.fn) (hd : fr'.dsts = fr.dsts)
    (hreg : RegInv R fr') : StackInv P R (fr' :: stk) := by
  cases stk with
  | nil => exact ⟨hfn ▸ h.1, hreg⟩
  | cons c rest =>
    refine ⟨⟨hfn ▸ h.1.1, hreg⟩, ?_, h.2.2⟩
    intro vs hvs d v hvd
    rw [hfn] at hvs ⊢
    rw [hd] at hvd
    exact h.2.1 vs hvs d v hvd

/-! ### evaluation and register updates -/

theorem eval_cov {R : Res} {fr : Frame} (h : RegInv R fr) (x : Opnd) :
    Cov (eval fr x) (ptOp R fr.fn x) := by
  cases x with
  | reg r => exact h r
  | glob g =>
    refine cov_some.2 fun l hl => ?_
    simp [eval, Val.label, globObj, absPath] at hl
    simp [← hl]
  | fn f =>
    refine cov_some.2 fun l hl => ?_
    simp [eval, Val.label] at hl
    simp [← hl]
  | const => exact cov_nil _

theorem regInv_set {R : Res} {fr : Frame} (h : RegInv R fr) (r : Nat) (v : Val)
    (hv : Cov v (R.pt fr.fn r)) : RegInv R (fr.set r v) := by
  intro r'
  simp only [Frame.set]
  split
  · next e => exact e ▸ hv
  · exact h r'

theorem bind_cov {R : Res} (g : Nat) : ∀ (rs : List Nat) (vs : List Val) (ρ : Nat → Val),
    (∀ r, Cov (ρ r) (R.pt g r)) → (∀ r v, (r, v) ∈ rs.zip vs → Cov v (R.pt g r)) →
    ∀ r, Cov (bind rs vs ρ r) (R.pt g r)
  | [], _, ρ, hρ, _ => by simpa [bind] using hρ
  | _ :: _, [], ρ, hρ, _ => by simpa [bind] using hρ
  | r0 :: rs, v0 :: vs, ρ, hρ, hz => by
    simp only [bind]
    apply bind_cov g rs vs
    · intro r
      split
      · next e => exact e ▸ hz r0 v0 (by simp)
      · exact hρ r
    · intro r v hrv
      exact hz r v (by simp [hrv])

theorem label_ext (o : Obj) (p : List CSel) (cs : CSel) :
    (o.site, absPath (p ++ [cs])) = ext (o.site, absPath p) cs.abs := by
  simp [ext, absPath]

theorem label_Ext {o : Obj} {p q : List CSel} {s : List ASel} (h : Ext p s q) :
    (o.site, absPath q) = extP (o.site, absPath p) s := by
  obtain ⟨cs, hcs, rfl⟩ := h
  simp [extP, absPath, ← hcs]

/-- a pointer value is covered only if its label is in the set -/
theorem cov_ptr_mem {o : Obj} {p : List CSel} {S : List Label}
    (h : Cov (Val.ptr o p) (some S)) : (o.site, absPath p) ∈ S :=
  h S rfl _ rfl

theorem cov_fn_mem {g : Nat} {S : List Label} (h : Cov (Val.fn g) (some S)) : (Site.fn g, []) ∈ S :=
  h S rfl _ rfl

/-! ### memory updates -/

theorem memInv_setHeap {P : Prog} {R : Res} {m : Mem} (h : MemInv P R m) (o : Obj) (q : List CSel) (v : Val)
    (hv : CovL v (R.heap (o.site, absPath q))) : MemInv P R (m.setHeap o q v) := by
  refine ⟨?_, h.env⟩
  intro o' q'
  simp only [Mem.setHeap]
  split
  · next e => rw [e.1, e.2]; exact hv
  · exact h.heap o' q'

theorem memInv_setHeapMany {P : Prog} {R : Res} (o : Obj) : ∀ (cells : List (List CSel × Val)) {m : Mem},
    MemInv P R m → (∀ c ∈ cells, CovL c.2 (R.heap (o.site, absPath c.1))) → MemInv P R (m.setHeapMany o cells)
  | [], _, h, _ => h
  | c :: cs, _, h, hc => by
    simp only [Mem.setHeapMany]
    exact memInv_setHeapMany o cs (memInv_setHeap h o c.1 c.2 (hc c (by simp))) (fun c' hc' => hc c' (by simp [hc']))

theorem memInv_setEnv {P : Prog} {R : Res} {m : Mem} (h : MemInv P R m) (o : Obj) (vs : List Val)
    (hv : ∀ g, o.site = Site.fn g → ∀ fv v, (fv, v) ∈ (P.fvs g).zip vs → Cov v (R.pt g fv)) :
    MemInv P R (m.setEnv o vs) := by
  refine ⟨h.heap, ?_⟩
  intro o' g hs fv v hfv
  simp only [Mem.setEnv] at hfv
  split at hfv
  · next e => exact hv g (e ▸ hs) fv v hfv
  · exact h.env o' g hs fv v hfv

/-! ### using the criteria -/

theorem instrOK_of_closed {P : Prog} {R : Res} (hc : ptrClosed P R = true) {f : Nat} (hr : R.reach f = true)
    {i : Instr} (hi : i ∈ P.code f) : instrOK P R f i = true := by
  by_cases hf : f < P.funcs.size
  · simp only [ptrClosed, List.all_eq_true, List.mem_range] at hc
    have := hc f hf
    simp only [hr, Bool.not_true, Bool.false_or, List.all_eq_true] at this
    exact this i hi
  · exfalso
    simp only [Prog.code, Prog.func, Array.getD] at hi
    rw [dif_neg hf] at hi
    simp at hi

theorem cgInstrOK_of_closed {P : Prog} {R : Res} (hc : cgClosed P R = true) {f : Nat} (hr : R.reach f = true)
    {i : Instr} (hi : i ∈ P.code f) : cgInstrOK P R f i = true := by
  by_cases hf : f < P.funcs.size
  · simp only [cgClosed, Bool.and_eq_true, List.all_eq_true, List.mem_range] at hc
    have := hc.2 f hf
    simp only [hr, Bool.not_true, Bool.false_or, List.all_eq_true] at this
    exact this i hi
  · exfalso
    simp only [Prog.code, Prog.func, Array.getD] at hi
    rw [dif_neg hf] at hi
    simp at hi

theorem roots_reach {P : Prog} {R : Res} (hc : cgClosed P R = true) {g : Nat} (hg : g ∈ P.roots) :
    R.reach g = true := by
  simp only [cgClosed, Bool.and_eq_true, List.all_eq_true] at hc
  exact hc.1 g hg

/-! ### one instruction -/

theorem mem_zip_map {α β γ : Type} {f : β → γ} : ∀ {rs : List α} {xs : List β} {r : α} {v : γ},
    (r, v) ∈ rs.zip (xs.map f) → ∃ x, (r, x) ∈ rs.zip xs ∧ v = f x
  | [], _, _, _, h => by simp at h
  | _ :: _, [], _, _, h => by simp at h
  | r0 :: rs, x0 :: xs, r, v, h => by
    simp only [List.map_cons, List.zip_cons_cons, List.mem_cons, Prod.mk.injEq] at h
    rcases h with ⟨rfl, rfl⟩ | h
    · exact ⟨x0, by simp, rfl⟩
    · obtain ⟨x, hx, hv⟩ := mem_zip_map h
      exact ⟨x, by simp [hx], hv⟩

theorem mem_zip_map_of_mem {α β γ : Type} (f : β → γ) : ∀ {rs : List α} {xs : List β} {r : α} {x : β},
    (r, x) ∈ rs.zip xs → (r, f x) ∈ rs.zip (xs.map f)
  | [], _, _, _, h => by simp at h
  | _ :: _, [], _, _, h => by simp at h
  | r0 :: rs, x0 :: xs, r, x, h => by
    simp only [List.zip_cons_cons, List.mem_cons, Prod.mk.injEq] at h
    rcases h with ⟨rfl, rfl⟩ | h
    · simp
    · simp [mem_zip_map_of_mem f h]

section
variable {P : Prog} {R : Res}

/-- a local instruction keeps the frame's function and result registers and both invariants -/
theorem exec_next {fr fr' : Frame} {m m' : Mem} {i : Instr}
    (hp : instrOK P R fr.fn i = true) (hreg : RegInv R fr) (hmem : MemInv P R m)
    (h : Exec P fr m i (.next fr' m')) :
    fr'.fn = fr.fn ∧ fr'.dsts = fr.dsts ∧ RegInv R fr' ∧ MemInv P R m' := by
  cases h with
  | alloc r n id =>
    refine ⟨rfl, rfl, regInv_set hreg _ _ ?_, hmem⟩
    simp only [instrOK] at hp
    exact memO_cov hp (by intro l hl; simp [Val.label, absPath] at hl; exact hl.symm)
  | copy r x =>
    refine ⟨rfl, rfl, regInv_set hreg _ _ ?_, hmem⟩
    simp only [instrOK] at hp
    exact inclO_cov hp (eval_cov hreg x)
  | addr r x s o p cs he hcs =>
    refine ⟨rfl, rfl, regInv_set hreg _ _ ?_, hmem⟩
    simp only [instrOK] at hp
    obtain ⟨S, hS, hall⟩ := srcs_some hp
    have hx := eval_cov hreg x
    rw [he, hS] at hx
    have hl := cov_ptr_mem hx
    simp only [List.all_eq_true] at hall
    have := hall _ hl
    rw [← hcs, ← label_ext] at this
    exact memO_cov this (by intro l hl; simp [Val.label] at hl; exact hl.symm)
  | load r x s o p q he hq =>
    refine ⟨rfl, rfl, regInv_set hreg _ _ ?_, hmem⟩
    simp only [instrOK] at hp
    obtain ⟨S, hS, hall⟩ := srcs_some hp
    have hx := eval_cov hreg x
    rw [he, hS] at hx
    have hl := cov_ptr_mem hx
    simp only [List.all_eq_true] at hall
    have := hall _ hl
    rw [← label_Ext hq] at this
    exact inclO_cov this (cov_some.2 (hmem.heap o q))
  | store x s v o p q he hq =>
    refine ⟨rfl, rfl, hreg, memInv_setHeap hmem _ _ _ ?_⟩
    simp only [instrOK] at hp
    obtain ⟨S, hS, hp⟩ := srcs_some hp
    obtain ⟨V, hV, hall⟩ := srcs_some hp
    have hx := eval_cov hreg x
    rw [he, hS] at hx
    have hl := cov_ptr_mem hx
    simp only [List.all_eq_true] at hall
    have := hall _ hl
    rw [← label_Ext hq] at this
    have hv := eval_cov hreg v
    rw [hV] at hv
    exact covL_sub this (cov_some.1 hv)
  | hcopy x sx y sy only o o' p p' q q' he he' hq hq' honly =>
    refine ⟨rfl, rfl, hreg, memInv_setHeap hmem _ _ _ ?_⟩
    simp only [instrOK] at hp
    obtain ⟨S, hS, hp⟩ := srcs_some hp
    obtain ⟨Y, hY, hall⟩ := srcs_some hp
    have hx := eval_cov hreg x
    rw [he, hS] at hx
    have hl := cov_ptr_mem hx
    have hy := eval_cov hreg y
    rw [he', hY] at hy
    have hl' := cov_ptr_mem hy
    simp only [List.all_eq_true, Bool.or_eq_true] at hall
    have h1 := hall _ hl
    have h2 : ∀ ly ∈ Y, subL (R.heap (extP ly sy)) (R.heap (extP (o.site, absPath p) sx)) = true := by
      rcases h1 with h1 | h1
      · exfalso
        cases only with
        | none => simp at h1
        | some st => simp [honly st rfl] at h1
      · exact h1
    have h3 := h2 _ hl'
    have e1 := label_Ext (o := o) hq
    have e2 := label_Ext (o := o') hq'
    rw [← e1, ← e2] at h3
    exact covL_sub h3 (hmem.heap o' q')
  | mkiface r n t pay id cells hcells =>
    simp only [instrOK, Bool.and_eq_true] at hp
    refine ⟨rfl, rfl, regInv_set hreg _ _ ?_, memInv_setHeapMany _ cells hmem ?_⟩
    · exact memO_cov hp.1 (by intro l hl; simp [Val.label, absPath] at hl; exact hl.symm)
    · have hall := hp.2
      clear hp
      induction pay generalizing cells with
      | nil =>
        cases cells with
        | nil => intro c hc; simp at hc
        | cons c cs => simp [PayCells] at hcells
      | cons py pay ih =>
        cases cells with
        | nil => simp [PayCells] at hcells
        | cons c cs =>
          simp only [PayCells] at hcells
          obtain ⟨⟨cs', hcs', hc1⟩, hc2, hrest⟩ := hcells
          simp only [List.all_cons, Bool.and_eq_true] at hall
          intro c' hc'
          rcases List.mem_cons.1 hc' with rfl | hc'
          · obtain ⟨Y, hY, hsub⟩ := srcs_some hall.1
            have hx := eval_cov hreg py.2
            rw [hY] at hx
            rw [hc2, hc1]
            have : absPath (CSel.pay :: cs') = ASel.pay :: py.1 := by simp [absPath, CSel.abs, ← hcs']
            rw [this]
            exact covL_sub hsub (cov_some.1 hx)
          · exact ih cs hrest hall.2 c' hc'
  | tassert r x t π o n cs he hs hcs =>
    refine ⟨rfl, rfl, regInv_set hreg _ _ ?_, hmem⟩
    simp only [instrOK] at hp
    obtain ⟨S, hS, hall⟩ := srcs_some hp
    have hx := eval_cov hreg x
    rw [he, hS] at hx
    have hl := cov_ptr_mem hx
    simp only [List.all_eq_true] at hall
    have := hall _ hl
    simp only [hs, absPath, List.map_nil, bne_self_eq_false, Bool.false_or] at this
    have hpay := hmem.heap o (CSel.pay :: cs)
    have e : absPath (CSel.pay :: cs) = ASel.pay :: π := by simp [absPath, CSel.abs, ← hcs]
    rw [hs, e] at hpay
    exact inclO_cov this (cov_some.2 hpay)
  | tfilter r x ts o n t he hs ht =>
    refine ⟨rfl, rfl, regInv_set hreg _ _ ?_, hmem⟩
    simp only [instrOK] at hp
    obtain ⟨S, hS, hall⟩ := srcs_some hp
    have hx := eval_cov hreg x
    rw [he, hS] at hx
    have hl := cov_ptr_mem hx
    simp only [List.all_eq_true] at hall
    have := hall _ hl
    have hc : ts.contains t = true := List.contains_iff_mem.2 ht
    simp only [hs, absPath, List.map_nil, hc, Bool.not_true, Bool.false_or] at this
    exact memO_cov this (by intro l hl; simp [Val.label, absPath, hs] at hl; exact hl.symm)
  | mkclosure r g bs id =>
    simp only [instrOK, Bool.and_eq_true] at hp
    refine ⟨rfl, rfl, regInv_set hreg _ _ ?_, memInv_setEnv hmem _ _ ?_⟩
    · exact memO_cov hp.1 (by intro l hl; simp [Val.label, absPath] at hl; exact hl.symm)
    · intro g' hg' fv v hfv
      simp only [Site.fn.injEq] at hg'
      subst hg'
      obtain ⟨b, hb, rfl⟩ := mem_zip_map hfv
      exact inclO_cov (zipAll_iff.1 hp.2 fv b hb) (eval_cov hreg b)

/-- the edge part of the call rule -/
theorem edgeOK_iff {f c g : Nat} : edgeOK P R f c g = true ↔
    R.cg f c g = true ∧ R.reach g = true ∧ g < P.funcs.size := by
  simp [edgeOK, and_assoc]

theorem bind_nil_right (rs : List Nat) (ρ : Nat → Val) : bind rs [] ρ = ρ := by
  cases rs <;> rfl

/-- a call instruction: the event is a call-graph edge, the callee frame satisfies the frame invariant, and
(for a non-spawning call) its returns are covered in the caller -/
theorem exec_call {fr nf : Frame} {m : Mem} {i : Instr} {spawn : Bool} {ev : Event}
    (hp : instrOK P R fr.fn i = true) (hc : cgInstrOK P R fr.fn i = true)
    (hreg : RegInv R fr) (hmem : MemInv P R m)
    (h : Exec P fr m i (.call nf spawn ev)) :
    ev.1 = fr.fn ∧ ev.2.2 = nf.fn ∧ R.cg ev.1 ev.2.1 ev.2.2 = true ∧ FrameInv R nf ∧
      (spawn = false → RetOK P R nf fr.fn) := by
  cases h with
  | call c callee args dsts spawn g captured actuals hres =>
    simp only [cgInstrOK] at hc
    simp only [instrOK, List.all_eq_true, List.mem_range, Bool.or_eq_true, Bool.not_eq_true', Bool.and_eq_true] at hp
    -- what is needed from the resolution: the edge, the covered actuals and captured values
    have key : edgeOK P R fr.fn c g = true ∧
        (argsOK P R fr.fn g callee args = true →
          (∀ r v, (r, v) ∈ (P.params g).zip actuals → Cov v (R.pt g r)) ∧
          (∀ r v, (r, v) ∈ (P.fvs g).zip captured → Cov v (R.pt g r))) := by
      cases hres with
      | static g =>
        refine ⟨hc, fun ha => ⟨?_, by simp⟩⟩
        simp only [argsOK, bindOK] at ha
        intro r v hrv
        obtain ⟨a, ha', rfl⟩ := mem_zip_map hrv
        exact inclO_cov (zipAll_iff.1 ha r _ (mem_zip_map_of_mem (ptOp R fr.fn) ha')) (eval_cov hreg a)
      | func x g he =>
        simp only [calleeOK] at hc
        obtain ⟨S, hS, hall⟩ := srcs_some hc
        have hx := eval_cov hreg x
        rw [he, hS] at hx
        simp only [List.all_eq_true] at hall
        refine ⟨hall _ (cov_fn_mem hx), fun ha => ⟨?_, by simp⟩⟩
        simp only [argsOK, bindOK] at ha
        intro r v hrv
        obtain ⟨a, ha', rfl⟩ := mem_zip_map hrv
        exact inclO_cov (zipAll_iff.1 ha r _ (mem_zip_map_of_mem (ptOp R fr.fn) ha')) (eval_cov hreg a)
      | closure x o g he hs =>
        simp only [calleeOK] at hc
        obtain ⟨S, hS, hall⟩ := srcs_some hc
        have hx := eval_cov hreg x
        rw [he, hS] at hx
        have hl := cov_ptr_mem hx
        simp only [List.all_eq_true] at hall
        have := hall _ hl
        simp only [hs, absPath, List.map_nil] at this
        refine ⟨this, fun ha => ⟨?_, hmem.env o g hs⟩⟩
        simp only [argsOK, bindOK] at ha
        intro r v hrv
        obtain ⟨a, ha', rfl⟩ := mem_zip_map hrv
        exact inclO_cov (zipAll_iff.1 ha r _ (mem_zip_map_of_mem (ptOp R fr.fn) ha')) (eval_cov hreg a)
      | invoke x mth o n t g paths cells he hs hm hcells =>
        simp only [calleeOK] at hc
        obtain ⟨S, hS, hall⟩ := srcs_some hc
        have hx := eval_cov hreg x
        rw [he, hS] at hx
        have hl := cov_ptr_mem hx
        simp only [List.all_eq_true] at hall
        have := hall _ hl
        simp only [hs, absPath, List.map_nil, hm] at this
        refine ⟨this, fun ha => ⟨?_, by simp⟩⟩
        simp only [argsOK] at ha
        obtain ⟨S', hS', hall'⟩ := srcs_some ha
        rw [hS] at hS'
        cases hS'
        simp only [List.all_eq_true] at hall'
        have h0 := hall' _ hl
        simp only [hs, absPath, List.map_nil, hm, if_true, bindOK] at h0
        -- both lists are images of one list of sources: payload cells, then argument operands
        let srcL : List (List CSel ⊕ Opnd) := cells.map Sum.inl ++ args.map Sum.inr
        let valOf : List CSel ⊕ Opnd → Val := fun s =>
          match s with
          | .inl cs => m.heap o (CSel.pay :: cs)
          | .inr a => eval fr a
        let ptOf : List CSel ⊕ Opnd → Option (List Label) := fun s =>
          match s with
          | .inl cs => some (R.heap (Site.iface n t, ASel.pay :: cs.map CSel.abs))
          | .inr a => ptOp R fr.fn a
        have e1 : (cells.map fun cs => m.heap o (CSel.pay :: cs)) ++ args.map (eval fr) = srcL.map valOf := by
          simp [srcL, valOf, List.map_append, List.map_map, Function.comp_def]
        have e2 : (paths.map fun π => some (R.heap (Site.iface n t, ASel.pay :: π))) ++ args.map (ptOp R fr.fn)
            = srcL.map ptOf := by
          simp [srcL, ptOf, ← hcells, absPath, List.map_append, List.map_map, Function.comp_def]
        rw [e2] at h0
        intro r v hrv
        rw [e1] at hrv
        obtain ⟨src, hsrc, rfl⟩ := mem_zip_map hrv
        have hin := zipAll_iff.1 h0 r _ (mem_zip_map_of_mem ptOf hsrc)
        cases src with
        | inl cs =>
          have hpay := hmem.heap o (CSel.pay :: cs)
          have e : absPath (CSel.pay :: cs) = ASel.pay :: cs.map CSel.abs := by simp [absPath, CSel.abs]
          rw [hs, e] at hpay
          exact inclO_cov hin (cov_some.2 hpay)
        | inr a => exact inclO_cov hin (eval_cov hreg a)
    obtain ⟨hedge, hbind⟩ := key
    obtain ⟨hcg, hreach, hlt⟩ := edgeOK_iff.1 hedge
    have hrule := hp g hlt
    rcases hrule with hrule | hrule
    · rw [hcg] at hrule; cases hrule
    obtain ⟨hargs, hcap⟩ := hbind hrule.1
    refine ⟨rfl, rfl, hcg, ⟨hreach, ?_⟩, ?_⟩
    · intro r
      simp only [newFrame]
      apply bind_cov g _ _ _ _ hcap
      intro r
      apply bind_cov g _ _ _ _ hargs
      intro r
      exact cov_nil _
    · intro hsp
      subst hsp
      simp only [Bool.false_eq_true, false_or] at hrule
      intro vs hvs d v hdv
      simp only [newFrame] at hvs hdv
      have hret := hrule.2
      simp only [retOK, List.all_eq_true] at hret
      have := hret _ hvs
      simp only at this
      exact zipAll_iff.1 this d v (by simpa using hdv)

theorem exec_ret {fr : Frame} {m : Mem} {i : Instr} {vals : List Val}
    (h : Exec P fr m i (.ret vals)) : ∃ vs, i = .ret vs ∧ vals = vs.map (eval fr) := by
  cases h with
  | ret vs => exact ⟨vs, rfl, rfl⟩

/-! ### one thread step, one machine step, all reachable states -/

theorem tstep_inv (hpc : ptrClosed P R = true) (hcc : cgClosed P R = true)
    {stk stk' : List Frame} {m m' : Mem} {ev : Option Event} {sp : Option Frame}
    (hs : StackInv P R stk) (hm : MemInv P R m) (h : TStep P stk m ev stk' m' sp) :
    StackInv P R stk' ∧ MemInv P R m' ∧ (∀ nf, sp = some nf → StackInv P R [nf]) ∧
      (∀ e, ev = some e → R.cg e.1 e.2.1 e.2.2 = true ∧ ∃ fr ∈ stk, e.1 = fr.fn) := by
  cases h with
  | next fr stk m i fr' m' hi he =>
    have hf := hs.head
    obtain ⟨h1, h2, h3, h4⟩ := exec_next (instrOK_of_closed hpc hf.1 hi) hf.2 hm he
    exact ⟨hs.replace h1 h2 h3, h4, by simp, by simp⟩
  | call fr stk m i nf e hi he =>
    have hf := hs.head
    obtain ⟨h1, h2, h3, h4, h5⟩ :=
      exec_call (instrOK_of_closed hpc hf.1 hi) (cgInstrOK_of_closed hcc hf.1 hi) hf.2 hm he
    refine ⟨⟨h4, h5 rfl, hs⟩, hm, by simp, ?_⟩
    intro e' he'
    cases he'
    exact ⟨h3, fr, by simp, h1⟩
  | spawn fr stk m i nf e hi he =>
    have hf := hs.head
    obtain ⟨h1, h2, h3, h4, h5⟩ :=
      exec_call (instrOK_of_closed hpc hf.1 hi) (cgInstrOK_of_closed hcc hf.1 hi) hf.2 hm he
    refine ⟨hs, hm, ?_, ?_⟩
    · intro nf' hnf; cases hnf; exact h4
    · intro e' he'
      cases he'
      exact ⟨h3, fr, by simp, h1⟩
  | ret fr caller stk m i vals hi he =>
    obtain ⟨vs, rfl, rfl⟩ := exec_ret he
    obtain ⟨hf, hret, hrest⟩ := hs
    refine ⟨hrest.replace rfl rfl ?_, hm, by simp, by simp⟩
    intro r
    simp only [Frame.setMany]
    apply bind_cov caller.fn _ _ _ hrest.head.2
    intro d v hdv
    obtain ⟨x, hx, rfl⟩ := mem_zip_map hdv
    exact inclO_cov (hret vs hi d x hx) (eval_cov hf.2 x)
  | exit fr m i vals hi he => exact ⟨trivial, hm, by simp, by simp⟩

theorem step_inv (hpc : ptrClosed P R = true) (hcc : cgClosed P R = true)
    {σ σ' : State} {ev : Option Event} (hI : Inv P R σ) (h : Step P σ ev σ') :
    Inv P R σ' ∧ (∀ e, ev = some e → R.cg e.1 e.2.1 e.2.2 = true ∧ R.reach e.1 = true ∧ R.reach e.2.2 = true) := by
  cases h with
  | mk pre post stk stk' m m' ev sp ht =>
    have hstk : StackInv P R stk := hI.threads stk (by simp)
    obtain ⟨h1, h2, h3, h4⟩ := tstep_inv hpc hcc hstk hI.mem ht
    refine ⟨⟨?_, h2⟩, ?_⟩
    · intro s hsm
      rcases List.mem_append.1 hsm with hsm | hsm
      · rcases List.mem_append.1 hsm with hsm | hsm
        · exact hI.threads s (by simp [hsm])
        · rcases List.mem_cons.1 hsm with rfl | hsm
          · exact h1
          · exact hI.threads s (by simp [hsm])
      · obtain ⟨nf, hnf, rfl⟩ := List.mem_map.1 hsm
        exact h3 nf (by simpa using hnf)
    · intro e he
      obtain ⟨hcg, fr, hfr, hfn⟩ := h4 e he
      refine ⟨hcg, ?_, ?_⟩
      · -- the caller frame is in the old stack, whose frames run reachable functions
        have : ∀ (l : List Frame), StackInv P R l → ∀ fr ∈ l, R.reach fr.fn = true := by
          intro l
          induction l with
          | nil => intro _ fr hfr; simp at hfr
          | cons a l ih =>
            intro hl fr hfr
            rcases List.mem_cons.1 hfr with rfl | hfr
            · exact hl.head.1
            · exact ih hl.tail fr hfr
        rw [hfn]; exact this stk hstk fr hfr
      · -- the callee is reachable: it is the function of a frame of the new configuration
        cases ht with
        | call fr0 stk0 m0 i nf e0 hi he0 =>
          cases he
          have hf := hstk.head
          obtain ⟨_, h2', _, h4', _⟩ :=
            exec_call (instrOK_of_closed hpc hf.1 hi) (cgInstrOK_of_closed hcc hf.1 hi) hf.2 hI.mem he0
          rw [h2']; exact h4'.1
        | spawn fr0 stk0 m0 i nf e0 hi he0 =>
          cases he
          have hf := hstk.head
          obtain ⟨_, h2', _, h4', _⟩ :=
            exec_call (instrOK_of_closed hpc hf.1 hi) (cgInstrOK_of_closed hcc hf.1 hi) hf.2 hI.mem he0
          rw [h2']; exact h4'.1
        | next => cases he
        | ret => cases he
        | exit => cases he

theorem init_inv (hcc : cgClosed P R = true) : Inv P R (initState P) := by
  refine ⟨?_, ⟨fun _ _ => covL_nil _, ?_⟩⟩
  · intro stk hstk
    simp only [initState, List.mem_map] at hstk
    obtain ⟨g, hg, rfl⟩ := hstk
    exact ⟨roots_reach hcc hg, fun _ => cov_nil _⟩
  · intro o g _ fv v h
    simp [initState, emptyMem] at h

theorem reachable_inv (hpc : ptrClosed P R = true) (hcc : cgClosed P R = true)
    {σ : State} (h : Reachable P σ) : Inv P R σ := by
  induction h with
  | init => exact init_inv hcc
  | step _ hs ih => exact (step_inv hpc hcc ih hs).1

theorem stackInv_frames : ∀ (l : List Frame), StackInv P R l → ∀ fr ∈ l, FrameInv R fr
  | [], _, fr, hfr => by simp at hfr
  | a :: l, hl, fr, hfr => by
    rcases List.mem_cons.1 hfr with rfl | hfr
    · exact hl.head
    · exact stackInv_frames l hl.tail fr hfr

end

end Argot.Ptr
