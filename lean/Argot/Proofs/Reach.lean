/- Helper lemmas for C18 (reachability). Property theorems live in Argot/Props/C18.lean. -/
import Argot.Spec.Reach

namespace Argot.Reach
open Argot

/-! ### the generic closure theorem specialised to key = id -/

theorem run_id_mem {α : Type} [DecidableEq α] (succ : α → List α) (Pr : α → Prop)
    (hsucc : ∀ a, Pr a → ∀ a' ∈ succ a, Pr a') (K : List α) (hK : ∀ a, Pr a → a ∈ K)
    {roots : List α} (hroot : ∀ a ∈ roots, Pr a) {fuel : Nat} (hfuel : roots.length + K.length ≤ fuel)
    (k : α) :
    k ∈ (Closure.run id succ fuel roots).visited ↔ Closure.Reach (fun a b => b ∈ succ a) roots k := by
  have h := Closure.run_eq_closure id succ
    (fun a b hab a' ha' => by
      have e : a = b := hab
      subst e
      exact ⟨a', ha', rfl⟩)
    Pr hsucc K hK hroot hfuel k
  have hv : ∀ l : List α, l.map id = l := fun l => by simp
  rw [hv, hv] at h
  rw [h]
  constructor
  · intro hr
    refine Closure.Reach.mono (roots' := roots) (fun _ hk => hk) ?_ hr
    rintro a b ⟨x, hx, y, hy, hyb⟩
    have e1 : x = a := hx
    have e2 : y = b := hyb
    subst e1; subst e2
    exact hy
  · intro hr
    refine Closure.Reach.mono (roots' := roots) (fun _ hk => hk) ?_ hr
    intro a b hab
    exact ⟨a, rfl, b, hab, rfl⟩

/-! ### well-formedness, unpacked -/

theorem default_instrs : (default : Fn).instrs = [] := rfl
theorem default_anon : (default : Fn).anon = [] := rfl
theorem default_ops : (default : Instr).ops = [] := rfl

theorem fnAt_mem {P : Prog} {f : Nat} (h : f < P.fns.length) : fnAt P f ∈ P.fns := by
  unfold fnAt
  rw [List.getD_eq_getElem?_getD, List.getElem?_eq_getElem h]
  exact List.getElem_mem h

theorem fnAt_default {P : Prog} {f : Nat} (h : ¬ f < P.fns.length) : fnAt P f = default := by
  unfold fnAt
  rw [List.getD_eq_getElem?_getD, List.getElem?_eq_none (by omega)]
  rfl

theorem fnAt_instr_wf {P : Prog} (hw : wf P = true) (f : Nat) {ins : Instr} (hi : ins ∈ (fnAt P f).instrs) :
    instrWf P.fns.length (fnAt P f) ins = true := by
  by_cases hf : f < P.fns.length
  · simp only [wf, List.all_eq_true, Bool.and_eq_true] at hw
    exact (hw _ (fnAt_mem hf)).2 ins hi
  · rw [fnAt_default hf, default_instrs] at hi; simp at hi

theorem fnAt_anon_lt {P : Prog} (hw : wf P = true) (f : Nat) {g : Nat} (hg : g ∈ (fnAt P f).anon) :
    g < P.fns.length := by
  by_cases hf : f < P.fns.length
  · simp only [wf, List.all_eq_true, Bool.and_eq_true, decide_eq_true_eq] at hw
    exact (hw _ (fnAt_mem hf)).1 g hg
  · rw [fnAt_default hf, default_anon] at hg; simp at hg

theorem getD_instr_cases (f : Fn) (j : Nat) :
    f.instrs.getD j default ∈ f.instrs ∨ f.instrs.getD j default = default := by
  by_cases hj : j < f.instrs.length
  · left
    rw [List.getD_eq_getElem?_getD, List.getElem?_eq_getElem hj]
    exact List.getElem_mem hj
  · right
    rw [List.getD_eq_getElem?_getD, List.getElem?_eq_none (by omega)]
    rfl

theorem instrWf_op {n : Nat} {f : Fn} {ins : Instr} (h : instrWf n f ins = true) {o : String × VRef}
    (ho : o ∈ ins.ops) : refWf n f.instrs.length o.2 = true ∧
      (∀ g, o.2 = .fn g → canHoldFunc.contains (ins.kind, o.1) = true) := by
  simp only [instrWf, Bool.and_eq_true, List.all_eq_true] at h
  have := h.1.1 o ho
  refine ⟨this.1, ?_⟩
  intro g hg
  have h2 := this.2
  rw [hg] at h2
  exact h2

theorem instrWf_conv {n : Nat} {f : Fn} {ins : Instr} (h : instrWf n f ins = true) {m : MkIface}
    (hm : ins.conv = some m) : (ins.kind == "MakeInterface") = true ∧ ∀ e ∈ m.mset, e.2 < n := by
  simp only [instrWf, Bool.and_eq_true, List.all_eq_true] at h
  have h2 := h.1.2
  rw [hm] at h2
  simp only [Bool.and_eq_true, List.all_eq_true, decide_eq_true_eq] at h2
  exact h2

theorem instrWf_call {n : Nat} {f : Fn} {ins : Instr} (h : instrWf n f ins = true) {c : CallInfo}
    (hc : ins.call = some c) (hi : c.invoke = true) : c.jmethods.contains c.method = true := by
  simp only [instrWf, Bool.and_eq_true] at h
  have h2 := h.2
  rw [hc] at h2
  simpa [hi] using h2

/-! ### the value traversal -/

def NodeOk (P : Prog) (f : Fn) : VNode → Prop
  | .instr i => i < f.instrs.length
  | .fn g => g < P.fns.length

def allNodes (P : Prog) (f : Fn) : List VNode :=
  (List.range f.instrs.length).map .instr ++ (List.range P.fns.length).map .fn

theorem allNodes_length (P : Prog) (f : Fn) : (allNodes P f).length = f.instrs.length + P.fns.length := by
  simp [allNodes]

theorem nodeOk_mem {P : Prog} {f : Fn} {v : VNode} (h : NodeOk P f v) : v ∈ allNodes P f := by
  cases v with
  | instr i => simp [allNodes]; exact h
  | fn g => simp [allNodes]; exact h

theorem mem_visitedOps {tab : List (String × String)} {ins : Instr} {v : VNode} :
    v ∈ visitedOps tab ins ↔ ∃ o ∈ ins.ops, tab.contains (ins.kind, o.1) = true ∧ v ∈ nodeOf o.2 := by
  simp only [visitedOps, List.mem_flatMap, List.mem_filter]
  constructor
  · rintro ⟨o, ⟨ho, ht⟩, hv⟩; exact ⟨o, ho, ht, hv⟩
  · rintro ⟨o, ho, ht, hv⟩; exact ⟨o, ⟨ho, ht⟩, hv⟩

theorem visitedOps_ok {P : Prog} {f : Fn} {ins : Instr} (hw : instrWf P.fns.length f ins = true)
    {tab : List (String × String)} {v : VNode} (hv : v ∈ visitedOps tab ins) : NodeOk P f v := by
  obtain ⟨o, ho, -, hn⟩ := mem_visitedOps.1 hv
  have := (instrWf_op hw ho).1
  cases hr : o.2 with
  | instr i => rw [hr] at hn this; simp [nodeOf] at hn; subst hn; simpa [refWf, NodeOk] using this
  | fn g => rw [hr] at hn this; simp [nodeOf] at hn; subst hn; simpa [refWf, NodeOk] using this
  | other => rw [hr] at hn; simp [nodeOf] at hn

theorem vroots_ok {T : Tables} {P : Prog} (hw : wf P = true) (f : Nat) {v : VNode}
    (hv : v ∈ vroots T (fnAt P f)) : NodeOk P (fnAt P f) v := by
  simp only [vroots, List.mem_flatMap] at hv
  obtain ⟨ins, hi, hv⟩ := hv
  exact visitedOps_ok (fnAt_instr_wf hw f hi) hv

theorem vsucc_ok {T : Tables} {P : Prog} (hw : wf P = true) (f : Nat) {a a' : VNode}
    (_ : NodeOk P (fnAt P f) a) (ha' : a' ∈ vsucc T P (fnAt P f) a) : NodeOk P (fnAt P f) a' := by
  cases a with
  | instr i =>
    simp only [vsucc] at ha'
    rcases getD_instr_cases (fnAt P f) i with hm | hd
    · exact visitedOps_ok (fnAt_instr_wf hw f hm) ha'
    · rw [hd] at ha'
      obtain ⟨o, ho, -⟩ := mem_visitedOps.1 ha'
      rw [default_ops] at ho; simp at ho
  | fn g =>
    simp only [vsucc] at ha'
    split at ha'
    · simp only [List.mem_map] at ha'
      obtain ⟨h, hh, rfl⟩ := ha'
      exact fnAt_anon_lt hw g hh
    · simp at ha'

/-- the functions reported by the second loop are exactly the function nodes reachable in the operand
graph from the visited operands of the instructions -/
theorem mem_valueFns_iff {T : Tables} {P : Prog} (hw : wf P = true) (f g : Nat) :
    g ∈ valueFns T P (fnAt P f) ↔ (T.instrLoop = true ∧ T.valueActionFn = true) ∧
      Closure.Reach (fun a b => b ∈ vsucc T P (fnAt P f) a) (vroots T (fnAt P f)) (.fn g) := by
  unfold valueFns
  by_cases hT : (T.instrLoop && T.valueActionFn) = true
  · have hT' : T.instrLoop = true ∧ T.valueActionFn = true := by simpa using hT
    rw [if_pos hT]
    have hm := run_id_mem (vsucc T P (fnAt P f)) (NodeOk P (fnAt P f))
      (fun a ha a' ha' => vsucc_ok hw f ha ha') (allNodes P (fnAt P f)) (fun a ha => nodeOk_mem ha)
      (roots := vroots T (fnAt P f)) (fun a ha => vroots_ok hw f ha)
      (fuel := vfuel T P (fnAt P f)) (by rw [allNodes_length]; unfold vfuel; omega) (.fn g)
    simp only [List.mem_filterMap]
    constructor
    · rintro ⟨v, hv, hf⟩
      cases v with
      | instr i => simp [fnOf] at hf
      | fn g' => simp [fnOf] at hf; subst hf; exact ⟨hT', hm.1 hv⟩
    · rintro ⟨-, hr⟩
      exact ⟨.fn g, hm.2 hr, rfl⟩
  · rw [if_neg hT]
    constructor
    · intro h; simp at h
    · rintro ⟨h, -⟩; exact absurd (by simpa using h) hT

theorem reach_nodeOk {T : Tables} {P : Prog} (hw : wf P = true) (f : Nat) {v : VNode}
    (h : Closure.Reach (fun a b => b ∈ vsucc T P (fnAt P f) a) (vroots T (fnAt P f)) v) :
    NodeOk P (fnAt P f) v :=
  Closure.Reach.least (NodeOk P (fnAt P f)) (fun _ hk => vroots_ok hw f hk)
    (fun _ _ hk hs => vsucc_ok hw f hk hs) h

/-! ### findCallees stays inside AllFunctions -/

theorem mem_opsAt {ins : Instr} {fld : String} {v : VRef} (h : v ∈ opsAt ins fld) : (fld, v) ∈ ins.ops := by
  simp only [opsAt, List.mem_map, List.mem_filter, beq_iff_eq] at h
  obtain ⟨o, ⟨ho, hf⟩, rfl⟩ := h
  rw [← hf]; exact ho

theorem mem_ifaceCallees {P : Prog} {m : MkIface} {g : Nat} (h : g ∈ ifaceCallees P m) :
    ∃ e ∈ m.mset, e.2 = g := by
  unfold ifaceCallees at h
  simp only at h
  split at h
  · simp only [List.mem_map] at h; exact h
  · simp only [List.mem_map, List.mem_filter] at h
    obtain ⟨e, ⟨he, -⟩, rfl⟩ := h; exact ⟨e, he, rfl⟩

theorem mem_findCallees {T : Tables} {P : Prog} {f g : Nat} :
    g ∈ findCallees T P f ↔
      (∃ ins ∈ (fnAt P f).instrs, g ∈ goTargetsOf T (fnAt P f) ins ∨ g ∈ ifaceTargetsOf T P ins) ∨
      g ∈ valueFns T P (fnAt P f) := by
  simp only [findCallees, List.mem_append, List.mem_flatMap]

theorem findCallees_lt {T : Tables} {P : Prog} (hw : wf P = true) {f g : Nat}
    (h : g ∈ findCallees T P f) : g < P.fns.length := by
  rcases mem_findCallees.1 h with ⟨ins, hi, hg | hg⟩ | hg
  · have hiw := fnAt_instr_wf hw f hi
    unfold goTargetsOf at hg
    split at hg
    · simp only [List.mem_flatMap] at hg
      obtain ⟨v, hv, hg⟩ := hg
      have hop := mem_opsAt hv
      cases v with
      | fn g' =>
        simp only at hg
        split at hg
        · simp at hg; subst hg
          simpa [refWf] using (instrWf_op hiw hop).1
        · simp at hg
      | instr j =>
        simp only at hg
        split at hg
        · simp only [List.mem_flatMap] at hg
          obtain ⟨w, hw', hg⟩ := hg
          rcases getD_instr_cases (fnAt P f) j with hm | hd
          · have hmw := fnAt_instr_wf hw f hm
            have hop2 := mem_opsAt hw'
            cases w with
            | fn g'' => simp at hg; subst hg; simpa [refWf] using (instrWf_op hmw hop2).1
            | instr _ => simp at hg
            | other => simp at hg
          · rw [hd] at hw'
            have := mem_opsAt hw'
            rw [default_ops] at this; simp at this
        · simp at hg
      | other => simp at hg
    · simp at hg
  · have hiw := fnAt_instr_wf hw f hi
    unfold ifaceTargetsOf at hg
    split at hg
    · rename_i m hm
      split at hg
      · obtain ⟨e, he, rfl⟩ := mem_ifaceCallees hg
        exact (instrWf_conv hiw hm).2 e he
      · simp at hg
    · simp at hg
  · have := reach_nodeOk hw f ((mem_valueFns_iff hw f g).1 hg).2
    exact this

/-- the outer worklist: membership in `closure` is reachability along `Callee` -/
theorem mem_closure_iff {T : Tables} {P : Prog} (hw : wf P = true) {roots : List Nat}
    (hr : ∀ r ∈ roots, r < P.fns.length) (k : Nat) :
    k ∈ closure T P roots ↔ Closure.Reach (Callee T P) roots k := by
  unfold closure
  exact run_id_mem (findCallees T P) (· < P.fns.length) (fun _ _ _ ha' => findCallees_lt hw ha')
    (List.range P.fns.length) (fun a ha => List.mem_range.2 ha) hr
    (by simp [fuel]) k

/-! ### entry points -/

theorem entryPoints_lt (P : Prog) (a b : Bool) : ∀ r ∈ entryPoints P a b, r < P.fns.length := by
  intro r hr
  simp only [entryPoints, List.mem_filter, List.mem_range] at hr
  exact hr.1

theorem isEntry_mono {a b a' b' : Bool} (ha : a' = true → a = true) (hb : b' = true → b = true) (f : Fn)
    (h : isEntry a b f = true) : isEntry a' b' f = true := by
  unfold isEntry at *
  cases a <;> cases b <;> cases a' <;> cases b' <;> simp_all

theorem entryPoints_mono (P : Prog) {a b a' b' : Bool} (ha : a' = true → a = true) (hb : b' = true → b = true) :
    ∀ r ∈ entryPoints P a b, r ∈ entryPoints P a' b' := by
  intro r hr
  simp only [entryPoints, List.mem_filter] at hr ⊢
  exact ⟨hr.1, isEntry_mono ha hb _ hr.2⟩

/-! ### the execution semantics and a stable set -/

theorem subsetB_iff {a b : List Nat} : subsetB a b = true ↔ ∀ x ∈ a, x ∈ b := by
  simp [subsetB]

theorem mem_dispatch {P : Prog} {E : List Nat} {f g : Nat} :
    g ∈ dispatch P E f ↔ ∃ ins ∈ (fnAt P f).instrs, ∃ c, ins.call = some c ∧ c.invoke = true ∧
      ∃ f' ∈ E, ∃ ins' ∈ (fnAt P f').instrs, ∃ m, ins'.conv = some m ∧ canFlow P m c = true ∧
        (c.method, g) ∈ m.mset := by
  simp only [dispatch, List.mem_flatMap]
  constructor
  · rintro ⟨ins, hi, hg⟩
    cases hc : ins.call with
    | none => rw [hc] at hg; simp at hg
    | some c =>
      rw [hc] at hg
      simp only at hg
      by_cases hinv : c.invoke = true
      · rw [if_pos hinv] at hg
        simp only [List.mem_flatMap] at hg
        obtain ⟨f', hf', ins', hi', hg⟩ := hg
        cases hm : ins'.conv with
        | none => rw [hm] at hg; simp at hg
        | some m =>
          rw [hm] at hg
          simp only at hg
          by_cases hcf : canFlow P m c = true
          · rw [if_pos hcf] at hg
            simp only [List.mem_map, List.mem_filter, beq_iff_eq] at hg
            obtain ⟨e, ⟨he, hn⟩, rfl⟩ := hg
            refine ⟨ins, hi, c, hc, hinv, f', hf', ins', hi', m, hm, hcf, ?_⟩
            rw [← hn]; exact he
          · rw [if_neg hcf] at hg; simp at hg
      · rw [if_neg hinv] at hg; simp at hg
  · rintro ⟨ins, hi, c, hc, hinv, f', hf', ins', hi', m, hm, hcf, hg⟩
    refine ⟨ins, hi, ?_⟩
    rw [hc]
    simp only [hinv, if_true, List.mem_flatMap]
    refine ⟨f', hf', ins', hi', ?_⟩
    rw [hm]
    simp only [hcf, if_true, List.mem_map, List.mem_filter, beq_iff_eq]
    exact ⟨(c.method, g), ⟨hg, rfl⟩, rfl⟩

end Argot.Reach
