/- Helper lemmas for the pointer-call-graph inclusion of C18 (`Props/C18Ptr.lean`). -/
import Argot.Proofs.Reach
import Argot.Model.ReachPtr

namespace Argot.Reach
open Argot

/-! ### the three closure rules of the computed set, one lemma each -/

theorem mem_funcRefs {f : Fn} {g : Nat} :
    g ∈ funcRefs f ↔ ∃ ins ∈ f.instrs, ∃ o ∈ ins.ops, o.2 = .fn g := by
  simp only [funcRefs, List.mem_flatMap, List.mem_filterMap]
  constructor
  · rintro ⟨ins, hi, o, ho, hog⟩
    refine ⟨ins, hi, o, ho, ?_⟩
    cases h2 : o.2 with
    | fn g' => rw [h2] at hog; simp at hog; rw [hog]
    | instr _ => rw [h2] at hog; simp at hog
    | other => rw [h2] at hog; simp at hog
  · rintro ⟨ins, hi, o, ho, hog⟩
    exact ⟨ins, hi, o, ho, by rw [hog]⟩

theorem closure_closed {T : Tables} {P : Prog} (hw : wf P = true) {roots : List Nat}
    (hr : ∀ r ∈ roots, r < P.fns.length) {f g : Nat} (hf : f ∈ closure T P roots)
    (hg : g ∈ findCallees T P f) : g ∈ closure T P roots :=
  (mem_closure_iff hw hr g).2 (Closure.Reach.step ((mem_closure_iff hw hr f).1 hf) hg)

/-- a function mentioned as an operand of a reported function is reported -/
theorem ref_closed {T : Tables} {P : Prog} (hw : wf P = true) {roots : List Nat}
    (hr : ∀ r ∈ roots, r < P.fns.length) (hT : OperandTableComplete T) {f g : Nat}
    (hf : f ∈ closure T P roots) (hg : g ∈ funcRefs (fnAt P f)) : g ∈ closure T P roots := by
  obtain ⟨hops, _, hva, hil⟩ := hT
  refine closure_closed hw hr hf (mem_findCallees.2 (Or.inr ?_))
  refine (mem_valueFns_iff hw f g).2 ⟨⟨hil, hva⟩, Closure.Reach.root ?_⟩
  obtain ⟨ins, hi, o, ho, hfn⟩ := mem_funcRefs.1 hg
  have hcan := (instrWf_op (fnAt_instr_wf hw f hi) ho).2 g hfn
  simp only [vroots, List.mem_flatMap]
  refine ⟨ins, hi, mem_visitedOps.2 ⟨o, ho, ?_, by rw [hfn]; simp [nodeOf]⟩⟩
  exact List.contains_iff_mem.2 (hops _ (List.contains_iff_mem.1 hcan))

/-- a method made callable by a conversion of a reported function is reported -/
theorem conv_closed {T : Tables} {P : Prog} (hw : wf P = true) {roots : List Nat}
    (hr : ∀ r ∈ roots, r < P.fns.length) (hT : OperandTableComplete T) {f' g : Nat} {ins' : Instr} {m : MkIface}
    (hf' : f' ∈ closure T P roots) (hi' : ins' ∈ (fnAt P f').instrs) (hm : ins'.conv = some m)
    (hg : g ∈ ifaceCallees P m) : g ∈ closure T P roots := by
  obtain ⟨_, hmk, _, _⟩ := hT
  refine closure_closed hw hr hf' (mem_findCallees.2 (Or.inl ⟨ins', hi', Or.inr ?_⟩))
  have hkind := (instrWf_conv (fnAt_instr_wf hw f' hi') hm).1
  unfold ifaceTargetsOf
  rw [hm]
  simp only [hmk, hkind, Bool.and_self, if_true]
  exact hg

/-- without widening, the target of an invoke dispatch is among the `findInterfaceCallees` of the
conversion -/
theorem dispatch_ifaceCallee {P : Prog} (hw : wf P = true) (hW : NoInterfaceWidening P) {f g : Nat}
    {ins : Instr} {c : CallInfo} {m : MkIface} (hi : ins ∈ (fnAt P f).instrs) (hc : ins.call = some c)
    (hinv : c.invoke = true) (hcf : canFlow P m c = true) (hg : (c.method, g) ∈ m.mset) :
    g ∈ ifaceCallees P m := by
  have hjm := instrWf_call (fnAt_instr_wf hw f hi) hc hinv
  unfold ifaceCallees
  simp only
  by_cases he : (methodsOf P m).isEmpty = true
  · rw [if_pos he]; exact List.mem_map.2 ⟨_, hg, rfl⟩
  · rw [if_neg he]
    refine List.mem_map.2 ⟨_, List.mem_filter.2 ⟨hg, ?_⟩, rfl⟩
    have hW' : hasWidening P = false := hW
    simp only [canFlow, hW', Bool.false_or, Bool.and_eq_true, Bool.or_eq_true, List.all_eq_true] at hcf
    rcases hcf.2 with h | h
    · exact absurd h he
    · exact h _ (List.contains_iff_mem.1 hjm)

/-! ### the criterion, unpacked -/

theorem instrAt_cases (P : Prog) (f site : Nat) :
    instrAt P f site ∈ (fnAt P f).instrs ∨ instrAt P f site = default :=
  getD_instr_cases (fnAt P f) site

theorem default_call : (default : Instr).call = none := rfl

theorem staticAt_ref {P : Prog} {f site g : Nat} (h : staticAt P f site g = true) :
    g ∈ funcRefs (fnAt P f) := by
  unfold staticAt at h
  simp only at h
  cases hc : (instrAt P f site).call with
  | none => rw [hc] at h; simp at h
  | some c =>
    rw [hc] at h
    simp only [Bool.and_eq_true, List.any_eq_true] at h
    obtain ⟨-, v, hv, hm⟩ := h
    have hop := mem_opsAt hv
    have hins : instrAt P f site ∈ (fnAt P f).instrs := by
      rcases instrAt_cases P f site with h1 | h1
      · exact h1
      · rw [h1, default_ops] at hop; simp at hop
    cases v with
    | fn g' =>
      simp only [beq_iff_eq] at hm
      subst hm
      exact mem_funcRefs.2 ⟨_, hins, _, hop, rfl⟩
    | instr j =>
      simp only [Bool.and_eq_true, List.contains_iff_mem] at hm
      have hop2 := mem_opsAt hm.2
      have hmc : instrAt P f j ∈ (fnAt P f).instrs := by
        rcases instrAt_cases P f j with h1 | h1
        · exact h1
        · rw [h1, default_ops] at hop2; simp at hop2
      exact mem_funcRefs.2 ⟨_, hmc, _, hop2, rfl⟩
    | other => simp at hm

theorem mem_convCallees {P : Prog} {f : Fn} {g : Nat} :
    g ∈ convCallees P f ↔ ∃ ins ∈ f.instrs, ∃ m, ins.conv = some m ∧ g ∈ ifaceCallees P m := by
  simp only [convCallees, List.mem_flatMap]
  constructor
  · rintro ⟨ins, hi, hg⟩
    cases hm : ins.conv with
    | none => rw [hm] at hg; simp at hg
    | some m => rw [hm] at hg; exact ⟨ins, hi, m, hm, hg⟩
  · rintro ⟨ins, hi, m, hm, hg⟩
    exact ⟨ins, hi, by rw [hm]; exact hg⟩

theorem mem_namedBy {P : Prog} {R : List Nat} {g : Nat} :
    g ∈ namedBy P R ↔ ∃ f' ∈ R, g ∈ funcRefs (fnAt P f') ∨ g ∈ convCallees P (fnAt P f') := by
  simp only [namedBy, List.mem_flatMap, List.mem_append]

theorem dispatchAt_spec {P : Prog} {R : List Nat} {f site g : Nat} (h : dispatchAt P R f site g = true) :
    ∃ ins ∈ (fnAt P f).instrs, ∃ c, ins.call = some c ∧ c.invoke = true ∧
      ∃ f' ∈ R, ∃ ins' ∈ (fnAt P f').instrs, ∃ m, ins'.conv = some m ∧ canFlow P m c = true ∧
        (c.method, g) ∈ m.mset := by
  unfold dispatchAt at h
  cases hc : (instrAt P f site).call with
  | none => rw [hc] at h; simp at h
  | some c =>
    rw [hc] at h
    simp only [Bool.and_eq_true, List.any_eq_true] at h
    obtain ⟨hinv, f', hf', ins', hi', hm⟩ := h
    have hins : instrAt P f site ∈ (fnAt P f).instrs := by
      rcases instrAt_cases P f site with h1 | h1
      · exact h1
      · rw [h1, default_call] at hc; simp at hc
    cases hcv : ins'.conv with
    | none => rw [hcv] at hm; simp at hm
    | some m =>
      rw [hcv] at hm
      simp only [Bool.and_eq_true, List.contains_iff_mem] at hm
      exact ⟨_, hins, c, hc, hinv, f', hf', ins', hi', m, hcv, hm.1, hm.2⟩

/-- everything named by a subset of the computed set is in the computed set -/
theorem namedBy_closed {T : Tables} {P : Prog} (hw : wf P = true) {roots : List Nat}
    (hr : ∀ r ∈ roots, r < P.fns.length) (hT : OperandTableComplete T) {R : List Nat}
    (hR : ∀ f ∈ R, f ∈ closure T P roots) {g : Nat} (hg : g ∈ namedBy P R) : g ∈ closure T P roots := by
  obtain ⟨f', hf', h | h⟩ := mem_namedBy.1 hg
  · exact ref_closed hw hr hT (hR f' hf') h
  · obtain ⟨ins, hi, m, hm, hg⟩ := mem_convCallees.1 h
    exact conv_closed hw hr hT (hR f' hf') hi hm hg

/-! ### `Cg.reach` over edges with sites -/

theorem mem_cgReach {edges : List (Nat × Nat)} {roots : List Nat} {k : Nat} :
    k ∈ Cg.reach edges roots ↔ Closure.Reach (fun a b => b ∈ Cg.succs edges a) roots k := by
  unfold Cg.reach
  refine run_id_mem (Cg.succs edges) (· ∈ Cg.nodes edges roots) ?_ (Cg.nodes edges roots) (fun _ h => h)
    (fun a ha => by simp [Cg.nodes, ha]) (Nat.le_refl _) k
  intro a _ a' ha'
  simp only [Cg.succs, List.mem_map, List.mem_filter] at ha'
  obtain ⟨e, ⟨he, _⟩, rfl⟩ := ha'
  simp only [Cg.nodes, List.mem_append, List.mem_map]
  exact Or.inr ⟨e, he, rfl⟩

theorem mem_succs_cgEdges {edges : List Edge} {a b : Nat} :
    b ∈ Cg.succs (cgEdges edges) a ↔ ∃ s, (a, s, b) ∈ edges := by
  simp only [Cg.succs, cgEdges, List.mem_map, List.mem_filter, beq_iff_eq]
  constructor
  · rintro ⟨e, ⟨⟨e', he', rfl⟩, h1⟩, rfl⟩
    obtain ⟨x, s, y⟩ := e'
    simp only at h1
    subst h1
    exact ⟨s, he'⟩
  · rintro ⟨s, hs⟩
    exact ⟨(a, b), ⟨⟨(a, s, b), hs, rfl⟩, rfl⟩, rfl⟩

end Argot.Reach
