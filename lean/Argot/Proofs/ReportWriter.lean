/- Helper lemmas for C20: invariants of the report-writer LTS and of the step-group LTS. -/
import Argot.Model.ReportWriter

namespace Argot.ReportWriter

structure Inv (jn : Join) (S : List Nat) (σ : St) : Prop where
  closed_ret : σ.closed = true → σ.main = .ret
  spawn_iff : σ.main = .spawn ↔ σ.writer = .unspawned
  prog : match σ.writer with
         | .unspawned => σ.written = [] ∧ σ.lost = []
         | .iter todo => σ.lost = [] → σ.written ++ todo = S
         | .done => σ.lost = [] → σ.written = S
  joined : jn ≠ .none → (σ.main = .close ∨ σ.main = .ret) → σ.writer = .done
  joined_lost : jn ≠ .none → σ.lost = []
  early : jn = .beforeLink → (σ.main ≠ .spawn → σ.main ≠ .joinEarly → σ.writer = .done) ∧ σ.race = false

theorem inv_init (jn : Join) (S : List Nat) : Inv jn S init := by
  refine ⟨?_, ?_, ?_, ?_, ?_, ?_⟩ <;> simp [init]

theorem inv_step {jn : Join} {S : List Nat} {k : Nat} {σ σ' : St} {l : Lbl} (I : Inv jn S σ)
    (h : step jn S k l σ = some σ') : Inv jn S σ' := by
  obtain ⟨h1, h2, h3, h4, h5, h6⟩ := I
  cases l with
  | spawn =>
    unfold step at h; simp only at h
    split at h
    · rename_i hm
      simp at h; subst h
      have hw := h2.1 hm
      rw [hw] at h3
      refine ⟨?_, ?_, ?_, ?_, ?_, ?_⟩
      · intro hc; have := h1 hc; rw [hm] at this; cases this
      · simp; split <;> simp
      · simp; intro _; simp [h3.1]
      · intro hj; simp; split <;> simp
      · intro hj; exact h3.2
      · intro hj; simp [hj]
        have := (h6 hj).2; exact this
    · simp at h
  | join =>
    unfold step at h; simp only at h
    split at h
    · rename_i hm hw
      simp at h; subst h
      refine ⟨?_, ?_, ?_, ?_, ?_, ?_⟩
      · intro hc; have := h1 hc; rw [hm] at this; cases this
      · simp [hw]
      · simpa [hw] using h3
      · intro _ _; exact hw
      · exact h5
      · intro hj; exact ⟨fun _ _ => hw, (h6 hj).2⟩
    · rename_i hm hw
      simp at h; subst h
      refine ⟨?_, ?_, ?_, ?_, ?_, ?_⟩
      · intro hc; have := h1 hc; rw [hm] at this; cases this
      · simp [hw]
      · simpa [hw] using h3
      · intro _ _; exact hw
      · exact h5
      · intro hj; exact ⟨fun _ _ => hw, (h6 hj).2⟩
    · simp at h
  | linkWrite =>
    unfold step at h; simp only at h
    split at h
    · rename_i j hm
      simp at h; subst h
      refine ⟨?_, ?_, ?_, ?_, ?_, ?_⟩
      · intro hc; have := h1 hc; rw [hm] at this; cases this
      · simp; intro hw; have := h2.2 hw; rw [hm] at this; cases this
      · exact h3
      · intro _ hc; simp at hc
      · exact h5
      · intro hj
        have hw := (h6 hj).1 (by simp [hm]) (by simp [hm])
        exact ⟨fun _ _ => hw, by simp [(h6 hj).2, hw, WriterPc.iterating]⟩
    · simp at h
  | linkDone =>
    unfold step at h; simp only at h
    split at h
    · rename_i hm
      simp at h; subst h
      refine ⟨?_, ?_, ?_, ?_, ?_, ?_⟩
      · intro hc; have := h1 hc; rw [hm] at this; cases this
      · constructor
        · intro hc; simp at hc; split at hc <;> cases hc
        · intro hw; have := h2.2 hw; rw [hm] at this; cases this
      · exact h3
      · intro hj hc
        cases jn with
        | none => exact absurd rfl hj
        | beforeLink => exact (h6 rfl).1 (by simp [hm]) (by simp [hm])
        | beforeReturn => simp at hc
      · exact h5
      · intro hj
        exact ⟨fun _ _ => (h6 hj).1 (by simp [hm]) (by simp [hm]), (h6 hj).2⟩
    · simp at h
  | close =>
    unfold step at h; simp only at h
    split at h
    · rename_i hm
      simp at h; subst h
      refine ⟨?_, ?_, ?_, ?_, ?_, ?_⟩
      · intro _; rfl
      · simp; intro hw; have := h2.2 hw; rw [hm] at this; cases this
      · exact h3
      · intro hj _; exact h4 hj (Or.inl hm)
      · exact h5
      · intro hj
        exact ⟨fun _ _ => (h6 hj).1 (by simp [hm]) (by simp [hm]), (h6 hj).2⟩
    · simp at h
  | write =>
    unfold step at h; simp only at h
    split at h
    · rename_i x t hw
      have hms : σ.main ≠ .spawn := by intro hm; have := h2.1 hm; rw [hw] at this; cases this
      split at h
      · rename_i hc
        simp at h; subst h
        have hret := h1 hc
        refine ⟨h1, ?_, ?_, ?_, ?_, ?_⟩
        · simp; exact hms
        · simp
        · intro hj hm; have := h4 hj hm; rw [hw] at this; cases this
        · intro hj; have := h4 hj (Or.inr hret); rw [hw] at this; cases this
        · intro hj; have := h4 (by simp [hj]) (Or.inr hret); rw [hw] at this; cases this
      · simp at h; subst h
        rw [hw] at h3
        refine ⟨h1, ?_, ?_, ?_, h5, ?_⟩
        · simp; exact hms
        · simp; intro hl; have := h3 hl; simpa using this
        · intro hj hm; have := h4 hj hm; rw [hw] at this; cases this
        · intro hj
          refine ⟨fun hm1 hm2 => ?_, (h6 hj).2⟩
          have := (h6 hj).1 hm1 hm2; rw [hw] at this; cases this
    · simp at h
  | writerEnd =>
    unfold step at h; simp only at h
    split at h
    · rename_i hw
      have hms : σ.main ≠ .spawn := by intro hm; have := h2.1 hm; rw [hw] at this; cases this
      simp at h; subst h
      rw [hw] at h3
      refine ⟨h1, ?_, ?_, ?_, h5, ?_⟩
      · simp; exact hms
      · simpa using h3
      · intro _ _; rfl
      · intro hj; exact ⟨fun _ _ => rfl, (h6 hj).2⟩
    · simp at h

theorem inv_reachable {jn : Join} {S : List Nat} {k : Nat} {σ : St} (h : Reachable jn S k σ) : Inv jn S σ := by
  induction h with
  | init => exact inv_init jn S
  | step _ hs ih => exact inv_step ih hs

theorem runLabels_reachable {jn : Join} {S : List Nat} {k : Nat} :
    ∀ (ls : List Lbl) {σ σ' : St}, Reachable jn S k σ → runLabels jn S k ls σ = some σ' → Reachable jn S k σ'
  | [], σ, σ', hr, h => by simp [runLabels] at h; subst h; exact hr
  | l :: ls, σ, σ', hr, h => by
    simp only [runLabels] at h
    cases hs : step jn S k l σ with
    | none => simp [hs] at h
    | some τ => rw [hs] at h; exact runLabels_reachable ls (.step hr hs) h

end Argot.ReportWriter

namespace Argot.StepGroup

def running (ts : List T) : Nat := (ts.map fun t => match t with | .running => 1 | .done => 0).sum

theorem running_zero {ts : List T} : running ts = 0 ↔ ∀ t ∈ ts, t = .done := by
  induction ts with
  | nil => simp [running]
  | cons t ts ih =>
    simp only [running, List.map_cons, List.sum_cons] at ih ⊢
    cases t <;> simp [ih] <;> omega

theorem getElem?_decomp {γ : Type} : ∀ {l : List γ} {i : Nat} {x : γ}, l[i]? = some x →
    ∃ l₁ l₂, l = l₁ ++ x :: l₂ ∧ ∀ y, l.set i y = l₁ ++ y :: l₂
  | [], _, _, h => by simp at h
  | b :: l, 0, x, h => by
    simp at h; subst h; exact ⟨[], l, rfl, fun y => rfl⟩
  | b :: l, i + 1, x, h => by
    simp at h
    obtain ⟨l₁, l₂, e, hs⟩ := getElem?_decomp h
    exact ⟨b :: l₁, l₂, by simp [e], fun y => by simp [hs y]⟩

/-- the WaitGroup counter is exactly the number of running steps; all `k` are forked before the wait -/
structure Inv (k : Nat) (σ : St) : Prop where
  noerr : σ.err = false
  wg : σ.wg = running σ.ts
  len : σ.ts.length ≤ k
  forked : σ.main ≠ .forking → σ.ts.length = k
  after : σ.main = .after → σ.wg = 0

theorem inv_step {k : Nat} {σ σ' : St} {l : Lbl} (I : Inv k σ) (h : step k l σ = some σ') : Inv k σ' := by
  obtain ⟨h0, h1, h2, h3, h4⟩ := I
  unfold step at h
  rw [h0] at h
  simp only [Bool.false_eq_true, ↓reduceIte] at h
  cases l with
  | fork =>
    simp only at h
    split at h
    · rename_i hm
      split at h
      · rename_i hl
        simp at h; subst h
        exact ⟨rfl, by simp [running, List.sum_append] at h1 ⊢; omega, by simp; omega, by simp [hm],
          by simp [hm]⟩
      · simp at h
    · simp at h
  | endFork =>
    simp only at h
    split at h
    · rename_i hm
      split at h
      · simp at h
      · rename_i hl
        simp at h; subst h
        exact ⟨rfl, h1, h2, fun _ => by simp; omega, by simp⟩
    · simp at h
  | finish i =>
    simp only at h
    split at h
    · rename_i hw
      obtain ⟨l₁, l₂, e, hs⟩ := getElem?_decomp hw
      have hr : 1 ≤ running σ.ts := by rw [e]; simp [running, List.sum_append]; omega
      split at h
      · omega
      · simp at h; subst h
        refine ⟨rfl, ?_, by simp; exact h2, by simpa using h3, ?_⟩
        · simp only; rw [hs, h1, e]; simp [running, List.sum_append]; omega
        · intro hm; have := h4 hm; omega
    · simp at h
  | pass =>
    simp only at h
    split at h
    · split at h
      · rename_i hz
        simp at h; subst h
        exact ⟨rfl, h1, h2, fun _ => h3 (by simp [*]), fun _ => hz⟩
      · simp at h
    · simp at h

theorem inv_reachable {k : Nat} {σ : St} (h : Reachable k σ) : Inv k σ := by
  induction h with
  | init => exact ⟨rfl, rfl, by simp [init], by simp [init], by simp [init]⟩
  | step _ hs ih => exact inv_step ih hs

end Argot.StepGroup
