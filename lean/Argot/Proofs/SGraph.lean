/- Helper lemmas for C17: the structural invariant of summary graphs is preserved by every operation. -/
import Argot.Model.SGraph
import Argot.Proofs.Summ

namespace Argot.SGraph

/-- the invariant, as membership statements. -/
structure Inv (σ : Static) (st : State) : Prop where
  e_out_in : ∀ t ∈ st.e.out, ∃ f ∈ st.e.inn, f.1 = t.2.1 ∧ f.2.1 = t.1
  e_in_out : ∀ f ∈ st.e.inn, ∃ t ∈ st.e.out, f.1 = t.2.1 ∧ f.2.1 = t.1 ∧ f.2.2 = t.2.2
  e_uniq : inKeysUnique st.e.inn = true
  calls_fwd : ∀ p ∈ st.calleeSummary, (p.2, σ.site p.1, p.1) ∈ st.callsites
  calls_bwd : ∀ t ∈ st.callsites, σ.site t.2.2 = t.2.1 ∧ (t.2.2, t.1) ∈ st.calleeSummary
  clos : ∀ p ∈ st.closureSummary, (p.2, σ.cinstr p.1, p.1) ∈ st.referring
  g1 : ∀ a ∈ st.access, a.summary ∈ st.constructed →
        (a.isWrite = true → (a.global, a.node) ∈ st.writeLoc) ∧
        (a.isWrite = false → hasOut st.e a.node = true → (a.global, a.node) ∈ st.readLoc)
  g2 : ∀ w ∈ st.writeLoc, ∃ a ∈ st.access, a.node = w.2 ∧ a.global = w.1 ∧ a.isWrite = true ∧ a.summary ∈ st.constructed
  g3 : ∀ w ∈ st.readLoc, ∃ a ∈ st.access, a.node = w.2 ∧ a.global = w.1 ∧ a.isWrite = false ∧
        hasOut st.e a.node = true ∧ a.summary ∈ st.constructed
  m1 : (st.calleeSummary.map (·.1)).Nodup
  m2 : (st.closureSummary.map (·.1)).Nodup
  m3 : (st.access.map (·.node)).Nodup

theorem inv_iff (σ : Static) (st : State) : inv σ st = true ↔ Inv σ st := by
  simp only [inv, invEdges, invCalls, invClosures, invGlobals, invMaps, Bool.and_eq_true, decide_eq_true_eq]
  simp only [InvEdges, InvCalls, InvClosures, InvGlobals, InvGlobals1, InvGlobals2, InvGlobals3, InvMaps]
  constructor
  · rintro ⟨⟨⟨⟨⟨a1, a2, a3⟩, b1, b2⟩, c⟩, d1, d2, d3⟩, m1, m2, m3⟩
    exact ⟨a1, a2, a3, b1, b2, c, d1, d2, d3, m1, m2, m3⟩
  · intro I
    exact ⟨⟨⟨⟨⟨I.e_out_in, I.e_in_out, I.e_uniq⟩, I.calls_fwd, I.calls_bwd⟩, I.clos⟩, I.g1, I.g2, I.g3⟩, I.m1, I.m2, I.m3⟩

theorem Inv_init (σ : Static) : Inv σ {} := by
  constructor <;> simp [inKeysUnique]

/-! ### edges -/

theorem hasOut_iff (e : Edges Nat) (x : Nat) : hasOut e x = true ↔ ∃ t ∈ e.out, t.1 = x := by
  simp [hasOut]

/-- both edge operations: the new out list keeps the old entries, contains the new one and nothing else;
the in map is updated by `setIn`. -/
structure EdgeUpd (e e' : Edges Nat) (s d : Nat) (i : Idx) : Prop where
  out_old : ∀ t ∈ e.out, t ∈ e'.out
  out_new : (s, d, i) ∈ e'.out
  out_only : ∀ t ∈ e'.out, t ∈ e.out ∨ t = (s, d, i)
  inn_eq : e'.inn = setIn e.inn d s i

theorem upd_addEdge (e : Edges Nat) (s d : Nat) (i : Idx) : EdgeUpd e (e.addEdge s d i) s d i := by
  refine ⟨?_, ?_, ?_, rfl⟩
  · intro t ht; simp only [Edges.addEdge]; split
    · exact ht
    · exact List.mem_append_left _ ht
  · simp only [Edges.addEdge]; split
    · assumption
    · simp
  · intro t ht; simp only [Edges.addEdge] at ht; split at ht
    · exact Or.inl ht
    · simpa using ht

theorem upd_appendEdge (e : Edges Nat) (s d : Nat) (i : Idx) : EdgeUpd e (e.appendEdge s d i) s d i := by
  refine ⟨?_, ?_, ?_, rfl⟩
  · intro t ht; exact List.mem_append_left _ ht
  · simp [Edges.appendEdge]
  · intro t ht; simpa [Edges.appendEdge] using ht

theorem hasOut_upd {e e' : Edges Nat} {s d : Nat} {i : Idx} (u : EdgeUpd e e' s d i) (x : Nat) :
    hasOut e' x = true ↔ hasOut e x = true ∨ x = s := by
  rw [hasOut_iff, hasOut_iff]
  constructor
  · rintro ⟨t, ht, rfl⟩
    rcases u.out_only t ht with h | rfl
    · exact Or.inl ⟨t, h, rfl⟩
    · exact Or.inr rfl
  · rintro (⟨t, ht, rfl⟩ | rfl)
    · exact ⟨t, u.out_old t ht, rfl⟩
    · exact ⟨_, u.out_new, rfl⟩

theorem accessConstructed_iff (st : State) (x : Nat) :
    accessConstructed st x = true ↔ ∃ a ∈ st.access, a.node = x ∧ a.summary ∈ st.constructed := by
  simp [accessConstructed]

theorem Inv_edge (σ : Static) (st : State) (e' : Edges Nat) (s d : Nat) (i : Idx) (I : Inv σ st)
    (u : EdgeUpd st.e e' s d i) (hok : accessConstructed st s = false) : Inv σ { st with e := e' } := by
  have hs : ∀ a ∈ st.access, a.summary ∈ st.constructed → a.node ≠ s := by
    intro a ha hc hn
    have : accessConstructed st s = true := (accessConstructed_iff st s).2 ⟨a, ha, hn, hc⟩
    rw [hok] at this; exact Bool.noConfusion this
  refine { I with e_out_in := ?_, e_in_out := ?_, e_uniq := ?_, g1 := ?_, g3 := ?_ }
  · intro t ht
    simp only [u.inn_eq]
    rcases u.out_only t ht with h | rfl
    · obtain ⟨f, hf, h1, h2⟩ := I.e_out_in t h
      by_cases hk : f.1 = d ∧ f.2.1 = s
      · exact ⟨(d, s, i), (mem_setIn _ _ _ _ _).2 (Or.inr rfl), hk.1 ▸ h1, hk.2 ▸ h2⟩
      · exact ⟨f, (mem_setIn _ _ _ _ _).2 (Or.inl ⟨hf, hk⟩), h1, h2⟩
    · exact ⟨(d, s, i), (mem_setIn _ _ _ _ _).2 (Or.inr rfl), rfl, rfl⟩
  · intro f hf
    simp only [u.inn_eq] at hf
    rcases (mem_setIn _ _ _ _ _).1 hf with ⟨h, _⟩ | rfl
    · obtain ⟨t, ht, h1, h2, h3⟩ := I.e_in_out f h
      exact ⟨t, u.out_old t ht, h1, h2, h3⟩
    · exact ⟨_, u.out_new, rfl, rfl, rfl⟩
  · simp only [u.inn_eq]; exact inKeysUnique_setIn _ _ _ _ I.e_uniq
  · intro a ha hc
    obtain ⟨h1, h2⟩ := I.g1 a ha hc
    refine ⟨h1, fun hw ho => h2 hw ?_⟩
    rcases (hasOut_upd u a.node).1 ho with h | h
    · exact h
    · exact absurd h (hs a ha hc)
  · intro w hw
    obtain ⟨a, ha, h1, h2, h3, h4, h5⟩ := I.g3 w hw
    exact ⟨a, ha, h1, h2, h3, (hasOut_upd u a.node).2 (Or.inl h4), h5⟩

/-! ### global-access nodes -/

theorem Inv_addAccess (σ : Static) (st : State) (a S g : Nat) (I : Inv σ st)
    (hok : st.constructed.contains S = false) : Inv σ (step σ st (.addAccess a S g)) := by
  simp only [step]
  split
  · exact I
  · rename_i hna
    have hfresh : ∀ x ∈ st.access, x.node ≠ a := by
      intro x hx hn
      apply hna
      simp only [isAccess, List.any_eq_true, decide_eq_true_eq]
      exact ⟨x, hx, hn⟩
    have hS : S ∉ st.constructed := by simpa using hok
    refine { I with g1 := ?_, g2 := ?_, g3 := ?_, m3 := ?_ }
    · intro x hx hc
      simp only [List.mem_append, List.mem_singleton] at hx
      rcases hx with hx | rfl
      · exact I.g1 x hx hc
      · exact absurd hc hS
    · intro w hw
      obtain ⟨x, hx, h⟩ := I.g2 w hw
      exact ⟨x, List.mem_append_left _ hx, h⟩
    · intro w hw
      obtain ⟨x, hx, h⟩ := I.g3 w hw
      exact ⟨x, List.mem_append_left _ hx, h⟩
    · simp only [List.map_append, List.map_cons, List.map_nil]
      rw [List.nodup_append]
      refine ⟨I.m3, by simp, ?_⟩
      intro y hy z hz
      simp only [List.mem_singleton] at hz
      subst hz
      obtain ⟨x, hx, rfl⟩ := List.mem_map.1 hy
      exact hfresh x hx

theorem Inv_markWrite (σ : Static) (st : State) (a : Nat) (I : Inv σ st)
    (hok : accessConstructed st a = false) : Inv σ (step σ st (.markWrite a)) := by
  have hs : ∀ x ∈ st.access, x.summary ∈ st.constructed → x.node ≠ a := by
    intro x hx hc hn
    have : accessConstructed st a = true := (accessConstructed_iff st a).2 ⟨x, hx, hn, hc⟩
    rw [hok] at this; exact Bool.noConfusion this
  simp only [step]
  refine { I with g1 := ?_, g2 := ?_, g3 := ?_, m3 := ?_ }
  · intro y hy hc
    obtain ⟨x, hx, rfl⟩ := List.mem_map.1 hy
    by_cases hn : x.node = a
    · simp only [hn, if_true] at hc ⊢
      exact absurd hn (hs x hx hc)
    · simp only [hn, if_false] at hc ⊢
      exact I.g1 x hx hc
  · intro w hw
    obtain ⟨x, hx, h1, h2, h3, h4⟩ := I.g2 w hw
    refine ⟨x, List.mem_map.2 ⟨x, hx, ?_⟩, h1, h2, h3, h4⟩
    simp [hs x hx h4]
  · intro w hw
    obtain ⟨x, hx, h1, h2, h3, h4, h5⟩ := I.g3 w hw
    refine ⟨x, List.mem_map.2 ⟨x, hx, ?_⟩, h1, h2, h3, h4, h5⟩
    simp [hs x hx h5]
  · have : (st.access.map fun x => if x.node = a then { x with isWrite := true } else x).map (·.node) = st.access.map (·.node) := by
      rw [List.map_map]
      apply List.map_congr_left
      intro x _
      simp only [Function.comp]
      split <;> rfl
    rw [this]; exact I.m3

theorem mem_syncFold (st : State) (S : Nat) (l : List AccessNode) (acc : List (Nat × Nat) × List (Nat × Nat)) (w : Nat × Nat) :
    (w ∈ (l.foldl (syncOne st S) acc).1 ↔ w ∈ acc.1 ∨ ∃ a ∈ l, a.summary = S ∧ a.isWrite = false ∧ hasOut st.e a.node = true ∧ w = (a.global, a.node)) ∧
    (w ∈ (l.foldl (syncOne st S) acc).2 ↔ w ∈ acc.2 ∨ ∃ a ∈ l, a.summary = S ∧ a.isWrite = true ∧ w = (a.global, a.node)) := by
  induction l generalizing acc with
  | nil => simp
  | cons a l ih =>
    simp only [List.foldl_cons]
    have := ih (syncOne st S acc a)
    rw [this.1, this.2]
    simp only [syncOne, List.mem_cons, exists_eq_or_imp]
    by_cases hS : a.summary = S
    · cases hw : a.isWrite
      · cases ho : hasOut st.e a.node
        · simp [hS]
        · simp only [hS, hw, ho, if_true, Bool.false_eq_true, if_false, List.mem_append, List.mem_singleton, true_and]
          constructor
          · constructor
            · rintro ((h | h) | h)
              · exact Or.inl h
              · exact Or.inr (Or.inl h)
              · exact Or.inr (Or.inr h)
            · rintro (h | h | h)
              · exact Or.inl (Or.inl h)
              · exact Or.inl (Or.inr h)
              · exact Or.inr h
          · simp
      · simp only [hS, hw, if_true, List.mem_append, List.mem_singleton, true_and]
        constructor
        · simp
        · constructor
          · rintro ((h | h) | h)
            · exact Or.inl h
            · exact Or.inr (Or.inl h)
            · exact Or.inr (Or.inr h)
          · rintro (h | h | h)
            · exact Or.inl (Or.inl h)
            · exact Or.inl (Or.inr h)
            · exact Or.inr h
    · simp [hS]

theorem Inv_syncGlobals (σ : Static) (st : State) (S : Nat) (I : Inv σ st) : Inv σ (step σ st (.syncGlobals S)) := by
  simp only [step]
  have hm := fun w => mem_syncFold st S st.access (st.readLoc, st.writeLoc) w
  refine { I with g1 := ?_, g2 := ?_, g3 := ?_ }
  · intro a ha hc
    simp only [List.mem_append, List.mem_singleton] at hc
    constructor
    · intro hw
      rw [(hm _).2]
      rcases hc with hc | hc
      · exact Or.inl ((I.g1 a ha hc).1 hw)
      · exact Or.inr ⟨a, ha, hc, hw, rfl⟩
    · intro hw ho
      rw [(hm _).1]
      rcases hc with hc | hc
      · exact Or.inl ((I.g1 a ha hc).2 hw ho)
      · exact Or.inr ⟨a, ha, hc, hw, ho, rfl⟩
  · intro w hw
    rw [(hm w).2] at hw
    rcases hw with hw | ⟨a, ha, hS, hwr, rfl⟩
    · obtain ⟨a, ha, h1, h2, h3, h4⟩ := I.g2 w hw
      exact ⟨a, ha, h1, h2, h3, List.mem_append_left _ h4⟩
    · exact ⟨a, ha, rfl, rfl, hwr, by simp [hS]⟩
  · intro w hw
    rw [(hm w).1] at hw
    rcases hw with hw | ⟨a, ha, hS, hwr, ho, rfl⟩
    · obtain ⟨a, ha, h1, h2, h3, h4, h5⟩ := I.g3 w hw
      exact ⟨a, ha, h1, h2, h3, h4, List.mem_append_left _ h5⟩
    · exact ⟨a, ha, rfl, rfl, hwr, ho, by simp [hS]⟩

/-! ### links -/

theorem Inv_linkCallee (σ : Static) (st : State) (n S : Nat) (I : Inv σ st)
    (hok : (st.calleeSummary.all fun p => !(p.2 = S && σ.site p.1 = σ.site n && p.1 ≠ n)) = true) :
    Inv σ (step σ st (.linkCallee n S)) := by
  simp only [step]
  split
  · exact I
  · rename_i hnl
    have hfresh : ∀ p ∈ st.calleeSummary, p.1 ≠ n := by
      intro p hp hn; apply hnl
      simp only [List.any_eq_true, decide_eq_true_eq]; exact ⟨p, hp, hn⟩
    refine { I with calls_fwd := ?_, calls_bwd := ?_, m1 := ?_ }
    · intro p hp
      simp only [List.mem_append, List.mem_singleton] at hp
      rcases hp with hp | rfl
      · have := I.calls_fwd p hp
        split
        · exact this
        · exact List.mem_append_left _ this
      · split
        · rename_i hex
          exfalso
          simp only [List.any_eq_true, Bool.and_eq_true, decide_eq_true_eq] at hex
          obtain ⟨⟨S', t, n'⟩, ht, h1, h2⟩ := hex
          simp only at h1 h2
          subst h1 h2
          obtain ⟨hsite, hlinked⟩ := I.calls_bwd _ ht
          simp only at hsite hlinked
          have := List.all_eq_true.1 hok _ hlinked
          simp only [hsite, Bool.not_eq_true', Bool.and_eq_false_iff, decide_eq_false_iff_not, decide_true,
            Bool.true_and, not_true_eq_false, false_or, ne_eq, Decidable.not_not] at this
          exact hfresh _ hlinked this
        · simp
    · intro t ht
      split at ht
      · obtain ⟨h1, h2⟩ := I.calls_bwd t ht
        exact ⟨h1, List.mem_append_left _ h2⟩
      · simp only [List.mem_append, List.mem_singleton] at ht
        rcases ht with ht | rfl
        · obtain ⟨h1, h2⟩ := I.calls_bwd t ht
          exact ⟨h1, List.mem_append_left _ h2⟩
        · exact ⟨rfl, by simp⟩
    · simp only [List.map_append, List.map_cons, List.map_nil]
      rw [List.nodup_append]
      refine ⟨I.m1, by simp, ?_⟩
      intro y hy z hz
      simp only [List.mem_singleton] at hz
      subst hz
      obtain ⟨p, hp, rfl⟩ := List.mem_map.1 hy
      exact hfresh p hp

theorem nodup_filter_append (l : List (Nat × Nat)) (c S : Nat) (h : (l.map (·.1)).Nodup) :
    (((l.filter fun p => !(p.1 = c)) ++ [(c, S)]).map (·.1)).Nodup := by
  simp only [List.map_append, List.map_cons, List.map_nil]
  rw [List.nodup_append]
  refine ⟨(h.sublist (List.Sublist.map _ List.filter_sublist)), by simp, ?_⟩
  intro y hy z hz
  simp only [List.mem_singleton] at hz
  subst hz
  obtain ⟨p, hp, rfl⟩ := List.mem_map.1 hy
  simp only [List.mem_filter, Bool.not_eq_true', decide_eq_false_iff_not] at hp
  exact hp.2

theorem Inv_linkClosure (σ : Static) (st : State) (c : Nat) (S : Option Nat) (I : Inv σ st)
    (hok : Op.ok σ st (.linkClosure c S) = true) : Inv σ (step σ st (.linkClosure c S)) := by
  cases S with
  | none =>
    simp only [step]
    refine { I with clos := ?_, m2 := ?_ }
    · intro p hp
      exact I.clos p (List.mem_filter.1 hp).1
    · exact I.m2.sublist (List.Sublist.map _ List.filter_sublist)
  | some S =>
    simp only [step]
    simp only [Op.ok] at hok
    refine { I with clos := ?_, m2 := nodup_filter_append _ _ _ I.m2 }
    intro p hp
    simp only [List.mem_append, List.mem_singleton, List.mem_filter, Bool.not_eq_true', decide_eq_false_iff_not] at hp
    rcases hp with ⟨hp, hne⟩ | rfl
    · have hr := I.clos p hp
      have hk := List.all_eq_true.1 hok p hp
      simp only [Bool.not_eq_true', Bool.and_eq_false_iff, decide_eq_false_iff_not, ne_eq, Decidable.not_not] at hk
      refine List.mem_append_left _ (List.mem_filter.2 ⟨hr, ?_⟩)
      simp only [Bool.not_eq_true', Bool.and_eq_false_iff, decide_eq_false_iff_not]
      rcases hk with (hk | hk) | hk
      · exact Or.inl hk
      · exact Or.inr hk
      · exact absurd hk hne
    · simp

theorem Inv_step (σ : Static) (st : State) (op : Op) (I : Inv σ st) (hok : op.ok σ st = true) :
    Inv σ (step σ st op) := by
  cases op with
  | addEdge s d i =>
    exact Inv_edge σ st _ s d i I (upd_addEdge st.e s d i) (by simpa [Op.ok] using hok)
  | appendEdge s d i =>
    exact Inv_edge σ st _ s d i I (upd_appendEdge st.e s d i) (by simpa [Op.ok] using hok)
  | addAccess a S g => exact Inv_addAccess σ st a S g I (by simpa [Op.ok] using hok)
  | markWrite a => exact Inv_markWrite σ st a I (by simpa [Op.ok] using hok)
  | linkCallee n S => exact Inv_linkCallee σ st n S I (by simpa [Op.ok] using hok)
  | linkClosure c S => exact Inv_linkClosure σ st c S I hok
  | syncGlobals S => exact Inv_syncGlobals σ st S I

theorem Inv_run (σ : Static) (ops : List Op) (st : State) (I : Inv σ st) (hok : allOk σ st ops = true) :
    Inv σ (run σ st ops) := by
  induction ops generalizing st with
  | nil => exact I
  | cons op ops ih =>
    simp only [allOk, Bool.and_eq_true] at hok
    exact ih _ (Inv_step σ st op I hok.1) hok.2

end Argot.SGraph
