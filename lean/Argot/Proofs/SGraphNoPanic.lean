/-
Helper lemmas for Argot/Props/C07NoPanic.lean (model: Argot/Model/SGraphE.lean).
-/
import Argot.Model.SGraphE
import Argot.Proofs.SGraph

namespace Argot.SGraphE
open Argot.SGraph

theorem run_append (σ : Static) (st : State) (a b : List Op) : run σ st (a ++ b) = run σ (run σ st a) b := by
  induction a generalizing st with
  | nil => rfl
  | cons x xs ih => simp [run, ih]

/-! ### a single `addEdge`, a list of destinations, the call-argument loop -/

theorem addEdgeE_ok (σ : Static) (T : Tables) (st : State) (m : Mark) (d : Nat) (k : Kind)
    (hk : addInEdgeHandles k = true) : addEdgeE σ T st m d k = .ok (run σ st (edgeOps T m d)) := by
  unfold addEdgeE
  by_cases h : edgeOps T m d = []
  · simp [h, run]
  · simp [h, hk]

theorem addEdgeE_error (σ : Static) (T : Tables) (st : State) (m : Mark) (d : Nat) (k : Kind) (e : PanicSite)
    (h : addEdgeE σ T st m d k = .error e) : e = .invalidDestType ∧ addInEdgeHandles k = false := by
  unfold addEdgeE at h
  split at h
  · cases h
  · split at h
    · cases h
    · next hk => cases h; exact ⟨rfl, by simpa using hk⟩

theorem addEdgesE_ok (σ : Static) (T : Tables) (m : Mark) (k : Kind) (hk : addInEdgeHandles k = true)
    (st : State) (ds : List Nat) :
    addEdgesE σ T m k st ds = .ok (run σ st (ds.flatMap (edgeOps T m))) := by
  induction ds generalizing st with
  | nil => rfl
  | cons d ds ih => simp [addEdgesE, addEdgeE_ok σ T st m d k hk, ih, run_append]

theorem callArgE_ok (σ : Static) (T : Tables) (m : Mark) (a : Nat) (st : State) (cns : List CallN)
    (h : ∀ cn ∈ cns, argNodes cn a ≠ []) :
    callArgE σ T m a st cns = .ok (run σ st (cns.flatMap fun cn => (argNodes cn a).flatMap (edgeOps T m))) := by
  induction cns generalizing st with
  | nil => rfl
  | cons cn cns ih =>
    have h1 := h cn (by simp)
    have h2 : ∀ c ∈ cns, argNodes c a ≠ [] := fun c hc => h c (by simp [hc])
    simp [callArgE, h1, addEdgesE_ok σ T m .callArg rfl, ih _ h2, run_append]

theorem callArgE_ok_inv (σ : Static) (T : Tables) (m : Mark) (a : Nat) (st st' : State) (cns : List CallN)
    (h : callArgE σ T m a st cns = .ok st') : ∀ cn ∈ cns, argNodes cn a ≠ [] := by
  induction cns generalizing st with
  | nil => simp
  | cons cn cns ih =>
    unfold callArgE at h
    split at h
    · cases h
    · next hne =>
      rw [addEdgesE_ok σ T m .callArg rfl] at h
      simp only at h
      intro c hc
      rcases List.mem_cons.1 hc with rfl | hc
      · exact hne
      · exact ih _ h c hc

theorem argNodes_ne_nil_iff (cn : CallN) (a : Nat) : argNodes cn a ≠ [] ↔ (cn.args.any fun p => p.1 == a) = true := by
  simp [argNodes, List.filter_eq_nil_iff]

/-! ### one entry point, a sequence of entry points -/

theorem destKind_handled (op : OpE) : addInEdgeHandles op.destKind = true := by cases op <;> rfl

theorem stepE_ok (σ : Static) (T : Tables) (st : State) (op : OpE) (h : op.ok T = true) :
    stepE σ T st op = .ok (run σ st (lower T op)) := by
  cases op with
  | callArg m c a =>
    simp only [OpE.ok] at h
    simp only [stepE, lower]
    cases hl : T.callees.lookup c with
    | none => rfl
    | some cns =>
      rw [hl] at h
      simp only [List.all_eq_true] at h
      exact callArgE_ok σ T m a st cns fun cn hcn => (argNodes_ne_nil_iff cn a).2 (h cn hcn)
  | call m c =>
    simp only [stepE, lower]
    cases T.callees.lookup c with
    | none => rfl
    | some cns => simp [addEdgesE_ok σ T m .call rfl, List.flatMap_map]
  | boundVar m x v =>
    simp only [stepE, lower]
    cases T.closures.lookup x with
    | none => rfl
    | some c =>
      dsimp only
      cases findVal c.2 v with
      | none => rfl
      | some d => exact addEdgeE_ok σ T st m d .boundVar rfl
  | ret m r i =>
    simp only [stepE, lower]
    cases T.returns.lookup r with
    | none => rfl
    | some ns =>
      dsimp only
      cases ns[i]? with
      | none => rfl
      | some o =>
        cases o with
        | none => rfl
        | some d => exact addEdgeE_ok σ T st m d .ret rfl
  | param m x =>
    simp only [OpE.ok] at h
    simp only [stepE, lower]
    cases hl : T.params.lookup x with
    | some d => exact addEdgeE_ok σ T st m d .param rfl
    | none =>
      rw [hl] at h
      have : srcs T m = [] := by simpa using h
      simp [this, run]
  | freeVar m y =>
    simp only [OpE.ok] at h
    simp only [stepE, lower]
    cases hl : T.freeVars.lookup y with
    | some d => exact addEdgeE_ok σ T st m d .freeVar rfl
    | none =>
      rw [hl] at h
      have : srcs T m = [] := by simpa using h
      simp [this, run]

theorem stepE_ok_inv (σ : Static) (T : Tables) (st st' : State) (op : OpE) (h : stepE σ T st op = .ok st') :
    op.ok T = true := by
  cases op with
  | callArg m c a =>
    simp only [stepE] at h
    simp only [OpE.ok]
    cases hl : T.callees.lookup c with
    | none => rfl
    | some cns =>
      rw [hl] at h
      simp only [List.all_eq_true]
      exact fun cn hcn => (argNodes_ne_nil_iff cn a).1 (callArgE_ok_inv σ T m a st st' cns h cn hcn)
  | param m x =>
    simp only [stepE] at h
    simp only [OpE.ok]
    cases hl : T.params.lookup x with
    | some d => rfl
    | none =>
      rw [hl] at h
      by_cases hs : srcs T m = []
      · simp [hs]
      · simp [hs] at h
  | freeVar m y =>
    simp only [stepE] at h
    simp only [OpE.ok]
    cases hl : T.freeVars.lookup y with
    | some d => rfl
    | none =>
      rw [hl] at h
      by_cases hs : srcs T m = []
      · simp [hs]
      · simp [hs] at h
  | call _ _ => rfl
  | boundVar _ _ _ => rfl
  | ret _ _ _ => rfl

theorem runE_ok (σ : Static) (T : Tables) (st : State) (ops : List OpE) (h : allOkE T ops = true) :
    runE σ T st ops = .ok (run σ st (ops.flatMap (lower T))) := by
  induction ops generalizing st with
  | nil => rfl
  | cons op ops ih =>
    simp only [allOkE, List.all_cons, Bool.and_eq_true] at h
    simp [runE, stepE_ok σ T st op h.1, ih _ (by simpa [allOkE] using h.2), run_append]

theorem runE_ok_inv (σ : Static) (T : Tables) (st st' : State) (ops : List OpE) (h : runE σ T st ops = .ok st') :
    allOkE T ops = true := by
  induction ops generalizing st with
  | nil => rfl
  | cons op ops ih =>
    unfold runE at h
    split at h
    · next s hs =>
      have := stepE_ok_inv σ T st s op hs
      simp only [allOkE, List.all_cons, Bool.and_eq_true]
      exact ⟨this, by simpa [allOkE] using ih _ h⟩
    · cases h

theorem callArgE_error (σ : Static) (T : Tables) (m : Mark) (a : Nat) (st : State) (cns : List CallN) (e : PanicSite)
    (h : callArgE σ T m a st cns = .error e) : e = .callArgNoNode := by
  induction cns generalizing st with
  | nil => cases h
  | cons cn cns ih =>
    unfold callArgE at h
    split at h
    · cases h; rfl
    · rw [addEdgesE_ok σ T m .callArg rfl] at h
      exact ih _ h

/-- the only panics of the modelled entry points: the explicit one of addCallArgEdge and the two nil dereferences. -/
theorem stepE_error (σ : Static) (T : Tables) (st : State) (op : OpE) (e : PanicSite)
    (h : stepE σ T st op = .error e) : e = .callArgNoNode ∨ e = .paramNilNode ∨ e = .freeVarNilNode := by
  cases op with
  | callArg m c a =>
    simp only [stepE] at h
    cases hl : T.callees.lookup c with
    | none => simp [hl] at h
    | some cns => rw [hl] at h; exact Or.inl (callArgE_error σ T m a st cns e h)
  | call m c => rw [stepE_ok σ T st _ rfl] at h; cases h
  | boundVar m x v => rw [stepE_ok σ T st _ rfl] at h; cases h
  | ret m r i => rw [stepE_ok σ T st _ rfl] at h; cases h
  | param m x =>
    simp only [stepE] at h
    cases hl : T.params.lookup x with
    | some d => rw [hl] at h; simp only [addEdgeE_ok σ T st m d .param rfl] at h; cases h
    | none =>
      rw [hl] at h
      simp only at h
      split at h
      · cases h
      · cases h; exact Or.inr (Or.inl rfl)
  | freeVar m y =>
    simp only [stepE] at h
    cases hl : T.freeVars.lookup y with
    | some d => rw [hl] at h; simp only [addEdgeE_ok σ T st m d .freeVar rfl] at h; cases h
    | none =>
      rw [hl] at h
      simp only at h
      split at h
      · cases h
      · cases h; exact Or.inr (Or.inr rfl)

/-! ### lowered operations are C17-ok while no touched source is a global-access node of a constructed summary -/

/-- all operations are edge insertions whose source is not an access node of a constructed summary. -/
def edgeSrcFree (st : State) (ops : List Op) : Bool :=
  ops.all fun
    | .addEdge s _ _ => !accessConstructed st s
    | _ => false

theorem accessConstructed_addEdge (σ : Static) (st : State) (s d : Nat) (i : Idx) (x : Nat) :
    accessConstructed (step σ st (.addEdge s d i)) x = accessConstructed st x := rfl

theorem edgeSrcFree_step (σ : Static) (st : State) (s d : Nat) (i : Idx) (ops : List Op) :
    edgeSrcFree (step σ st (.addEdge s d i)) ops = edgeSrcFree st ops := by
  unfold edgeSrcFree
  congr 1

theorem allOk_of_edgeSrcFree (σ : Static) (st : State) (ops : List Op) (h : edgeSrcFree st ops = true) :
    allOk σ st ops = true := by
  induction ops generalizing st with
  | nil => rfl
  | cons op ops ih =>
    simp only [edgeSrcFree, List.all_cons, Bool.and_eq_true] at h
    cases op with
    | addEdge s d i =>
      simp only [allOk, Bool.and_eq_true]
      refine ⟨by simpa [Op.ok] using h.1, ih _ ?_⟩
      rw [edgeSrcFree_step]
      exact h.2
    | _ => simp at h

/-! ### the tables `buildE` produces -/

theorem lookup_map_self (l : List Nat) (f : Nat → Nat) (x : Nat) (hx : x ∈ l) :
    (l.map fun p => (p, f p)).lookup x = some (f x) := by
  induction l with
  | nil => cases hx
  | cons y ys ih =>
    by_cases hxy : x = y
    · subst hxy; simp
    · have : (x == y) = false := by simpa using hxy
      rcases List.mem_cons.1 hx with h | h
      · exact absurd h hxy
      · simp [List.lookup, this, ih h]

theorem mem_enumFrom {α : Type} (l : List α) (n : Nat) (a : α) (ha : a ∈ l) : ∃ i, (i, a) ∈ enumFrom n l := by
  induction l generalizing n with
  | nil => cases ha
  | cons y ys ih =>
    rcases List.mem_cons.1 ha with rfl | h
    · exact ⟨n, by simp [enumFrom]⟩
    · obtain ⟨i, hi⟩ := ih (n + 1) h
      exact ⟨i, by simp [enumFrom, hi]⟩

/-- addCallInstr builds the argument nodes from `lang.GetArgs(instr)`: every argument value has a node in
every call node of the instruction. -/
theorem mkCallNodes_args (A : Alloc) (c : CallF) (fs : List Nat) (cn : CallN) (hcn : cn ∈ mkCallNodes A c fs)
    (a : Nat) (ha : a ∈ c.args) : (cn.args.any fun p => p.1 == a) = true := by
  simp only [mkCallNodes, List.mem_map] at hcn
  obtain ⟨f, _, rfl⟩ := hcn
  obtain ⟨i, hi⟩ := mem_enumFrom c.args 0 a ha
  simp only [List.any_eq_true, List.mem_map]
  exact ⟨(a, A.argNode c.instr f i), ⟨(i, a), hi, rfl⟩, by simp⟩

theorem buildCalls_ok_iff (A : Alloc) (cs : List CallF) :
    (∃ t, buildCalls A cs = .ok t) ↔ cs.all (fun c => c.callees.isSome) = true := by
  induction cs with
  | nil => simp [buildCalls]
  | cons c cs ih =>
    cases hc : c.callees with
    | none => simp [buildCalls, hc]
    | some fs =>
      simp only [buildCalls, hc, List.all_cons, Option.isSome_some, Bool.true_and]
      rw [← ih]
      constructor
      · rintro ⟨t, ht⟩
        cases hb : buildCalls A cs with
        | error e => simp [hb] at ht
        | ok t' => exact ⟨t', rfl⟩
      · rintro ⟨t, ht⟩
        exact ⟨(c.instr, mkCallNodes A c fs) :: t, by simp [ht]⟩

theorem buildCalls_lookup (A : Alloc) (cs : List CallF) (t : List (Nat × List CallN))
    (h : buildCalls A cs = .ok t) (hnd : (cs.map (·.instr)).Nodup) (c : CallF) (hc : c ∈ cs) :
    ∃ fs, c.callees = some fs ∧ t.lookup c.instr = some (mkCallNodes A c fs) := by
  induction cs generalizing t with
  | nil => cases hc
  | cons c0 cs ih =>
    unfold buildCalls at h
    cases h0 : c0.callees with
    | none => simp [h0] at h
    | some fs0 =>
      simp only [h0] at h
      cases hb : buildCalls A cs with
      | error e => simp [hb] at h
      | ok t' =>
        simp only [hb, Except.ok.injEq] at h
        subst h
        simp only [List.map_cons, List.nodup_cons] at hnd
        rcases List.mem_cons.1 hc with rfl | hc'
        · exact ⟨fs0, h0, by simp [List.lookup]⟩
        · obtain ⟨fs, hf, hl⟩ := ih t' hb hnd.2 hc'
          have hne : (c.instr == c0.instr) = false := by
            have : c.instr ≠ c0.instr := fun e => hnd.1 (e ▸ List.mem_map.2 ⟨c, hc', rfl⟩)
            simpa using this
          exact ⟨fs, hf, by simp [List.lookup, hne, hl]⟩

/-- a call instruction that is not among the facts has no entry in `g.Callees`. -/
theorem buildCalls_lookup_none (A : Alloc) (cs : List CallF) (t : List (Nat × List CallN))
    (h : buildCalls A cs = .ok t) (i : Nat) (hi : i ∉ cs.map (·.instr)) : t.lookup i = none := by
  induction cs generalizing t with
  | nil => simp [buildCalls] at h; subst h; rfl
  | cons c0 cs ih =>
    unfold buildCalls at h
    cases h0 : c0.callees with
    | none => simp [h0] at h
    | some fs0 =>
      simp only [h0] at h
      cases hb : buildCalls A cs with
      | error e => simp [hb] at h
      | ok t' =>
        simp only [hb, Except.ok.injEq] at h
        subst h
        simp only [List.map_cons, List.mem_cons, not_or] at hi
        have hne : (i == c0.instr) = false := by simpa using hi.1
        simp only [List.lookup_cons, hne]
        exact ih t' hb hi.2

theorem buildE_ok_iff (A : Alloc) (F : Facts) :
    (∃ T, buildE A F = .ok T) ↔ F.calls.all (fun c => c.callees.isSome) = true := by
  rw [← buildCalls_ok_iff A]
  unfold buildE
  constructor
  · rintro ⟨T, hT⟩
    cases hb : buildCalls A F.calls with
    | error e => simp [hb] at hT
    | ok t => exact ⟨t, rfl⟩
  · rintro ⟨t, ht⟩
    rw [ht]
    exact ⟨_, rfl⟩

theorem buildE_tables (A : Alloc) (F : Facts) (T : Tables) (h : buildE A F = .ok T) :
    buildCalls A F.calls = .ok T.callees ∧
    T.params = (F.params.map fun p => (p, A.param p)) ∧
    T.freeVars = (F.freeVars.map fun v => (v, A.freeVar v)) := by
  unfold buildE at h
  cases hb : buildCalls A F.calls with
  | error e => simp [hb] at h
  | ok t =>
    simp only [hb, Except.ok.injEq] at h
    subst h
    exact ⟨rfl, rfl, rfl⟩

/-! ### every emitted request is ok on well-formed facts -/

theorem lookup_getD_mem (l : List (Nat × List Nat)) (v x : Nat) (hx : x ∈ (l.lookup v).getD []) :
    ∃ e ∈ l, x ∈ e.2 := by
  induction l with
  | nil => simp [List.lookup] at hx
  | cons e es ih =>
    obtain ⟨k, ps⟩ := e
    by_cases hk : v = k
    · subst hk
      simp [List.lookup] at hx
      exact ⟨(v, ps), by simp, hx⟩
    · have : (v == k) = false := by simpa using hk
      simp only [List.lookup, this] at hx
      obtain ⟨e, he, hxe⟩ := ih hx
      exact ⟨e, by simp [he], hxe⟩

theorem aliasOps_ok (A : Alloc) (F : Facts) (I : Intra) (T : Tables) (hT : buildE A F = .ok T)
    (hwf : factsWF F I = true) (m : Mark) (v : Nat) : ∀ op ∈ aliasOps I m v, op.ok T = true := by
  obtain ⟨_, hp, hf⟩ := buildE_tables A F T hT
  simp only [factsWF, Bool.and_eq_true, List.all_eq_true, List.contains_iff_mem] at hwf
  obtain ⟨⟨_, hpa⟩, hfa⟩ := hwf
  intro op hop
  simp only [aliasOps, List.mem_append, List.mem_map] at hop
  rcases hop with ⟨x, hx, rfl⟩ | ⟨y, hy, rfl⟩
  · obtain ⟨e, he, hxe⟩ := lookup_getD_mem _ v x hx
    have := lookup_map_self F.params A.param x (hpa e he x hxe)
    simp [OpE.ok, hp, this]
  · obtain ⟨e, he, hye⟩ := lookup_getD_mem _ v y hy
    have := lookup_map_self F.freeVars A.freeVar y (hfa e he y hye)
    simp [OpE.ok, hf, this]

theorem callArg_ok (A : Alloc) (F : Facts) (I : Intra) (T : Tables) (hT : buildE A F = .ok T)
    (hwf : factsWF F I = true) (c : CallF) (hc : c ∈ F.calls) (a : Nat) (ha : a ∈ c.args) (m : Mark) :
    (OpE.callArg m c.instr a).ok T = true := by
  obtain ⟨hb, _, _⟩ := buildE_tables A F T hT
  simp only [factsWF, Bool.and_eq_true, decide_eq_true_eq] at hwf
  obtain ⟨fs, _, hl⟩ := buildCalls_lookup A F.calls T.callees hb hwf.1.1.1 c hc
  simp only [OpE.ok, hl, List.all_eq_true]
  exact fun cn hcn => mkCallNodes_args A c fs cn hcn a ha

theorem emitOps_ok (A : Alloc) (F : Facts) (I : Intra) (T : Tables) (hT : buildE A F = .ok T)
    (hwf : factsWF F I = true) : ∀ op ∈ emitOps F I, op.ok T = true := by
  intro op hop
  simp only [emitOps, List.mem_append, List.mem_flatMap] at hop
  rcases hop with (⟨c, hc, hop⟩ | ⟨x, _, hop⟩) | ⟨r, _, hop⟩
  · simp only [emitCall, List.mem_append, List.mem_flatMap, List.mem_cons] at hop
    rcases hop with hop | ⟨a, ha, m, _, rfl | hop⟩
    · cases hv : c.fnValue with
      | none => simp [hv] at hop
      | some v =>
        simp only [hv, List.mem_map] at hop
        obtain ⟨m, _, rfl⟩ := hop
        rfl
    · exact callArg_ok A F I T hT hwf c hc a ha m
    · exact aliasOps_ok A F I T hT hwf m a op hop
  · simp only [emitClosure, List.mem_flatMap, List.mem_cons] at hop
    obtain ⟨b, _, m, _, rfl | hop⟩ := hop
    · rfl
    · exact aliasOps_ok A F I T hT hwf m b op hop
  · simp only [emitReturn, List.mem_append, List.mem_flatMap, List.mem_map] at hop
    rcases hop with ⟨mv, _, hop⟩ | ⟨iv, _, m, _, rfl⟩
    · exact aliasOps_ok A F I T hT hwf mv.1 mv.2 op hop
    · rfl

end Argot.SGraphE
