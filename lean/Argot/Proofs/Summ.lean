/- Helper lemmas for C09/C10: what `Summ.apply` (PopulateGraphFromSummary) builds. -/
import Argot.Model.Summ

namespace Argot.SGraph
variable {α : Type} [DecidableEq α]

theorem mem_setIn (inn : List (α × α × Idx)) (d s : α) (i : Idx) (x : α × α × Idx) :
    x ∈ setIn inn d s i ↔ (x ∈ inn ∧ ¬(x.1 = d ∧ x.2.1 = s)) ∨ x = (d, s, i) := by
  simp only [setIn, List.mem_append, List.mem_filter, List.mem_singleton, Bool.not_eq_true',
    Bool.and_eq_false_iff, decide_eq_false_iff_not]
  constructor
  · rintro (⟨h1, h2⟩ | h)
    · exact Or.inl ⟨h1, fun ⟨a, b⟩ => h2.elim (fun h => h a) (fun h => h b)⟩
    · exact Or.inr h
  · rintro (⟨h1, h2⟩ | h)
    · refine Or.inl ⟨h1, ?_⟩
      by_cases a : x.1 = d
      · exact Or.inr (fun b => h2 ⟨a, b⟩)
      · exact Or.inl a
    · exact Or.inr h

theorem inKeysUnique_iff (l : List (α × α × Idx)) :
    inKeysUnique l = true ↔ l.Pairwise (fun e f => ¬(f.1 = e.1 ∧ f.2.1 = e.2.1)) := by
  induction l with
  | nil => simp [inKeysUnique]
  | cons e es ih =>
    simp only [inKeysUnique, Bool.and_eq_true, ih, List.pairwise_cons, List.all_eq_true, Bool.not_eq_true',
      Bool.and_eq_false_iff, decide_eq_false_iff_not]
    constructor
    · rintro ⟨h1, h2⟩
      exact ⟨fun f hf ⟨a, b⟩ => (h1 f hf).elim (fun h => h a) (fun h => h b), h2⟩
    · rintro ⟨h1, h2⟩
      refine ⟨fun f hf => ?_, h2⟩
      by_cases a : f.1 = e.1
      · exact Or.inr (fun b => h1 f hf ⟨a, b⟩)
      · exact Or.inl a

theorem inKeysUnique_setIn (inn : List (α × α × Idx)) (d s : α) (i : Idx)
    (h : inKeysUnique inn = true) : inKeysUnique (setIn inn d s i) = true := by
  rw [inKeysUnique_iff] at h ⊢
  unfold setIn
  rw [List.pairwise_append]
  refine ⟨h.sublist List.filter_sublist, by simp, ?_⟩
  intro a ha b hb
  simp only [List.mem_filter, Bool.not_eq_true', Bool.and_eq_false_iff, decide_eq_false_iff_not] at ha
  simp only [List.mem_singleton] at hb
  subst hb
  rintro ⟨h1, h2⟩
  rcases ha.2 with h | h
  · exact h h1.symm
  · exact h h2.symm

end Argot.SGraph

namespace Argot.Summ
open Argot.SGraph

/-- the tuple index the by-position helpers attach is a function of the destination node. -/
def idxOf : PNode → Idx
  | .param _ => 0
  | .ret j => (j : Int)

theorem applyPos_eq (sg : Sig) (hr : Bool) (a : Applied) (p : Pos) :
    applyPos sg hr a p =
      if p.ok sg hr then { a with g := a.g.appendEdge p.edge.1 p.edge.2.1 p.edge.2.2 }
      else { a with dropped := a.dropped ++ [p] } := by
  cases p <;> simp only [applyPos, addParamEdgeByPos, addReturnEdgeByPos, Pos.ok, Pos.edge] <;>
    split <;> simp_all

theorem edge_idx (sg : Sig) (hr : Bool) (p : Pos) (h : p.ok sg hr = true) : p.edge.2.2 = idxOf p.edge.2.1 := by
  cases p with
  | arg s d => rfl
  | ret s pos =>
    simp only [Pos.ok, inRange, Bool.and_eq_true, decide_eq_true_eq] at h
    simp only [Pos.edge, idxOf]
    exact (Int.toNat_of_nonneg h.1.2.1).symm

/-- invariant of the fold: out edges carry the index of their destination; `inn` mirrors `out`; `inn` is a map. -/
structure Mirror (g : Edges PNode) : Prop where
  idx : ∀ e ∈ g.out, e.2.2 = idxOf e.2.1
  iff : ∀ d s i, (d, s, i) ∈ g.inn ↔ (s, d, i) ∈ g.out
  uniq : inKeysUnique g.inn = true

theorem mirror_empty : Mirror ({} : Edges PNode) := ⟨by simp, by simp, by simp [inKeysUnique]⟩

theorem mirror_append (g : Edges PNode) (h : Mirror g) (s d : PNode) :
    Mirror (g.appendEdge s d (idxOf d)) := by
  refine ⟨?_, ?_, ?_⟩
  · intro e he
    simp only [Edges.appendEdge, List.mem_append, List.mem_singleton] at he
    rcases he with he | rfl
    · exact h.idx e he
    · rfl
  · intro d' s' i
    simp only [Edges.appendEdge, mem_setIn, List.mem_append, List.mem_singleton, Prod.mk.injEq]
    constructor
    · rintro (⟨hm, _⟩ | ⟨rfl, rfl, rfl⟩)
      · exact Or.inl ((h.iff d' s' i).1 hm)
      · exact Or.inr ⟨rfl, rfl, rfl⟩
    · rintro (hm | ⟨rfl, rfl, rfl⟩)
      · by_cases hk : d' = d ∧ s' = s
        · obtain ⟨rfl, rfl⟩ := hk
          have := h.idx _ hm
          simp only at this
          exact Or.inr ⟨rfl, rfl, this⟩
        · exact Or.inl ⟨(h.iff d' s' i).2 hm, hk⟩
      · exact Or.inr ⟨rfl, rfl, rfl⟩
  · exact inKeysUnique_setIn _ _ _ _ h.uniq

theorem foldl_applyPos (sg : Sig) (hr : Bool) (ps : List Pos) (a : Applied) (hm : Mirror a.g) :
    let r := ps.foldl (applyPos sg hr) a
    r.g.out = a.g.out ++ (ps.filter (Pos.ok sg hr)).map Pos.edge ∧
    r.dropped = a.dropped ++ ps.filter (fun p => !p.ok sg hr) ∧ Mirror r.g := by
  induction ps generalizing a with
  | nil => simp [hm]
  | cons p ps ih =>
    simp only [List.foldl_cons]
    rw [applyPos_eq]
    by_cases hp : p.ok sg hr = true
    · have hm' : Mirror (a.g.appendEdge p.edge.1 p.edge.2.1 p.edge.2.2) := by
        rw [edge_idx sg hr p hp]; exact mirror_append a.g hm _ _
      have := ih { a with g := a.g.appendEdge p.edge.1 p.edge.2.1 p.edge.2.2 } hm'
      simp only [hp, if_true, List.filter_cons_of_pos]
      refine ⟨?_, ?_, this.2.2⟩
      · rw [this.1]; simp [Edges.appendEdge]
      · rw [this.2.1]; simp [hp]
    · have := ih { a with dropped := a.dropped ++ [p] } hm
      simp only [hp, if_false, Bool.false_eq_true]
      refine ⟨?_, ?_, this.2.2⟩
      · rw [this.1]; simp [hp]
      · rw [this.2.1]; simp [hp]

/-- membership in `rowsFrom`: the pair (i, x) is listed iff row i exists and contains x. -/
theorem mem_rowsFrom (mk : Int → Int → Pos) (hinj : ∀ a b c d, mk a b = mk c d → a = c ∧ b = d)
    (rows : List (List Int)) (k : Nat) (i x : Int) :
    mk i x ∈ rowsFrom k rows mk ↔ ∃ n row, i = ((k + n : Nat) : Int) ∧ rows[n]? = some row ∧ x ∈ row := by
  induction rows generalizing k with
  | nil => simp [rowsFrom]
  | cons r rs ih =>
    simp only [rowsFrom, List.mem_append, List.mem_map, ih]
    constructor
    · rintro (⟨y, hy, he⟩ | ⟨n, row, hi, hr, hx⟩)
      · obtain ⟨h1, h2⟩ := hinj _ _ _ _ he
        exact ⟨0, r, by simp [h1], by simp, h2 ▸ hy⟩
      · exact ⟨n + 1, row, by rw [hi]; congr 1; omega, by simpa using hr, hx⟩
    · rintro ⟨n, row, hi, hr, hx⟩
      cases n with
      | zero =>
        simp only [List.getElem?_cons_zero, Option.some.injEq] at hr
        subst hr
        exact Or.inl ⟨x, hx, by simp [hi]⟩
      | succ n =>
        exact Or.inr ⟨n, row, by rw [hi]; congr 1; omega, by simpa using hr, hx⟩

theorem rowsFrom_kind_arg (rows : List (List Int)) (k : Nat) (a b : Int) : Pos.ret a b ∉ rowsFrom k rows Pos.arg := by
  induction rows generalizing k with
  | nil => simp [rowsFrom]
  | cons r rs ih => simp [rowsFrom, ih]

theorem rowsFrom_kind_ret (rows : List (List Int)) (k : Nat) (a b : Int) : Pos.arg a b ∉ rowsFrom k rows Pos.ret := by
  induction rows generalizing k with
  | nil => simp [rowsFrom]
  | cons r rs ih => simp [rowsFrom, ih]

/-! ### the statements re-exported by Props/C09.lean and used by C10 -/

/-- **Application is exact.**  `PopulateGraphFromSummary` on a fresh summary graph creates, in order,
exactly the edges of the in-range written positions; the positions for which the helper returned
`false` (nothing is logged) are exactly the out-of-range ones; the `in` maps mirror the `out` maps
with the same tuple index and are functional. -/
theorem apply_exact' (sg : Sig) (hasRet : Bool) (s : Summary) :
    (apply sg hasRet s).g.out = (s.listed.filter (Pos.ok sg hasRet)).map Pos.edge ∧
    (apply sg hasRet s).dropped = s.listed.filter (fun p => !p.ok sg hasRet) ∧
    (∀ d src i, (d, src, i) ∈ (apply sg hasRet s).g.inn ↔ (src, d, i) ∈ (apply sg hasRet s).g.out) ∧
    inKeysUnique (apply sg hasRet s).g.inn = true := by
  have h := foldl_applyPos sg hasRet s.listed {} mirror_empty
  simp only [List.nil_append] at h
  exact ⟨h.1, h.2.1, h.2.2.iff, h.2.2.uniq⟩

/-- For a conforming summary nothing is dropped and every written position has its edge. -/
theorem apply_conforming' (sg : Sig) (hasRet : Bool) (s : Summary) (hc : conforms sg hasRet s = true) :
    (apply sg hasRet s).dropped = [] ∧ (apply sg hasRet s).g.out = s.listed.map Pos.edge := by
  obtain ⟨h1, h2, -, -⟩ := apply_exact' sg hasRet s
  simp only [conforms, List.all_eq_true] at hc
  refine ⟨?_, ?_⟩
  · rw [h2, List.filter_eq_nil_iff]; intro p hp; simp [hc p hp]
  · rw [h1, List.filter_eq_self.2 hc]

/-- The silently discarded positions are exactly the written positions out of range. -/
theorem dropped_iff_out_of_range' (sg : Sig) (hasRet : Bool) (s : Summary) (p : Pos) :
    p ∈ (apply sg hasRet s).dropped ↔ p ∈ s.listed ∧ p.ok sg hasRet = false := by
  rw [(apply_exact' sg hasRet s).2.1]; simp [List.mem_filter]

theorem ok_arg_iff' (sg : Sig) (hasRet : Bool) (a b : Int) :
    (Pos.arg a b).ok sg hasRet = true ↔ (0 ≤ a ∧ a < sg.nParams) ∧ (0 ≤ b ∧ b < sg.nParams) := by
  simp [Pos.ok, inRange]

theorem ok_ret_iff' (sg : Sig) (hasRet : Bool) (a j : Int) :
    (Pos.ret a j).ok sg hasRet = true ↔ (0 ≤ a ∧ a < sg.nParams) ∧ (0 ≤ j ∧ j < sg.nResults) ∧ hasRet = true := by
  simp [Pos.ok, inRange, and_assoc]

/-- written positions, read off the matrices: `Rets[i] ∋ j` / `Args[i] ∋ k`. -/
theorem listed_ret_iff' (s : Summary) (i j : Int) :
    Pos.ret i j ∈ s.listed ↔ ∃ (n : Nat) (row : List Int), i = (n : Int) ∧ s.rets[n]? = some row ∧ j ∈ row := by
  simp only [Summary.listed, List.mem_append, rowsFrom_kind_arg, false_or]
  rw [mem_rowsFrom Pos.ret (by intro a b c d h; cases h; exact ⟨rfl, rfl⟩)]
  simp

theorem listed_arg_iff' (s : Summary) (i k : Int) :
    Pos.arg i k ∈ s.listed ↔ ∃ (n : Nat) (row : List Int), i = (n : Int) ∧ s.args[n]? = some row ∧ k ∈ row := by
  simp only [Summary.listed, List.mem_append, rowsFrom_kind_ret, or_false]
  rw [mem_rowsFrom Pos.arg (by intro a b c d h; cases h; exact ⟨rfl, rfl⟩)]
  simp

/-- **Edges are exactly the written in-range flows** (used again by C10): for in-range `i`, `j`
the summary graph has the edge `param i → result j` iff `Rets[i]` lists `j`; likewise `param i → param k`
iff `Args[i]` lists `k`. -/
theorem edge_iff_listed' (sg : Sig) (s : Summary) (i : Nat) (hi : i < sg.nParams) :
    (∀ j, j < sg.nResults →
      ((PNode.param i, PNode.ret j, (j : Int)) ∈ (apply sg true s).g.out ↔ ∃ row, s.rets[i]? = some row ∧ (j : Int) ∈ row)) ∧
    (∀ k, k < sg.nParams →
      ((PNode.param i, PNode.param k, (0 : Int)) ∈ (apply sg true s).g.out ↔ ∃ row, s.args[i]? = some row ∧ (k : Int) ∈ row)) := by
  have hout := (apply_exact' sg true s).1
  constructor
  · intro j hj
    rw [hout, List.mem_map]
    constructor
    · rintro ⟨p, hp, he⟩
      rw [List.mem_filter] at hp
      cases p with
      | arg a b => simp [Pos.edge] at he
      | ret a b =>
        have hok := (ok_ret_iff' sg true a b).1 hp.2
        simp only [Pos.edge, Prod.mk.injEq, PNode.param.injEq, PNode.ret.injEq] at he
        have ha : a = (i : Int) := by omega
        have hb : b = (j : Int) := by omega
        subst ha hb
        obtain ⟨n, row, hn, hr, hm⟩ := (listed_ret_iff' s _ _).1 hp.1
        have : n = i := by omega
        subst this
        exact ⟨row, hr, hm⟩
    · rintro ⟨row, hr, hm⟩
      refine ⟨Pos.ret i j, List.mem_filter.2 ⟨(listed_ret_iff' s _ _).2 ⟨i, row, rfl, hr, hm⟩, ?_⟩, by simp [Pos.edge]⟩
      rw [ok_ret_iff']; exact ⟨⟨by omega, by omega⟩, ⟨by omega, by omega⟩, rfl⟩
  · intro k hk
    rw [hout, List.mem_map]
    constructor
    · rintro ⟨p, hp, he⟩
      rw [List.mem_filter] at hp
      cases p with
      | ret a b => simp [Pos.edge] at he
      | arg a b =>
        have hok := (ok_arg_iff' sg true a b).1 hp.2
        simp only [Pos.edge, Prod.mk.injEq, PNode.param.injEq, and_true] at he
        have ha : a = (i : Int) := by omega
        have hb : b = (k : Int) := by omega
        subst ha hb
        obtain ⟨n, row, hn, hr, hm⟩ := (listed_arg_iff' s _ _).1 hp.1
        have : n = i := by omega
        subst this
        exact ⟨row, hr, hm⟩
    · rintro ⟨row, hr, hm⟩
      refine ⟨Pos.arg i k, List.mem_filter.2 ⟨(listed_arg_iff' s _ _).2 ⟨i, row, rfl, hr, hm⟩, ?_⟩, by simp [Pos.edge]⟩
      rw [ok_arg_iff']; exact ⟨⟨by omega, by omega⟩, ⟨by omega, by omega⟩⟩


end Argot.Summ
