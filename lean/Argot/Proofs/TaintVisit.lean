/- Helper lemmas for C01 (no property theorem here). -/
import Argot.Spec.Flow

namespace Argot.TaintVisit
open Argot.Closure

theorem equiv_refl (G : LGraph) (a : Item) : equiv G a a = true := by
  simp [equiv]

theorem equiv_fields {G : LGraph} {a b : Item} (h : equiv G a b = true) :
    a.core = b.core ∧ flag G a = flag G b := by
  simp only [equiv, Bool.and_eq_true, beq_iff_eq] at h
  obtain ⟨⟨⟨⟨⟨⟨h1, h2⟩, h3⟩, h4⟩, h5⟩, h6⟩, h7⟩ := h
  refine ⟨?_, h7⟩
  cases a; cases b
  simp only [Item.core] at *
  simp_all

theorem equiv_key {G : LGraph} {a b : Item} (h : equiv G a b = true) : key a = key b := by
  simp only [equiv, Bool.and_eq_true, beq_iff_eq] at h
  obtain ⟨⟨⟨⟨⟨⟨h1, h2⟩, h3⟩, h4⟩, _⟩, h6⟩, _⟩ := h
  simp [key, h1, h2, h3, h4, h6]

/-- the visitor cannot tell equivalent items apart -/
theorem succ_congr {G : LGraph} (src : Nat) {a b : Item} (h : equiv G a b = true) :
    succ G src a = succ G src b := by
  obtain ⟨hc, hf⟩ := equiv_fields h
  simp [succ, stepSpec, hc, hf]

theorem reported_key {G : LGraph} {a b : Item} (h : key a = key b) : reported G a = reported G b := by
  simp only [key, Prod.mk.injEq] at h
  obtain ⟨h1, _, _, h4, _⟩ := h
  simp [reported, h1, h4]

/-- every offered candidate has its key visited at the end of a run -/
theorem offered_visited {G : LGraph} {src : Nat} {tr : List Nat} {s : State Item Key}
    (hr : FinishedRun G src tr s) :
    ∀ o ∈ offered G src tr s, ∃ w ∈ s.visited, key w = key o := by
  obtain ⟨hs, hq⟩ := hr
  have I : Closed key (succ G src) [root src tr] s :=
    closed_steps key (succ G src) (closed_init key (succ G src) (by simp)) hs
  intro o ho
  simp only [offered, List.mem_cons, List.mem_flatMap] at ho
  rcases ho with rfl | ⟨v, hv, hov⟩
  · rcases I.roots_in (root src tr) (by simp) with h | h
    · exact ⟨_, h, rfl⟩
    · simp [hq] at h
  · have hk := I.succ_seen v hv o hov
    obtain ⟨w, hw, hkw⟩ := I.seen_in _ hk
    rcases hw with hw | hw
    · exact ⟨w, hw, hkw⟩
    · simp [hq] at hw

/-- under `EntryBeforeExit`, every item reachable through the visitor's own successor function is
    equivalent to an offered candidate -/
theorem reach_offered {G : LGraph} {src : Nat} {tr : List Nat} {s : State Item Key}
    (hC : entryBeforeExit G src tr s = true) :
    ∀ a, IReach (succ G src) [root src tr] a → ∃ o ∈ offered G src tr s, equiv G o a = true := by
  intro a ha
  induction ha with
  | root h =>
    simp only [List.mem_singleton] at h
    subst h
    exact ⟨_, by simp [offered], equiv_refl G _⟩
  | step _ hstep ih =>
    obtain ⟨o, ho, hoa⟩ := ih
    rw [← succ_congr src hoa] at hstep
    simp only [entryBeforeExit, List.all_eq_true, List.any_eq_true] at hC
    exact hC o ho _ hstep

end Argot.TaintVisit
