/- Helper definitions and lemmas for C02's traversal-level theorems (Props/C02Stop.lean): the stop of
   the taint visitor (`Model/TaintVisit.lean`) at sanitizer nodes and the drop of validator-conditioned
   edges.  No property theorem here.

   `clearSan G`        G with every `sanitizer` flag cleared (no node is a sanitizer)
   `removeDropped p G` G without the validator-dropped edges selected by `p` (source node id, edge)
   `clearVal G`        G with every `validated` flag cleared (every edge is followed)
   `IReachAvoid`       item-level paths none of whose EXPANDED configurations is `bad` -/
import Argot.Proofs.TaintVisit

namespace Argot.TaintVisit
open Argot.Closure

/-! ### paths that avoid a set of configurations -/

section Avoid
variable {α : Type}

/-- closure of `a' ∈ succ a` from `roots` where no configuration that is *expanded* (has a successor
    taken on the path) is `bad`; the end point itself may be `bad` -/
inductive IReachAvoid (succ : α → List α) (bad : α → Prop) (roots : List α) : α → Prop
  | root {a : α} : a ∈ roots → IReachAvoid succ bad roots a
  | step {a a' : α} : IReachAvoid succ bad roots a → ¬ bad a → a' ∈ succ a →
      IReachAvoid succ bad roots a'

theorem IReachAvoid.ireach {succ : α → List α} {bad : α → Prop} {roots : List α} {a : α}
    (h : IReachAvoid succ bad roots a) : IReach succ roots a := by
  induction h with
  | root h => exact .root h
  | step _ _ hs ih => exact .step ih hs

/-- a path that avoids `bad` is a path of any successor function that agrees outside `bad` -/
theorem IReachAvoid.transfer {succ succ' : α → List α} {bad : α → Prop} {roots : List α}
    (hagree : ∀ a, ¬ bad a → ∀ a' ∈ succ a, a' ∈ succ' a) {a : α}
    (h : IReachAvoid succ bad roots a) : IReach succ' roots a := by
  induction h with
  | root h => exact .root h
  | step _ hb hs ih => exact .step ih (hagree _ hb _ hs)

theorem IReachAvoid.mono {succ succ' : α → List α} {bad : α → Prop} {roots : List α}
    (hagree : ∀ a, ¬ bad a → ∀ a' ∈ succ a, a' ∈ succ' a) {a : α}
    (h : IReachAvoid succ bad roots a) : IReachAvoid succ' bad roots a := by
  induction h with
  | root h => exact .root h
  | step _ hb hs ih => exact .step ih hb (hagree _ hb _ hs)

/-- when `bad` configurations have no successors every path avoids them -/
theorem IReach.avoid_of_dead {succ : α → List α} {bad : α → Prop} {roots : List α}
    (hdead : ∀ a, bad a → succ a = []) {a : α}
    (h : IReach succ roots a) : IReachAvoid succ bad roots a := by
  induction h with
  | root h => exact .root h
  | @step b c _ hs ih =>
    refine .step ih (fun hb => ?_) hs
    rw [hdead b hb] at hs
    cases hs

end Avoid

/-! ### clearing the sanitizer flags -/

def Node.clearSan (n : Node) : Node := { n with sanitizer := false }

/-- `G'`: the same linked graph, no node is a sanitizer -/
def clearSan (G : LGraph) : LGraph := { G with nodes := (G.nodes.toList.map Node.clearSan).toArray }

theorem clearSan_node (G : LGraph) (i : Nat) : (clearSan G).node i = (G.node i).clearSan := by
  simp only [LGraph.node, clearSan, Array.getD_eq_getD_getElem?, List.getElem?_toArray,
    List.getElem?_map, Array.getElem?_toList]
  cases G.nodes[i]? <;> rfl

theorem clearSan_graph (G : LGraph) (i : Nat) : (clearSan G).graph i = G.graph i := rfl

theorem clearSan_sanitizer (G : LGraph) (i : Nat) : ((clearSan G).node i).sanitizer = false := by
  rw [clearSan_node]; rfl

theorem outs_clearSan (np : Bool) (cur : Item) (n : Node) (inter : Option Nat)
    (tr ctr : List Nat) (ct : Bool) (ti : List (Nat × Nat)) (keep : Edge → Bool) :
    outs np cur n.clearSan inter tr ctr ct ti keep = outs np cur n inter tr ctr ct ti keep := rfl

theorem unwindCallee_clearSan (G : LGraph) (g : Graph) (l : List Nat) :
    unwindCallee (clearSan G) g l = unwindCallee G g l := by
  cases l <;> simp [unwindCallee, clearSan_node, Node.clearSan]

theorem unwindToFunc_clearSan (G : LGraph) (f : Nat) (l : List Nat) :
    unwindToFunc (clearSan G) f l = unwindToFunc G f l := by
  induction l with
  | nil => rfl
  | cons h t ih => simp [unwindToFunc, clearSan_node, Node.clearSan, ih]

theorem lasso_clearSan (G : LGraph) (l : List Nat) : lasso (clearSan G) l = lasso G l := by
  match l with
  | [] => rfl
  | [_] => rfl
  | h :: x :: t => simp [lasso, clearSan_node, Node.clearSan]

theorem lassoFree_clearSan (G : LGraph) (a : Item) : lassoFree (clearSan G) a = lassoFree G a := by
  simp [lassoFree, lasso_clearSan]

theorem flag_clearSan (G : LGraph) (a : Item) : flag (clearSan G) a = flag G a := by
  simp only [flag, clearSan_node, clearSan_graph, Node.clearSan]

theorem reported_clearSan (G : LGraph) (a : Item) : reported (clearSan G) a = reported G a := by
  simp only [reported, clearSan_node, Node.clearSan]

/-- the type switch of `Visit` reads the sanitizer flag of the CURRENT node only: on a node that is
    not flagged the candidates are the same with and without the flags -/
theorem stepRaw_clearSan (G : LGraph) (src : Nat) (np : Bool) (a : Item) (fl : Bool)
    (h : (G.node a.node).sanitizer = false) :
    stepRaw (clearSan G) src np a fl = stepRaw G src np a fl := by
  simp only [stepRaw, clearSan_node, clearSan_graph, outs_clearSan, unwindCallee_clearSan,
    unwindToFunc_clearSan]
  simp only [Node.clearSan, h]
  rfl

theorem succ_clearSan (G : LGraph) (src : Nat) (a : Item)
    (h : (G.node a.node).sanitizer = false) : succ (clearSan G) src a = succ G src a := by
  have h' : (G.node a.core.node).sanitizer = false := h
  simp only [succ, stepSpec, flag_clearSan, stepRaw_clearSan G src false a.core _ h']
  congr 1
  funext x
  exact lassoFree_clearSan G x

/-- the stop itself: a sanitizer-flagged node has no candidates -/
theorem stepRaw_sanitizer (G : LGraph) (src : Nat) (np : Bool) (a : Item) (fl : Bool)
    (h : (G.node a.node).sanitizer = true) : stepRaw G src np a fl = [] := by
  simp only [stepRaw, h, ↓reduceIte, ite_self]

/-! ### removing validator-dropped edges -/

/-- node `i` without its out-edges that are validator-conditioned and selected by `p` -/
def Node.removeDropped (p : Nat → Edge → Bool) (i : Nat) (n : Node) : Node :=
  { n with out := n.out.filter fun e => !(e.validated && p i e) }

/-- the linked graph without the dropped edges selected by `p` (`p = fun _ _ => true`: all of them) -/
def removeDropped (p : Nat → Edge → Bool) (G : LGraph) : LGraph :=
  { G with nodes := (G.nodes.toList.mapIdx (Node.removeDropped p)).toArray }

theorem removeDropped_node (p : Nat → Edge → Bool) (G : LGraph) (i : Nat) :
    (removeDropped p G).node i = (G.node i).removeDropped p i := by
  simp only [LGraph.node, removeDropped, Array.getD_eq_getD_getElem?, List.getElem?_toArray,
    List.getElem?_mapIdx, Array.getElem?_toList]
  cases G.nodes[i]? <;> rfl

theorem removeDropped_graph (p : Nat → Edge → Bool) (G : LGraph) (i : Nat) :
    (removeDropped p G).graph i = G.graph i := rfl

/-- a validator-conditioned edge yields no candidate: following the remaining edges is the same -/
theorem outs_removeDropped (p : Nat → Edge → Bool) (i : Nat) (np : Bool) (cur : Item) (n : Node)
    (inter : Option Nat) (tr ctr : List Nat) (ct : Bool) (ti : List (Nat × Nat)) (keep : Edge → Bool) :
    outs np cur (n.removeDropped p i) inter tr ctr ct ti keep = outs np cur n inter tr ctr ct ti keep := by
  simp only [outs, Node.removeDropped]
  induction n.out with
  | nil => rfl
  | cons e t ih =>
    rw [List.filter_cons]
    split
    · rw [List.flatMap_cons, List.flatMap_cons, ih]
    · rename_i hne
      have hv : e.validated = true := by
        cases hv : e.validated
        · simp [hv] at hne
        · rfl
      rw [List.flatMap_cons, ih]
      simp [mkNext, hv]

theorem unwindCallee_removeDropped (p : Nat → Edge → Bool) (G : LGraph) (g : Graph) (l : List Nat) :
    unwindCallee (removeDropped p G) g l = unwindCallee G g l := by
  cases l <;> simp [unwindCallee, removeDropped_node, Node.removeDropped]

theorem unwindToFunc_removeDropped (p : Nat → Edge → Bool) (G : LGraph) (f : Nat) (l : List Nat) :
    unwindToFunc (removeDropped p G) f l = unwindToFunc G f l := by
  induction l with
  | nil => rfl
  | cons h t ih => simp [unwindToFunc, removeDropped_node, Node.removeDropped, ih]

theorem lasso_removeDropped (p : Nat → Edge → Bool) (G : LGraph) (l : List Nat) :
    lasso (removeDropped p G) l = lasso G l := by
  match l with
  | [] => rfl
  | [_] => rfl
  | h :: x :: t => simp [lasso, removeDropped_node, Node.removeDropped]

theorem lassoFree_removeDropped (p : Nat → Edge → Bool) (G : LGraph) (a : Item) :
    lassoFree (removeDropped p G) a = lassoFree G a := by
  simp [lassoFree, lasso_removeDropped]

theorem flag_removeDropped (p : Nat → Edge → Bool) (G : LGraph) (a : Item) :
    flag (removeDropped p G) a = flag G a := by
  simp only [flag, removeDropped_node, removeDropped_graph, Node.removeDropped]

theorem reported_removeDropped (p : Nat → Edge → Bool) (G : LGraph) (a : Item) :
    reported (removeDropped p G) a = reported G a := by
  simp only [reported, removeDropped_node, Node.removeDropped]

theorem stepRaw_removeDropped (p : Nat → Edge → Bool) (G : LGraph) (src : Nat) (np : Bool) (a : Item)
    (fl : Bool) : stepRaw (removeDropped p G) src np a fl = stepRaw G src np a fl := by
  simp only [stepRaw, removeDropped_node, removeDropped_graph, outs_removeDropped,
    unwindCallee_removeDropped, unwindToFunc_removeDropped]
  simp only [Node.removeDropped]
  rfl

theorem succ_removeDropped (p : Nat → Edge → Bool) (G : LGraph) (src : Nat) :
    succ (removeDropped p G) src = succ G src := by
  funext a
  simp only [succ, stepSpec, flag_removeDropped, stepRaw_removeDropped]
  congr 1
  funext x
  exact lassoFree_removeDropped p G x

theorem flowsOf_removeDropped (p : Nat → Edge → Bool) (G : LGraph) (s : State Item Key) :
    flowsOf (removeDropped p G) s = flowsOf G s := by
  simp only [flowsOf]
  congr 2
  funext x
  exact reported_removeDropped p G x

theorem entryBeforeExit_removeDropped (p : Nat → Edge → Bool) (G : LGraph) (src : Nat) (tr : List Nat)
    (s : State Item Key) :
    entryBeforeExit (removeDropped p G) src tr s = entryBeforeExit G src tr s := by
  simp only [entryBeforeExit, offered, succ_removeDropped, equiv, flag_removeDropped]

/-! ### clearing the validator verdicts -/

def Edge.clearVal (e : Edge) : Edge := { e with validated := false }

def Node.clearVal (n : Node) : Node := { n with out := n.out.map Edge.clearVal }

/-- the same linked graph when no validator condition is recognised: every edge is followed -/
def clearVal (G : LGraph) : LGraph := { G with nodes := (G.nodes.toList.map Node.clearVal).toArray }

theorem clearVal_node (G : LGraph) (i : Nat) : (clearVal G).node i = (G.node i).clearVal := by
  simp only [LGraph.node, clearVal, Array.getD_eq_getD_getElem?, List.getElem?_toArray,
    List.getElem?_map, Array.getElem?_toList]
  cases G.nodes[i]? <;> rfl

theorem Edge.clearVal_of_not_validated {e : Edge} (h : e.validated = false) : e.clearVal = e := by
  cases e
  simp only [Edge.clearVal] at *
  simp [h]

end Argot.TaintVisit
