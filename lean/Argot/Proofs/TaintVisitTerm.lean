/- Helper lemmas for the termination theorem of the taint visitor model (Props/C01Term.lean):
   the shape of the successors of `stepRaw` (target node mentioned by the dump, call / closure stack
   = a suffix of the current one or one label pushed on it, access paths unchanged on a
   field-insensitive dump), the finite key universe, and the field-sensitive doubling witness. -/
import Argot.Spec.Flow
import Argot.Proofs.C07Visit

namespace Argot.TaintVisit
open Argot.Closure
open Argot.C07 (numNodup nodupLists mem_nodupLists length_nodupLists_le length_flatMap_le)

/-! ### what a dump mentions -/

/-- field-insensitive dump: every out-edge carries a trivial relative path (decidable on the dump) -/
def fieldInsensitive (G : LGraph) : Bool :=
  G.nodes.toList.all fun n => n.out.all fun e => trivialRel e.rel

/-- node ids a node record mentions as possible traversal targets -/
def nodeRefs (n : Node) : List Nat :=
  n.parent :: (n.out.map (·.dst) ++ n.args ++ n.boundVars ++ n.readLocs ++ n.destClosureNode.toList)

def graphRefs (g : Graph) : List Nat := g.params.filterMap id ++ g.freeVars.filterMap id

/-- every node id the visitor can move to (besides the source) -/
def targets (G : LGraph) : List Nat :=
  G.nodes.toList.flatMap nodeRefs ++ G.graphs.toList.flatMap graphRefs

/-- every label the visitor can push on the call stack: call nodes, parents of call arguments -/
def callLabels (G : LGraph) : List Nat :=
  (List.range G.nodes.size).filter (fun i => (G.node i).kind == .call) ++
  G.nodes.toList.filterMap (fun n => if n.kind == .callArg then some n.parent else none)

/-- every label the visitor can push on the closure stack: closure nodes of bound variables / labels -/
def closureLabels (G : LGraph) : List Nat :=
  G.nodes.toList.filterMap (fun n => if n.kind == .boundVar then some n.parent else none) ++
  G.nodes.toList.filterMap (fun n => if n.kind == .boundLabel then n.destClosureNode else none)

theorem node_cases (G : LGraph) (i : Nat) : G.node i ∈ G.nodes.toList ∨ G.node i = {} := by
  unfold LGraph.node
  by_cases h : i < G.nodes.size
  · left; simp [Array.getD, h]
  · right; simp [Array.getD, h]

theorem graph_cases (G : LGraph) (i : Nat) : G.graph i ∈ G.graphs.toList ∨ G.graph i = {} := by
  unfold LGraph.graph
  by_cases h : i < G.graphs.size
  · left; simp [Array.getD, h]
  · right; simp [Array.getD, h]

theorem node_lt_of_kind {G : LGraph} {i : Nat} (h : (G.node i).kind ≠ .other) : i < G.nodes.size := by
  by_cases hi : i < G.nodes.size
  · exact hi
  · exfalso; apply h; simp [LGraph.node, Array.getD, hi]

theorem fi_out {G : LGraph} (hfi : fieldInsensitive G = true) (i : Nat) :
    ∀ e ∈ (G.node i).out, trivialRel e.rel = true := by
  intro e he
  rcases node_cases G i with h | h
  · simp only [fieldInsensitive, List.all_eq_true] at hfi
    exact hfi _ h e he
  · rw [h] at he; simp at he

theorem mem_targets_of_node {G : LGraph} {i x : Nat} (h : x ∈ nodeRefs (G.node i))
    (hne : G.node i ≠ {}) : x ∈ targets G := by
  rcases node_cases G i with hn | hn
  · exact List.mem_append.2 (Or.inl (List.mem_flatMap.2 ⟨_, hn, h⟩))
  · exact absurd hn hne

theorem dst_mem {G : LGraph} {i : Nat} {e : Edge} (he : e ∈ (G.node i).out) : e.dst ∈ targets G := by
  apply mem_targets_of_node (i := i)
  · simp only [nodeRefs, List.mem_cons, List.mem_append, List.mem_map]
    exact Or.inr (Or.inl (Or.inl (Or.inl (Or.inl ⟨e, he, rfl⟩))))
  · intro h; rw [h] at he; simp at he

theorem args_mem {G : LGraph} {i x : Nat} (hx : x ∈ (G.node i).args) : x ∈ targets G := by
  apply mem_targets_of_node (i := i)
  · simp only [nodeRefs, List.mem_cons, List.mem_append]
    exact Or.inr (Or.inl (Or.inl (Or.inl (Or.inr hx))))
  · intro h; rw [h] at hx; simp at hx

theorem boundVars_mem {G : LGraph} {i x : Nat} (hx : x ∈ (G.node i).boundVars) : x ∈ targets G := by
  apply mem_targets_of_node (i := i)
  · simp only [nodeRefs, List.mem_cons, List.mem_append]
    exact Or.inr (Or.inl (Or.inl (Or.inr hx)))
  · intro h; rw [h] at hx; simp at hx

theorem readLocs_mem {G : LGraph} {i x : Nat} (hx : x ∈ (G.node i).readLocs) : x ∈ targets G := by
  apply mem_targets_of_node (i := i)
  · simp only [nodeRefs, List.mem_cons, List.mem_append]
    exact Or.inr (Or.inl (Or.inr hx))
  · intro h; rw [h] at hx; simp at hx

theorem dest_mem {G : LGraph} {i x : Nat} (hx : (G.node i).destClosureNode = some x) : x ∈ targets G := by
  apply mem_targets_of_node (i := i)
  · simp [nodeRefs, hx]
  · intro h; rw [h] at hx; simp at hx

theorem parent_mem {G : LGraph} {i : Nat} (hk : (G.node i).kind ≠ .other) :
    (G.node i).parent ∈ targets G := by
  apply mem_targets_of_node (i := i)
  · simp [nodeRefs]
  · intro h; rw [h] at hk; exact hk rfl

theorem getD_mem {l : List Nat} {k : Nat} (h : k < l.length) : l.getD k 0 ∈ l := by
  simp only [List.getD_eq_getElem?_getD, List.getElem?_eq_getElem h, Option.getD_some]
  exact List.getElem_mem h

theorem getD_none_some {α : Type} {l : List (Option α)} {k : Nat} {p : α}
    (h : l.getD k none = some p) : some p ∈ l := by
  by_cases hk : k < l.length
  · simp only [List.getD_eq_getElem?_getD, List.getElem?_eq_getElem hk, Option.getD_some] at h
    rw [← h]; exact List.getElem_mem hk
  · simp only [List.getD_eq_getElem?_getD, List.getElem?_eq_none (Nat.le_of_not_lt hk), Option.getD_none] at h
    cases h

theorem params_mem {G : LGraph} {i k p : Nat} (h : (G.graph i).params.getD k none = some p) :
    p ∈ targets G := by
  rcases graph_cases G i with hg | hg
  · refine List.mem_append.2 (Or.inr (List.mem_flatMap.2 ⟨_, hg, ?_⟩))
    simp only [graphRefs, List.mem_append, List.mem_filterMap, id]
    exact Or.inl ⟨some p, getD_none_some h, rfl⟩
  · rw [hg] at h; simp at h

theorem freeVars_mem {G : LGraph} {i k p : Nat} (h : (G.graph i).freeVars.getD k none = some p) :
    p ∈ targets G := by
  rcases graph_cases G i with hg | hg
  · refine List.mem_append.2 (Or.inr (List.mem_flatMap.2 ⟨_, hg, ?_⟩))
    simp only [graphRefs, List.mem_append, List.mem_filterMap, id]
    exact Or.inr ⟨some p, getD_none_some h, rfl⟩
  · rw [hg] at h; simp at h

theorem call_label {G : LGraph} {i : Nat} (hk : (G.node i).kind = .call) : i ∈ callLabels G := by
  refine List.mem_append.2 (Or.inl (List.mem_filter.2 ⟨List.mem_range.2 (node_lt_of_kind ?_), by simp [hk]⟩))
  rw [hk]; decide

theorem callArg_label {G : LGraph} {i : Nat} (hk : (G.node i).kind = .callArg) :
    (G.node i).parent ∈ callLabels G := by
  refine List.mem_append.2 (Or.inr (List.mem_filterMap.2 ⟨G.node i, ?_, by simp [hk]⟩))
  rcases node_cases G i with h | h
  · exact h
  · rw [h] at hk; cases hk

theorem boundVar_label {G : LGraph} {i : Nat} (hk : (G.node i).kind = .boundVar) :
    (G.node i).parent ∈ closureLabels G := by
  refine List.mem_append.2 (Or.inl (List.mem_filterMap.2 ⟨G.node i, ?_, by simp [hk]⟩))
  rcases node_cases G i with h | h
  · exact h
  · rw [h] at hk; cases hk

theorem boundLabel_label {G : LGraph} {i x : Nat} (hk : (G.node i).kind = .boundLabel)
    (hx : (G.node i).destClosureNode = some x) : x ∈ closureLabels G := by
  refine List.mem_append.2 (Or.inr (List.mem_filterMap.2 ⟨G.node i, ?_, by simp [hk, hx]⟩))
  rcases node_cases G i with h | h
  · exact h
  · rw [h] at hk; cases hk

theorem unwindToFunc_suffix (G : LGraph) (f : Nat) : ∀ t : List Nat, unwindToFunc G f t <:+ t
  | [] => by simp [unwindToFunc]
  | h :: t => by
    unfold unwindToFunc
    split
    · exact List.suffix_refl _
    · exact List.IsSuffix.trans (unwindToFunc_suffix G f t) (List.suffix_cons h t)

/-! ### shape of one step -/

/-- the next stack is a suffix of the current one, or one label of `L` pushed on it -/
def StackStep (L : List Nat) (t t' : List Nat) : Prop := t' <:+ t ∨ ∃ x ∈ L, t' = x :: t

theorem StackStep.same (L : List Nat) (t : List Nat) : StackStep L t t := Or.inl (List.suffix_refl _)
theorem StackStep.tail (L : List Nat) (t : List Nat) : StackStep L t t.tail := Or.inl (List.tail_suffix _)
theorem StackStep.nil (L : List Nat) (t : List Nat) : StackStep L t [] := Or.inl (List.nil_suffix)
theorem StackStep.push {L : List Nat} {x : Nat} (t : List Nat) (h : x ∈ L) : StackStep L t (x :: t) :=
  Or.inr ⟨x, h, rfl⟩

structure StepOk (G : LGraph) (src : Nat) (b x : Item) : Prop where
  node : x.node ∈ src :: targets G
  tr : StackStep (callLabels G) b.trace x.trace
  ctr : StackStep (closureLabels G) b.ctrace x.ctrace
  paths : x.paths = b.paths

theorem mem_mkNext {cur : Item} {inter : Option Nat} {node : Nat} {tr ctr : List Nat} {ct : Bool}
    {ti : List (Nat × Nat)} {e : Edge} {x : Item}
    (h : x ∈ mkNext false cur inter node tr ctr ct ti e) (he : trivialRel e.rel = true) :
    x.node = node ∧ x.trace = tr ∧ x.ctrace = ctr ∧ x.paths = cur.paths := by
  unfold mkNext at h
  simp only [nextPaths, he, if_true] at h
  split at h
  · simp at h
  · split at h
    · simp at h
    · simp only [List.mem_singleton] at h; subst h; simp

theorem ok_mk {G : LGraph} {src : Nat} {b : Item} {inter : Option Nat} {node : Nat} {tr ctr : List Nat}
    {ct : Bool} {ti : List (Nat × Nat)} {x : Item}
    (h : x ∈ mkNext false b inter node tr ctr ct ti emptyEdge)
    (hn : node ∈ targets G) (ht : StackStep (callLabels G) b.trace tr)
    (hc : StackStep (closureLabels G) b.ctrace ctr) : StepOk G src b x := by
  obtain ⟨h1, h2, h3, h4⟩ := mem_mkNext h (by decide)
  exact ⟨by rw [h1]; exact List.mem_cons_of_mem _ hn, by rw [h2]; exact ht, by rw [h3]; exact hc, h4⟩

theorem ok_outs {G : LGraph} (hfi : fieldInsensitive G = true) {src : Nat} {b : Item} {i : Nat}
    {inter : Option Nat} {tr ctr : List Nat} {ct : Bool} {ti : List (Nat × Nat)} {keep : Edge → Bool}
    {x : Item} (h : x ∈ outs false b (G.node i) inter tr ctr ct ti keep)
    (ht : StackStep (callLabels G) b.trace tr)
    (hc : StackStep (closureLabels G) b.ctrace ctr) : StepOk G src b x := by
  simp only [outs, List.mem_flatMap] at h
  obtain ⟨e, he, hx⟩ := h
  split at hx
  · obtain ⟨h1, h2, h3, h4⟩ := mem_mkNext hx (fi_out hfi i e he)
    exact ⟨by rw [h1]; exact List.mem_cons_of_mem _ (dst_mem he), by rw [h2]; exact ht,
      by rw [h3]; exact hc, h4⟩
  · simp at hx

/-- every candidate `Visit` hands to `addNext` on a field-insensitive dump: target mentioned by the
    dump, stacks derived by suffix / one push, access paths unchanged -/
theorem stepRaw_ok {G : LGraph} (hfi : fieldInsensitive G = true) {src : Nat} {b : Item} {fl : Bool}
    {x : Item} (h : x ∈ stepRaw G src false b fl) : StepOk G src b x := by
  have sT := StackStep.same (callLabels G) b.trace
  have sC := StackStep.same (closureLabels G) b.ctrace
  have tT := StackStep.tail (callLabels G) b.trace
  have tC := StackStep.tail (closureLabels G) b.ctrace
  have nT := StackStep.nil (callLabels G) b.trace
  have nC := StackStep.nil (closureLabels G) b.ctrace
  have tC' : ∀ cl crest, b.ctrace = cl :: crest → StackStep (closureLabels G) b.ctrace crest :=
    fun cl crest hc => by rw [hc]; exact Or.inl (List.suffix_cons _ _)
  unfold stepRaw at h
  simp only at h
  split at h
  · simp at h
  split at h
  · simp at h
  split at h
  · simp at h
  split at h
  · simp at h
  split at h
  · -- param
    rename_i hk
    rcases List.mem_append.1 h with h | h
    · split at h
      · exact ok_outs hfi h sT sC
      · simp at h
    · split at h
      · split at h
        · rename_i hlt
          exact ok_mk h (args_mem (getD_mem hlt)) tT sC
        · simp at h
      · obtain ⟨cs, _, h⟩ := List.mem_flatMap.1 h
        split at h
        · exact ok_outs hfi h nT sC
        · simp at h
  · -- callArg
    rename_i hk
    split at h
    · simp at h
    · rcases List.mem_append.1 h with h | h
      · split at h
        · rename_i p hp
          exact ok_mk h (params_mem hp) (StackStep.push _ (callArg_label hk)) sC
        · simp at h
      · split at h
        · exact ok_outs hfi h sT sC
        · simp at h
  · -- ret
    split at h
    · exact ok_outs hfi h tT sC
    · split at h
      · split at h
        · exact ok_outs hfi h sT (tC' _ _ (by assumption))
        · obtain ⟨cs, _, h⟩ := List.mem_flatMap.1 h
          exact ok_outs hfi h nT sC
      · obtain ⟨cs, _, h⟩ := List.mem_flatMap.1 h
        exact ok_outs hfi h nT sC
  · -- call
    rename_i hk
    rcases List.mem_append.1 h with h | h
    · rcases List.mem_append.1 h with h | h
      · split at h
        · split at h
          · split at h
            · rename_i fv hfv
              exact ok_mk h (freeVars_mem hfv) (StackStep.push _ (call_label hk)) sC
            · simp at h
          · simp at h
        · simp at h
      · exact ok_outs hfi h tT sC
    · split at h
      · obtain ⟨arg, harg, h⟩ := List.mem_flatMap.1 h
        exact ok_mk h (args_mem harg) tT sC
      · simp at h
  · -- boundVar
    rename_i hk
    rcases List.mem_append.1 h with h | h
    · exact ok_outs hfi h sT sC
    · split at h
      · simp at h
      · exact ok_mk h (parent_mem (by rw [hk]; decide)) (Or.inl (unwindToFunc_suffix G _ _))
          (StackStep.push _ (boundVar_label hk))
  · -- freeVar
    split at h
    · exact ok_outs hfi h sT sC
    · split at h
      · split at h
        · rename_i hlt
          exact ok_mk h (boundVars_mem (getD_mem hlt)) tT (tC' _ _ (by assumption))
        · simp at h
      · obtain ⟨mc, _, h⟩ := List.mem_flatMap.1 h
        split at h
        · rename_i hlt
          exact ok_mk h (boundVars_mem (getD_mem hlt)) sT nC
        · simp at h
  · exact ok_outs hfi h sT sC
  · exact ok_outs hfi h sT sC
  · -- global
    split at h
    · obtain ⟨r, hr, h⟩ := List.mem_flatMap.1 h
      exact ok_mk h (readLocs_mem hr) nT sC
    · exact ok_outs hfi h sT sC
  · -- boundLabel
    rename_i hk
    split at h
    · simp at h
    · rename_i clId hcl
      split at h
      · simp at h
      · exact ok_mk h (dest_mem hcl) (Or.inl (unwindToFunc_suffix G _ _))
          (StackStep.push _ (boundLabel_label hk hcl))
  · simp at h
  · simp at h

/-! ### the invariant of queued items and the finite key universe -/

/-- a candidate that passes the lasso test does not repeat its innermost label -/
theorem not_mem_of_lasso {G : LGraph} {h : Nat} {t : List Nat} (hl : lasso G (h :: t) = false) :
    h ∉ t := by
  cases t with
  | nil => simp
  | cons y r =>
    intro hm
    have : lasso G (h :: y :: r) = true := by
      simp only [lasso, List.any_eq_true]
      exact ⟨h, hm, by simp⟩
    rw [hl] at this; cases this

theorem stack_good {G : LGraph} {L0 L t t' : List Nat} (hn : t.Nodup) (hs : ∀ x ∈ t, x ∈ L)
    (h0 : ∀ x ∈ L0, x ∈ L) (hstep : StackStep L0 t t') (hl : lasso G t' = false) :
    t'.Nodup ∧ ∀ x ∈ t', x ∈ L := by
  rcases hstep with ⟨p, rfl⟩ | ⟨x, hx, rfl⟩
  · exact ⟨(List.nodup_append.1 hn).2.1, fun x hx => hs x (List.mem_append_right _ hx)⟩
  · refine ⟨List.nodup_cons.2 ⟨not_mem_of_lasso hl, hn⟩, fun y hy => ?_⟩
    rcases List.mem_cons.1 hy with rfl | hy
    · exact h0 _ hx
    · exact hs y hy

/-- what every queued item satisfies on a field-insensitive dump -/
structure Good (N LT LC : List Nat) (a : Item) : Prop where
  node : a.node ∈ N
  tnd : a.trace.Nodup
  tsub : ∀ x ∈ a.trace, x ∈ LT
  cnd : a.ctrace.Nodup
  csub : ∀ x ∈ a.ctrace, x ∈ LC
  paths : a.paths = [""]

theorem good_root {N LT LC : List Nat} {src : Nat} {tr : List Nat} (hs : src ∈ N) (htr : tr.Nodup)
    (hsub : ∀ x ∈ tr, x ∈ LT) : Good N LT LC (root src tr) :=
  ⟨hs, htr, hsub, List.nodup_nil, fun _ h => by simp [root] at h, rfl⟩

theorem good_succ {G : LGraph} (hfi : fieldInsensitive G = true) {src : Nat} {N LT LC : List Nat}
    (hN : ∀ x ∈ src :: targets G, x ∈ N) (hLT : ∀ x ∈ callLabels G, x ∈ LT)
    (hLC : ∀ x ∈ closureLabels G, x ∈ LC) {a a' : Item} (ha : Good N LT LC a)
    (h : a' ∈ succ G src a) : Good N LT LC a' := by
  simp only [succ, stepSpec, List.mem_filter, lassoFree, Bool.and_eq_true, Bool.not_eq_true'] at h
  obtain ⟨hmem, hl1, hl2⟩ := h
  have ok := stepRaw_ok hfi hmem
  have h1 := stack_good ha.tnd ha.tsub hLT ok.tr hl1
  have h2 := stack_good ha.cnd ha.csub hLC ok.ctr hl2
  exact ⟨hN _ ok.node, h1.1, h1.2, h2.1, h2.2, ok.paths.trans ha.paths⟩

/-- every `seen` key of a field-insensitive run: node × repetition-free call stack ×
    repetition-free closure stack × tracing kind, with the one access-path list `[""]` -/
def keyU (N LT LC : List Nat) : List Key :=
  N.flatMap fun n => (nodupLists LT).flatMap fun t => (nodupLists LC).flatMap fun c =>
    [false, true].map fun b => (n, t, c, b, [""])

theorem length_keyU_le (N LT LC : List Nat) :
    (keyU N LT LC).length ≤ N.length * (numNodup LT.length * (numNodup LC.length * 2)) := by
  unfold keyU
  apply length_flatMap_le
  intro a _
  refine Nat.le_trans (length_flatMap_le _ (numNodup LC.length * 2) _ ?_)
    (Nat.mul_le_mul_right _ (length_nodupLists_le LT))
  intro t _
  refine Nat.le_trans (length_flatMap_le _ 2 _ ?_) (Nat.mul_le_mul_right _ (length_nodupLists_le LC))
  intro c _
  simp

theorem mem_keyU {N LT LC : List Nat} {a : Item} (h : Good N LT LC a) : key a ∈ keyU N LT LC := by
  unfold keyU
  simp only [List.mem_flatMap, List.mem_map]
  refine ⟨a.node, h.node, a.trace, mem_nodupLists LT _ h.tnd h.tsub, a.ctrace,
    mem_nodupLists LC _ h.cnd h.csub, a.ct, by cases a.ct <;> simp, ?_⟩
  simp [key, h.paths]

/-! ### field-sensitive dumps: the access-path list of the key is not drawn from a finite set -/

namespace FS

/-- a relative-path map with two entries whose input paths are both extended by every current
    access path that is a prefix of them -/
def R : List (String × String) := [("x", "x"), ("xy", "x")]

def n0 : Node := { kind := .synthetic, out := [{ dst := 1, rel := R }] }
def n1 : Node := { kind := .synthetic, out := [{ dst := 0, rel := R }] }

/-- two nodes of one function on a cycle, both edges carrying the relative paths `R` -/
def G : LGraph := { graphs := #[{ fn := 1 }], nodes := #[n0, n1] }

theorem node0 : G.node 0 = n0 := rfl
theorem node1 : G.node 1 = n1 := rfl
theorem graph0 : G.graph 0 = { fn := 1 } := rfl

theorem pre1 : "".isPrefixOf "x" = true := by with_unfolding_all decide
theorem pre2 : "x".isPrefixOf "xy" = true := by with_unfolding_all decide
theorem pre3 : "x".isPrefixOf "x" = true := by with_unfolding_all decide
theorem pre4 : "".isPrefixOf "xy" = true := by with_unfolding_all decide
theorem R_not_trivial : trivialRel R = false := by with_unfolding_all decide

/-- every current access path is `""` or `"x"` -/
def Pre (cur : List String) : Prop := ∀ p ∈ cur, p = "" ∨ p = "x"

/-- `addNext` appends one output path per matching (relative path, current path) pair: the list doubles -/
def dbl (cur : List String) : List String := cur.map (fun _ => "x") ++ cur.map (fun _ => "x")

theorem filterMap_pre (s : String) (h1 : "".isPrefixOf s = true) (h2 : "x".isPrefixOf s = true) :
    ∀ cur : List String, Pre cur →
      cur.filterMap (fun ap => if ap.isPrefixOf s then some "x" else none) = cur.map (fun _ => "x")
  | [], _ => rfl
  | p :: cur, h => by
    have ih := filterMap_pre s h1 h2 cur (fun q hq => h q (List.mem_cons_of_mem _ hq))
    rcases h p List.mem_cons_self with rfl | rfl
    · simp [h1, ih]
    · simp [h2, ih]

theorem nextPaths_R {cur : List String} (h : Pre cur) : nextPaths cur R = dbl cur := by
  unfold nextPaths
  rw [R_not_trivial]
  simp only [R, Bool.false_eq_true, if_false, List.flatMap_cons, List.flatMap_nil, List.append_nil]
  rw [filterMap_pre "x" pre1 pre3 cur h, filterMap_pre "xy" pre4 pre2 cur h]
  rfl

theorem dbl_pre (cur : List String) : Pre (dbl cur) := by
  intro p hp
  simp only [dbl, List.mem_append, List.mem_map] at hp
  rcases hp with ⟨_, _, rfl⟩ | ⟨_, _, rfl⟩ <;> exact Or.inr rfl

theorem dbl_length (cur : List String) : (dbl cur).length = 2 * cur.length := by
  simp only [dbl, List.length_append, List.length_map]; omega

theorem dbl_ne_nil {cur : List String} (h : cur ≠ []) : dbl cur ≠ [] := by
  intro hd
  have := dbl_length cur
  rw [hd] at this
  have : cur.length = 0 := by simp at this; omega
  exact h (List.eq_nil_of_length_eq_zero this)

/-- the items of the run: node, access paths, `Prev` -/
def it (i : Nat) (ps : List String) (pv : Option Nat) : Item := { node := i, paths := ps, prev := pv }

theorem succ_it0 {ps : List String} (pv : Option Nat) (h : Pre ps) (hne : ps ≠ []) :
    succ G 0 (it 0 ps pv) = [it 1 (dbl ps) (some 0)] := by
  have hd := dbl_ne_nil hne
  simp [succ, stepSpec, stepRaw, Item.core, it, node0, graph0, n0, outs, mkNext, nextPaths_R h, hd,
    lassoFree, lasso]

theorem succ_it1 {ps : List String} (pv : Option Nat) (h : Pre ps) (hne : ps ≠ []) :
    succ G 0 (it 1 ps pv) = [it 0 (dbl ps) (some 1)] := by
  have hd := dbl_ne_nil hne
  simp [succ, stepSpec, stepRaw, Item.core, it, node1, graph0, n1, outs, mkNext, nextPaths_R h, hd,
    lassoFree, lasso]

/-- the access paths after `k` rounds -/
def P : Nat → List String
  | 0 => [""]
  | k + 1 => dbl (P k)

theorem P_pre : ∀ k, Pre (P k)
  | 0 => by intro p hp; simp [P] at hp; exact Or.inl hp
  | k + 1 => dbl_pre _

theorem P_length : ∀ k, (P k).length = 2 ^ k
  | 0 => rfl
  | k + 1 => by rw [P, dbl_length, P_length k, Nat.pow_succ]; omega

theorem P_ne_nil (k : Nat) : P k ≠ [] := by
  intro h
  have := P_length k
  rw [h] at this
  have h2 : 0 < 2 ^ k := Nat.two_pow_pos k
  simp only [List.length_nil] at this
  omega

theorem succ_it {i : Nat} (hi : i < 2) {ps : List String} (pv : Option Nat) (h : Pre ps) (hne : ps ≠ []) :
    succ G 0 (it i ps pv) = [it (1 - i) (dbl ps) (some i)] := by
  have : i = 0 ∨ i = 1 := by omega
  rcases this with rfl | rfl
  · exact succ_it0 pv h hne
  · exact succ_it1 pv h hne

theorem reach_P : ∀ k, ∃ i pv, i < 2 ∧ IReach (succ G 0) [root 0 []] (it i (P k) pv)
  | 0 => ⟨0, none, by omega, IReach.root (by simp [root, it, P])⟩
  | k + 1 => by
    obtain ⟨i, pv, hi, hr⟩ := reach_P k
    refine ⟨1 - i, some i, by omega, IReach.step hr ?_⟩
    rw [succ_it hi pv (P_pre k) (P_ne_nil k)]
    simp [P]

theorem le_sum_of_mem {x : Nat} : ∀ {l : List Nat}, x ∈ l → x ≤ l.sum
  | [], h => by simp at h
  | y :: l, h => by
    rcases List.mem_cons.1 h with rfl | h
    · simp
    · have := le_sum_of_mem h; simp; omega

/-- the FIFO run never empties its queue: the one queued item always has a key longer than every
    key seen so far -/
theorem bfs_nonempty : ∀ (n : Nat) (s : State Item Key) (i : Nat) (ps : List String) (pv : Option Nat),
    i < 2 → Pre ps → ps ≠ [] → s.queue = [it i ps pv] →
    (∀ k ∈ s.seen, k.2.2.2.2.length ≤ ps.length) → (bfs key (succ G 0) n s).queue ≠ []
  | 0, s, i, ps, pv, _, _, _, hq, _ => by rw [bfs_zero, hq]; simp
  | n + 1, s, i, ps, pv, hi, hp, hne, hq, hseen => by
    rw [bfs_cons key (succ G 0) n hq, succ_it hi pv hp hne]
    have hnew : key (it (1 - i) (dbl ps) (some i)) ∉ s.seen := by
      intro hm
      have := hseen _ hm
      simp only [key, it, dbl_length] at this
      have : 0 < ps.length := List.length_pos_iff.2 hne
      omega
    rw [offer_cons_new key [] hnew, offer_nil]
    refine bfs_nonempty n _ (1 - i) (dbl ps) (some i) (by omega) (dbl_pre ps) (dbl_ne_nil hne) rfl ?_
    intro k hk
    rcases List.mem_cons.1 hk with rfl | hk
    · simp [key, it]
    · have := hseen k hk
      rw [dbl_length]; omega

end FS

end Argot.TaintVisit
