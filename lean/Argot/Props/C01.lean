/- C01 — Taint analysis reports every explicit source-to-sink data flow.
   Property theorems for the inter-procedural layer (L4/L5 of DESIGN.md §4 C01): the visitor of
   `analysis/taint/dataflow_visitor.go`, modelled by `Argot.TaintVisit` over the dumped linked
   summary graph (tie M6: `oracle_c01` runs `TaintVisit.run` on the graph of every generated program and
   the driver demands `real reported flows ⊇ model flows`, plus `real ⊇ marker ground truth`).

   Full statement: `TaintSound` (Spec/Flow.lean) — every sink configuration at the end of a valid
   inter-procedural path is reported, for every traversal order.  It is FALSE on the current code:
   `taint_sound_false_lasso` (F1) and `taint_sound_false_entry` (F14) are closed counterexamples in
   the model, both replayed on the real tool (corpus/findings/F01_*, F14_*, C01a_*).
   Proved: `visits_closure` (every traversal order visits the closure of the guaranteed successor
   relation), `visits_sound`, `taint_sound_partial` (with the decidable hypotheses `LassoFree` — the
   path stays lasso-free — and `EntryBeforeExit` — `entryBeforeExit G src tr s = true`, evaluated by the
   oracle on every run). -/
import Argot.Proofs.TaintVisit

namespace Argot.TaintVisit
open Argot.Closure

/-- successors that every item with a given key has, whatever its `Prev` / tracing info -/
def Guaranteed (G : LGraph) (src : Nat) (k k' : Key) : Prop :=
  ∀ a, key a = k → ∃ a' ∈ succ G src a, key a' = k'

/-- L4: in EVERY traversal order (any choice of the popped element, any order of the out-edge maps,
    any queue discipline) a finished run has visited every key in the reflexive-transitive closure
    of the guaranteed successor relation from the source. -/
theorem visits_closure (G : LGraph) (src : Nat) (tr : List Nat) (s : State Item Key)
    (hr : FinishedRun G src tr s) :
    ∀ k, Reach (Guaranteed G src) [key (root src tr)] k → k ∈ s.visited.map key := by
  intro k hk
  have := visited_contains_guaranteed key (succ G src) (Guaranteed G src)
    (fun a k' h => h a rfl) (roots := [root src tr]) (seen0 := []) (by simp) hr.1 hr.2 k
  exact this (by simpa using hk)

/-- nothing is visited that is not reachable through the visitor's successor function -/
theorem visits_sound (G : LGraph) (src : Nat) (tr : List Nat) (s : State Item Key)
    (hs : Steps key (succ G src) ⟨[root src tr], [], []⟩ s) :
    ∀ a ∈ s.visited, IReach (succ G src) [root src tr] a := by
  intro a ha
  exact visited_sound key (succ G src) hs a (by simp [ha])

/-- every reported sink is the end of a valid (lasso-free) path: no flow is invented by the traversal -/
theorem flows_are_paths (G : LGraph) (src : Nat) (tr : List Nat) (s : State Item Key)
    (hs : Steps key (succ G src) ⟨[root src tr], [], []⟩ s) :
    ∀ n ∈ flowsOf G s, ∃ a, LassoFreePathTo G src tr a ∧ a.node = n ∧ reported G a = true := by
  intro n hn
  simp only [flowsOf, List.mem_map, List.mem_filter] at hn
  obtain ⟨a, ⟨ha, hrep⟩, rfl⟩ := hn
  exact ⟨a, visits_sound G src tr s hs a ha, rfl, hrep⟩

/-- L5, partial: with `EntryBeforeExit` (decidable on the finished run) every sink configuration at
    the end of a valid path that stays `LassoFree` is reported — in every traversal order. -/
theorem taint_sound_partial (G : LGraph) (src : Nat) (tr : List Nat) (s : State Item Key)
    (hr : FinishedRun G src tr s) (hEBE : entryBeforeExit G src tr s = true)
    (a : Item) (hpath : LassoFreePathTo G src tr a) (hsink : reported G a = true) :
    a.node ∈ flowsOf G s := by
  obtain ⟨o, ho, hoa⟩ := reach_offered hEBE a hpath
  obtain ⟨w, hw, hkw⟩ := offered_visited hr o ho
  have hk : key w = key a := hkw.trans (equiv_key hoa)
  have hrep : reported G w = true := (reported_key hk).trans hsink
  have hnode : w.node = a.node := by
    have := congrArg Prod.fst hk
    simpa [key] using this
  simp only [flowsOf, List.mem_map, List.mem_filter]
  exact ⟨w, ⟨hw, hrep⟩, hnode⟩

/-- when no candidate of an offered item was cut by the lasso test and `EntryBeforeExit` holds
    (the two per-run flags the oracle prints), the run is complete for ALL valid paths -/
theorem taint_sound_of_flags (G : LGraph) (src : Nat) (tr : List Nat) (s : State Item Key)
    (hr : FinishedRun G src tr s) (hEBE : entryBeforeExit G src tr s = true)
    (hcut : lassoCut G src tr s = false)
    (a : Item) (hpath : ValidPathTo G src tr a) (hsink : reported G a = true) :
    a.node ∈ flowsOf G s := by
  have key_lemma : ∀ b, ValidPathTo G src tr b →
      ∃ o ∈ offered G src tr s, equiv G o b = true := by
    intro b hb
    induction hb with
    | root h =>
      simp only [List.mem_singleton] at h
      subst h
      exact ⟨_, by simp [offered], equiv_refl G _⟩
    | @step b c _ hstep ih =>
      obtain ⟨o, ho, hob⟩ := ih
      have hspec : stepSpec G src o = stepSpec G src b := by
        obtain ⟨hc, hf⟩ := equiv_fields hob
        simp [stepSpec, hc, hf]
      rw [← hspec] at hstep
      have hlf : lassoFree G c = true := by
        by_cases h : lassoFree G c = true
        · exact h
        · exfalso
          have hc : lassoCut G src tr s = true := by
            simp only [lassoCut, List.any_eq_true]
            exact ⟨o, ho, c, hstep, by simpa using h⟩
          rw [hcut] at hc
          cases hc
      simp only [entryBeforeExit, List.all_eq_true, List.any_eq_true] at hEBE
      exact hEBE o ho c (by simp [succ, List.mem_filter, hstep, hlf])
  obtain ⟨o, ho, hoa⟩ := key_lemma a hpath
  obtain ⟨w, hw, hkw⟩ := offered_visited hr o ho
  have hk : key w = key a := hkw.trans (equiv_key hoa)
  have hrep : reported G w = true := (reported_key hk).trans hsink
  have hnode : w.node = a.node := by
    have := congrArg Prod.fst hk
    simpa [key] using this
  simp only [flowsOf, List.mem_map, List.mem_filter]
  exact ⟨w, ⟨hw, hrep⟩, hnode⟩

/-- a finished run that satisfies `EntryBeforeExit` reports at least what ANY other traversal order
    reports (used by C06: two runs that both satisfy it report the same sinks) -/
theorem flows_maximal_of_ebe (G : LGraph) (src : Nat) (tr : List Nat) (s₁ s₂ : State Item Key)
    (h₁ : FinishedRun G src tr s₁) (hEBE : entryBeforeExit G src tr s₁ = true)
    (h₂ : Steps key (succ G src) ⟨[root src tr], [], []⟩ s₂) :
    ∀ n ∈ flowsOf G s₂, n ∈ flowsOf G s₁ := by
  intro n hn
  obtain ⟨a, hpath, rfl, hrep⟩ := flows_are_paths G src tr s₂ h₂ n hn
  exact taint_sound_partial G src tr s₁ h₁ hEBE a hpath hrep

theorem flows_order_independent (G : LGraph) (src : Nat) (tr : List Nat) (s₁ s₂ : State Item Key)
    (h₁ : FinishedRun G src tr s₁) (e₁ : entryBeforeExit G src tr s₁ = true)
    (h₂ : FinishedRun G src tr s₂) (e₂ : entryBeforeExit G src tr s₂ = true) :
    ∀ n, n ∈ flowsOf G s₁ ↔ n ∈ flowsOf G s₂ :=
  fun n => ⟨flows_maximal_of_ebe G src tr s₂ s₁ h₂ e₂ h₁.1 n, flows_maximal_of_ebe G src tr s₁ s₂ h₁ e₁ h₂.1 n⟩

/-! ### The repaired key: adding what the successors depend on to the `seen` key makes the
    traversal complete for lasso-free paths (proposed repair of F14 / C01a; also the criterion the
    driver uses to attribute a missed flow to that defect) -/

/-- with the full key the successors are key-determined -/
theorem succ_keyFull_det (G : LGraph) (src : Nat) (a b : Item) (h : keyFull G a = keyFull G b) :
    succ G src a = succ G src b := by
  simp only [keyFull, Prod.mk.injEq] at h
  simp [succ, stepSpec, h.1, h.2]

/-- every traversal order of the visitor with the full key reports every sink configuration at the
    end of a lasso-free valid path: `EntryBeforeExit` is not needed any more -/
theorem ideal_complete (G : LGraph) (src : Nat) (tr : List Nat) (s : State Item KeyFull)
    (hs : Steps (keyFull G) (succ G src) ⟨[root src tr], [], []⟩ s) (hq : s.queue = [])
    (a : Item) (hpath : LassoFreePathTo G src tr a) (hsink : reported G a = true) :
    a.node ∈ flowsOfIdeal G s := by
  have hdet : ∀ x y, keyFull G x = keyFull G y → ∀ x' ∈ succ G src x, ∃ y' ∈ succ G src y,
      keyFull G y' = keyFull G x' := by
    intro x y hxy x' hx'
    rw [succ_keyFull_det G src x y hxy] at hx'
    exact ⟨x', hx', rfl⟩
  have hp : IReach (succ G src) [root src tr] a := hpath
  have hreach := IReach.reach_poss (keyFull G) hp
  have hv := (visited_eq_closure (keyFull G) (succ G src) hdet (roots := [root src tr]) (seen0 := [])
    (by simp) hs hq (keyFull G a)).mpr (by simpa using hreach)
  simp only [List.mem_map] at hv
  obtain ⟨w, hw, hkw⟩ := hv
  simp only [keyFull, Prod.mk.injEq] at hkw
  have hcore := hkw.1
  have hnode : w.node = a.node := by
    have := congrArg Item.node hcore
    simpa [Item.core] using this
  have hct : w.ct = a.ct := by
    have := congrArg Item.ct hcore
    simpa [Item.core] using this
  have hrep : reported G w = true := by
    simp only [reported, hnode, hct] at hsink ⊢
    exact hsink
  simp only [flowsOfIdeal, List.mem_map, List.mem_filter]
  exact ⟨w, ⟨hw, hrep⟩, hnode⟩

/-! ### Negation witnesses (closed counterexamples in the model, replayed on the real tool) -/

namespace F1
/-- rotation recursion `f(a,b,c){ sink(c); f(c,a,b) }`, called as `f(source(),"b","c")`
    (corpus/findings/F01_lasso_rotation). graph 0 = main, graph 1 = f. -/
def G : LGraph :=
  { graphs := #[{ fn := 1 }, { fn := 2, callsites := [1, 8], params := [some 5, some 6, some 7] }],
    nodes := #[
      { kind := .call, graph := 0, callee := 3, callSite := 1, lassoClass := 1, out := [{ dst := 2 }] },      -- 0 source()
      { kind := .call, graph := 0, callee := 2, callSite := 2, calleeSummary := some 1, args := [2, 3, 4], lassoClass := 2 }, -- 1 f(x,"b","c")
      { kind := .callArg, graph := 0, index := 0, parent := 1 },
      { kind := .callArg, graph := 0, index := 1, parent := 1 },
      { kind := .callArg, graph := 0, index := 2, parent := 1 },
      { kind := .param, graph := 1, index := 0, out := [{ dst := 10 }] },                                     -- 5 a -> arg 1 of f(c,a,b)
      { kind := .param, graph := 1, index := 1, out := [{ dst := 11 }] },                                     -- 6 b -> arg 2
      { kind := .param, graph := 1, index := 2, out := [{ dst := 9 }, { dst := 13 }] },                       -- 7 c -> arg 0, sink(c)
      { kind := .call, graph := 1, callee := 2, callSite := 3, calleeSummary := some 1, args := [9, 10, 11], lassoClass := 3 }, -- 8 f(c,a,b)
      { kind := .callArg, graph := 1, index := 0, parent := 8 },
      { kind := .callArg, graph := 1, index := 1, parent := 8 },
      { kind := .callArg, graph := 1, index := 2, parent := 8 },
      { kind := .call, graph := 1, callee := 4, callSite := 4, args := [13], lassoClass := 4 },               -- 12 sink(c)
      { kind := .callArg, graph := 1, index := 0, parent := 12, sink := true }] }

/-- the sink configuration reached on the third activation of `f` -/
def goal : Item := { node := 13, trace := [8, 8, 1], prev := some 7 }

theorem run_finished : (run G 0 [] 40).queue = [] := by decide
theorem run_reports_nothing : flowsOf G (run G 0 [] 40) = [] := by decide

theorem goal_valid : ValidPathTo G 0 [] goal := by
  have s0 : ValidPathTo G 0 [] (root 0 []) := .root (by simp)
  have s1 : ValidPathTo G 0 [] { node := 2, prev := some 0 } := .step s0 (by decide)
  have s2 : ValidPathTo G 0 [] { node := 5, trace := [1], prev := some 2 } := .step s1 (by decide)
  have s3 : ValidPathTo G 0 [] { node := 10, trace := [1], prev := some 5 } := .step s2 (by decide)
  have s4 : ValidPathTo G 0 [] { node := 6, trace := [8, 1], prev := some 10 } := .step s3 (by decide)
  have s5 : ValidPathTo G 0 [] { node := 11, trace := [8, 1], prev := some 6 } := .step s4 (by decide)
  have s6 : ValidPathTo G 0 [] { node := 7, trace := [8, 8, 1], prev := some 11 } := .step s5 (by decide)
  exact .step s6 (by decide)
end F1

/-- ¬`TaintSound`: the lasso cut-off loses a flow that needs one call site twice on the stack (F1). -/
theorem taint_sound_false_lasso : ¬ TaintSound F1.G 0 [] := by
  intro h
  have hr : FinishedRun F1.G 0 [] (run F1.G 0 [] 40) :=
    ⟨bfs_steps key (succ F1.G 0) 40 _, F1.run_finished⟩
  have := h _ hr F1.goal F1.goal_valid (by decide)
  rw [F1.run_reports_nothing] at this
  cases this

namespace F14
/-- `f(a, b){ sink(b.v); b.v = a }` called as `f(x, b)` with `b.v` tainted through a longer chain
    (corpus/findings/F14_param_entered_from_inside). graph 0 = main, graph 1 = f.
    Nodes 14, 15 stand for the longer chain `id(id(x))` in main. -/
def G : LGraph :=
  { graphs := #[{ fn := 1 }, { fn := 2, callsites := [1], params := [some 5, some 6] }],
    nodes := #[
      { kind := .call, graph := 0, callee := 3, callSite := 1, lassoClass := 1, out := [{ dst := 2 }, { dst := 14 }] }, -- 0 source()
      { kind := .call, graph := 0, callee := 2, callSite := 2, calleeSummary := some 1, args := [2, 3], lassoClass := 2 }, -- 1 f(x, b)
      { kind := .callArg, graph := 0, index := 0, parent := 1 },
      { kind := .callArg, graph := 0, index := 1, parent := 1 },
      {},
      { kind := .param, graph := 1, index := 0, out := [{ dst := 6 }] },                                      -- 5 a -> b   (b.v = a)
      { kind := .param, graph := 1, index := 1, out := [{ dst := 13 }] },                                     -- 6 b -> sink(b.v)
      {}, {}, {}, {}, {},
      { kind := .call, graph := 1, callee := 4, callSite := 4, args := [13], lassoClass := 4 },               -- 12 sink(b.v)
      { kind := .callArg, graph := 1, index := 0, parent := 12, sink := true },
      { kind := .synthetic, graph := 0, out := [{ dst := 15 }] },
      { kind := .synthetic, graph := 0, out := [{ dst := 3 }] }] }

def goal : Item := { node := 13, trace := [1], prev := some 6 }

theorem run_finished : (run G 0 [] 40).queue = [] := by decide
theorem run_reports_nothing : flowsOf G (run G 0 [] 40) = [] := by decide
theorem entry_before_exit_fails : entryBeforeExit G 0 [] (run G 0 [] 40) = false := by decide

theorem goal_lasso_free_path : LassoFreePathTo G 0 [] goal := by
  have s0 : LassoFreePathTo G 0 [] (root 0 []) := .root (by simp)
  have s1 : LassoFreePathTo G 0 [] { node := 14, prev := some 0 } := .step s0 (by decide)
  have s2 : LassoFreePathTo G 0 [] { node := 15, prev := some 14 } := .step s1 (by decide)
  have s3 : LassoFreePathTo G 0 [] { node := 3, prev := some 15 } := .step s2 (by decide)
  have s4 : LassoFreePathTo G 0 [] { node := 6, trace := [1], prev := some 3 } := .step s3 (by decide)
  exact .step s4 (by decide)
end F14

/-- ¬`TaintSoundLassoFree`: even lasso-free flows are lost when a parameter key is first reached
    from inside the callee (F14) — `EntryBeforeExit` cannot be dropped from `taint_sound_partial`. -/
theorem taint_sound_false_entry : ¬ TaintSoundLassoFree F14.G 0 [] := by
  intro h
  have hr : FinishedRun F14.G 0 [] (run F14.G 0 [] 40) :=
    ⟨bfs_steps key (succ F14.G 0) 40 _, F14.run_finished⟩
  have := h _ hr F14.goal F14.goal_lasso_free_path (by decide)
  rw [F14.run_reports_nothing] at this
  cases this

namespace C01a
/-- `x := source(); a, b := x+"1", x+"2"; f := func(){ sink1(a); sink2(b) }; f()`
    (corpus/findings/C01a_closure_two_bound_vars). graph 0 = main, graph 1 = the closure.
    The closure node 3 is reached once per bound variable with the SAME key (the tracing info is not
    part of the key): only the first bound variable is traced into the closure. -/
def G : LGraph :=
  { graphs := #[{ fn := 1 }, { fn := 2, callsites := [4], freeVars := [some 5, some 6], referring := [3] }],
    nodes := #[
      { kind := .call, graph := 0, callee := 3, callSite := 1, lassoClass := 1, out := [{ dst := 1 }, { dst := 2 }] }, -- 0 source()
      { kind := .boundVar, graph := 0, index := 0, parent := 3 },                                              -- 1 a bound
      { kind := .boundVar, graph := 0, index := 1, parent := 3 },                                              -- 2 b bound
      { kind := .closure, graph := 0, closureSummary := some 1, boundVars := [1, 2], lassoClass := 2, out := [{ dst := 4 }] }, -- 3 f := func...
      { kind := .call, graph := 0, callee := 2, callSite := 2, calleeSummary := some 1, lassoClass := 3 },     -- 4 f()
      { kind := .freeVar, graph := 1, index := 0, out := [{ dst := 8 }] },                                     -- 5 a free
      { kind := .freeVar, graph := 1, index := 1, out := [{ dst := 10 }] },                                    -- 6 b free
      { kind := .call, graph := 1, callee := 4, callSite := 3, args := [8], lassoClass := 4 },                 -- 7 sink1(a)
      { kind := .callArg, graph := 1, index := 0, parent := 7, sink := true },
      { kind := .call, graph := 1, callee := 5, callSite := 4, args := [10], lassoClass := 5 },                -- 9 sink2(b)
      { kind := .callArg, graph := 1, index := 0, parent := 9, sink := true }] }

def goal : Item := { node := 10, trace := [4], ctrace := [3], prev := some 6 }

theorem run_finished : (run G 0 [] 40).queue = [] := by decide
theorem run_reports_one : flowsOf G (run G 0 [] 40) = [8] := by decide
theorem entry_before_exit_fails : entryBeforeExit G 0 [] (run G 0 [] 40) = false := by decide

theorem goal_lasso_free_path : LassoFreePathTo G 0 [] goal := by
  have s0 : LassoFreePathTo G 0 [] (root 0 []) := .root (by simp)
  have s1 : LassoFreePathTo G 0 [] { node := 2, prev := some 0 } := .step s0 (by decide)
  have s2 : LassoFreePathTo G 0 [] { node := 3, ctrace := [3], ct := true, tinfo := [(1, 1)], prev := some 2 } :=
    .step s1 (by decide)
  have s3 : LassoFreePathTo G 0 [] { node := 4, ctrace := [3], ct := true, tinfo := [(1, 1)], prev := some 3 } :=
    .step s2 (by decide)
  have s4 : LassoFreePathTo G 0 [] { node := 6, trace := [4], ctrace := [3], prev := some 4 } := .step s3 (by decide)
  exact .step s4 (by decide)
end C01a

/-- ¬`TaintSoundLassoFree`, second witness: a closure capturing two tainted variables (C01a) — the
    tracing info is auxiliary data outside the `seen` key, exactly like `Prev` in F14. -/
theorem taint_sound_false_closure : ¬ TaintSoundLassoFree C01a.G 0 [] := by
  intro h
  have hr : FinishedRun C01a.G 0 [] (run C01a.G 0 [] 40) :=
    ⟨bfs_steps key (succ C01a.G 0) 40 _, C01a.run_finished⟩
  have := h _ hr C01a.goal C01a.goal_lasso_free_path (by decide)
  rw [C01a.run_reports_one] at this
  simp [C01a.goal] at this

/-! ### Non-vacuity: a graph on which the hypotheses hold and a flow is reported -/

namespace Ok
/-- `x := source(); y := id(x); sink(y)`: graph 0 = main, graph 1 = id -/
def G : LGraph :=
  { graphs := #[{ fn := 1 }, { fn := 2, callsites := [1], params := [some 3] }],
    nodes := #[
      { kind := .call, graph := 0, callee := 3, callSite := 1, lassoClass := 1, out := [{ dst := 2 }] },      -- 0 source()
      { kind := .call, graph := 0, callee := 2, callSite := 2, calleeSummary := some 1, args := [2], lassoClass := 2, out := [{ dst := 6, index := 0 }] }, -- 1 id(x)
      { kind := .callArg, graph := 0, index := 0, parent := 1 },
      { kind := .param, graph := 1, index := 0, out := [{ dst := 4 }] },
      { kind := .ret, graph := 1, index := 0 },
      { kind := .call, graph := 0, callee := 4, callSite := 3, args := [6], lassoClass := 3 },
      { kind := .callArg, graph := 0, index := 0, parent := 5, sink := true }] }

example : (run G 0 [] 40).queue = [] := by decide
example : flowsOf G (run G 0 [] 40) = [6] := by decide
example : entryBeforeExit G 0 [] (run G 0 [] 40) = true := by decide
example : lassoCut G 0 [] (run G 0 [] 40) = false := by decide
end Ok

end Argot.TaintVisit
