/- C01 — termination of the taint visitor model (`Model/TaintVisit.lean`) for ALL dumped graphs in
   field-insensitive mode, for every traversal order, with an explicit bound on the worklist pops.

   Why it terminates (escape analysis off, as in the model): `addNext` drops a candidate whose call
   stack or closure stack has a lasso handle, every stack of a successor is a suffix of the current
   stack or one label pushed on it, so every stack that is ever queued is repetition-free over the
   finite set of labels the dump can push (call nodes / closure nodes); the node component ranges over
   the node ids the dump mentions; the tracing kind over two values; and on a field-insensitive dump
   (`fieldInsensitive G = true`: every `EdgeInfo.RelPath` is trivial) the access-path component of the
   key is always `[""]`.  Hence the `seen` keys live in the finite list `keyU N LT LC` and
   `Closure.steps_le` bounds the number of pops.

   Full statement (`VisitorTerminates`): the same for every dump.  It is FALSE in field-sensitive
   mode: the access-path list of the key is not drawn from a finite set (`addNext` appends one output
   path per matching pair without de-duplication) — finding C01c, `corpus/findings/C01c_fs_nontermination`.
   `visitor_terminates_false_field_sensitive` is the closed witness in the model (2 nodes on a cycle,
   relative paths on both edges: the list doubles at every round, the key set is infinite,
   `TaintVisit.run` never empties its queue whatever the fuel). -/
import Argot.Proofs.TaintVisitTerm
import Argot.Props.C01

namespace Argot.TaintVisit
open Argot.Closure
open Argot.C07 (numNodup)

/-- `1 + |N| · a(|LT|) · a(|LC|) · 2`: the root, plus one pop per key
    (node × repetition-free call stack × repetition-free closure stack × tracing kind);
    `a = C07.numNodup`, a(0) = 1, a(n+1) = 1 + (n+1)·a(n) -/
def visitBound (N LT LC : List Nat) : Nat :=
  1 + N.length * (numNodup LT.length * (numNodup LC.length * 2))

/-- full statement: on EVERY dump some number of iterations bounds every execution of the visitor
    (any traversal order).  False: `visitor_terminates_false_field_sensitive`. -/
def VisitorTerminates : Prop :=
  ∀ (G : LGraph) (src : Nat) (tr : List Nat), tr.Nodup →
    ∃ B, ∀ n s, StepsN key (succ G src) n ⟨[root src tr], [], []⟩ s → n ≤ B

/-- **The reachable key set is finite**: every item the visitor can reach (valid lasso-free path
    from the root) has its `seen` key in the list `keyU N LT LC`, of length at most
    `|N| · a(|LT|) · a(|LC|) · 2`.  (Contrast: `fs_keys_infinite`.) -/
theorem reachable_keys_finite (G : LGraph) (src : Nat) (tr : List Nat) (N LT LC : List Nat)
    (hfi : fieldInsensitive G = true) (htr : tr.Nodup)
    (hN : ∀ x ∈ src :: targets G, x ∈ N) (hLT : ∀ x ∈ tr ++ callLabels G, x ∈ LT)
    (hLC : ∀ x ∈ closureLabels G, x ∈ LC) :
    (∀ a, IReach (succ G src) [root src tr] a → key a ∈ keyU N LT LC) ∧
    (keyU N LT LC).length ≤ N.length * (numNodup LT.length * (numNodup LC.length * 2)) := by
  refine ⟨fun a hr => mem_keyU ?_, length_keyU_le N LT LC⟩
  induction hr with
  | root hm =>
    simp only [List.mem_singleton] at hm
    subst hm
    exact good_root (hN _ List.mem_cons_self) htr (fun x hx => hLT x (List.mem_append_left _ hx))
  | step _ hs ih =>
    exact good_succ hfi hN (fun x hx => hLT x (List.mem_append_right _ hx)) hLC ih hs

/-- **Bound on the pops, every traversal order.**  `N` ⊇ the node ids the dump mentions (and the
    source), `LT` ⊇ the labels that can be pushed on the call stack (and the root stack), `LC` ⊇ those of
    the closure stack.  Field-insensitive dump, repetition-free root stack.  Any execution of `n`
    iterations (any choice of the popped item, any order of its successors, any queue discipline)
    has `n ≤ visitBound N LT LC`. -/
theorem visitor_pops_bounded (G : LGraph) (src : Nat) (tr : List Nat) (N LT LC : List Nat)
    (hfi : fieldInsensitive G = true) (htr : tr.Nodup)
    (hN : ∀ x ∈ src :: targets G, x ∈ N) (hLT : ∀ x ∈ tr ++ callLabels G, x ∈ LT)
    (hLC : ∀ x ∈ closureLabels G, x ∈ LC)
    (n : Nat) (s : State Item Key) (h : StepsN key (succ G src) n ⟨[root src tr], [], []⟩ s) :
    n ≤ visitBound N LT LC := by
  have hroot : ∀ a ∈ [root src tr], Good N LT LC a := by
    intro a ha
    simp only [List.mem_singleton] at ha
    subst ha
    exact good_root (hN _ List.mem_cons_self) htr (fun x hx => hLT x (List.mem_append_left _ hx))
  have := steps_le key (succ G src) (Good N LT LC)
    (fun a ha a' h' => good_succ hfi hN (fun x hx => hLT x (List.mem_append_right _ hx)) hLC ha h')
    (keyU N LT LC) (fun a ha => mem_keyU ha) hroot h
  have hU := length_keyU_le N LT LC
  simp only [List.length_singleton] at this
  unfold visitBound
  omega

/-- every key ever marked seen / every item ever visited has repetition-free stacks over the labels
    and the access paths `[""]` (the invariant behind the bound), in every traversal order -/
theorem visited_good (G : LGraph) (src : Nat) (tr : List Nat) (N LT LC : List Nat)
    (hfi : fieldInsensitive G = true) (htr : tr.Nodup)
    (hN : ∀ x ∈ src :: targets G, x ∈ N) (hLT : ∀ x ∈ tr ++ callLabels G, x ∈ LT)
    (hLC : ∀ x ∈ closureLabels G, x ∈ LC)
    (s : State Item Key) (h : Steps key (succ G src) ⟨[root src tr], [], []⟩ s) :
    ∀ a ∈ s.visited ++ s.queue, Good N LT LC a := by
  intro a ha
  have hr := visited_sound key (succ G src) h a ha
  clear ha
  induction hr with
  | root hm =>
    simp only [List.mem_singleton] at hm
    subst hm
    exact good_root (hN _ List.mem_cons_self) htr (fun x hx => hLT x (List.mem_append_left _ hx))
  | step _ hs ih =>
    exact good_succ hfi hN (fun x hx => hLT x (List.mem_append_right _ hx)) hLC ih hs

/-- **The model run terminates** (`term = 1` of `oracle_c01`, `term := (run …).queue.isEmpty`):
    with `fuel ≥ visitBound N LT LC` the FIFO run of `TaintVisit.run` ends with an empty queue, and is a
    `FinishedRun` to which the theorems of `Props/C01.lean` apply. -/
theorem run_terminates_of_fuel (G : LGraph) (src : Nat) (tr : List Nat) (N LT LC : List Nat)
    (hfi : fieldInsensitive G = true) (htr : tr.Nodup)
    (hN : ∀ x ∈ src :: targets G, x ∈ N) (hLT : ∀ x ∈ tr ++ callLabels G, x ∈ LT)
    (hLC : ∀ x ∈ closureLabels G, x ∈ LC) (fuel : Nat) (hfuel : visitBound N LT LC ≤ fuel) :
    (run G src tr fuel).queue.isEmpty = true ∧ FinishedRun G src tr (run G src tr fuel) := by
  have hq : (run G src tr fuel).queue = [] := by
    rcases bfs_stepsN key (succ G src) fuel ⟨[root src tr], [], []⟩ with h | h
    · exact h
    · have hb := visitor_pops_bounded G src tr N LT LC hfi htr hN hLT hLC fuel _ h
      have hs := steps_bounded key (succ G src) (Good N LT LC)
        (fun a ha a' h' => good_succ hfi hN (fun x hx => hLT x (List.mem_append_right _ hx)) hLC ha h')
        (keyU N LT LC) (fun a ha => mem_keyU ha)
        (roots := [root src tr]) (by
          intro a ha
          simp only [List.mem_singleton] at ha
          subst ha
          exact good_root (hN _ List.mem_cons_self) htr (fun x hx => hLT x (List.mem_append_left _ hx))) h
      have hm := missing_le_length (keyU N LT LC) ([] : List Key)
      have hU := length_keyU_le N LT LC
      simp only [List.length_singleton] at hs
      unfold visitBound at hfuel
      exact List.eq_nil_of_length_eq_zero (by
        show (bfs key (succ G src) fuel ⟨[root src tr], [], []⟩).queue.length = 0
        omega)
  exact ⟨by rw [hq]; rfl, bfs_steps key (succ G src) fuel _, hq⟩

/-- **Termination on any field-insensitive dump, no other hypothesis on the dump**: the universes are
    computed from the dump itself (`targets`, `callLabels`, `closureLabels`: every node id / label a
    record mentions).  Every traversal order makes at most `visitBound …` pops and `TaintVisit.run`
    with that much fuel returns `term = true`. -/
theorem visitor_terminates (G : LGraph) (src : Nat) (tr : List Nat)
    (hfi : fieldInsensitive G = true) (htr : tr.Nodup) :
    let B := visitBound (src :: targets G) (tr ++ callLabels G) (closureLabels G)
    (∀ n s, StepsN key (succ G src) n ⟨[root src tr], [], []⟩ s → n ≤ B) ∧
    (∀ fuel, B ≤ fuel → (run G src tr fuel).queue.isEmpty = true ∧
      FinishedRun G src tr (run G src tr fuel)) :=
  ⟨fun n s h => visitor_pops_bounded G src tr _ _ _ hfi htr (fun _ h => h) (fun _ h => h) (fun _ h => h) n s h,
   fun fuel hf => run_terminates_of_fuel G src tr _ _ _ hfi htr (fun _ h => h) (fun _ h => h)
     (fun _ h => h) fuel hf⟩

/-! ### the bound in terms of the numbers of nodes, call nodes and closure nodes of a well-formed dump -/

/-- the call nodes / closure nodes of the dump -/
def callNodes (G : LGraph) : List Nat :=
  (List.range G.nodes.size).filter fun i => (G.node i).kind == .call
def closureNodes (G : LGraph) : List Nat :=
  (List.range G.nodes.size).filter fun i => (G.node i).kind == .closure

/-- well-formed dump (decidable): every mentioned node id is a node, every pushable call-stack label
    (and the root stack) is a call node, every pushable closure-stack label is a closure node -/
def wfDump (G : LGraph) (src : Nat) (tr : List Nat) : Bool :=
  (src :: targets G).all (fun x => decide (x < G.nodes.size)) &&
  (tr ++ callLabels G).all (fun x => decide (x < G.nodes.size) && (G.node x).kind == .call) &&
  (closureLabels G).all (fun x => decide (x < G.nodes.size) && (G.node x).kind == .closure)

/-- **Termination with the bound `1 + #nodes · a(#call nodes) · a(#closure nodes) · 2`** on a
    well-formed field-insensitive dump, for every traversal order and for `TaintVisit.run`. -/
theorem visitor_terminates_wf (G : LGraph) (src : Nat) (tr : List Nat)
    (hfi : fieldInsensitive G = true) (htr : tr.Nodup) (hwf : wfDump G src tr = true) :
    let B := 1 + G.nodes.size * (numNodup (callNodes G).length * (numNodup (closureNodes G).length * 2))
    (∀ n s, StepsN key (succ G src) n ⟨[root src tr], [], []⟩ s → n ≤ B) ∧
    (∀ fuel, B ≤ fuel → (run G src tr fuel).queue.isEmpty = true ∧
      FinishedRun G src tr (run G src tr fuel)) := by
  simp only [wfDump, Bool.and_eq_true, List.all_eq_true, decide_eq_true_eq] at hwf
  obtain ⟨⟨h1, h2⟩, h3⟩ := hwf
  have hN : ∀ x ∈ src :: targets G, x ∈ List.range G.nodes.size :=
    fun x hx => List.mem_range.2 (h1 x hx)
  have hLT : ∀ x ∈ tr ++ callLabels G, x ∈ callNodes G :=
    fun x hx => List.mem_filter.2 ⟨List.mem_range.2 (h2 x hx).1, (h2 x hx).2⟩
  have hLC : ∀ x ∈ closureLabels G, x ∈ closureNodes G :=
    fun x hx => List.mem_filter.2 ⟨List.mem_range.2 (h3 x hx).1, (h3 x hx).2⟩
  have hB : visitBound (List.range G.nodes.size) (callNodes G) (closureNodes G) =
      1 + G.nodes.size * (numNodup (callNodes G).length * (numNodup (closureNodes G).length * 2)) := by
    simp [visitBound]
  intro B
  refine ⟨fun n s h => ?_, fun fuel hf => ?_⟩
  · have := visitor_pops_bounded G src tr _ _ _ hfi htr hN hLT hLC n s h
    rw [hB] at this; exact this
  · exact run_terminates_of_fuel G src tr _ _ _ hfi htr hN hLT hLC fuel (by rw [hB]; exact hf)

/-! ### field-sensitive mode: the hypothesis `fieldInsensitive` cannot be dropped (finding C01c) -/

/-- on the 2-node cycle `FS.G` (relative paths on both edges) the reachable key set is infinite:
    no finite list contains the keys of all items the visitor reaches -/
theorem fs_keys_infinite :
    ¬ ∃ K : List Key, ∀ a, IReach (succ FS.G 0) [root 0 []] a → key a ∈ K := by
  rintro ⟨K, hK⟩
  let B := (K.map fun k => k.2.2.2.2.length).sum
  obtain ⟨i, pv, _, hr⟩ := FS.reach_P B
  have hm := hK _ hr
  have hle : (key (FS.it i (FS.P B) pv)).2.2.2.2.length ≤ B :=
    FS.le_sum_of_mem (List.mem_map.2 ⟨_, hm, rfl⟩)
  have hlen : (key (FS.it i (FS.P B) pv)).2.2.2.2.length = 2 ^ B := FS.P_length B
  have := Nat.lt_two_pow_self (n := B)
  omega

/-- the model run on `FS.G` never empties its queue, whatever the fuel (`term = 0` for every fuel) -/
theorem fs_run_never_terminates (fuel : Nat) : (run FS.G 0 [] fuel).queue.isEmpty = false := by
  have h := FS.bfs_nonempty fuel ⟨[root 0 []], [], []⟩ 0 [""] none (by omega)
    (by intro p hp; simp at hp; exact Or.inl hp) (by simp) rfl (by intro k hk; simp at hk)
  have h' : (run FS.G 0 [] fuel).queue ≠ [] := h
  cases hq : (run FS.G 0 [] fuel).queue with
  | nil => exact absurd hq h'
  | cons _ _ => rfl

/-- ¬`VisitorTerminates`: in field-sensitive mode executions of every length exist (C01c) -/
theorem visitor_terminates_false_field_sensitive : ¬ VisitorTerminates := by
  intro h
  obtain ⟨B, hB⟩ := h FS.G 0 [] List.nodup_nil
  rcases bfs_stepsN key (succ FS.G 0) (B + 1) ⟨[root 0 []], [], []⟩ with hq | hs
  · have := fs_run_never_terminates (B + 1)
    have hq' : (run FS.G 0 [] (B + 1)).queue = [] := hq
    rw [hq'] at this
    cases this
  · have := hB _ _ hs
    omega

/-- the witness is a field-sensitive dump, and it is otherwise well-formed -/
theorem fs_witness_shape : fieldInsensitive FS.G = false ∧ wfDump FS.G 0 [] = true := by
  refine ⟨?_, by decide⟩
  simp only [fieldInsensitive, FS.G, FS.n0, FS.n1, List.all_cons, List.all_nil, FS.R_not_trivial]
  rfl

/-! ### non-vacuity: the hypotheses hold on the dumps used in `Props/C01.lean` -/

example : fieldInsensitive Ok.G = true ∧ wfDump Ok.G 0 [] = true := by decide
example : fieldInsensitive F1.G = true ∧ wfDump F1.G 0 [] = true := by decide
example : fieldInsensitive C01a.G = true ∧ wfDump C01a.G 0 [] = true := by decide

/-- the bound on `Ok.G` (7 nodes, 3 call nodes, no closure node): 1 + 7·16·1·2 = 225 -/
example : 1 + Ok.G.nodes.size * (numNodup (callNodes Ok.G).length * (numNodup (closureNodes Ok.G).length * 2))
    = 225 := by decide

example : (run Ok.G 0 [] 225).queue.isEmpty = true :=
  ((visitor_terminates_wf Ok.G 0 [] (by decide) (by decide) (by decide)).2 225 (by decide)).1

end Argot.TaintVisit
