/-
C02 — Sanitizers and validators only suppress flows that really pass through them.

Property theorems only (model: Argot/Model/PathCond.lean; CFG walks, `MustPass`, runtime meaning of
validator conditions, executions: Argot/Spec/PathCond.lean; helper lemmas: Argot/Proofs/PathCond.lean).

Quantifiers: every CFG `g` (any number of blocks, any successor lists, loops, unreachable blocks,
ill-formed successor indices included), every pair of blocks, every table of condition values,
every destination argument, every execution fragment (`Run`) whatever the verdicts of the
validators are at each step.

The full-strength statement `ValidatorDropSound` (an edge is dropped only if every execution from
the source to the destination goes through an accepting validator check) is **false** on the
current code: the conditions of an edge come from ONE block path (`validator_drop_sound_false`,
defect F5).  What holds is `validator_drop_sound_partial`, under the decidable hypothesis
`dropJustified` (the positive branch edge of the validator check lies on every path), which the
oracle evaluates on every real conditioned edge (`mustPassDec_iff` ties it to all paths).
-/
import Argot.Proofs.PathCond

namespace Argot.PathCond

/-! ### the path search (`FindPathBetweenBlocks`) -/

/-- **findPath_is_path**: what the search returns is `q ++ [e]` (the Go code repeats the last block)
where `q` is a genuine CFG walk from `b` to `e` taking at least one edge — for every CFG, every fuel. -/
theorem findPath_is_path (g : Cfg) (b e fuel : Nat) (p : List Nat)
    (h : findPath g b e fuel = .found p) : ∃ q, p = q ++ [e] ∧ WalkFromTo g b e q :=
  search_sound fuel [] (initStack g b) p (good_init g b) h

/-- a `nil` answer means that `e` cannot be reached from `b` by a non-empty path. -/
theorem findPath_notFound (g : Cfg) (b e fuel : Nat) (h : findPath g b e fuel = .notFound) :
    ¬ Reach1 g b e :=
  search_notFound fuel [] (initStack g b) (kinv_init g b) (by simp) h

/-- the loop ends within `fuelBound g` pops (each block is expanded with unvisited successors at
most once, although it may sit on the stack several times). -/
theorem findPath_terminates (g : Cfg) (b e fuel : Nat) (hf : fuelBound g ≤ fuel) :
    findPath g b e fuel ≠ .outOfFuel :=
  search_terminates fuel [] (initStack g b) (jinv_nil g _) (Nat.lt_of_lt_of_le (pot_init_lt g b) hf)

/-- **returns a path iff reachable.** -/
theorem findPath_found_iff_reachable (g : Cfg) (b e fuel : Nat) (hf : fuelBound g ≤ fuel) :
    (∃ p, findPath g b e fuel = .found p) ↔ Reach1 g b e := by
  constructor
  · rintro ⟨p, h⟩
    obtain ⟨q, _, hq⟩ := findPath_is_path g b e fuel p h
    exact ⟨q, hq⟩
  · intro hr
    cases h : findPath g b e fuel with
    | outOfFuel => exact absurd h (findPath_terminates g b e fuel hf)
    | notFound => exact absurd hr (findPath_notFound g b e fuel h)
    | found p => exact ⟨p, rfl⟩

/-! ### the collected conditions (`SimplePathCondition`) -/

/-- **pathConds_on_path**: every collected condition `(pol, c)` is a branch edge of the block list:
two consecutive blocks `a, t` that are a CFG edge, `a` ends in an `If` on the value `c`, and `t` is
the successor for outcome `pol`. (For the list returned by the search this includes the repeated
last block: that pair yields a condition only when the block really has an edge to itself.) -/
theorem pathConds_on_path (g : Cfg) (p : List Nat) (pol : Bool) (c : Nat)
    (h : (pol, c) ∈ pathConds g p) :
    ∃ a t, Consec p a t ∧ t ∈ succsOf g a ∧ (blockOf g a).isIf = true ∧ (blockOf g a).cond = c ∧
      BranchEdge g a pol t := by
  obtain ⟨a, t, h1, h2, h3, h4⟩ := mem_pathConds p h
  exact ⟨a, t, h1, branchEdge_mem h4, h2, h3, h4⟩

/-! ### polarity (`isValidatorCondition` after `AsPredicateTo`) -/

/-- **polarity_correct**: if a condition value that passed `AsPredicateTo` is recognised as a
validator check for polarity `pol`, then it tests one validator call `k`, its truth value is
determined by the verdict of `k`, and taking the branch `pol` means that `k` accepted. -/
theorem polarity_correct (arg e : VExpr) (pol : Bool)
    (hp : isPredTo arg e = true) (hv : isValidatorCond e pol = true) :
    ∃ k, IsValCall k e ∧ ∀ ρ : Env, ∃ x, verdict ρ e = some x ∧ (x = pol → ρ k = true) := by
  obtain ⟨k, hk, hρ⟩ := polarity_core true arg e pol hp hv
  refine ⟨k, hk, fun ρ => ⟨_, hρ ρ, ?_⟩⟩
  cases pol <;> cases ρ k <;> simp

/-- `isValidatorCondition` alone does not look at the tuple index: the filter `AsPredicateTo`
(which demands the last component) is what makes the polarity reading correct. -/
theorem polarity_needs_last_component :
    isValidatorCond (.nilCheck 2 (.extract 1 (.call 0 true true []) false) true) true = true ∧
    ∀ ρ : Env, verdict ρ (.nilCheck 2 (.extract 1 (.call 0 true true []) false) true) = none := by
  constructor
  · rfl
  · intro ρ; rfl

/-! ### the must-pass criterion (V3) -/

/-- **mustPassDec_iff**: the executable criterion (after removing the edge, the destination is no
longer reachable — decided with the modelled search itself) holds exactly when the edge lies on
every walk from `sb` to `db`, loops included. -/
theorem mustPassDec_iff (g : Cfg) (sb db a c : Nat) :
    mustPassDec g sb db a c = true ↔ MustPass g sb db a c := by
  unfold mustPassDec
  rw [beq_iff_eq]
  constructor
  · intro h p hp
    by_cases hn : Consec p a c
    · exact hn
    · have hw : IsWalk (cutEdge g a c) p := walk_cut_of_avoid p hp.1 hn
      exact absurd ⟨p, hw, hp.2⟩ (findPath_notFound _ _ _ _ h)
  · intro h
    cases hres : findPath (cutEdge g a c) sb db (fuelBound (cutEdge g a c)) with
    | outOfFuel => exact absurd hres (findPath_terminates _ _ _ _ (Nat.le_refl _))
    | notFound => rfl
    | found p =>
      obtain ⟨q, _, hq⟩ := findPath_is_path _ _ _ _ _ hres
      obtain ⟨hw, hn⟩ := walk_of_cut q hq.1
      exact absurd (h q ⟨hw, hq.2⟩) hn

/-- single-path case: when the walk is the only one, each of its edges must-passes. -/
theorem mustPass_of_unique_walk (g : Cfg) (sb db a c : Nat) (p : List Nat)
    (huniq : ∀ p', WalkFromTo g sb db p' → p' = p) (hc : Consec p a c) : MustPass g sb db a c := by
  intro p' hp'
  rw [huniq p' hp']; exact hc

/-! ### the drop decision -/

/-- one condition that is a validator check, passes the predicate filter and must-passes forces
every execution through an accepting test of that very condition value. -/
theorem drop_core (mem : Bool) (g : Cfg) (tbl : CondTable) (sb db : Nat) (arg : VExpr) (c : Cond)
    (hp : isPredToG mem arg (lookupCond tbl c.2) = true)
    (hval : isValidatorCond (lookupCond tbl c.2) c.1 = true) (hmp : condMustPass g sb db c = true)
    (run : Run) (hok : RunOK g tbl run) (hw : WalkFromTo g sb db (run.map (·.1))) :
    ∃ a ρ k, (a, ρ) ∈ run ∧ (blockOf g a).isIf = true ∧ (blockOf g a).cond = c.2 ∧
      IsValCall k (lookupCond tbl c.2) ∧ ρ k = true := by
  simp only [condMustPass, List.any_eq_true] at hmp
  obtain ⟨a, ha, hbt⟩ := hmp
  simp only [ifBlocksOf, List.mem_filter, Bool.and_eq_true, beq_iff_eq] at ha
  obtain ⟨_, hif, hcond⟩ := ha
  cases hb : branchTarget g a c.1 with
  | none => simp [hb] at hbt
  | some t =>
    simp only [hb] at hbt
    obtain ⟨l, r, hlr⟩ := (mustPassDec_iff g sb db a t).1 hbt _ hw
    obtain ⟨ρ, hmem, hstep⟩ := run_step_of_consec l run r hlr hok
    obtain ⟨k, hk, hρ⟩ := polarity_core mem arg _ c.1 hp hval
    refine ⟨a, ρ, k, hmem, hif, hcond, hk, ?_⟩
    -- the step a → t determines the outcome of the condition
    unfold branchTarget at hb
    split at hb
    · rename_i t0 f0 hs
      split at hb
      · cases hb
      · rename_i hne
        injection hb with hb
        have := hstep.2 hif (c.1 == ρ k) t0 f0 (by rw [hcond]; exact hρ ρ) hs
        rw [← hb] at this
        revert this
        cases c.1 <;> cases ρ k <;> simp <;> intro h <;> first | exact hne h | exact hne h.symm
    · cases hb

/-- **validator_drop_sound_partial**: if the conditions `cs` of an edge all passed `AsPredicateTo`
(they always do: `edgeConds_pred`) and the drop is justified by the must-pass criterion, then every
execution from the source block to the destination block goes through a branch on a validator call
that accepted at that moment. -/
theorem validator_drop_sound_partial (g : Cfg) (tbl : CondTable) (sb db : Nat) (arg : VExpr)
    (cs : List Cond) (hpred : ∀ c ∈ cs, isPredTo arg (lookupCond tbl c.2) = true)
    (hj : dropJustified g tbl sb db cs = true)
    (run : Run) (hok : RunOK g tbl run) (hw : WalkFromTo g sb db (run.map (·.1))) :
    Accepted g tbl run := by
  simp only [dropJustified, List.any_eq_true, Bool.and_eq_true] at hj
  obtain ⟨c, hc, hval, hmp⟩ := hj
  obtain ⟨a, ρ, k, hmem, hif, hcond, hk, hρ⟩ :=
    drop_core true g tbl sb db arg c (hpred c hc) hval hmp run hok hw
  exact ⟨a, ρ, k, hmem, hif, by rw [hcond]; exact hk, hρ⟩

/-- **validator_drop_sound_reg**: under the register-only hypothesis (the evaluated criterion of the
end-to-end comparison) the accepting validator call was applied to the destination value itself,
up to tuple projection and interface boxing — not to a memory cell that may have been overwritten
since (finding C02a). -/
theorem validator_drop_sound_reg (g : Cfg) (tbl : CondTable) (sb db : Nat) (arg : VExpr)
    (cs : List Cond) (hj : dropJustifiedReg g tbl sb db arg cs = true)
    (run : Run) (hok : RunOK g tbl run) (hw : WalkFromTo g sb db (run.map (·.1))) :
    AcceptedFor g tbl arg run := by
  simp only [dropJustifiedReg, List.any_eq_true, Bool.and_eq_true] at hj
  obtain ⟨c, _, ⟨hval, hmp⟩, hreg⟩ := hj
  obtain ⟨a, ρ, k, hmem, hif, hcond, hk, hρ⟩ :=
    drop_core false g tbl sb db arg c hreg hval hmp run hok hw
  refine ⟨a, ρ, k, hmem, hif, ?_, hρ⟩
  rw [hcond]
  exact valCallOn_of _ hk (isPredToReg_tests arg _ hreg)

/-- what the register-only "same data" test establishes. -/
theorem sameData_register_only (n : Nat) (a b : VExpr) (h : sameDataG false n a b = true) :
    SameReg a b := sameDataReg_sound n a b h

/-- the conditions attached to an edge have all passed `AsPredicateTo`. -/
theorem edgeConds_pred (g : Cfg) (tbl : CondTable) (sb si db di : Nat) (arg : VExpr) (fuel : Nat)
    (cs : List Cond) (h : edgeConds g tbl sb si db di arg fuel = some cs) :
    ∀ c ∈ cs, isPredTo arg (lookupCond tbl c.2) = true := by
  simp only [edgeConds, Option.map_eq_some_iff] at h
  obtain ⟨cs0, _, rfl⟩ := h
  intro c hc
  simp only [asPredicateTo, List.mem_filter] at hc
  exact hc.2

/-- the same, stated on the model's own edge construction. -/
theorem validator_drop_sound_on_edges (g : Cfg) (tbl : CondTable) (sb si db di : Nat) (arg : VExpr)
    (fuel : Nat) (cs : List Cond) (h : edgeConds g tbl sb si db di arg fuel = some cs)
    (hj : dropJustified g tbl sb db cs = true)
    (run : Run) (hok : RunOK g tbl run) (hw : WalkFromTo g sb db (run.map (·.1))) :
    Accepted g tbl run :=
  validator_drop_sound_partial g tbl sb db arg cs (edgeConds_pred g tbl sb si db di arg fuel cs h) hj run hok hw

/-- a justified drop is a drop (the hypothesis is not vacuous with respect to the decision). -/
theorem dropJustified_drop (g : Cfg) (tbl : CondTable) (sb db : Nat) (cs : List Cond)
    (h : dropJustified g tbl sb db cs = true) : dropEdge tbl cs = true := by
  simp only [dropJustified, dropEdge, List.any_eq_true, Bool.and_eq_true] at h ⊢
  obtain ⟨c, hc, hv, _⟩ := h
  exact ⟨c, hc, hv⟩

/-! ### ¬ full statement: the diamond with the validator on one arm (defect F5)

```
B0: x := source(); if c()      → B1 (by-pass) | B2
B1:                            → B5
B2: if validate(x)             → B3 | B4
B3:                            → B5
B4: return
B5: sink(x)
```
The search from B0 to B5 pops B2 before B1 (LIFO), finds B0,B2,B3,B5 and attaches `validate(x)`
positively; the execution B0,B1,B5 never calls the validator. -/

def f5Cfg : Cfg :=
  [ ⟨[1, 2], true, 3⟩, ⟨[5], false, 0⟩, ⟨[3, 4], true, 7⟩, ⟨[5], false, 0⟩, ⟨[], false, 0⟩, ⟨[], false, 0⟩ ]

def f5Tbl : CondTable := [(3, .call 3 true false []), (7, .call 7 true true [.leaf 1])]

/-- the opaque condition is true (by-pass arm taken), the validator never accepts. -/
def f5Env : Env := fun k => k == 3

def f5Run : Run := [(0, f5Env), (1, f5Env), (5, f5Env)]

theorem f5_edge : edgeConds f5Cfg f5Tbl 0 0 5 0 (.leaf 1) (fuelBound f5Cfg) = some [(true, 7)] := by
  decide

theorem f5_path : findPath f5Cfg 0 5 (fuelBound f5Cfg) = .found [0, 2, 3, 5, 5] := by decide

theorem f5_dropped : dropEdge f5Tbl [(true, 7)] = true := by decide

theorem f5_not_justified : dropJustified f5Cfg f5Tbl 0 5 [(true, 7)] = false := by decide

theorem f5_run_ok : RunOK f5Cfg f5Tbl f5Run := by
  refine ⟨⟨by decide, ?_⟩, ⟨by decide, ?_⟩, trivial⟩
  · intro _ x t f hx hs
    have hx' : x = true := by
      have : verdict f5Env (lookupCond f5Tbl (blockOf f5Cfg 0).cond) = some true := by rfl
      rw [this] at hx; injection hx with hx; exact hx.symm
    have hs' : [1, 2] = [t, f] := hs
    injection hs' with h1 h2
    subst hx'; simp [← h1]
  · intro h; cases h

theorem f5_walk : WalkFromTo f5Cfg 0 5 (f5Run.map (·.1)) := by
  refine ⟨?_, rfl, rfl, by decide⟩
  exact .cons (by decide) (.cons (by decide) (.single 5))

theorem f5_not_accepted : ¬ Accepted f5Cfg f5Tbl f5Run := by
  rintro ⟨a, ρ, k, hmem, hif, hk, hρ⟩
  simp only [f5Run, List.mem_cons, Prod.mk.injEq, List.not_mem_nil, or_false] at hmem
  rcases hmem with ⟨rfl, rfl⟩ | ⟨rfl, rfl⟩ | ⟨rfl, rfl⟩
  · -- block 0 tests the opaque condition, not a validator
    have : lookupCond f5Tbl (blockOf f5Cfg 0).cond = .call 3 true false [] := by rfl
    rw [this] at hk
    exact Bool.noConfusion hk.2
  · exact Bool.noConfusion hif
  · exact Bool.noConfusion hif

/-- **negation witness**: the full-strength statement is false on the modelled (= current) code. -/
theorem validator_drop_sound_false : ¬ ValidatorDropSound := fun h =>
  f5_not_accepted (h f5Cfg f5Tbl 0 0 5 0 (.leaf 1) [(true, 7)] f5_edge f5_dropped f5Run f5_run_ok f5_walk)

/-! ### non-vacuity -/

/-- the guarded shape `x := source(); if !validate(x) { return }; sink(x)`:
B0: if validate(x) → B2 | B1;  B1: return;  B2: sink(x).  The drop is justified, and an execution
reaching the sink exists (so `validator_drop_sound_partial` speaks about something). -/
def guardCfg : Cfg := [ ⟨[2, 1], true, 7⟩, ⟨[], false, 0⟩, ⟨[], false, 0⟩ ]

example : edgeConds guardCfg f5Tbl 0 0 2 0 (.leaf 1) (fuelBound guardCfg) = some [(true, 7)] ∧
    dropJustified guardCfg f5Tbl 0 2 [(true, 7)] = true := by decide

example : ∃ run : Run, RunOK guardCfg f5Tbl run ∧ WalkFromTo guardCfg 0 2 (run.map (·.1)) ∧
    Accepted guardCfg f5Tbl run := by
  refine ⟨[(0, fun _ => true), (2, fun _ => true)], ⟨⟨by decide, ?_⟩, trivial⟩,
    ⟨.cons (by decide) (.single 2), rfl, rfl, by decide⟩, ?_⟩
  · intro _ x t f hx hs
    have hx' : x = true := by
      have : verdict (fun _ => true) (lookupCond f5Tbl (blockOf guardCfg 0).cond) = some true := by rfl
      rw [this] at hx; injection hx with hx; exact hx.symm
    have hs' : [2, 1] = [t, f] := hs
    injection hs' with h1 h2
    subst hx'; simp [← h1]
  · exact ⟨0, fun _ => true, 7, by simp, rfl, ⟨rfl, rfl⟩, rfl⟩

/-- a loop: `for c() { if !validate(x) { return } }; sink(x)` — B0 → B1; B1: if c → B2 | B3;
B2: if validate → B1 | B4; B3: sink; B4: return.  The search is complete on cyclic graphs and the
validator edge is not on every path (the loop may run zero times). -/
def loopCfg : Cfg :=
  [ ⟨[1], false, 0⟩, ⟨[2, 3], true, 3⟩, ⟨[1, 4], true, 7⟩, ⟨[], false, 0⟩, ⟨[], false, 0⟩ ]

example : findPath loopCfg 0 3 (fuelBound loopCfg) = .found [0, 1, 3, 3] ∧
    findPath loopCfg 2 2 (fuelBound loopCfg) = .found [2, 1, 2, 2] ∧
    findPath loopCfg 3 0 (fuelBound loopCfg) = .notFound ∧
    condMustPass loopCfg 0 3 (true, 7) = false ∧ condMustPass loopCfg 0 3 (false, 3) = true := by
  decide

/-! ### axiom audit (compared with the allowed set by `check`) -/
#print axioms findPath_is_path
#print axioms findPath_found_iff_reachable
#print axioms pathConds_on_path
#print axioms polarity_correct
#print axioms mustPassDec_iff
#print axioms validator_drop_sound_partial
#print axioms validator_drop_sound_on_edges
#print axioms validator_drop_sound_reg
#print axioms validator_drop_sound_false

end Argot.PathCond
