/- C02 — Sanitizers and validators only suppress flows that really pass through them:
   the TRAVERSAL level (`analysis/taint/dataflow_visitor.go`, `Visitor.Visit`):

     if isSanitizer(cur) { continue }                -- the stop at sanitizer nodes
     addNext: if edge carries a validator condition { return }   -- the dropped edge

   modelled in `Model/TaintVisit.lean` (`stepRaw`: `if n.sanitizer then []`; `mkNext`:
   `if e.validated then []`).  Which nodes are flagged and which edges carry a validator condition is
   the subject of Props/C02.lean and of the node-level tie of the C02 driver; here the flags are
   arbitrary.  Helper lemmas: Proofs/TaintVisitStop.lean.

   Quantifiers: every dumped linked graph `G` (any flags, any edges, cycles, ill-formed ids), every
   source `src` and root stack `tr`, every traversal order (`FinishedRun` = any sequence of `Closure.Step`s
   that empties the queue), every configuration `a`.

   `G' = clearSan G` is `G` with all sanitizer flags cleared.  A path "avoids the sanitizers" when no
   configuration that is EXPANDED on it (every configuration but the last) sits on a node flagged in `G`
   (`SanFreePathTo`); the end point itself may be flagged — the code tests `isSink` before `isSanitizer`.

   (1) `sanitizer_stop_only_cuts_through_sanitizers`, `sanitizer_dropped_flow_passes_sanitizer`,
       `sanitizer_stop_closure` (the same for the guaranteed-successor closure of `visits_closure`, no
       `entryBeforeExit` needed)
   (2) `sanitizer_cut_stops`, `reported_flows_avoid_sanitizers`, `sanitizer_stop_exact` (iff),
       `clearSan_reports_superset`
   (3) `dropped_edge_is_absent_edge`, `validator_drop_runs_coincide`,
       `validator_drop_only_cuts_through_dropped_edges`, `validator_drop_exact`,
       `removeDropped_is_clearVal_minus_dropped` -/
import Argot.Proofs.TaintVisitStop
import Argot.Props.C01

namespace Argot.TaintVisit
open Argot.Closure

/-- the configuration sits on a node flagged as sanitizer in `G` -/
abbrev atSanitizer (G : LGraph) (a : Item) : Prop := (G.node a.node).sanitizer = true

/-- `a` is the end of a valid lasso-free path of `G' = clearSan G` (no sanitizer at all) that never
    expands a configuration on a node flagged as sanitizer in `G` -/
def SanFreePathTo (G : LGraph) (src : Nat) (tr : List Nat) (a : Item) : Prop :=
  IReachAvoid (succ (clearSan G) src) (atSanitizer G) [root src tr] a

/-- a sanitizer-avoiding path is in particular a valid lasso-free path of `G'` -/
theorem SanFreePathTo.path {G : LGraph} {src : Nat} {tr : List Nat} {a : Item}
    (h : SanFreePathTo G src tr a) : LassoFreePathTo (clearSan G) src tr a :=
  IReachAvoid.ireach h

/-- … and a valid lasso-free path of `G` itself -/
theorem SanFreePathTo.path_in_G {G : LGraph} {src : Nat} {tr : List Nat} {a : Item}
    (h : SanFreePathTo G src tr a) : LassoFreePathTo G src tr a := by
  refine IReachAvoid.transfer (succ' := succ G src) ?_ h
  intro x hx x' hx'
  have hs : (G.node x.node).sanitizer = false := by
    simpa [atSanitizer] using hx
  rwa [succ_clearSan G src x hs] at hx'

/-! ### (2) the stop -/

/-- **sanitizer_cut_stops**: the traversal never expands the successors of a sanitizer-flagged node:
    neither the visitor's successor function nor the specification-side step has a candidate there,
    whatever the node kind, the stacks and the way the node was entered. -/
theorem sanitizer_cut_stops (G : LGraph) (src : Nat) (a : Item) (h : atSanitizer G a) :
    succ G src a = [] ∧ stepSpec G src a = [] := by
  have h' : (G.node a.core.node).sanitizer = true := h
  have := stepRaw_sanitizer G src false a.core (flag G a) h'
  simp [succ, stepSpec, this]

/-- every configuration visited by ANY run on `G` (finished or not) is the end of a path that never
    expands a sanitizer-flagged node: data that reaches the sink only through the result of a
    sanitizer call is not reported -/
theorem reported_flows_avoid_sanitizers (G : LGraph) (src : Nat) (tr : List Nat) (s : State Item Key)
    (hs : Steps key (succ G src) ⟨[root src tr], [], []⟩ s) :
    (∀ a ∈ s.visited, SanFreePathTo G src tr a) ∧
    (∀ n ∈ flowsOf G s, ∃ a, SanFreePathTo G src tr a ∧ a.node = n ∧ reported G a = true) := by
  have hv : ∀ a ∈ s.visited, SanFreePathTo G src tr a := by
    intro a ha
    have h1 := visits_sound G src tr s hs a ha
    have h2 : IReachAvoid (succ G src) (atSanitizer G) [root src tr] a :=
      IReach.avoid_of_dead (fun x hx => (sanitizer_cut_stops G src x hx).1) h1
    refine IReachAvoid.mono ?_ h2
    intro x hx x' hx'
    have hsan : (G.node x.node).sanitizer = false := by simpa [atSanitizer] using hx
    rwa [succ_clearSan G src x hsan]
  refine ⟨hv, ?_⟩
  intro n hn
  simp only [flowsOf, List.mem_map, List.mem_filter] at hn
  obtain ⟨a, ⟨ha, hrep⟩, rfl⟩ := hn
  exact ⟨a, hv a ha, rfl, hrep⟩

/-! ### (1) the stop only cuts paths through sanitizers -/

/-- **sanitizer_stop_only_cuts_through_sanitizers**: let `G'` be `G` without sanitizer flags.  If some
    valid lasso-free path of `G'` from the source to a sink configuration `a` avoids every node flagged
    as sanitizer in `G`, then `a`'s sink is still reported by every finished run on `G` that satisfies
    `entryBeforeExit` (the hypotheses of `taint_sound_partial`).  Hence a flow that `G'` reports and `G`
    does not is reachable in `G'` ONLY through sanitizer-flagged nodes. -/
theorem sanitizer_stop_only_cuts_through_sanitizers (G : LGraph) (src : Nat) (tr : List Nat)
    (s : State Item Key) (hr : FinishedRun G src tr s) (hEBE : entryBeforeExit G src tr s = true)
    (a : Item) (hpath : SanFreePathTo G src tr a) (hsink : reported (clearSan G) a = true) :
    a.node ∈ flowsOf G s := by
  rw [reported_clearSan] at hsink
  exact taint_sound_partial G src tr s hr hEBE a hpath.path_in_G hsink

/-- the same read from the dropped flow: a sink node reported by a run `s'` on `G'` and not by the
    finished run `s` on `G` is the end of a valid path of `G'`, and EVERY valid lasso-free path of `G'`
    to a reported configuration on that node expands a node flagged as sanitizer in `G`. -/
theorem sanitizer_dropped_flow_passes_sanitizer (G : LGraph) (src : Nat) (tr : List Nat)
    (s s' : State Item Key) (hr : FinishedRun G src tr s) (hEBE : entryBeforeExit G src tr s = true)
    (hs' : Steps key (succ (clearSan G) src) ⟨[root src tr], [], []⟩ s')
    (n : Nat) (hn' : n ∈ flowsOf (clearSan G) s') (hn : n ∉ flowsOf G s) :
    (∃ a, LassoFreePathTo (clearSan G) src tr a ∧ a.node = n ∧ reported (clearSan G) a = true) ∧
    (∀ a, a.node = n → reported (clearSan G) a = true → ¬ SanFreePathTo G src tr a) := by
  refine ⟨flows_are_paths (clearSan G) src tr s' hs' n hn', ?_⟩
  intro a han hrep hp
  exact hn (han ▸ sanitizer_stop_only_cuts_through_sanitizers G src tr s hr hEBE a hp hrep)

/-- under `entryBeforeExit` the stop is exact: a sink is reported on `G` iff some sanitizer-avoiding
    valid lasso-free path of `G'` ends in a reported configuration on it -/
theorem sanitizer_stop_exact (G : LGraph) (src : Nat) (tr : List Nat) (s : State Item Key)
    (hr : FinishedRun G src tr s) (hEBE : entryBeforeExit G src tr s = true) (n : Nat) :
    n ∈ flowsOf G s ↔ ∃ a, SanFreePathTo G src tr a ∧ a.node = n ∧ reported (clearSan G) a = true := by
  constructor
  · intro hn
    obtain ⟨a, hp, han, hrep⟩ := (reported_flows_avoid_sanitizers G src tr s hr.1).2 n hn
    exact ⟨a, hp, han, by rwa [reported_clearSan]⟩
  · rintro ⟨a, hp, rfl, hrep⟩
    exact sanitizer_stop_only_cuts_through_sanitizers G src tr s hr hEBE a hp hrep

/-- clearing the flags only adds flows: what any run on `G` reports, every finished run on `G'`
    satisfying `entryBeforeExit` reports -/
theorem clearSan_reports_superset (G : LGraph) (src : Nat) (tr : List Nat) (s s' : State Item Key)
    (hs : Steps key (succ G src) ⟨[root src tr], [], []⟩ s)
    (hr' : FinishedRun (clearSan G) src tr s') (hEBE' : entryBeforeExit (clearSan G) src tr s' = true) :
    ∀ n ∈ flowsOf G s, n ∈ flowsOf (clearSan G) s' := by
  intro n hn
  obtain ⟨a, hp, rfl, hrep⟩ := (reported_flows_avoid_sanitizers G src tr s hs).2 n hn
  exact taint_sound_partial (clearSan G) src tr s' hr' hEBE' a hp.path
    (by rwa [reported_clearSan])

/-- key-level form for the guaranteed-successor closure of `visits_closure` (no `entryBeforeExit`,
    every traversal order): a key reachable in `G'` through guaranteed successors from keys whose node
    is not flagged in `G` is visited by every finished run on `G`. -/
theorem sanitizer_stop_closure (G : LGraph) (src : Nat) (tr : List Nat) (s : State Item Key)
    (hr : FinishedRun G src tr s) (k : Key)
    (hk : Reach (fun k k' => (G.node k.1).sanitizer = false ∧ Guaranteed (clearSan G) src k k')
      [key (root src tr)] k) :
    k ∈ s.visited.map key := by
  refine visits_closure G src tr s hr k (Reach.mono (fun _ h => h) ?_ hk)
  rintro k k' ⟨hsan, hg⟩ a ha
  have hnode : a.node = k.1 := by rw [← ha]; rfl
  have hs : (G.node a.node).sanitizer = false := by rw [hnode]; exact hsan
  rw [← succ_clearSan G src a hs]
  exact hg a ha

/-! ### (3) validator-dropped edges -/

/-- **dropped_edge_is_absent_edge**: for the traversal an edge that carries a validator condition is
    exactly an absent edge: removing any set `p` of dropped edges from the graph changes no successor
    list of no configuration. -/
theorem dropped_edge_is_absent_edge (p : Nat → Edge → Bool) (G : LGraph) (src : Nat) :
    succ (removeDropped p G) src = succ G src ∧
    ∀ a, stepSpec (removeDropped p G) src a = stepSpec G src a := by
  refine ⟨succ_removeDropped p G src, fun a => ?_⟩
  simp only [stepSpec, flag_removeDropped, stepRaw_removeDropped]

/-- hence the runs, the reported sinks and the `entryBeforeExit` flag on `G` and on `G` without the
    dropped edges coincide, in every traversal order -/
theorem validator_drop_runs_coincide (p : Nat → Edge → Bool) (G : LGraph) (src : Nat) (tr : List Nat)
    (s : State Item Key) :
    (FinishedRun (removeDropped p G) src tr s ↔ FinishedRun G src tr s) ∧
    flowsOf (removeDropped p G) s = flowsOf G s ∧
    entryBeforeExit (removeDropped p G) src tr s = entryBeforeExit G src tr s := by
  refine ⟨?_, flowsOf_removeDropped p G s, entryBeforeExit_removeDropped p G src tr s⟩
  simp only [FinishedRun, succ_removeDropped]

/-- **validator_drop_only_cuts_through_dropped_edges**: removing dropped edges only removes paths
    through those edges.  `removeDropped p G` is `G` without the validator-conditioned edges selected
    by `p` (all of them for `p = fun _ _ => true`: then it is `clearVal G` — every edge followed — minus
    exactly the dropped edges, `removeDropped_is_clearVal_minus_dropped`).  Every sink configuration
    at the end of a valid lasso-free path of that graph — a path that uses none of the removed edges —
    is still reported by every finished run on `G` satisfying `entryBeforeExit`. -/
theorem validator_drop_only_cuts_through_dropped_edges (p : Nat → Edge → Bool) (G : LGraph) (src : Nat)
    (tr : List Nat) (s : State Item Key) (hr : FinishedRun G src tr s)
    (hEBE : entryBeforeExit G src tr s = true)
    (a : Item) (hpath : LassoFreePathTo (removeDropped p G) src tr a)
    (hsink : reported (removeDropped p G) a = true) :
    a.node ∈ flowsOf G s := by
  obtain ⟨h1, h2, h3⟩ := validator_drop_runs_coincide p G src tr s
  rw [← h2]
  exact taint_sound_partial (removeDropped p G) src tr s (h1.mpr hr) (h3.trans hEBE) a hpath hsink

/-- and exactly those: a sink is reported on `G` iff it ends a valid lasso-free path of the graph
    without the dropped edges (under `entryBeforeExit`) -/
theorem validator_drop_exact (p : Nat → Edge → Bool) (G : LGraph) (src : Nat) (tr : List Nat)
    (s : State Item Key) (hr : FinishedRun G src tr s) (hEBE : entryBeforeExit G src tr s = true)
    (n : Nat) :
    n ∈ flowsOf G s ↔
      ∃ a, LassoFreePathTo (removeDropped p G) src tr a ∧ a.node = n ∧
        reported (removeDropped p G) a = true := by
  constructor
  · intro hn
    obtain ⟨a, hp, han, hrep⟩ := flows_are_paths G src tr s hr.1 n hn
    refine ⟨a, ?_, han, by rwa [reported_removeDropped]⟩
    have : LassoFreePathTo (removeDropped p G) src tr a = LassoFreePathTo G src tr a := by
      show IReach (succ (removeDropped p G) src) _ _ = IReach (succ G src) _ _
      rw [succ_removeDropped]
    rwa [this]
  · rintro ⟨a, hp, rfl, hrep⟩
    exact validator_drop_only_cuts_through_dropped_edges p G src tr s hr hEBE a hp hrep

/-- the graph without ALL dropped edges is the graph with no validator verdict (`clearVal G`, every
    edge followed) minus exactly the edges dropped in `G`: its out-lists are the non-validated edges of
    `G`, each of them an edge of `clearVal G`; and every edge of `clearVal G` is one of them or the
    image of an edge dropped in `G` -/
theorem removeDropped_is_clearVal_minus_dropped (G : LGraph) (i : Nat) :
    ((removeDropped (fun _ _ => true) G).node i).out = (G.node i).out.filter (fun e => !e.validated) ∧
    (∀ e ∈ ((removeDropped (fun _ _ => true) G).node i).out,
      e.validated = false ∧ e ∈ ((clearVal G).node i).out) ∧
    (∀ e' ∈ ((clearVal G).node i).out,
      e' ∈ ((removeDropped (fun _ _ => true) G).node i).out ∨
      ∃ e ∈ (G.node i).out, e.validated = true ∧ e' = e.clearVal) := by
  have hout : ((removeDropped (fun _ _ => true) G).node i).out =
      (G.node i).out.filter (fun e => !e.validated) := by
    rw [removeDropped_node]
    simp [Node.removeDropped]
  refine ⟨hout, ?_, ?_⟩
  · intro e he
    rw [hout, List.mem_filter] at he
    have hv : e.validated = false := by simpa using he.2
    refine ⟨hv, ?_⟩
    rw [clearVal_node]
    simp only [Node.clearVal, List.mem_map]
    exact ⟨e, he.1, Edge.clearVal_of_not_validated hv⟩
  · intro e' he'
    rw [clearVal_node] at he'
    simp only [Node.clearVal, List.mem_map] at he'
    obtain ⟨e, he, rfl⟩ := he'
    cases hv : e.validated
    · left
      rw [hout, List.mem_filter, Edge.clearVal_of_not_validated hv]
      exact ⟨he, by simp [hv]⟩
    · right
      exact ⟨e, he, hv, rfl⟩

/-! ### Non-vacuity: a sanitizer / a validator on one of two branches -/

namespace SanBranch
/-- `x := source(); sink1(sanitize(x)); y := x + "!"; sink2(y)`: five nodes, one summary graph.
    0 = source() → 1 (argument/result of `sanitize`, flagged) → 3 (argument of sink1)
    0 → 2 (`y`) → 4 (argument of sink2) -/
def G : LGraph :=
  { graphs := #[{ fn := 1 }],
    nodes := #[
      { kind := .call, graph := 0, callee := 3, callSite := 1, lassoClass := 1, out := [{ dst := 1 }, { dst := 2 }] },
      { kind := .synthetic, graph := 0, sanitizer := true, out := [{ dst := 3 }] },
      { kind := .synthetic, graph := 0, out := [{ dst := 4 }] },
      { kind := .callArg, graph := 0, index := 0, sink := true },
      { kind := .callArg, graph := 0, index := 0, sink := true }] }

/-- the branch through the sanitizer is cut, the other one is reported -/
theorem run_finished : (run G 0 [] 20).queue = [] := by decide
theorem run_reports : flowsOf G (run G 0 [] 20) = [4] := by decide
theorem ebe : entryBeforeExit G 0 [] (run G 0 [] 20) = true := by decide
theorem finished : FinishedRun G 0 [] (run G 0 [] 20) := ⟨bfs_steps key (succ G 0) 20 _, run_finished⟩
/-- without the flags both sinks are reported -/
theorem run_finished' : (run (clearSan G) 0 [] 20).queue = [] := by decide
theorem run_reports' : flowsOf (clearSan G) (run (clearSan G) 0 [] 20) = [4, 3] := by decide

def goal4 : Item := { node := 4, prev := some 2 }
def goal3 : Item := { node := 3, prev := some 1 }

/-- the path 0 → 2 → 4 of `G'` avoids the flagged node -/
theorem goal4_sanfree : SanFreePathTo G 0 [] goal4 := by
  have s0 : SanFreePathTo G 0 [] (root 0 []) := .root (by simp)
  have s1 : SanFreePathTo G 0 [] { node := 2, prev := some 0 } :=
    .step s0 (by decide) (by decide)
  exact .step s1 (by decide) (by decide)

/-- the hypotheses of `sanitizer_stop_only_cuts_through_sanitizers` are satisfiable and its
    conclusion is the non-trivial `4 ∈ [4]` -/
example : goal4.node ∈ flowsOf G (run G 0 [] 20) :=
  sanitizer_stop_only_cuts_through_sanitizers G 0 [] (run G 0 [] 20)
    finished ebe goal4 goal4_sanfree (by decide)

/-- sink 3 is reported on `G'` and not on `G`: every path of `G'` to it expands the flagged node 1 -/
example : ¬ SanFreePathTo G 0 [] goal3 :=
  (sanitizer_dropped_flow_passes_sanitizer G 0 [] (run G 0 [] 20) (run (clearSan G) 0 [] 20)
    finished ebe (bfs_steps key (succ (clearSan G) 0) 20 _)
    3 (by rw [run_reports']; simp) (by rw [run_reports]; simp)).2 goal3 rfl (by decide)

/-- `sanitizer_cut_stops` on the flagged node: it would have had the successor 3 -/
example : succ G 0 { node := 1, prev := some 0 } = [] :=
  (sanitizer_cut_stops G 0 _ (by decide)).1
example : succ (clearSan G) 0 { node := 1, prev := some 0 } = [goal3] := by decide
end SanBranch

namespace ValBranch
/-- `x := source(); if validate(x) { sink1(x) }; sink2(x)`: the edge 0 → 1 carries the validator
    condition, the edge 0 → 2 does not -/
def G : LGraph :=
  { graphs := #[{ fn := 1 }],
    nodes := #[
      { kind := .call, graph := 0, callee := 3, callSite := 1, lassoClass := 1,
        out := [{ dst := 1, validated := true }, { dst := 2 }] },
      { kind := .synthetic, graph := 0, out := [{ dst := 3 }] },
      { kind := .synthetic, graph := 0, out := [{ dst := 4 }] },
      { kind := .callArg, graph := 0, index := 0, sink := true },
      { kind := .callArg, graph := 0, index := 0, sink := true }] }

def H : LGraph := removeDropped (fun _ _ => true) G

theorem run_finished : (run G 0 [] 20).queue = [] := by decide
theorem run_reports : flowsOf G (run G 0 [] 20) = [4] := by decide
theorem ebe : entryBeforeExit G 0 [] (run G 0 [] 20) = true := by decide
theorem finished : FinishedRun G 0 [] (run G 0 [] 20) := ⟨bfs_steps key (succ G 0) 20 _, run_finished⟩
/-- with no validator verdict both sinks are reported -/
theorem run_reports' : flowsOf (clearVal G) (run (clearVal G) 0 [] 20) = [4, 3] := by decide
/-- the dropped edge is really removed in `H` -/
example : (H.node 0).out = [{ dst := 2 }] := by decide

def goal4 : Item := { node := 4, prev := some 2 }

theorem goal4_path : LassoFreePathTo H 0 [] goal4 := by
  have s0 : LassoFreePathTo H 0 [] (root 0 []) := .root (by simp)
  have s1 : LassoFreePathTo H 0 [] { node := 2, prev := some 0 } := .step s0 (by decide)
  exact .step s1 (by decide)

example : goal4.node ∈ flowsOf G (run G 0 [] 20) :=
  validator_drop_only_cuts_through_dropped_edges (fun _ _ => true) G 0 [] (run G 0 [] 20)
    finished ebe goal4 goal4_path (by decide)
end ValBranch

end Argot.TaintVisit
