/-
C02, single-path case: when there is only one walk from the source block to the destination block
(in particular a sink nested in the validated branch of a loop-free function), the one path the code
looks at is every path, so every drop decided on the current code is justified — the decidable
hypothesis of `validator_drop_sound_partial` holds automatically.
-/
import Argot.Props.C02

namespace Argot.PathCond

theorem consec_snoc {q : List Nat} {x a t : Nat} (h : Consec (q ++ [x]) a t) :
    Consec q a t ∨ (q.getLast? = some a ∧ t = x) := by
  obtain ⟨l, r, h⟩ := h
  rcases List.eq_nil_or_concat r with rfl | ⟨r', y, rfl⟩
  · right
    have h' : q ++ [x] = (l ++ [a]) ++ [t] := by simpa using h
    have := List.append_inj' h' rfl
    obtain ⟨hq, hx⟩ := this
    refine ⟨by rw [hq]; simp, ?_⟩
    simpa using hx.symm
  · left
    have h' : q ++ [x] = (l ++ a :: t :: r') ++ [y] := by simpa using h
    have := List.append_inj' h' rfl
    exact ⟨l, r', this.1⟩

theorem isIf_lt {g : Cfg} {a : Nat} (h : (blockOf g a).isIf = true) : a < g.length := by
  rcases Nat.lt_or_ge a g.length with h' | h'
  · exact h'
  · have : blockOf g a = default := by
      simp [blockOf, List.getD_eq_getElem?_getD, List.getElem?_eq_none h']
    rw [this] at h
    exact absurd h (by decide)

/-- every `If` block has exactly two, distinct, successors (what the SSA builder produces after
jump threading; the oracle's `branchTarget` checks it per block). -/
def ProperIfs (g : Cfg) : Prop :=
  ∀ a, (blockOf g a).isIf = true → ∃ t f, (blockOf g a).succs = [t, f] ∧ t ≠ f

/-- **validator_drop_sound_partial, single-path form**: if the walk from `sb` to `db` is unique,
any edge the code drops is justified by the must-pass criterion. -/
theorem drop_justified_of_unique_walk (g : Cfg) (tbl : CondTable) (sb si db di : Nat) (arg : VExpr)
    (fuel : Nat) (cs : List Cond) (hwf : ProperIfs g)
    (huniq : ∀ p1 p2, WalkFromTo g sb db p1 → WalkFromTo g sb db p2 → p1 = p2)
    (hedge : edgeConds g tbl sb si db di arg fuel = some cs) (hdrop : dropEdge tbl cs = true) :
    dropJustified g tbl sb db cs = true := by
  -- the conditions come from the path that the search found
  simp only [edgeConds, Option.map_eq_some_iff] at hedge
  obtain ⟨cs0, hcs0, rfl⟩ := hedge
  simp only [dropEdge, List.any_eq_true] at hdrop
  obtain ⟨c, hc, hval⟩ := hdrop
  have hc0 : c ∈ cs0 := by
    simp only [asPredicateTo, List.mem_filter] at hc; exact hc.1
  unfold instrPathConds at hcs0
  split at hcs0
  · -- same block, source before destination: no condition at all
    injection hcs0 with hcs0; subst hcs0; cases hc0
  · unfold blockPathConds at hcs0
    split at hcs0
    · rename_i p hfound
      injection hcs0 with hcs0; subst hcs0
      obtain ⟨q, rfl, hq⟩ := findPath_is_path g sb db fuel p hfound
      obtain ⟨a, t, hcons, ht, hif, hcond, hbe⟩ := pathConds_on_path g _ c.1 c.2 hc0
      -- the pair lies on q itself (otherwise q ++ [db] would be a second walk)
      have hcq : Consec q a t := by
        rcases consec_snoc hcons with h | ⟨hlast, htx⟩
        · exact h
        · exfalso
          have ha : a = db := by
            have := hq.2.2.1; rw [hlast] at this; injection this
          subst ha; subst htx
          obtain ⟨q0, hq0⟩ : ∃ q0, q = q0 ++ [t] := List.getLast?_eq_some_iff.1 hlast
          have hw2 : WalkFromTo g sb t (q ++ [t]) := by
            refine ⟨?_, ?_, by simp, by simp; have := hq.2.2.2; omega⟩
            · rw [hq0, List.append_assoc]
              exact IsWalk.snoc (by rw [← hq0]; exact hq.1) ht
            · have := hq.2.1
              cases q with
              | nil => simp at this
              | cons z zs => simpa using this
          have := huniq _ _ hw2 hq
          have hl := congrArg List.length this
          simp at hl
      have hmust : MustPass g sb db a t := fun p' hp' => by rw [huniq p' q hp' hq]; exact hcq
      -- evaluate the criterion
      simp only [dropJustified, List.any_eq_true, Bool.and_eq_true]
      refine ⟨c, hc, hval, ?_⟩
      simp only [condMustPass, List.any_eq_true]
      refine ⟨a, ?_, ?_⟩
      · simp only [ifBlocksOf, List.mem_filter, List.mem_range, Bool.and_eq_true, beq_iff_eq]
        exact ⟨isIf_lt hif, hif, hcond⟩
      · obtain ⟨t0, f0, hs, hne⟩ := hwf a hif
        have htgt : branchTarget g a c.1 = some t := by
          unfold BranchEdge at hbe
          simp only [branchTarget, hs, hne, if_false]
          cases hpol : c.1 with
          | true => rw [hpol] at hbe; simp [hs] at hbe; simp [hbe]
          | false => rw [hpol] at hbe; simp [hs] at hbe; simp [hbe.1]
        rw [htgt]
        exact (mustPassDec_iff g sb db a t).2 hmust
    · cases hcs0

/-! ### non-vacuity: the guarded shape has exactly one walk from the source to the sink -/

theorem guard_unique : ∀ p, WalkFromTo guardCfg 0 2 p → p = [0, 2] := by
  rintro p ⟨hw, hh, hl, hlen⟩
  match p, hw, hh, hl, hlen with
  | [a, b], _, hh, hl, _ =>
    simp at hh hl; subst hh; subst hl; rfl
  | a :: b :: c :: rest, hw, hh, _, _ =>
    exfalso
    simp at hh; subst hh
    cases hw with
    | cons h1 h2 =>
      cases h2 with
      | cons h3 _ =>
        have hb : b = 2 ∨ b = 1 := by simpa [succsOf, blockOf, guardCfg] using h1
        rcases hb with rfl | rfl <;> simp [succsOf, blockOf, guardCfg] at h3

example : ProperIfs guardCfg ∧ dropJustified guardCfg f5Tbl 0 2 [(true, 7)] = true := by
  constructor
  · intro a h
    match a, h with
    | 0, _ => exact ⟨2, 1, rfl, by decide⟩
    | 1, h => exact absurd h (by decide)
    | 2, h => exact absurd h (by decide)
    | n + 3, h =>
      have : blockOf guardCfg (n + 3) = default := by
        simp [blockOf, guardCfg, List.getD_eq_getElem?_getD]
      rw [this] at h; exact absurd h (by decide)
  · exact drop_justified_of_unique_walk guardCfg f5Tbl 0 0 2 0 (.leaf 1) (fuelBound guardCfg) _
      (by
        intro a h
        match a, h with
        | 0, _ => exact ⟨2, 1, rfl, by decide⟩
        | 1, h => exact absurd h (by decide)
        | 2, h => exact absurd h (by decide)
        | n + 3, h =>
          have : blockOf guardCfg (n + 3) = default := by
            simp [blockOf, guardCfg, List.getD_eq_getElem?_getD]
          rw [this] at h; exact absurd h (by decide))
      (fun p1 p2 h1 h2 => by rw [guard_unique p1 h1, guard_unique p2 h2])
      (by decide) (by decide)

#print axioms drop_justified_of_unique_walk

end Argot.PathCond
