/-
C03 — "Backtrace reports every backward data flow from a backtrace point … Every reported trace
ends at the backtrace-point argument and is a connected sequence of dataflow steps."

Model: Argot/Model/BackVisit.lean (the DFS of analysis/backtrace/backtrace.go over a dumped linked
summary graph). Specification: Argot/Spec/BackVisit.lean (`Linked`, `TraceWF`). Only property
theorems, their `_partial` variants, negation witnesses and non-vacuity examples live here.
-/
import Argot.Proofs.BackVisit
import Argot.Proofs.BackVisitLink
import Argot.Proofs.BackVisitDfs

namespace Argot.BackVisit

/-! ## 1. Well-formedness of reported traces (the property's last sentence) -/

/-- FULL strength on the code that exists, for the relation the code can actually produce:
for every linked graph, configuration, map-iteration order, fuel, entry argument and initial
`prevEdgeInfos`, every reported trace ends at the entry argument and each consecutive pair is an
in-edge, an inter-procedural link, or the closure-trace jump (`LinkedW`). -/
theorem trace_wellformed_weak (G : LGraph) (cfg : Cfg) (ρ : VNode → List Cand → List Cand)
    (hρ : ∀ v l c, c ∈ ρ v l → c ∈ l) (fuel entry : Nat) (pei0 : List (Nat × Int)) :
    ∀ t ∈ (run G cfg ρ fuel entry pei0).traces, TraceWF (LinkedW G) entry t :=
  (loop_chain_weak G cfg ρ hρ entry fuel _ (root_chain _ entry pei0)).2

/-- The property's statement (`TracesWellformed`, with the dataflow relation `Linked`) holds for
every run in which the traversal never used a closure-trace label that belongs to another
function (`incoherent = false`, a flag the model computes and the oracle reports per input). -/
theorem trace_wellformed_partial (G : LGraph) (cfg : Cfg) (ρ : VNode → List Cand → List Cand)
    (hρ : ∀ v l c, c ∈ ρ v l → c ∈ l) (fuel entry : Nat) (pei0 : List (Nat × Int))
    (hcoh : (run G cfg ρ fuel entry pei0).incoherent = false) :
    ∀ t ∈ (run G cfg ρ fuel entry pei0).traces, TraceWF (Linked G) entry t := by
  have h := loop_chain_strong G cfg ρ hρ entry fuel _ (Or.inr (root_chain (Linked G) entry pei0))
  rcases h with h | h
  · unfold run at hcoh; rw [hcoh] at h; exact absurd h (by simp)
  · exact h.2

/-- About the PROPOSED repair (/verif/fixes/C03_closure_trace_mismatch.patch; applied as 7ab5f0c,
reverted by 63e2416 — `closureCheck = true` is not the model's default): with the closure on top
of ClosureTrace used only if it is a closure of the free variable's function, the property's last
sentence holds at FULL strength — for every graph, order, fuel, entry and initial `prevEdgeInfos`. -/
theorem trace_wellformed_fixed (G : LGraph) (cfg : Cfg) (hfix : cfg.closureCheck = true)
    (ρ : VNode → List Cand → List Cand) (hρ : ∀ v l c, c ∈ ρ v l → c ∈ l)
    (fuel entry : Nat) (pei0 : List (Nat × Int)) :
    ∀ t ∈ (run G cfg ρ fuel entry pei0).traces, TraceWF (Linked G) entry t :=
  trace_wellformed_partial G cfg ρ hρ fuel entry pei0 (loop_coherent_fixed G cfg ρ hfix fuel _ rfl)

/-- the same, as the specification's own statement `TracesWellformed`, for the repaired variant -/
theorem traces_wellformed_repaired (G : LGraph) (onDemand skipBL : Bool) :
    TracesWellformed G { onDemand := onDemand, skipBoundLabels := skipBL, closureCheck := true } :=
  fun ρ hρ fuel entry pei0 => trace_wellformed_fixed G _ rfl ρ hρ fuel entry pei0

/-- What the oracle evaluates on every REAL trace is exactly the specification. -/
theorem real_trace_criterion (G : LGraph) (entry : Nat) (t : List Nat) :
    traceWFB G entry t = true ↔ TraceWF (Linked G) entry t := traceWFB_iff G entry t

/-! ### Negation witness: the full statement is false on the current code

`main`: `x := "a"; A := func(){ x = g() }; A(); sink(x)`,  `g`: `z := src(); B := func() string { return z }; return B()`.
Backwards from `sink(x)`: bound var `x` of `A` → free var `x` of `A`'s body (closure trace `[A]`)
→ `g()` → `B()` → free var `z` of `B`'s body, reached from inside with closure trace `[A]` still
on top: the code jumps to bound variable #0 *of `A`* — not a dataflow step (F15; with two captured
variables in `B` the same code panics "no bound variable matching free variable", F16). -/
def Gjump : LGraph :=
  { nodes := #[
      { kind := .arg, graph := 0, parent := 1, ins := [(2, -1)] },                       -- 0 sink(x)
      { kind := .call, graph := 0, args := [0], calleeGraph := some 4, isPoint := true }, -- 1
      { kind := .boundVar, graph := 0, index := 0, parent := 3 },                        -- 2 x bound by A
      { kind := .closure, graph := 0, bvs := [2], closGraph := some 1, closFvs := [some 4] }, -- 3 A
      { kind := .freeVar, graph := 1, index := 0, ins := [(5, 0)] },                     -- 4 x in A's body
      { kind := .call, graph := 1, calleeGraph := some 2, rets := [6] },                 -- 5 g()
      { kind := .ret, graph := 2, ins := [(7, 0)] },                                     -- 6 return of g
      { kind := .call, graph := 2, calleeGraph := some 3, rets := [8] },                 -- 7 B()
      { kind := .ret, graph := 3, ins := [(9, -1)] },                                    -- 8 return of B
      { kind := .freeVar, graph := 3, index := 0 },                                      -- 9 z in B's body
      { kind := .closure, graph := 2, bvs := [11], closGraph := some 3, closFvs := [some 9] }, -- 10 B
      { kind := .boundVar, graph := 2, index := 0, parent := 10 } ],                     -- 11 z bound by B
    graphs := #[ {}, { refClosures := [3] }, {}, { refClosures := [10] }, {} ] }

/-- the reported trace that jumps from `z` (free variable of `B`) to `x` (bound by `A`) -/
def jumpTrace : List Nat := [9, 8, 7, 6, 5, 4, 2, 9, 8, 7, 6, 5, 4, 2, 0]

/-- the current code (no closure-trace check) -/
def unrepaired : Cfg := { closureCheck := false }

theorem jump_reported : jumpTrace ∈ (run Gjump unrepaired idOrder 100 0).traces := by decide

theorem jump_not_linked : ¬ Linked Gjump 9 2 := by
  rw [← linkedB_iff]; decide

theorem jump_trace_not_wf : ¬ TraceWF (Linked Gjump) 0 jumpTrace := by
  rw [← traceWFB_iff]; decide

/-- `TracesWellformed` (the property's last sentence at full strength) is FALSE for the modelled code. -/
theorem traces_wellformed_false : ¬ TracesWellformed Gjump unrepaired := by
  intro h
  exact jump_trace_not_wf (h idOrder (fun _ _ _ hc => hc) 100 0 [] jumpTrace jump_reported)

/-- … and the hypothesis of `trace_wellformed_partial` is what fails there. -/
example : (run Gjump unrepaired idOrder 100 0).incoherent = true := by decide

/-- on the same graph the repaired variant reports well-formed traces only -/
example : ∀ t ∈ (run Gjump { closureCheck := true } idOrder 100 0).traces, traceWFB Gjump 0 t = true := by decide

/-! ### Non-vacuity -/

/-- `y := id(src()); sink(y)`: one trace, strongly well-formed, flag down. -/
def Gid : LGraph :=
  { nodes := #[
      { kind := .arg, graph := 0, parent := 1, ins := [(2, 0)] },                         -- 0 sink(y)
      { kind := .call, graph := 0, args := [0], calleeGraph := some 3, isPoint := true }, -- 1
      { kind := .call, graph := 0, args := [3], calleeGraph := some 1, rets := [6], calleeParam := [some 5] }, -- 2 id(..)
      { kind := .arg, graph := 0, parent := 2, ins := [(4, 0)] },                         -- 3 arg of id
      { kind := .call, graph := 0, calleeGraph := some 2, rets := [7] },                  -- 4 src()
      { kind := .param, graph := 1, index := 0 },                                         -- 5 x of id
      { kind := .ret, graph := 1, ins := [(5, -1)] },                                     -- 6 return of id
      { kind := .ret, graph := 2 } ],                                                     -- 7 return of src
    graphs := #[ {}, { callsites := [2] }, { callsites := [4] }, {} ] }

example : (run Gid {} idOrder 100 0).traces = [[7, 4, 3, 5, 6, 2, 0]] := by decide
example : (run Gid {} idOrder 100 0).incoherent = false ∧ (run Gid {} idOrder 100 0).finished = true := by decide
example : TraceWF (Linked Gid) 0 [7, 4, 3, 5, 6, 2, 0] :=
  trace_wellformed_partial Gid {} idOrder (fun _ _ _ h => h) 100 0 [] (by decide) _ (by decide)

/-! ## 2. Completeness (the property's first sentence) -/

theorem dfs_final (G : LGraph) (hG : GraphHyp G) (cfg : Cfg) (ρ : VNode → List Cand → List Cand)
    (hρ : ∀ v l c, c ∈ ρ v l ↔ c ∈ l) (fuel entry : Nat) (pei0 : List (Nat × Int))
    (hentry : G.kind entry ≠ .freeVar) (hfin : (run G cfg ρ fuel entry pei0).finished = true) :
    DfsInv G cfg entry (run G cfg ρ fuel entry pei0) ∧ (run G cfg ρ fuel entry pei0).stack = [] := by
  have h0 : DfsInv G cfg entry { stack := [rootOf entry], pei := pei0 } := by
    refine ⟨?_, by simp, Or.inl ⟨rfl, rfl⟩⟩
    intro v hv
    simp only [List.mem_singleton] at hv
    subst hv
    exact ⟨fun hk => absurd hk hentry, fun p rest hp => by simp [rootOf] at hp, fun _ _ => rfl⟩
  have hfin' : (run G cfg ρ fuel entry pei0).stack = [] ∧ (run G cfg ρ fuel entry pei0).panicked = false := by
    unfold St.finished at hfin
    simpa [List.isEmpty_iff] using hfin
  rcases loop_dfs G hG cfg ρ (fun v l c => (hρ v l c).mp) (fun v l c => (hρ v l c).mpr) entry fuel _ h0 with hp | hinv
  · unfold run at hfin'; rw [hfin'.2] at hp; cases hp
  · exact ⟨hinv, hfin'.1⟩

/-- `back_visits_closure`: a finished traversal has seen every key reachable from the entry argument
through guaranteed predecessors — for every linked graph whose tables are well-kinded and whose
edges are intra-procedural (checked per dumped graph), every map iteration order, every initial
`prevEdgeInfos`. -/
theorem back_visits_closure (G : LGraph) (hG : GraphHyp G) (cfg : Cfg) (ρ : VNode → List Cand → List Cand)
    (hρ : ∀ v l c, c ∈ ρ v l ↔ c ∈ l) (fuel entry : Nat) (pei0 : List (Nat × Int))
    (hentry : G.kind entry ≠ .freeVar) (hfin : (run G cfg ρ fuel entry pei0).finished = true) :
    ∀ k, GReach G cfg entry k → k ∈ (run G cfg ρ fuel entry pei0).seen := by
  obtain ⟨hinv, hstack⟩ := dfs_final G hG cfg ρ hρ fuel entry pei0 hentry hfin
  have hroot : ∀ k ∈ rsucc G cfg entry, k ∈ (run G cfg ρ fuel entry pei0).seen := by
    rcases hinv.rootOk with ⟨h, _⟩ | h
    · rw [hstack] at h; simp at h
    · exact h.1
  intro k hk
  induction hk with
  | root h => exact hroot _ h
  | step _ hs ih =>
    rcases hinv.seenOk _ ih with ⟨v, hv, _⟩ | hd
    · rw [hstack] at hv; simp at hv
    · exact hd.1 _ hs

/-- `back_complete_partial`: every static leaf (node without inward flow: a return of a function
that creates the value, a constant argument, a global read without writes, …) reachable through
guaranteed predecessors — lasso-free contexts, tuple-index-consistent calls (`retOk`),
`Prev`-independent successors — is the origin (head) of a reported, well-formed trace. -/
theorem back_complete_partial (G : LGraph) (hG : GraphHyp G) (cfg : Cfg) (ρ : VNode → List Cand → List Cand)
    (hρ : ∀ v l c, c ∈ ρ v l ↔ c ∈ l) (fuel entry : Nat) (pei0 : List (Nat × Int))
    (hentry : G.kind entry ≠ .freeVar) (hfin : (run G cfg ρ fuel entry pei0).finished = true)
    (k : Key) (hk : GReach G cfg entry k) (hleaf : staticLeaf G cfg k.1 = true) :
    ∃ t ∈ (run G cfg ρ fuel entry pei0).traces, t.head? = some k.1 ∧ TraceWF (LinkedW G) entry t := by
  obtain ⟨hinv, hstack⟩ := dfs_final G hG cfg ρ hρ fuel entry pei0 hentry hfin
  have hseen := back_visits_closure G hG cfg ρ hρ fuel entry pei0 hentry hfin k hk
  rcases hinv.seenOk _ hseen with ⟨v, hv, _⟩ | hd
  · rw [hstack] at hv; simp at hv
  · obtain ⟨t, ht, hh⟩ := hd.2 hleaf
    exact ⟨t, ht, hh, trace_wellformed_weak G cfg ρ (fun v l c => (hρ v l c).mp) fuel entry pei0 t ht⟩

/-- … and when the leaf is a return node that nothing but calls point at, the trace goes through a
call of that function: "at least one trace contains that originating call". -/
theorem origin_call_in_trace (G : LGraph) (hwk : wellKinded G = true) (entry r : Nat) (rest : List Nat)
    (hwf : TraceWF (LinkedW G) entry (r :: rest)) (hr : G.kind r = .ret) (hne : r ≠ entry)
    (hsrc : ∀ n i, (r, i) ∉ (G.node n).ins ∧ (r, i) ∉ (G.node n).outs) :
    ∃ c rest', rest = c :: rest' ∧ G.kind c = .call ∧ r ∈ (G.node c).rets := by
  cases rest with
  | nil =>
    have := hwf.last
    simp at this
    exact absurd this hne
  | cons c rest' =>
    refine ⟨c, rest', rfl, ?_⟩
    have hl : LinkedW G c r := hwf.chain.1
    have kindOf : ∀ {k : NKind}, G.kind r = k → k = .ret := fun h => by rw [hr] at h; exact h.symm
    cases hl with
    | ctxJump _ hb =>
      have := (wk_at G hwk _).2.2.2.1 r (List.mem_of_getElem? hb)
      exact absurd (kindOf this) (by simp)
    | link hl =>
      cases hl with
      | inEdge h => exact absurd h (hsrc c _).1
      | paramToArg _ _ ha =>
        have := (wk_at G hwk _).1 r (List.mem_of_getElem? ha)
        exact absurd (kindOf this) (by simp)
      | argToParam _ hp =>
        have := (wk_at G hwk (G.node c).parent).2.1 r (List.mem_of_getElem? hp)
        exact absurd (kindOf this) (by simp)
      | argOut _ _ ho => exact absurd ho (hsrc c _).2
      | callToRet hk hrets => exact ⟨hk, hrets⟩
      | readToWrite _ hw =>
        have := (wk_at G hwk c).2.2.2.2.2 r hw
        exact absurd (kindOf this) (by simp)
      | bvToFv _ hf =>
        have := (wk_at G hwk (G.node c).parent).2.2.2.2.1 r (List.mem_of_getElem? hf)
        exact absurd (kindOf this) (by simp)
      | fvToBv _ _ hb =>
        have := (wk_at G hwk _).2.2.2.1 r (List.mem_of_getElem? hb)
        exact absurd (kindOf this) (by simp)
      | closureToBv _ hb =>
        have := (wk_at G hwk c).2.2.2.1 r hb
        exact absurd (kindOf this) (by simp)

/-- what the oracle computes (`greach`) is inside `GReach`, so `real ⊇ model` compares the REAL
trace heads with a set the theorems above speak about -/
theorem greachLoop_sound (G : LGraph) (cfg : Cfg) (entry : Nat) : ∀ (fuel : Nat) (todo acc : List Key),
    (∀ k ∈ todo, GReach G cfg entry k) → (∀ k ∈ acc, GReach G cfg entry k) →
    ∀ k ∈ greachLoop G cfg fuel todo acc, GReach G cfg entry k
  | 0, _, _, _, ha => by simpa [greachLoop] using ha
  | _ + 1, [], _, _, ha => by simpa [greachLoop] using ha
  | fuel + 1, k0 :: todo, acc, ht, ha => by
    simp only [greachLoop]
    have hnew : ∀ k ∈ ((gsucc G cfg k0).filter fun k' => !acc.contains k').eraseDups, GReach G cfg entry k := by
      intro k hk
      have hk' := (List.mem_eraseDups.mp hk)
      exact .step (ht k0 List.mem_cons_self) (List.mem_filter.mp hk').1
    apply greachLoop_sound G cfg entry fuel
    · intro k hk
      rcases List.mem_append.mp hk with h | h
      · exact hnew k h
      · exact ht k (List.mem_cons_of_mem _ h)
    · intro k hk
      rcases List.mem_append.mp hk with h | h
      · exact ha k h
      · exact hnew k h

theorem greach_sound (G : LGraph) (cfg : Cfg) (fuel entry : Nat) :
    ∀ k ∈ greach G cfg fuel entry, GReach G cfg entry k := by
  unfold greach
  have h : ∀ k ∈ (rsucc G cfg entry).eraseDups, GReach G cfg entry k :=
    fun k hk => .root (List.mem_eraseDups.mp hk)
  exact greachLoop_sound G cfg entry fuel _ _ h h

/-! ### Negation witnesses: the full statements are false on the current code -/

/-- F10. `a := src1(); b := src2(); p, q := two(a, b); sink(p + q)`. `Out()` of the call `two(a,b)`
has both edge infos to the sink argument (indices 0 and 1), `In()` of the argument keeps one (index
1): the traversal filters `two.return.0` and never reaches `src1()`. -/
def Gtuple : LGraph :=
  { nodes := #[
      { kind := .arg, graph := 0, parent := 1, index := 1, ins := [(2, 1)] },                   -- 0 sink(p+q)
      { kind := .call, graph := 0, args := [0], calleeGraph := some 4, isPoint := true },       -- 1
      { kind := .call, graph := 0, args := [3, 4], calleeGraph := some 1, calleeParam := [some 5, some 6],
        rets := [7, 8], outs := [(0, 0), (0, 1)] },                                             -- 2 two(a,b)
      { kind := .arg, graph := 0, parent := 2, index := 0, ins := [(9, 0)] },                   -- 3
      { kind := .arg, graph := 0, parent := 2, index := 1, ins := [(10, 0)] },                  -- 4
      { kind := .param, graph := 1, index := 0 },                                               -- 5 a
      { kind := .param, graph := 1, index := 1 },                                               -- 6 b
      { kind := .ret, graph := 1, index := 0, ins := [(5, -1)] },                               -- 7 two.return.0
      { kind := .ret, graph := 1, index := 1, ins := [(6, -1)] },                               -- 8 two.return.1
      { kind := .call, graph := 0, calleeGraph := some 2, rets := [11], outs := [(3, 0)] },     -- 9 src1()
      { kind := .call, graph := 0, calleeGraph := some 3, rets := [12], outs := [(4, 0)] },     -- 10 src2()
      { kind := .ret, graph := 2, index := 0 },                                                 -- 11
      { kind := .ret, graph := 3, index := 0 } ],                                               -- 12
    graphs := #[ {}, { callsites := [2] }, { callsites := [9] }, { callsites := [10] }, {} ] }

/-- the index-respecting backward chain from the sink argument to `src1()` -/
def tupleChain : List Nat := [11, 9, 3, 5, 7, 2, 0]

theorem tuple_chain_valid : TraceWF (LinkedO Gtuple) 0 tupleChain := by
  refine ⟨by decide, ?_⟩
  have L : ∀ a b, linkedB Gtuple a b = true → Linked Gtuple a b := fun a b => linked_of_linkedB
  refine ⟨⟨L 9 11 (by decide), fun _ _ => Or.inr ⟨3, by decide⟩⟩, ⟨L 3 9 (by decide), fun h => by cases h⟩,
    ⟨L 5 3 (by decide), fun h => by cases h⟩, ⟨L 7 5 (by decide), fun h => by cases h⟩,
    ⟨L 2 7 (by decide), fun _ _ => Or.inr ⟨0, by decide⟩⟩, ⟨L 0 2 (by decide), fun h => by cases h⟩, trivial⟩

theorem tuple_run : (run Gtuple {} idOrder 100 0).traces = [[12, 10, 4, 6, 8, 2, 0]] ∧
    (run Gtuple {} idOrder 100 0).finished = true := by decide

/-- `BackCompleteFull` is FALSE for the modelled code (tuple index lost in `In()`, F10). -/
theorem back_complete_false : ¬ BackCompleteFull Gtuple {} := by
  intro h
  obtain ⟨t', ht', hm⟩ := h idOrder (fun _ _ _ => Iff.rfl) 100 0 tuple_run.2 tupleChain tuple_chain_valid 9 (by decide)
  rw [tuple_run.1] at ht'
  simp only [List.mem_singleton] at ht'
  subst ht'
  revert hm; decide

/-- … and the hypothesis of the partial theorem that fails there is decidable: `retOk` is false for
the call `two(a,b)` (its out-edges carry two different indices), so its returns are not guaranteed;
the graph also violates in/out index consistency (C17 `inv_index`). -/
example : retOk Gtuple 2 0 = false ∧ tupleConsistent Gtuple = false := by decide

/-- F17. `p, q := two(src1(), src2()); u := id(p); v := id(q); sink(u + v)`: in/out indices are
consistent here, yet the call `two(..)` has ONE `seen` key for both components: it is expanded for
the index of the argument that reaches it first, the other visit is pruned. -/
def Gcollide : LGraph :=
  { nodes := #[
      { kind := .arg, graph := 0, parent := 1, index := 1, ins := [(2, 0), (3, 0)] },                 -- 0 sink(u+v)
      { kind := .call, graph := 0, args := [0], calleeGraph := some 5, isPoint := true },             -- 1
      { kind := .call, graph := 0, args := [4], calleeGraph := some 1, calleeParam := [some 6], rets := [7],
        outs := [(0, 0)], siteKey := 1 },                                                             -- 2 id(p)
      { kind := .call, graph := 0, args := [5], calleeGraph := some 1, calleeParam := [some 6], rets := [7],
        outs := [(0, 0)], siteKey := 2 },                                                             -- 3 id(q)
      { kind := .arg, graph := 0, parent := 2, index := 0, ins := [(8, 0)] },                         -- 4
      { kind := .arg, graph := 0, parent := 3, index := 0, ins := [(8, 1)] },                         -- 5
      { kind := .param, graph := 1, index := 0 },                                                     -- 6 x of id
      { kind := .ret, graph := 1, index := 0, ins := [(6, -1)] },                                     -- 7 id.return
      { kind := .call, graph := 0, args := [9, 10], calleeGraph := some 2, calleeParam := [some 11, some 12],
        rets := [13, 14], outs := [(4, 0), (5, 1)], siteKey := 3 },                                   -- 8 two(..)
      { kind := .arg, graph := 0, parent := 8, index := 0, ins := [(15, 0)] },                        -- 9
      { kind := .arg, graph := 0, parent := 8, index := 1, ins := [(16, 0)] },                        -- 10
      { kind := .param, graph := 2, index := 0 },                                                     -- 11 a
      { kind := .param, graph := 2, index := 1 },                                                     -- 12 b
      { kind := .ret, graph := 2, index := 0, ins := [(11, -1)] },                                    -- 13 two.return.0
      { kind := .ret, graph := 2, index := 1, ins := [(12, -1)] },                                    -- 14 two.return.1
      { kind := .call, graph := 0, calleeGraph := some 3, rets := [17], outs := [(9, 0)], siteKey := 4 },  -- 15 src1()
      { kind := .call, graph := 0, calleeGraph := some 4, rets := [18], outs := [(10, 0)], siteKey := 5 }, -- 16 src2()
      { kind := .ret, graph := 3, index := 0 },                                                       -- 17
      { kind := .ret, graph := 4, index := 0 } ],                                                     -- 18
    graphs := #[ {}, { callsites := [2, 3] }, { callsites := [8] }, { callsites := [15] }, { callsites := [16] }, {} ] }

def collideChain : List Nat := [17, 15, 9, 11, 13, 8, 4, 6, 7, 2, 0]

theorem collide_chain_valid : TraceWF (LinkedO Gcollide) 0 collideChain := by
  refine ⟨by decide, ?_⟩
  have L : ∀ a b, linkedB Gcollide a b = true → Linked Gcollide a b := fun a b => linked_of_linkedB
  refine ⟨⟨L 15 17 (by decide), fun _ _ => Or.inr ⟨9, by decide⟩⟩, ⟨L 9 15 (by decide), fun h => by cases h⟩,
    ⟨L 11 9 (by decide), fun h => by cases h⟩, ⟨L 13 11 (by decide), fun h => by cases h⟩,
    ⟨L 8 13 (by decide), fun _ _ => Or.inr ⟨4, by decide⟩⟩, ⟨L 4 8 (by decide), fun h => by cases h⟩,
    ⟨L 6 4 (by decide), fun h => by cases h⟩, ⟨L 7 6 (by decide), fun h => by cases h⟩,
    ⟨L 2 7 (by decide), fun _ _ => Or.inr ⟨0, by decide⟩⟩, ⟨L 0 2 (by decide), fun h => by cases h⟩, trivial⟩

theorem collide_run : (run Gcollide {} idOrder 100 0).traces = [[18, 16, 10, 12, 14, 8, 5, 6, 7, 3, 0], [4, 6, 7, 2, 0]] ∧
    (run Gcollide {} idOrder 100 0).finished = true := by decide

/-- `BackCompleteFull` fails even on a graph whose in/out indices are consistent (F17). -/
theorem back_complete_false_consistent : tupleConsistent Gcollide = true ∧ ¬ BackCompleteFull Gcollide {} := by
  refine ⟨by decide, ?_⟩
  intro h
  obtain ⟨t', ht', hm⟩ := h idOrder (fun _ _ _ => Iff.rfl) 100 0 collide_run.2 collideChain collide_chain_valid 15 (by decide)
  rw [collide_run.1] at ht'
  simp only [List.mem_cons, List.not_mem_nil, or_false] at ht'
  rcases ht' with rfl | rfl <;> revert hm <;> decide

/-- Defer/Go: a deferred call to a backtrace point is not an entry point. -/
def Gdefer : LGraph :=
  { nodes := #[
      { kind := .arg, graph := 0, parent := 1, ins := [(2, 0)] },
      { kind := .call, graph := 0, args := [0], calleeGraph := some 1, isPoint := true, goDefer := true },
      { kind := .call, graph := 0, calleeGraph := some 2, rets := [3] },
      { kind := .ret, graph := 2 } ],
    graphs := #[ {}, {}, { callsites := [2] } ] }

theorem entries_incomplete : ¬ EntriesComplete Gdefer := by
  intro h; have := h 0 (by decide); revert this; decide

theorem entries_complete_partial (G : LGraph)
    (h : ∀ i, (G.node i).kind = .call → (G.node i).isPoint = true → (G.node i).goDefer = false) :
    EntriesComplete G := by
  intro a ha
  unfold pointArgs at ha
  unfold entryArgs
  simp only [List.mem_flatMap, List.mem_range] at ha ⊢
  obtain ⟨i, hi, ha⟩ := ha
  refine ⟨i, hi, ?_⟩
  split at ha
  · rename_i hc
    simp only [Bool.and_eq_true, beq_iff_eq] at hc
    have := h i hc.1 hc.2
    simp [hc.1, hc.2, this, ha]
  · simp at ha

/-! ### Non-vacuity of the completeness theorems -/

example : GraphHyp Gid := ⟨by decide, by decide⟩
example : GReach Gid {} 0 (7, [4], [], 0) := greach_sound Gid {} 100 0 _ (by decide)
example : staticLeaf Gid {} 7 = true := by decide
example : ∃ t ∈ (run Gid {} idOrder 100 0).traces, t.head? = some 7 ∧ TraceWF (LinkedW Gid) 0 t :=
  back_complete_partial Gid ⟨by decide, by decide⟩ {} idOrder (fun _ _ _ => Iff.rfl) 100 0 [] (by decide) (by decide)
    (7, [4], [], 0) (greach_sound Gid {} 100 0 _ (by decide)) (by decide)

end Argot.BackVisit
