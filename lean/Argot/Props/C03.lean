/-
C03 — "Backtrace reports every backward data flow from a backtrace point … Every reported trace
ends at the backtrace-point argument and is a connected sequence of dataflow steps."

Model: Argot/Model/BackVisit.lean (the DFS of analysis/backtrace/backtrace.go over a dumped linked
summary graph). Specification: Argot/Spec/BackVisit.lean (`Linked`, `TraceWF`). Only property
theorems, their `_partial` variants, negation witnesses and non-vacuity examples live here.
-/
import Argot.Proofs.BackVisit
import Argot.Proofs.BackVisitLink

namespace Argot.BackVisit

/-! ## 1. Well-formedness of reported traces (the property's last sentence) -/

/-- FULL strength on the code that exists, for the relation the code can actually produce:
for every linked graph, configuration, map-iteration order, fuel, entry argument and initial
`prevEdgeInfos`, every reported trace ends at the entry argument and each consecutive pair is an
in-edge, an inter-procedural link, or the closure-trace jump (`LinkedW`). -/
theorem trace_wellformed_weak (G : LGraph) (cfg : Cfg) (ρ : VNode → List Cand → List Cand)
    (hρ : ∀ v l c, c ∈ ρ v l → c ∈ l) (fuel entry : Nat) (pei0 : List (Nat × Int)) :
    ∀ t ∈ (run G cfg ρ fuel entry pei0).traces, TraceWF (LinkedW G) entry t :=
  (loop_chain_weak G cfg ρ hρ entry fuel _ (root_chain _ entry pei0)).2

/-- The property's statement (`TracesWellformed`, with the dataflow relation `Linked`) holds for
every run in which the traversal never used a closure-trace label that belongs to another
function (`incoherent = false`, a flag the model computes and the oracle reports per input). -/
theorem trace_wellformed_partial (G : LGraph) (cfg : Cfg) (ρ : VNode → List Cand → List Cand)
    (hρ : ∀ v l c, c ∈ ρ v l → c ∈ l) (fuel entry : Nat) (pei0 : List (Nat × Int))
    (hcoh : (run G cfg ρ fuel entry pei0).incoherent = false) :
    ∀ t ∈ (run G cfg ρ fuel entry pei0).traces, TraceWF (Linked G) entry t := by
  have h := loop_chain_strong G cfg ρ hρ entry fuel _ (Or.inr (root_chain (Linked G) entry pei0))
  rcases h with h | h
  · unfold run at hcoh; rw [hcoh] at h; exact absurd h (by simp)
  · exact h.2

/-- What the oracle evaluates on every REAL trace is exactly the specification. -/
theorem real_trace_criterion (G : LGraph) (entry : Nat) (t : List Nat) :
    traceWFB G entry t = true ↔ TraceWF (Linked G) entry t := traceWFB_iff G entry t

/-! ### Negation witness: the full statement is false on the current code

`main`: `x := "a"; A := func(){ x = g() }; A(); sink(x)`,  `g`: `z := src(); B := func() string { return z }; return B()`.
Backwards from `sink(x)`: bound var `x` of `A` → free var `x` of `A`'s body (closure trace `[A]`)
→ `g()` → `B()` → free var `z` of `B`'s body, reached from inside with closure trace `[A]` still
on top: the code jumps to bound variable #0 *of `A`* — not a dataflow step (F15; with two captured
variables in `B` the same code panics "no bound variable matching free variable", F16). -/
def Gjump : LGraph :=
  { nodes := #[
      { kind := .arg, graph := 0, parent := 1, ins := [(2, -1)] },                       -- 0 sink(x)
      { kind := .call, graph := 0, args := [0], calleeGraph := some 4, isPoint := true }, -- 1
      { kind := .boundVar, graph := 0, index := 0, parent := 3 },                        -- 2 x bound by A
      { kind := .closure, graph := 0, bvs := [2], closGraph := some 1, closFvs := [some 4] }, -- 3 A
      { kind := .freeVar, graph := 1, index := 0, ins := [(5, 0)] },                     -- 4 x in A's body
      { kind := .call, graph := 1, calleeGraph := some 2, rets := [6] },                 -- 5 g()
      { kind := .ret, graph := 2, ins := [(7, 0)] },                                     -- 6 return of g
      { kind := .call, graph := 2, calleeGraph := some 3, rets := [8] },                 -- 7 B()
      { kind := .ret, graph := 3, ins := [(9, -1)] },                                    -- 8 return of B
      { kind := .freeVar, graph := 3, index := 0 },                                      -- 9 z in B's body
      { kind := .closure, graph := 2, bvs := [11], closGraph := some 3, closFvs := [some 9] }, -- 10 B
      { kind := .boundVar, graph := 2, index := 0, parent := 10 } ],                     -- 11 z bound by B
    graphs := #[ {}, { refClosures := [3] }, {}, { refClosures := [10] }, {} ] }

/-- the reported trace that jumps from `z` (free variable of `B`) to `x` (bound by `A`) -/
def jumpTrace : List Nat := [9, 8, 7, 6, 5, 4, 2, 9, 8, 7, 6, 5, 4, 2, 0]

theorem jump_reported : jumpTrace ∈ (run Gjump {} idOrder 100 0).traces := by decide

theorem jump_not_linked : ¬ Linked Gjump 9 2 := by
  rw [← linkedB_iff]; decide

theorem jump_trace_not_wf : ¬ TraceWF (Linked Gjump) 0 jumpTrace := by
  rw [← traceWFB_iff]; decide

/-- `TracesWellformed` (the property's last sentence at full strength) is FALSE for the modelled code. -/
theorem traces_wellformed_false : ¬ TracesWellformed Gjump {} := by
  intro h
  exact jump_trace_not_wf (h idOrder (fun _ _ _ hc => hc) 100 0 [] jumpTrace jump_reported)

/-- … and the hypothesis of `trace_wellformed_partial` is what fails there. -/
example : (run Gjump {} idOrder 100 0).incoherent = true := by decide

/-! ### Non-vacuity -/

/-- `y := id(src()); sink(y)`: one trace, strongly well-formed, flag down. -/
def Gid : LGraph :=
  { nodes := #[
      { kind := .arg, graph := 0, parent := 1, ins := [(2, 0)] },                         -- 0 sink(y)
      { kind := .call, graph := 0, args := [0], calleeGraph := some 3, isPoint := true }, -- 1
      { kind := .call, graph := 0, args := [3], calleeGraph := some 1, rets := [6], calleeParam := [some 5] }, -- 2 id(..)
      { kind := .arg, graph := 0, parent := 2, ins := [(4, 0)] },                         -- 3 arg of id
      { kind := .call, graph := 0, calleeGraph := some 2, rets := [7] },                  -- 4 src()
      { kind := .param, graph := 1, index := 0 },                                         -- 5 x of id
      { kind := .ret, graph := 1, ins := [(5, -1)] },                                     -- 6 return of id
      { kind := .ret, graph := 2 } ],                                                     -- 7 return of src
    graphs := #[ {}, { callsites := [2] }, { callsites := [4] }, {} ] }

example : (run Gid {} idOrder 100 0).traces = [[7, 4, 3, 5, 6, 2, 0]] := by decide
example : (run Gid {} idOrder 100 0).incoherent = false ∧ (run Gid {} idOrder 100 0).finished = true := by decide
example : TraceWF (Linked Gid) 0 [7, 4, 3, 5, 6, 2, 0] :=
  trace_wellformed_partial Gid {} idOrder (fun _ _ _ h => h) 100 0 [] (by decide) _ (by decide)

end Argot.BackVisit
