/-
C03 / C17 — `forward_backward_dual`: "Forward (taint) and backward (backtrace) traversals therefore see
the same graph" (last sentence of C17), context-insensitively.

Definitions and helper lemmas: Argot/Proofs/BackVisitDual.lean.  Only property theorems, negation
witnesses and non-vacuity examples live here.

WHAT IS PROVED ABOUT WHICH MODEL

* The two visitor models read different dump records (`TaintVisit.LGraph`, `BackVisit.LGraph`).  The
  statement is therefore made once, on the representation both are views of: the C17 state machine
  `SGraph.State` (out/in edge lists, `CalleeSummary`, `Callsites`, `ClosureSummary`,
  `ReferringMakeClosures`, `ReadLocations`/`WriteLocations`) + the immutable position tables `Layout`
  (`View`).  `Fwd v` follows out-edges, call argument → callee parameter (through `CalleeSummary`),
  return → call node (through `Callsites`), bound variable → free variable (through `ClosureSummary`),
  global write → reads.  `Bwd v` follows in-edges and the same four links read from the registration on the
  other side (`Callsites`, `CalleeSummary`, `ReferringMakeClosures`, write locations).
* `forward_backward_dual`: for EVERY view satisfying C17 (a), (b), (c) and the converse of (c), every s, t:
  `Reach (Fwd v) [s] t ↔ Reach (Bwd v) [t] s` (no bound on the graph or the path length).
* C17's own invariant `inv` is enough for `⇒` (`forward_sub_backward`) but NOT for `⇐`: (c) is
  one-directional, and the op machine reaches, under `allOk`, a state with a stale
  `ReferringMakeClosures` entry (`dual_false_without_closure_converse`).  Without (a) `⇒` fails
  (`dual_false_without_edges`: an out-edge without its in-edge).
* Backward model: `bwdStep_sound` — for every dumped `BackVisit.LGraph` that is a dump of the view (`RepB`),
  every candidate the model's `expand` hands to `addNext`, in an expansion whose `incoherent` flag is down,
  is a `Bwd` step or one of the four links the backward visitor follows IN ADDITION to the converse of the
  forward links (`ExtraB`: argument → callee parameter, bound argument → out-edges, bound variable →
  free variable, closure → bound variables); for the node kinds param, ret, call, synth, global read/write,
  bound label and free variable it is a `Bwd` step outright (`bwdStep_sound_core`).
* Forward model: `fwdStep_sound` — for every dumped `TaintVisit.LGraph` that is a dump of the view (`RepF`),
  every item `stepSpec` produces from an item whose node is a call argument, a synthetic node, a closure
  node or a global access is a `Fwd` step of the view (node projection).  NOT covered (stated, not proved):
  the return case (the model goes from the return to the successors of the call node in one step =
  two `Fwd` steps), the context-sensitive closure entry (bound variable → closure node → … → call → free
  variable, which `Fwd.bvFv` short-cuts) and the reverse flows param → argument, free variable → bound
  variable.
-/
import Argot.Proofs.BackVisitDual
import Argot.Props.C03

namespace Argot.Dual
open Argot.SGraph (Static Op run allOk inv InvEdges InvCalls InvClosures)

/-- under C17 (a), (b), (c) and the converse of (c), `Bwd` is exactly the converse relation of `Fwd`. -/
theorem bwd_is_conv_fwd (v : View) (ha : InvEdges v.st) (hb : InvCalls v.σ v.st)
    (hc : InvClosures v.σ v.st) (hc' : InvClosuresConv v.st) (s t : Nat) : Fwd v s t ↔ Bwd v t s :=
  ⟨fwd_conv_bwd v ha.1 hb hc, bwd_conv_fwd v ha.2.1 hb hc'⟩

/-- **forward_backward_dual.** On every linked summary graph satisfying C17 (a) `d ∈ out s ↔ s ∈ in d`,
(b) call node ↔ call sites, (c) closure node ↔ referring closures (both directions), node `t` is reachable
from `s` by forward steps iff `s` is reachable from `t` by backward steps. -/
theorem forward_backward_dual (v : View) (ha : InvEdges v.st) (hb : InvCalls v.σ v.st)
    (hc : InvClosures v.σ v.st) (hc' : InvClosuresConv v.st) (s t : Nat) :
    Closure.Reach (Fwd v) [s] t ↔ Closure.Reach (Bwd v) [t] s :=
  reach_dual_of_conv (bwd_is_conv_fwd v ha hb hc hc') s t

/-- the same with C17's decidable invariant (what `oracle_c17` evaluates on every real graph). -/
theorem forward_backward_dual_inv (v : View) (h : inv v.σ v.st = true) (hc' : InvClosuresConv v.st)
    (s t : Nat) : Closure.Reach (Fwd v) [s] t ↔ Closure.Reach (Bwd v) [t] s := by
  have I := (SGraph.inv_iff v.σ v.st).1 h
  exact forward_backward_dual v ⟨I.e_out_in, I.e_in_out, I.e_uniq⟩ ⟨I.calls_fwd, I.calls_bwd⟩ I.clos hc' s t

/-- C17's invariant alone gives one inclusion: whatever the forward traversal can reach, the backward
traversal reaches back. -/
theorem forward_sub_backward (v : View) (h : inv v.σ v.st = true) (s t : Nat)
    (hr : Closure.Reach (Fwd v) [s] t) : Closure.Reach (Bwd v) [t] s := by
  have I := (SGraph.inv_iff v.σ v.st).1 h
  exact reach_conv_of_sub (fun _ _ => fwd_conv_bwd v I.e_out_in ⟨I.calls_fwd, I.calls_bwd⟩ I.clos) s t hr

/-- … for every graph the tool can build (C17 `inv_reachable`): every operation sequence performed under
the preconditions `Op.ok`, every layout. The converse of (c) remains a hypothesis on the final state. -/
theorem forward_backward_dual_reachable (σ : Static) (L : Layout) (ops : List Op)
    (hok : allOk σ {} ops = true) (hc' : InvClosuresConv (run σ {} ops)) (s t : Nat) :
    Closure.Reach (Fwd ⟨σ, L, run σ {} ops⟩) [s] t ↔ Closure.Reach (Bwd ⟨σ, L, run σ {} ops⟩) [t] s :=
  forward_backward_dual_inv ⟨σ, L, run σ {} ops⟩
    ((SGraph.inv_iff σ _).2 (SGraph.Inv_run σ ops {} (SGraph.Inv_init σ) hok)) hc' s t

/-! ### negation witnesses: the invariant is needed -/

def noLayout : Layout := ⟨fun _ => [], fun _ => [], fun _ => [], fun _ => [], fun _ => []⟩

/-- two nodes, the out-edge 0 → 1 without its in-edge -/
def brokenEdge : View := ⟨⟨id, id⟩, noLayout, { e := { out := [(0, 1, -1)], inn := [] } }⟩

/-- **(a) is needed**: on a 2-node graph with an out-edge missing its in-edge — (b), (c) and the converse of
(c) hold — forward reaches 1 from 0 and backward does not reach 0 from 1. -/
theorem dual_false_without_edges :
    InvCalls brokenEdge.σ brokenEdge.st ∧ InvClosures brokenEdge.σ brokenEdge.st ∧
    InvClosuresConv brokenEdge.st ∧ ¬ InvEdges brokenEdge.st ∧
    Closure.Reach (Fwd brokenEdge) [0] 1 ∧ ¬ Closure.Reach (Bwd brokenEdge) [1] 0 := by
  refine ⟨by decide, by decide, by decide, by decide, ?_, ?_⟩
  · exact .step (k := 0) (.root (by simp)) (.out (i := -1) (by simp [brokenEdge]))
  · intro h
    have := reach_stuck (R := Bwd brokenEdge) (a := 1) (b := 0) (by
      intro c hc
      cases hc <;> simp_all [brokenEdge, noLayout]) h
    exact absurd this (by decide)

/-- closure node 9 is linked to summary 2 and then unlinked (`closureNode.ClosureSummary = nil`, "nil is
safe"): `ReferringMakeClosures` of summary 2 keeps the entry. -/
def staleOps : List Op := [.linkClosure 9 (some 2), .linkClosure 9 none]

def staleLayout : Layout :=
  { noLayout with bvs := fun c => if c = 9 then [20] else [], fvs := fun S => if S = 2 then [30] else [] }

def staleView : View := ⟨⟨id, id⟩, staleLayout, run ⟨id, id⟩ {} staleOps⟩

/-- **C17's invariant is not enough for `⇐`**: a state the op machine reaches under `allOk`, on which `inv`
holds, where backward reaches the bound variable 20 from the free variable 30 (through the stale
`ReferringMakeClosures` entry) and forward does not reach 30 from 20. -/
theorem dual_false_without_closure_converse :
    allOk staleView.σ {} staleOps = true ∧ inv staleView.σ staleView.st = true ∧
    ¬ InvClosuresConv staleView.st ∧
    Closure.Reach (Bwd staleView) [30] 20 ∧ ¬ Closure.Reach (Fwd staleView) [20] 30 := by
  have hst : staleView.st.closureSummary = [] ∧ staleView.st.referring = [(2, 9, 9)] ∧
      staleView.st.e.out = [] ∧ staleView.st.calleeSummary = [] ∧ staleView.st.callsites = [] ∧
      staleView.st.writeLoc = [] := by decide
  obtain ⟨h1, h2, h3, h4, h5, h6⟩ := hst
  refine ⟨by decide, by decide, by decide, ?_, ?_⟩
  · exact .step (k := 30) (.root (by simp))
      (.fvBv (S := 2) (instr := 9) (cl := 9) (k := 0) (by rw [h2]; simp) (by simp [staleView, staleLayout])
        (by simp [staleView, staleLayout]))
  · intro h
    have := reach_stuck (R := Fwd staleView) (a := 20) (b := 30) (by
      intro c hc
      cases hc <;> simp_all) h
    exact absurd this (by decide)

/-! ### non-vacuity: a graph with every kind of link, where the duality transports two concrete flows

`main`: `x := src(); y := f(x); sink(y); c := func(){ G = x }; …; sink2(G)`,  `f(p) { return p }`.
Nodes: 0 `x`; 1 argument of call 2 (`f(x)`); 3 parameter, 4 return of `f` (summary 1); 5 argument of `sink`;
6 MakeClosure node, 7 its bound variable `x`; 8 free variable of the closure body (summary 2), 9 the write
of global 100 in it; 10 the read of global 100 in `main` (summary 0), 11 argument of `sink2`. -/

def exOps : List Op := [
  .addEdge 0 1 (-1), .addEdge 3 4 (-1), .addEdge 2 5 0, .linkCallee 2 1,
  .addEdge 0 7 (-1), .linkClosure 6 (some 2),
  .addAccess 9 2 100, .markWrite 9, .addEdge 8 9 (-1), .addAccess 10 0 100, .addEdge 10 11 (-1),
  .syncGlobals 2, .syncGlobals 0 ]

def exLayout : Layout where
  args c := if c = 2 then [1] else []
  params S := if S = 1 then [3] else []
  rets S := if S = 1 then [4] else []
  bvs c := if c = 6 then [7] else []
  fvs S := if S = 2 then [8] else []

def exView : View := ⟨⟨id, id⟩, exLayout, run ⟨id, id⟩ {} exOps⟩

/-- the hypotheses of `forward_backward_dual_reachable` hold, forward reaches both sinks from `x` through a
call / a closure and a global, and the theorem yields the two backward paths. -/
example : allOk exView.σ {} exOps = true ∧ InvClosuresConv exView.st ∧
    Closure.Reach (Fwd exView) [0] 5 ∧ Closure.Reach (Fwd exView) [0] 11 ∧
    Closure.Reach (Bwd exView) [5] 0 ∧ Closure.Reach (Bwd exView) [11] 0 := by
  have hok : allOk exView.σ {} exOps = true := by decide
  have hcc : InvClosuresConv exView.st := by decide
  have r0 : Closure.Reach (Fwd exView) [0] 0 := .root (by simp)
  have r1 : Closure.Reach (Fwd exView) [0] 1 := .step r0 (.out (i := -1) (by decide))
  have r3 : Closure.Reach (Fwd exView) [0] 3 :=
    .step r1 (.argParam (c := 2) (S := 1) (k := 0) (by decide) (by decide) (by decide))
  have r4 : Closure.Reach (Fwd exView) [0] 4 := .step r3 (.out (i := -1) (by decide))
  have r2 : Closure.Reach (Fwd exView) [0] 2 := .step r4 (.retCall (S := 1) (site := 2) (by decide) (by decide))
  have f1 : Closure.Reach (Fwd exView) [0] 5 := .step r2 (.out (i := 0) (by decide))
  have r7 : Closure.Reach (Fwd exView) [0] 7 := .step r0 (.out (i := -1) (by decide))
  have r8 : Closure.Reach (Fwd exView) [0] 8 :=
    .step r7 (.bvFv (cl := 6) (S := 2) (k := 0) (by decide) (by decide) (by decide))
  have r9 : Closure.Reach (Fwd exView) [0] 9 := .step r8 (.out (i := -1) (by decide))
  have r10 : Closure.Reach (Fwd exView) [0] 10 := .step r9 (.writeRead (g := 100) (by decide) (by decide))
  have f2 : Closure.Reach (Fwd exView) [0] 11 := .step r10 (.out (i := -1) (by decide))
  exact ⟨hok, hcc, f1, f2,
    (forward_backward_dual_reachable ⟨id, id⟩ exLayout exOps hok hcc 0 5).1 f1,
    (forward_backward_dual_reachable ⟨id, id⟩ exLayout exOps hok hcc 0 11).1 f2⟩

/-- … and the duality is not trivially true by emptiness: 11 is not forward-reachable from 5's side,
5 ↛ 0 forward (no step leaves node 5), while 0 →* 5. -/
example : ¬ Closure.Reach (Fwd exView) [5] 0 := by
  intro h
  have hst : exView.st.e.out = [(0, 1, -1), (3, 4, -1), (2, 5, 0), (0, 7, -1), (8, 9, -1), (10, 11, -1)] ∧
      exView.st.calleeSummary = [(2, 1)] ∧ exView.st.callsites = [(1, 2, 2)] ∧
      exView.st.closureSummary = [(6, 2)] ∧ exView.st.writeLoc = [(100, 9)] := by decide
  obtain ⟨h1, h2, h3, h4, h5⟩ := hst
  have := reach_stuck (R := Fwd exView) (a := 5) (b := 0) (by
    intro c hc
    cases hc with
    | out ho => rw [h1] at ho; simp at ho
    | argParam hcs ha hp =>
      rw [h2] at hcs; simp at hcs; obtain ⟨rfl, rfl⟩ := hcs
      rename_i k; simp [exView, exLayout] at ha; cases k <;> simp at ha
    | retCall hs hr =>
      rw [h3] at hs; simp at hs; obtain ⟨rfl, rfl, rfl⟩ := hs
      simp [exView, exLayout] at hr
    | bvFv hcl hb hf =>
      rw [h4] at hcl; simp at hcl; obtain ⟨rfl, rfl⟩ := hcl
      rename_i k; simp [exView, exLayout] at hb; cases k <;> simp at hb
    | writeRead hw hr => rw [h5] at hw; simp at hw) h
  exact absurd this (by decide)

/-! ### the two visitor models are views of the same graph -/

/-- **Backward model.** If the dumped `BackVisit.LGraph` is a dump of the view (`RepB`), every candidate the
model's `expand` hands to `addNext` — whatever the configuration, `prevEdgeInfos`, call stack, closure stack
and `Prev` chain of the visitor node — in an expansion that did not flag the closure-trace mismatch (F15) is
a `Bwd` step of the view or one of the four additional backward links `ExtraB`. -/
theorem bwdStep_sound {G : BackVisit.LGraph} {v : View} (R : RepB G v) (hc : InvClosures v.σ v.st)
    (cfg : BackVisit.Cfg) (pei : List (Nat × Int)) (cur : BackVisit.VNode) (c : BackVisit.Cand)
    (h : c ∈ (BackVisit.expand G cfg pei cur).cands)
    (hinc : (BackVisit.expand G cfg pei cur).incoherent = false) :
    Bwd v cur.node c.node ∨ ExtraB G cur.node c.node :=
  linked_sound R hc ((BackVisit.expand_linked G cfg pei cur c h).2 hinc)

/-- … and outside call arguments, bound variables and MakeClosure nodes (i.e. at parameters, returns, call
nodes, synthetic nodes, global reads and writes, bound labels and free variables) it is a `Bwd` step. -/
theorem bwdStep_sound_core {G : BackVisit.LGraph} {v : View} (R : RepB G v) (hc : InvClosures v.σ v.st)
    (cfg : BackVisit.Cfg) (pei : List (Nat × Int)) (cur : BackVisit.VNode) (c : BackVisit.Cand)
    (h : c ∈ (BackVisit.expand G cfg pei cur).cands)
    (hinc : (BackVisit.expand G cfg pei cur).incoherent = false)
    (hk : G.kind cur.node ≠ .arg ∧ G.kind cur.node ≠ .boundVar ∧ G.kind cur.node ≠ .closure) :
    Bwd v cur.node c.node := by
  rcases bwdStep_sound R hc cfg pei cur c h hinc with h | h
  · exact h
  · cases h with
    | argToParam hk' _ => exact absurd hk' hk.1
    | argOut hk' _ _ => exact absurd hk' hk.1
    | bvToFv hk' _ => exact absurd hk' hk.2.1
    | closureToBv hk' _ => exact absurd hk' hk.2.2

/-- every trace the backward model reports in a coherent run is a chain of `Bwd` / `ExtraB` steps of the
view ending at the entry argument (all graphs, map orders, fuel, entries). -/
theorem traces_are_bwd_chains {G : BackVisit.LGraph} {v : View} (R : RepB G v) (hc : InvClosures v.σ v.st)
    (cfg : BackVisit.Cfg) (ρ : BackVisit.VNode → List BackVisit.Cand → List BackVisit.Cand)
    (hρ : ∀ w l c, c ∈ ρ w l → c ∈ l) (fuel entry : Nat) (pei0 : List (Nat × Int))
    (hcoh : (BackVisit.run G cfg ρ fuel entry pei0).incoherent = false) :
    ∀ t ∈ (BackVisit.run G cfg ρ fuel entry pei0).traces,
      BackVisit.TraceWF (fun a b => Bwd v a b ∨ ExtraB G a b) entry t :=
  fun t ht => BackVisit.TraceWF.mono (fun _ _ h => linked_sound R hc h)
    (BackVisit.trace_wellformed_partial G cfg ρ hρ fuel entry pei0 hcoh t ht)

/-- **Forward model.** If the dumped `TaintVisit.LGraph` is a dump of the view (`RepF`), every item the
model's specification-side step `stepSpec` (hence also `succ`, what the code enqueues) produces from an
item whose node is a call argument, a synthetic node, a MakeClosure node or a global access — whatever its
call stack, closure stack, status, access paths and `Prev` — is a `Fwd` step of the view. -/
theorem fwdStep_sound {G : TaintVisit.LGraph} {v : View} (R : RepF G v) (src : Nat) (a b : TaintVisit.Item)
    (hk : (G.node a.node).kind = .callArg ∨ (G.node a.node).kind = .synthetic ∨
      (G.node a.node).kind = .closure ∨ (G.node a.node).kind = .global)
    (h : b ∈ TaintVisit.succ G src a) : Fwd v a.node b.node :=
  stepSpec_fwd R src a b hk (List.mem_filter.1 h).1

/-- non-vacuity of `RepB`: a two-node dump (node 0 has the in-edge from node 1) is a dump of the view with
that in-edge, and the backward model's candidate from node 0 is the `Bwd` step 0 → 1. -/
example : ∃ (G : BackVisit.LGraph) (v : View), RepB G v ∧
    (BackVisit.expand G {} [] (BackVisit.rootOf 0)).cands.map (·.node) = [1] ∧ Bwd v 0 1 := by
  let n0 : BackVisit.Node := { kind := .synth, ins := [(1, -1)] }
  let n1 : BackVisit.Node := { kind := .synth }
  let G : BackVisit.LGraph := ⟨#[n0, n1], #[]⟩
  let v : View := ⟨⟨id, id⟩, noLayout, { e := { out := [(1, 0, -1)], inn := [(0, 1, -1)] } }⟩
  have hn : ∀ n, G.node n = n0 ∨ G.node n = n1 := by
    intro n
    match n with
    | 0 => exact .inl rfl
    | 1 => exact .inr rfl
    | n + 2 => exact .inr (by simp [G, BackVisit.LGraph.node, Array.getD, n1]; rfl)
  have hg : ∀ g, G.ginfo g = default := by intro g; simp [G, BackVisit.LGraph.ginfo]
  have h0 : ∀ n, (G.node n).ins ≠ [] → n = 0 := by
    intro n
    match n with
    | 0 => intro _; rfl
    | 1 => intro h; exact absurd rfl h
    | n + 2 => intro h; exact absurd (by simp [G, BackVisit.LGraph.node, Array.getD]; rfl) h
  refine ⟨G, v, ?_, by decide, .inn (i := -1) (by simp [v])⟩
  refine ⟨?_, ?_, ?_, ?_, ?_, ?_, ?_, ?_, ?_, ?_⟩
  · intro n s i h
    have : n = 0 := h0 n (by intro he; rw [he] at h; simp at h)
    subst this
    simp [G, BackVisit.LGraph.node, n0] at h
    simp [v, h]
  · intro g c h; rw [hg] at h; exact nomatch h
  · intro c; rcases hn c with h | h <;> rw [h] <;> rfl
  · intro p hp; unfold BackVisit.LGraph.kind at hp; rcases hn p with h | h <;> rw [h] at hp <;> simp [n0, n1] at hp
  · intro c r hp; unfold BackVisit.LGraph.kind at hp; rcases hn c with h | h <;> rw [h] at hp <;> simp [n0, n1] at hp
  · intro c r hp; unfold BackVisit.LGraph.kind at hp; rcases hn c with h | h <;> rw [h] at hp <;> simp [n0, n1] at hp
  · intro p hp; unfold BackVisit.LGraph.kind at hp; rcases hn p with h | h <;> rw [h] at hp <;> simp [n0, n1] at hp
  · intro c; rcases hn c with h | h <;> rw [h] <;> rfl
  · intro g c h; rw [hg] at h; exact nomatch h
  · intro c g h'; rcases hn c with h | h <;> rw [h] at h' <;> simp [n0, n1] at h'

#print axioms bwdStep_sound
#print axioms bwdStep_sound_core
#print axioms traces_are_bwd_chains
#print axioms fwdStep_sound
#print axioms bwd_is_conv_fwd
#print axioms forward_backward_dual
#print axioms forward_backward_dual_inv
#print axioms forward_sub_backward
#print axioms forward_backward_dual_reachable
#print axioms dual_false_without_edges
#print axioms dual_false_without_closure_converse

end Argot.Dual
