/-
C04 — Every code location matching a specification is identified, and only those.

Property theorems only (models: Base/Regex.lean, Model/CodeId.lean, Model/Entry.lean; declarative
specifications: Spec/CodeId.lean, Spec/Entry.lean; helper lemmas: Proofs/CodeId.lean, Proofs/Entry.lean).
Quantifiers: every regular expression of the modelled RE2 subset, every text, every specification
(any subset of fields given), every identifier, every call site of every form.
-/
import Argot.Proofs.CodeId

namespace Argot.C04
open Argot.Regex Argot.CodeId

/-! ## 1. Regular expressions: the matcher decides unanchored search -/

/-- For every expression and every text, the derivative matcher answers `true` exactly when some
substring of the text is matched (with `^`/`$` holding only at the two ends of the text). -/
theorem regex_search_iff (re : RE) (s : List Char) : search re s = true ↔ Search re s :=
  search_iff re s

/-- Unanchored: an assertion-free pattern found in `s` is found in every text that contains `s`. -/
theorem regex_search_mono (re : RE) (hf : assertionFree re = true) (a s b : List Char)
    (h : search re s = true) : search re (a ++ s ++ b) = true :=
  search_mono hf a s b h

/-! ## 2. `equalOnNonEmptyFields` -/

/-- For a specification whose patterns all compile and that does not use the `Interface` field, the
conjunction computed by the code is exactly: every given field is found by unanchored search in the
same field of the identifier, and the kinds are equal. -/
theorem matchB_iff (spec cid : CodeId) (hok : specOk spec = true) (hi : spec.iface = "") :
    matchB spec cid = true ↔ Matches spec cid := by
  have hc := specOk_compiles hok
  have c1 := conjB_same_iff (cid := cid) (hc .context (by decide))
  have c2 := conjB_same_iff (cid := cid) (hc .package (by decide))
  have c4 := conjB_same_iff (cid := cid) (hc .method (by decide))
  have c5 := conjB_same_iff (cid := cid) (hc .receiver (by decide))
  have c6 := conjB_same_iff (cid := cid) (hc .field (by decide))
  have c7 := conjB_same_iff (cid := cid) (hc .type (by decide))
  have c8 := conjB_same_iff (cid := cid) (hc .valueMatch (by decide))
  have c3 : conjB spec cid (.package, .interface, .interface) = true := by
    obtain ⟨re, hre⟩ := hc .package (by decide)
    simp only [CodeId.get] at hre
    simp [conjB, hre, CodeId.get, hi]
  simp only [matchB, matchesO_of_specOk cid hok, conjTable, List.all_cons, List.all_nil, c3, Bool.true_and,
    Bool.and_true, beq_iff_eq, Outcome.val.injEq, Bool.and_eq_true, c1, c2, c4, c5, c6, c7, c8, Matches, specFields,
    List.forall_mem_cons, List.not_mem_nil, false_imp_iff, implies_true, and_true]

/-- Compiled specifications never panic. -/
theorem matchesO_no_panic (spec cid : CodeId) (hok : specOk spec = true) : matchesO spec cid ≠ .panic := by
  rw [matchesO_of_specOk cid hok]; intro h; cases h

/-- A specification field that is not given constrains nothing: the empty pattern compiles to the
expression of the empty word, found in every text. -/
theorem empty_pattern_matches_all (s : List Char) :
    ∃ re, parse ("" : String).toList = .ok re ∧ search re s = true :=
  ⟨.eps, parse_empty_string, search_eps s⟩

/-! ### what the code does outside that domain (negation witnesses, replayed on the real tool)

The closed examples are evaluated on compiled specifications (`evalConjR res …` where `res f` is the result
of compiling field `f`); the `parse` facts used for `res` are checked next to them. -/

example : parse ['('] = .error .invalid := by rfl
example : parse ['v', '?'] = .ok (.alt (.chr 'v') .eps) := by rfl
example : parse ['F', 'n'] = .ok (.cat (.chr 'F') (.chr 'n')) := by rfl
example : parse ['^', 'F', '$'] = .ok (.cat (.cat .bol (.chr 'F')) .eol) := by rfl

/-- all fields empty except the listed ones -/
def resOf (l : List (Fld × PR RE)) : Fld → PR RE := fun f => (l.lookup f).getD (.ok .eps)

/-- **F13**: an invalid pattern leaves a nil `*regexp.Regexp`; the first use panics
(`sources: [{package: "("}]`). -/
example : evalConjR (resOf [(.package, .error .invalid)]) { pkg := "(" } { pkg := "v" } conjTable = .panic := by decide

/-- …unless an earlier conjunct is already false (short-circuit): no panic, no match
(`{package: "F", method: "("}` on package `v`). -/
example : evalConjR (resOf [(.package, .ok (.chr 'F')), (.method, .error .invalid)])
    { pkg := "F", meth := "(" } { pkg := "v", meth := "f" } conjTable = .val false := by decide

/-- The `Interface` field of a specification is tested with the **package** regex against the
identifier's (always empty) `Interface`: `{package: "Fn", interface: "I", method: "Fn"}` does not match
the identifier of `Fn.Fn`… -/
example : evalConjR (resOf [(.package, .ok (.cat (.chr 'F') (.chr 'n'))), (.interface, .ok (.chr 'I')),
      (.method, .ok (.cat (.chr 'F') (.chr 'n')))])
    { pkg := "Fn", iface := "I", meth := "Fn" } { pkg := "Fn", meth := "Fn" } conjTable = .val false := by decide

/-- …while a package pattern that matches the empty text (`v?`) makes the interface name irrelevant. -/
example : evalConjR (resOf [(.package, .ok (.alt (.chr 'v') .eps)), (.interface, .ok (.chr 'I')),
      (.method, .ok (.cat (.chr 'F') (.chr 'n')))])
    { pkg := "v?", iface := "I", meth := "Fn" } { pkg := "v", meth := "Fn" } conjTable = .val true := by decide

/-! ### non-vacuity -/

/-- unanchored: `Fn` identifies `xFny` -/
example : evalConjR (resOf [(.method, .ok (.cat (.chr 'F') (.chr 'n')))]) { meth := "Fn" } { pkg := "p", meth := "xFny" }
    conjTable = .val true := by decide
/-- anchored: `^F$` does not identify `Fn`, identifies `F` -/
example : evalConjR (resOf [(.method, .ok (.cat (.cat .bol (.chr 'F')) .eol))]) { meth := "^F$" } { meth := "Fn" }
    conjTable = .val false := by decide
example : evalConjR (resOf [(.method, .ok (.cat (.cat .bol (.chr 'F')) .eol))]) { meth := "^F$" } { meth := "F" }
    conjTable = .val true := by decide
/-- kinds must be equal -/
example : evalConjR (resOf []) { kind := "store" } { meth := "F" } conjTable = .val false := by decide

end Argot.C04
