/-
C04 — Every code location matching a specification is identified, and only those.

Property theorems only (models: Base/Regex.lean, Model/CodeId.lean, Model/Entry.lean; declarative
specifications: Spec/CodeId.lean, Spec/Entry.lean; helper lemmas: Proofs/CodeId.lean, Proofs/Entry.lean).
Quantifiers: every regular expression of the modelled RE2 subset, every text, every specification
(any subset of fields given), every identifier, every call site of every form.
-/
import Argot.Proofs.CodeId
import Argot.Proofs.Entry
import Argot.Gen.T10CodeId

namespace Argot.C04
open Argot.Regex Argot.CodeId Argot.Entry

/-! ## 1. Regular expressions: the matcher decides unanchored search -/

/-- For every expression and every text, the derivative matcher answers `true` exactly when some
substring of the text is matched (with `^`/`$` holding only at the two ends of the text). -/
theorem regex_search_iff (re : RE) (s : List Char) : search re s = true ↔ Search re s :=
  search_iff re s

/-- Unanchored: an assertion-free pattern found in `s` is found in every text that contains `s`. -/
theorem regex_search_mono (re : RE) (hf : assertionFree re = true) (a s b : List Char)
    (h : search re s = true) : search re (a ++ s ++ b) = true :=
  search_mono hf a s b h

/-! ## 2. `equalOnNonEmptyFields` -/

/-- For a specification whose patterns all compile and that does not use the `Interface` field, the
conjunction computed by the code is exactly: every given field is found by unanchored search in the
same field of the identifier, and the kinds are equal. -/
theorem matchB_iff (spec cid : CodeId) (hok : specOk spec = true) (hi : spec.iface = "") :
    matchB spec cid = true ↔ Matches spec cid := by
  have hc := specOk_compiles hok
  have c1 := conjB_same_iff (cid := cid) (hc .context (by decide))
  have c2 := conjB_same_iff (cid := cid) (hc .package (by decide))
  have c4 := conjB_same_iff (cid := cid) (hc .method (by decide))
  have c5 := conjB_same_iff (cid := cid) (hc .receiver (by decide))
  have c6 := conjB_same_iff (cid := cid) (hc .field (by decide))
  have c7 := conjB_same_iff (cid := cid) (hc .type (by decide))
  have c8 := conjB_same_iff (cid := cid) (hc .valueMatch (by decide))
  have c3 : conjB spec cid (.package, .interface, .interface) = true := by
    obtain ⟨re, hre⟩ := hc .package (by decide)
    simp only [CodeId.get] at hre
    simp [conjB, hre, CodeId.get, hi]
  simp only [matchB, matchesO_of_specOk cid hok, conjTable, List.all_cons, List.all_nil, c3, Bool.true_and,
    Bool.and_true, beq_iff_eq, Outcome.val.injEq, Bool.and_eq_true, c1, c2, c4, c5, c6, c7, c8, Matches, specFields,
    List.forall_mem_cons, List.not_mem_nil, false_imp_iff, implies_true, and_true]

/-- Compiled specifications never panic. -/
theorem matchesO_no_panic (spec cid : CodeId) (hok : specOk spec = true) : matchesO spec cid ≠ .panic := by
  rw [matchesO_of_specOk cid hok]; intro h; cases h

/-- A specification field that is not given constrains nothing: the empty pattern compiles to the
expression of the empty word, found in every text. -/
theorem empty_pattern_matches_all (s : List Char) :
    ∃ re, parse ("" : String).toList = .ok re ∧ search re s = true :=
  ⟨.eps, parse_empty_string, search_eps s⟩

/-! ### what the code does outside that domain (negation witnesses, replayed on the real tool)

The closed examples are evaluated on compiled specifications (`evalConjR res …` where `res f` is the result
of compiling field `f`); the `parse` facts used for `res` are checked next to them. -/

example : parse ['('] = .error .invalid := by rfl
example : parse ['v', '?'] = .ok (.alt (.chr 'v') .eps) := by rfl
example : parse ['F', 'n'] = .ok (.cat (.chr 'F') (.chr 'n')) := by rfl
example : parse ['^', 'F', '$'] = .ok (.cat (.cat .bol (.chr 'F')) .eol) := by rfl

/-- all fields empty except the listed ones -/
def resOf (l : List (Fld × PR RE)) : Fld → PR RE := fun f => (l.lookup f).getD (.ok .eps)

/-- **F13 (repaired, commit e35b228)**: a pattern that does not compile matches nothing — no panic — for every
identifier (`sources: [{package: "("}]`). -/
example : evalConjR (resOf [(.package, .error .invalid)]) { pkg := "(" } { pkg := "v" } conjTable = .val false := by decide

/-- the same with an invalid pattern in a later field: no match, whatever the earlier conjuncts say -/
example : evalConjR (resOf [(.package, .ok (.chr 'v')), (.method, .error .invalid)])
    { pkg := "v", meth := "(" } { pkg := "v", meth := "f" } conjTable = .val false := by decide

/-- no specification, compiled or not, makes the match panic -/
theorem matchesO_never_panics (spec cid : CodeId) : matchesO spec cid ≠ .panic := by
  have h : ∀ ts, evalConjR (compile spec) spec cid ts ≠ .panic := by
    intro ts
    induction ts with
    | nil => simp [evalConjR]
    | cons t ts ih =>
      simp only [evalConjR]
      have hc : conjunctR (compile spec) spec cid t ≠ .panic := by
        unfold conjunctR
        split <;> simp
      split
      · exact ih
      · rename_i o hne
        intro h
        exact hc h
  exact h conjTable

/-- The `Interface` field of a specification is tested with the **package** regex against the
identifier's (always empty) `Interface`: `{package: "Fn", interface: "I", method: "Fn"}` does not match
the identifier of `Fn.Fn`… -/
example : evalConjR (resOf [(.package, .ok (.cat (.chr 'F') (.chr 'n'))), (.interface, .ok (.chr 'I')),
      (.method, .ok (.cat (.chr 'F') (.chr 'n')))])
    { pkg := "Fn", iface := "I", meth := "Fn" } { pkg := "Fn", meth := "Fn" } conjTable = .val false := by decide

/-- …while a package pattern that matches the empty text (`v?`) makes the interface name irrelevant. -/
example : evalConjR (resOf [(.package, .ok (.alt (.chr 'v') .eps)), (.interface, .ok (.chr 'I')),
      (.method, .ok (.cat (.chr 'F') (.chr 'n')))])
    { pkg := "v?", iface := "I", meth := "Fn" } { pkg := "v", meth := "Fn" } conjTable = .val true := by decide

/-! ### non-vacuity -/

/-- unanchored: `Fn` identifies `xFny` -/
example : evalConjR (resOf [(.method, .ok (.cat (.chr 'F') (.chr 'n')))]) { meth := "Fn" } { pkg := "p", meth := "xFny" }
    conjTable = .val true := by decide
/-- anchored: `^F$` does not identify `Fn`, identifies `F` -/
example : evalConjR (resOf [(.method, .ok (.cat (.cat .bol (.chr 'F')) .eol))]) { meth := "^F$" } { meth := "Fn" }
    conjTable = .val false := by decide
example : evalConjR (resOf [(.method, .ok (.cat (.cat .bol (.chr 'F')) .eol))]) { meth := "^F$" } { meth := "F" }
    conjTable = .val true := by decide
/-- kinds must be equal -/
example : evalConjR (resOf []) { kind := "store" } { meth := "F" } conjTable = .val false := by decide

/-! ## 3. Code locations: which identifiers the analyses build, and when that is what the property says

`Site` is a source-level call (form × Call/Go/Defer × enclosing function × possible callees), `factsOf` its SSA
shape (checked against the real SSA for every generated site), `entryCids` / `sinkCids` / `argCids` /
`nodeCids` the identifiers built by `IsEntrypointNode`, `IsMatchingCodeIDWithCallee`, `isMatchingCodeID`
(compared with the identifiers recorded from the real functions). -/

/-- **Full statement** (entry points: sources, backtrace points): a call site is an entry point exactly when some
specification matches one of its possible callees (package path, name, receiver, context, value-match). -/
def isEntry_iff_statement : Prop :=
  ∀ (specs : List CodeId) (s : Site), specsOk specs = true → (isEntry specs s = true ↔ ShouldIdentify specs s)

/-- What holds on the current code: plain calls (`Call`, not `Go`/`Defer`) of a statically known function that is not
also used as a value, or of a method on a concrete receiver; specifications without value-match (and without
receiver for methods). All package layouts, contexts (also inside closures), patterns. -/
theorem isEntry_iff_partial (specs : List CodeId) (s : Site) (hok : specsOk specs = true)
    (hd : entryDomain specs s = true) : isEntry specs s = true ↔ ShouldIdentify specs s := by
  simp only [entryDomain, Bool.and_eq_true, beq_iff_eq, Bool.or_eq_true, Bool.not_eq_true', List.all_eq_true] at hd
  obtain ⟨⟨hk, hf⟩, hs⟩ := hd
  have key : ∃ cid : CodeId, entryCids true s.aliasPrefix (factsOf s) = [cid] ∧ possibleCallees s = [s.callee] ∧
      ∀ sp ∈ specs, (Matches sp cid ↔ Matches sp (truthCid s s.callee)) := by
    rcases hf with ⟨⟨hform, hat⟩, hr⟩ | hform
    · refine ⟨{ ctx := s.parent, pkg := s.callee.pkgPath, meth := s.callee.name }, ?_, ?_, ?_⟩
      · simp [entryCids, factsOf, hform, hk, hat]
      · simp [possibleCallees, hform]
      · intro sp hsp
        apply matches_congr
        · intro f hf
          simp only [specFields, List.mem_cons, List.not_mem_nil, or_false] at hf
          rcases hf with rfl | rfl | rfl | rfl | rfl | rfl | rfl <;>
            simp [CodeId.get, truthCid, hr, (hs sp hsp).1]
        · rfl
    · refine ⟨{ ctx := s.parent, pkg := s.callee.pkgPath, meth := s.callee.name }, ?_, ?_, ?_⟩
      · simp [entryCids, factsOf, hform, hk]
      · simp [possibleCallees, hform]
      · intro sp hsp
        have h2 := (hs sp hsp).2
        have hrecv : sp.recv = "" := by
          rcases h2 with h | h
          · exact h
          · rw [hform] at h; cases h
        apply matches_congr
        · intro f hf
          simp only [specFields, List.mem_cons, List.not_mem_nil, or_false] at hf
          rcases hf with rfl | rfl | rfl | rfl | rfl | rfl | rfl <;>
            simp [CodeId.get, truthCid, hrecv, (hs sp hsp).1]
        · rfl
  obtain ⟨cid, hc, hp, hm⟩ := key
  unfold isEntry
  rw [hc, any_single hok]
  simp only [ShouldIdentify, SpecMatches, hp, List.mem_cons, List.not_mem_nil, or_false, exists_eq_left]
  constructor
  · rintro ⟨sp, hsp, h⟩; exact ⟨sp, hsp, (hm sp hsp).1 h⟩
  · rintro ⟨sp, hsp, h⟩; exact ⟨sp, hsp, (hm sp hsp).2 h⟩

/-- the empty specification compiles and matches every identifier of kind "" -/
theorem specsOk_empty : specsOk [({} : CodeId)] = true := by
  simp [specsOk, specOk, compiledFields, CodeId.get, parse_nil]

theorem matches_empty (cid : CodeId) (hk : cid.kind = "") : Matches {} cid :=
  ⟨fun f _ => .inl (by cases f <;> rfl), hk.symm⟩

/-- a deferred direct call of `p.f` inside `p.main` -/
def deferSite : Site :=
  { form := .staticFn, kind := .defer, parent := "p.main", instr := "defer f()", callee := { pkgPath := "p", name := "f" } }

/-- **The full statement is false on the current code**: a `defer f()` (or `go f()`) is not an entry point for any
specification, not even the one that matches everything (replayed on the real tool: finding C04.01). -/
theorem isEntry_iff_false : ¬ isEntry_iff_statement := by
  intro h
  have h1 := (h [{}] deferSite specsOk_empty).2
    ⟨deferSite.callee, by simp [possibleCallees, deferSite], {}, by simp, matches_empty _ rfl⟩
  have h0 : isEntry [{}] deferSite = false := by
    simp [isEntry, entryCids, factsOf, deferSite]
  rw [h0] at h1
  exact Bool.noConfusion h1

/-- invoke-mode entry points carry the SSA register of the interface value as receiver (finding C04.02/03) -/
def invokeSite : Site :=
  { form := .invoke, kind := .call, parent := "p.main", instr := "invoke t3.Get()", reg := "t3",
    callee := { pkgPath := "p/lib", name := "Get", recv := "Getter" }, ifaceType := "p/lib.Getter" }

example : entryCids true "" (factsOf invokeSite) = [{ ctx := "p.main", pkg := "p/lib", meth := "Get", recv := "t3" }] := by
  decide

/-- calls through function values are identified only by alias identifiers `{Package: <path>, Method: name}` without
context (findings C04.04/05; the "package " prefix of the path was repaired by commit 95e1c24) -/
def funcValueSite : Site :=
  { form := .funcValue, kind := .call, parent := "p.main", instr := "t6()", reg := "t6",
    callee := { pkgPath := "", name := "" }, impls := [{ pkgPath := "p", name := "source" }] }

example : entryCids true "" (factsOf funcValueSite) = [{ pkg := "p", meth := "source" }] := by decide

/-- bound methods, method expressions and generic instances yield no identifier at the call (the wrapper has no
package); the call inside the `$bound` / `$thunk` wrapper is the one that is identified -/
def boundSite : Site :=
  { form := .boundMethod, kind := .call, parent := "p.main", instr := "t7()", reg := "t7",
    callee := { pkgPath := "p", name := "Src", recv := "T" }, wrapperName := "Src$bound" }

example : entryCids true "" (factsOf boundSite) = [] := by decide

/-- **Full statement** (sinks, sanitizers, validators on a call with a resolved callee). -/
def isSink_iff_statement : Prop :=
  ∀ (specs : List CodeId) (s : Site) (c : Fn), specsOk specs = true → c ∈ possibleCallees s →
    (isSink specs s c = true ↔ ∃ sp ∈ specs, SpecMatches sp c s)

/-- On the current code: every `Call`, `Go` and `Defer` of a statically known function or method, every
specification (context, package, method, receiver and value-match). -/
theorem isSink_iff_partial (specs : List CodeId) (s : Site) (c : Fn) (hok : specsOk specs = true)
    (hd : sinkDomain s c = true) : isSink specs s c = true ↔ ∃ sp ∈ specs, SpecMatches sp c s := by
  simp only [sinkDomain, Bool.and_eq_true, beq_iff_eq, Bool.or_eq_true] at hd
  obtain ⟨hf, rfl⟩ := hd
  have hc : sinkCids (factsOf s) (some s.callee.pkgPath) = [truthCid s s.callee] := by
    rcases hf with ⟨hform, hr⟩ | hform
    · simp [sinkCids, factsOf, hform, truthCid, hr]
    · simp [sinkCids, factsOf, hform, truthCid]
  unfold isSink
  rw [hc, any_single hok]
  rfl

/-- call-argument nodes: the call node, then (callee summarised) the callee as a bare function -/
theorem isSinkArg_iff_partial (specs : List CodeId) (s : Site) (c : Fn) (full : String) (hasSummary : Bool)
    (hok : specsOk specs = true) (hd : argDomain specs s c hasSummary = true) :
    ((argCids (factsOf s) (some (c, full)) hasSummary).any fun cid => specs.any fun sp => matchB sp cid) = true ↔
      ∃ sp ∈ specs, SpecMatches sp c s := by
  simp only [argDomain, Bool.and_eq_true, Bool.or_eq_true, Bool.not_eq_true', List.all_eq_true, beq_iff_eq] at hd
  obtain ⟨hsd, hsum⟩ := hd
  have hsink := isSink_iff_partial specs s c hok hsd
  unfold isSink at hsink
  cases hasSummary with
  | false =>
    simpa [argCids] using hsink
  | true =>
    have hall : ∀ sp ∈ specs, sp.ctx = "" ∧ sp.recv = "" ∧ sp.vmatch = "" := by
      rcases hsum with h | h
      · cases h
      · intro sp hsp; have := h sp hsp; exact ⟨this.1.1, this.1.2, this.2⟩
    have hfn : ([fnCid c full].any fun cid => specs.any fun sp => matchB sp cid) = true ↔ ∃ sp ∈ specs, SpecMatches sp c s := by
      rw [any_single hok]
      constructor
      · rintro ⟨sp, hsp, h⟩
        refine ⟨sp, hsp, (matches_congr (c1 := fnCid c full) (c2 := truthCid s c) ?_ rfl).1 h⟩
        intro f hf
        obtain ⟨h1, h2, h3⟩ := hall sp hsp
        simp only [specFields, List.mem_cons, List.not_mem_nil, or_false] at hf
        rcases hf with rfl | rfl | rfl | rfl | rfl | rfl | rfl <;> simp [CodeId.get, truthCid, fnCid, h1, h2, h3]
      · rintro ⟨sp, hsp, h⟩
        refine ⟨sp, hsp, (matches_congr (c1 := fnCid c full) (c2 := truthCid s c) ?_ rfl).2 h⟩
        intro f hf
        obtain ⟨h1, h2, h3⟩ := hall sp hsp
        simp only [specFields, List.mem_cons, List.not_mem_nil, or_false] at hf
        rcases hf with rfl | rfl | rfl | rfl | rfl | rfl | rfl <;> simp [CodeId.get, truthCid, fnCid, h1, h2, h3]
    simp only [argCids, Option.map_some, List.any_append, Bool.or_eq_true, hsink, hfn, or_self]

/-- interface calls as sinks carry the package-qualified interface type as receiver, static calls the bare type
name (findings C04.09/10) -/
def invokeSinkSite : Site :=
  { form := .invoke, kind := .go, parent := "p.main", instr := "go invoke t3.Put(x)", reg := "t3",
    callee := { pkgPath := "p/lib", name := "Put", recv := "Putter" }, ifaceType := "p/lib.Putter" }

example : sinkCids (factsOf invokeSinkSite) none =
    [{ ctx := "p.main", pkg := "p/lib", meth := "Put", recv := "p/lib.Putter", vmatch := "go invoke t3.Put(x)" }] := by
  decide

/-- **Kinds** (types, fields, field stores, channel receives): a location is selected exactly when some specification
matches (declaring package name, Go spelling of the type, field, kind of access) — for every type shape. -/
theorem kindSelects_iff (specs : List CodeId) (n : NodeFacts) (hok : specsOk specs = true) :
    kindSelects specs n = true ↔ ShouldSelect specs n := by
  unfold kindSelects ShouldSelect
  rw [nodeCids_spec]
  cases hd : n.ty.decl with
  | none => simp
  | some p =>
    simp only [any_single hok, Option.some.injEq, exists_eq_left']

/-- `FindEltTypePackage` is right for every type shape -/
theorem eltTypePackage_eq (t : Ty) : eltTypePackage t id = t.decl.map fun p => (p, t.render) :=
  eltTypePackage_spec t id

example : eltTypePackage (.chan (.pointer (.named "lib" "T"))) id = some ("lib", "chan *T") := by decide
example : eltTypePackage (.pointer (.array 3 (.named "lib" "T"))) id = some ("lib", "*[3]T") := by decide
example : eltTypePackage (.pointer (.basic "int")) id = none := by decide
/-- a field store is selected only by kind "store", a receive only by "channel receive" (identifier kinds) -/
example : (nodeCids { nk := .fieldStore, parent := "p.f", ty := .pointer (.named "lib" "T"), field := "G" }).map (·.kind) = ["store"] := by decide
example : (nodeCids { nk := .chanRecv, parent := "p.f", ty := .chan (.named "lib" "T") }).map (·.kind) = ["channel receive"] := by decide

/-! ## 4. Regenerated tables (T10): the model's conjunction and case analysis are the ones in the source now -/

def regexName : Fld → String
  | .context => "contextRegex" | .package => "packageRegex" | .interface => "interfaceRegex"
  | .method => "methodRegex" | .receiver => "receiverRegex" | .field => "fieldRegex" | .type => "typeRegex"
  | .valueMatch => "valueMatchRegex" | .label => "labelRegex" | .kind => "kindRegex"

/-- the conjuncts of `equalOnNonEmptyFields` in the current source are exactly `CodeId.conjTable` (in order, including
the package regex run on `Interface`), every regex run through the nil-safe `matchRegex`, followed by the `Kind` equality -/
theorem gen_matchConj_current :
    Gen.T10.unparsed = false ∧ Gen.T10.matchKindEq = true ∧ Gen.T10.matchHelpers = ["matchRegex"] ∧
    Gen.T10.matchConj = conjTable.map fun t => (regexName t.1, t.2.1.name, t.2.2.name) := by decide

/-- every regex field is compiled from its namesake field of the specification (`CodeId.compile`) -/
theorem gen_regexSource_current :
    Gen.T10.regexSource = [("contextRegex", "Context"), ("fieldRegex", "Field"), ("interfaceRegex", "Interface"),
      ("methodRegex", "Method"), ("packageRegex", "Package"), ("receiverRegex", "Receiver"), ("typeRegex", "Type"),
      ("valueMatchRegex", "ValueMatch")] := by decide

/-- `IsEntrypointNode`: the instruction kinds with a case and the identifier fields each case fills
(`Entry.entryCids` invoke branch / `Entry.nodeCids`), `isFuncEntrypoint`, `isAliasEntrypoint` (`entryCids` static and
alias identifiers) -/
theorem gen_entryCases_current :
    Gen.T10.entryCases =
      [ (["*ssa.Call"], [["Context", "Method", "Package", "Receiver"]]),
        (["*ssa.Field"], [["Context", "Field", "Package", "Type"]]),
        (["*ssa.FieldAddr"], [["Context", "Field", "Package", "Type"]]),
        (["*ssa.Alloc"], [["Context", "Package", "Type"]]),
        (["*ssa.Store"], [["Context", "Field", "Kind", "Package", "Type"]]),
        (["*ssa.UnOp"], [["Context", "Kind", "Package", "Type"]]),
        (["default"], []) ] ∧
    Gen.T10.funcEntryLits = [["Context", "Method", "Package"]] ∧
    Gen.T10.aliasEntryLits = [["Method", "Package"]] := by decide

/-- the regenerated table shows it: no case for `go` / `defer` calls among the entry points, one among the sinks -/
theorem gen_entry_no_go_defer :
    (∀ c ∈ Gen.T10.entryCases, "*ssa.Go" ∉ c.1 ∧ "*ssa.Defer" ∉ c.1) ∧
    (∃ c ∈ Gen.T10.sinkCases, "*ssa.Call" ∈ c.1 ∧ "*ssa.Go" ∈ c.1 ∧ "*ssa.Defer" ∈ c.1) := by decide

/-- `IsMatchingCodeIDWithCallee` (fields of `Entry.sinkCids` / `Entry.fnCid`), `isMatchingCodeID` and
`scanEntryPoints` (node kinds with a rule) -/
theorem gen_sinkCases_current :
    Gen.T10.sinkCases =
      [ (["*ssa.Call", "*ssa.Go", "*ssa.Defer"],
          [["Context", "Method", "Package", "Receiver", "ValueMatch"], ["Context", "Method", "Package", "Receiver", "ValueMatch"],
           ["Context", "Method", "Package", "Receiver", "ValueMatch"], ["Context", "Method", "Package", "Receiver", "ValueMatch"]]),
        (["*ssa.Store"], []),
        (["*ssa.Function"], [["Method", "Package", "ValueMatch"]]),
        (["default"], []) ] ∧
    Gen.T10.graphCases.map (·.1) =
      [ ["*dataflow.ParamNode", "*dataflow.FreeVarNode"], ["*dataflow.CallNodeArg"], ["*dataflow.CallNode"],
        ["*dataflow.SyntheticNode"], ["*dataflow.ReturnValNode", "*dataflow.ClosureNode", "*dataflow.BoundVarNode"], ["default"] ] ∧
    Gen.T10.scanCases.map (·.1) = [["*SyntheticNode"], ["*CallNodeArg"], ["*CallNode"]] := by decide

end Argot.C04
