/-
C05 — Options documented as soundness-neutral do not change the verdict.

Property theorems only. Model of the alarm counter and of the table-driven on-demand scan:
Argot/Model/LazyScan.lean, Argot/Proofs/C05.lean; worklist theory: Argot/Base/Closure.lean.
Regenerated tables: T1 (`ssaOperands`), T2 (`FnReadsFrom` / `FnWritesTo`), T9b (option readers).

* `max_alarms`   for EVERY traversal order and every entry-point order, with the global counter:
                  result_k ⊆ result_∞, at most k sink visits, result_∞ ≠ ∅ → result_k ≠ ∅.
* `lazy_eq_eager` GIVEN `reads_table_complete` / `writes_table_complete` (every operand position of
                  every SSA instruction kind is recognised by the scan). The hypothesis is decided on
                  the regenerated tables by `tableCompleteB`; it is FALSE on the pinned tree (F4):
                  `lazy_ne_eager_of_incomplete` gives the model witness, the driver replays it on the
                  real tool.
* `report_options_neutral` every reader of a report / coverage / log option is a reporting function.
-/
import Argot.Proofs.C05
import Argot.Gen.T1Dispatch
import Argot.Gen.T2FnReads
import Argot.Gen.T9bOptionReaders

namespace Argot.Alarms
open Argot.Closure

variable {α κ : Type} [DecidableEq κ]

def KeyDetermined (key : α → κ) (succ : α → List α) : Prop :=
  ∀ a b, key a = key b → ∀ a' ∈ succ a, ∃ b' ∈ succ b, key b' = key a'

/-- the sink keys a visit has reported -/
def Flows (key : α → κ) (isSink : κ → Bool) (s : State α κ) (x : κ) : Prop :=
  x ∈ s.visited.map key ∧ isSink x = true

/-- the unlimited result for entry `e`: the sinks in the closure of its key -/
def Unlimited (key : α → κ) (succ : α → List α) (isSink : κ → Bool) (e : α) (x : κ) : Prop :=
  Reach (Poss key succ) [key e] x ∧ isSink x = true

/-- a complete unlimited visit reports exactly `Unlimited` (any order) -/
theorem unlimited_spec (key : α → κ) (succ : α → List α) (isSink : κ → Bool) (hdet : KeyDetermined key succ)
    (e : α) {s : State α κ} (hs : Steps key succ (init [e]) s) (hq : s.queue = []) (x : κ) :
    Flows key isSink s x ↔ Unlimited key succ isSink e x := by
  have := visited_eq_closure key succ hdet (roots := [e]) (seen0 := []) (by simp) hs hq x
  simp only [Flows, Unlimited, this, List.map_cons, List.map_nil]

/-- **max_alarms, one entry point**: a visit limited to `k > 0` alarms, started with the counter at 0,
under ANY traversal order: (1) reports only flows of the unlimited result, (2) pops at most `k` sinks,
(3) reports something whenever the unlimited result is non-empty. -/
theorem max_alarms_single (key : α → κ) (succ : α → List α) (isSink : κ → Bool) (hdet : KeyDetermined key succ)
    (k : Nat) (hk : 0 < k) (e : α) {s : State α κ}
    (hr : LRun key succ isSink k 0 (init [e]) s) (hst : Stopped key isSink k 0 s) :
    (∀ x, Flows key isSink s x → Unlimited key succ isSink e x) ∧
    sinkCount key isSink s.visited ≤ k ∧
    ((∃ x, Unlimited key succ isSink e x) → ∃ x, Flows key isSink s x) := by
  refine ⟨?_, ?_, ?_⟩
  · rintro x ⟨hv, hs⟩
    obtain ⟨a, ha, rfl⟩ := List.mem_map.1 hv
    exact ⟨by simpa using visited_subset_poss key succ (roots := [e]) (seen0 := []) hr.steps a ha, hs⟩
  · have := hr.count_le (by omega) (by simp [init, sinkCount])
    omega
  · rintro ⟨x, hx⟩
    rcases hst with hq | hnb
    · exact ⟨x, (unlimited_spec key succ isSink hdet e hr.steps hq x).2 hx⟩
    · have : 0 < sinkCount key isSink s.visited := by
        simp only [below, Nat.zero_add, not_or, Nat.not_lt] at hnb
        omega
      obtain ⟨a, ha, hs⟩ := sinkCount_pos_iff.1 this
      exact ⟨key a, List.mem_map.2 ⟨a, ha, rfl⟩, hs⟩

/-- All entry points, visited in list order (any order: the entry-point map) with ONE global counter
(`AnalyzerState.numAlarms`): `Multi k c es rs c'` — counter `c` before, `c'` after, `rs` = the visits
that took place with their final states. `RunVisitorOnEntryPoints` returns at the first entry at which
the limit is reached. -/
inductive Multi (key : α → κ) (succ : α → List α) (isSink : κ → Bool) (k : Nat) :
    Nat → List α → List (α × State α κ) → Nat → Prop
  | nil {c : Nat} : Multi key succ isSink k c [] [] c
  | stop {c : Nat} {e : α} {es : List α} : ¬ below k c → Multi key succ isSink k c (e :: es) [] c
  | visit {c c' : Nat} {e : α} {es : List α} {s : State α κ} {rs : List (α × State α κ)} :
      below k c → LRun key succ isSink k c (init [e]) s → Stopped key isSink k c s →
      Multi key succ isSink k (c + sinkCount key isSink s.visited) es rs c' →
      Multi key succ isSink k c (e :: es) ((e, s) :: rs) c'

/-- what the whole analysis reports: (entry, sink) pairs -/
def Reported (key : α → κ) (isSink : κ → Bool) (rs : List (α × State α κ)) (e : α) (x : κ) : Prop :=
  ∃ s, (e, s) ∈ rs ∧ Flows key isSink s x

/-- total number of sinks popped = number of alarms raised -/
def totalSinkVisits (key : α → κ) (isSink : κ → Bool) (rs : List (α × State α κ)) : Nat :=
  (rs.map fun r => sinkCount key isSink r.2.visited).sum

theorem multi_subset (key : α → κ) (succ : α → List α) (isSink : κ → Bool) {k c c' : Nat} {es : List α}
    {rs : List (α × State α κ)} (h : Multi key succ isSink k c es rs c') :
    ∀ e x, Reported key isSink rs e x → e ∈ es ∧ Unlimited key succ isSink e x := by
  induction h with
  | nil => rintro e x ⟨s, hs, _⟩; simp at hs
  | stop _ => rintro e x ⟨s, hs, _⟩; simp at hs
  | @visit c c' e0 es s rs _ hr _ _ ih =>
    rintro e x ⟨s', hs', hv, hsk⟩
    simp only [List.mem_cons, Prod.mk.injEq] at hs'
    rcases hs' with ⟨rfl, rfl⟩ | hs'
    · obtain ⟨a, ha, rfl⟩ := List.mem_map.1 hv
      exact ⟨by simp, by simpa using visited_subset_poss key succ (roots := [e]) (seen0 := []) hr.steps a ha, hsk⟩
    · obtain ⟨h1, h2⟩ := ih e x ⟨s', hs', hv, hsk⟩
      exact ⟨by simp [h1], h2⟩

theorem multi_count (key : α → κ) (succ : α → List α) (isSink : κ → Bool) {k c c' : Nat} {es : List α}
    {rs : List (α × State α κ)} (h : Multi key succ isSink k c es rs c') (hk : k ≠ 0) (hc : c ≤ k) :
    c' ≤ k ∧ c' = c + totalSinkVisits key isSink rs := by
  induction h with
  | nil => exact ⟨hc, by simp [totalSinkVisits]⟩
  | stop _ => exact ⟨hc, by simp [totalSinkVisits]⟩
  | visit _ hr _ _ ih =>
    have := hr.count_le hk (by simpa [init, sinkCount] using hc)
    obtain ⟨h1, h2⟩ := ih this
    refine ⟨h1, ?_⟩
    simp only [totalSinkVisits, List.map_cons, List.sum_cons] at h2 ⊢
    omega

theorem multi_nonempty (key : α → κ) (succ : α → List α) (isSink : κ → Bool) (hdet : KeyDetermined key succ)
    {k c c' : Nat} {es : List α} {rs : List (α × State α κ)} (h : Multi key succ isSink k c es rs c')
    (hne : ∃ e ∈ es, ∃ x, Unlimited key succ isSink e x) :
    (∃ e x, Reported key isSink rs e x) ∨ ¬ below k c := by
  induction h with
  | nil => obtain ⟨e, he, _⟩ := hne; simp at he
  | stop hnb => exact Or.inr hnb
  | @visit c c' e0 es s rs hb hr hst _ ih =>
    by_cases hpos : 0 < sinkCount key isSink s.visited
    · obtain ⟨a, ha, hs⟩ := sinkCount_pos_iff.1 hpos
      exact Or.inl ⟨e0, key a, s, by simp, List.mem_map.2 ⟨a, ha, rfl⟩, hs⟩
    · have hz : sinkCount key isSink s.visited = 0 := by omega
      have hq : s.queue = [] := by
        rcases hst with hq | hnb
        · exact hq
        · rw [hz, Nat.add_zero] at hnb; exact absurd hb hnb
      obtain ⟨e, he, x, hx⟩ := hne
      simp only [List.mem_cons] at he
      rcases he with rfl | he
      · have hf := (unlimited_spec key succ isSink hdet e hr.steps hq x).2 hx
        obtain ⟨a, ha, hka⟩ := List.mem_map.1 hf.1
        have : 0 < sinkCount key isSink s.visited := sinkCount_pos_iff.2 ⟨a, ha, by rw [hka]; exact hf.2⟩
        omega
      · rw [hz, Nat.add_zero] at ih
        rcases ih ⟨e, he, x, hx⟩ with ⟨e', x', s', hs', hf⟩ | hnb
        · exact Or.inl ⟨e', x', s', by simp [hs'], hf⟩
        · exact absurd hb hnb

/-- **max_alarms** (the whole analysis): `k > 0`, every order of the entry points, every traversal
order of every visit, one global counter starting at 0. -/
theorem max_alarms (key : α → κ) (succ : α → List α) (isSink : κ → Bool) (hdet : KeyDetermined key succ)
    (k : Nat) (hk : 0 < k) (es : List α) (rs : List (α × State α κ)) (c' : Nat)
    (h : Multi key succ isSink k 0 es rs c') :
    (∀ e x, Reported key isSink rs e x → e ∈ es ∧ Unlimited key succ isSink e x) ∧
    totalSinkVisits key isSink rs ≤ k ∧
    ((∃ e ∈ es, ∃ x, Unlimited key succ isSink e x) → ∃ e x, Reported key isSink rs e x) := by
  refine ⟨multi_subset key succ isSink h, ?_, ?_⟩
  · have := multi_count key succ isSink h (by omega) (by omega)
    omega
  · intro hne
    rcases multi_nonempty key succ isSink hdet h hne with hr | hnb
    · exact hr
    · exact absurd (Or.inr hk) hnb

/-- with `k = 0` (no limit) every visit runs to completion and the result is the unlimited one -/
theorem no_limit_complete (key : α → κ) (succ : α → List α) (isSink : κ → Bool) (hdet : KeyDetermined key succ)
    {c c' : Nat} {es : List α} {rs : List (α × State α κ)} (h : Multi key succ isSink 0 c es rs c') :
    ∀ e x, Reported key isSink rs e x ↔ (e ∈ es ∧ Unlimited key succ isSink e x) := by
  induction h with
  | nil => intro e x; constructor
           · rintro ⟨s, hs, _⟩; simp at hs
           · rintro ⟨he, _⟩; simp at he
  | stop hnb => exact absurd (Or.inl rfl) hnb
  | @visit c c' e0 es s rs _ hr hst _ ih =>
    have hq : s.queue = [] := by
      rcases hst with hq | hnb
      · exact hq
      · exact absurd (Or.inl rfl) hnb
    intro e x
    constructor
    · rintro ⟨s', hs', hf⟩
      simp only [List.mem_cons, Prod.mk.injEq] at hs'
      rcases hs' with ⟨rfl, rfl⟩ | hs'
      · exact ⟨by simp, (unlimited_spec key succ isSink hdet e hr.steps hq x).1 hf⟩
      · have := (ih e x).1 ⟨s', hs', hf⟩
        exact ⟨by simp [this.1], this.2⟩
    · rintro ⟨he, hu⟩
      simp only [List.mem_cons] at he
      rcases he with rfl | he
      · exact ⟨s, by simp, (unlimited_spec key succ isSink hdet e hr.steps hq x).2 hu⟩
      · obtain ⟨s', hs', hf⟩ := (ih e x).2 ⟨he, hu⟩
        exact ⟨s', by simp [hs'], hf⟩

/-- non-vacuity: three sinks, limit 2, one concrete limited run stops after two of them -/
def exKey : Nat → Nat := id
def exSucc : Nat → List Nat
  | 0 => [1, 2, 3]
  | _ => []
def exSink (n : Nat) : Bool := n != 0

example : ∃ s, LRun exKey exSucc exSink 2 0 (init [0]) s ∧ Stopped exKey exSink 2 0 s ∧
    sinkCount exKey exSink s.visited = 2 := by
  refine ⟨⟨[3], [3, 2, 1], [2, 1, 0]⟩, ?_, Or.inr (by simp [below, sinkCount, exSink, exKey]), by decide⟩
  have s1 : Step exKey exSucc (init [0]) ⟨[1, 2, 3], [3, 2, 1], [0]⟩ :=
    Step.pop (a := 0) (rest := []) (cands := [1, 2, 3]) (List.Perm.refl _) (List.Perm.refl _) (List.Perm.refl _)
  have s2 : Step exKey exSucc ⟨[1, 2, 3], [3, 2, 1], [0]⟩ ⟨[2, 3], [3, 2, 1], [1, 0]⟩ :=
    Step.pop (a := 1) (rest := [2, 3]) (cands := []) (List.Perm.refl _) (List.Perm.refl _) (List.Perm.refl _)
  have s3 : Step exKey exSucc ⟨[2, 3], [3, 2, 1], [1, 0]⟩ ⟨[3], [3, 2, 1], [2, 1, 0]⟩ :=
    Step.pop (a := 2) (rest := [3]) (cands := []) (List.Perm.refl _) (List.Perm.refl _) (List.Perm.refl _)
  refine LRun.tail (LRun.tail (LRun.tail LRun.refl ?_ s1) ?_ s2) ?_ s3 <;>
    simp [below, sinkCount, exSink, exKey, init]

#print axioms max_alarms_single
#print axioms max_alarms
#print axioms no_limit_complete

end Argot.Alarms

/-! ## on-demand = eager, given complete scan tables -/

namespace Argot.LazyScan

/-- **lazy_eq_eager**: if the scan recognises every operand position (`tableCompleteB`), then at every
global node the successors followed by the on-demand traversal are those followed by the eager one:
all access locations of the global, in all functions.  (`locs i g ≠ []` only if function `i` has an
access node for `g`: that is how `NewSummaryGraph` creates them.) -/
theorem lazy_eq_eager {ν : Type} (opsTbl : List (String × List String)) (tbl : List (String × String)) (generic : Bool)
    (hc : tableCompleteB opsTbl tbl generic = true) (fns : List Fn) (hwf : ∀ f ∈ fns, WF opsTbl f)
    (locs : Nat → Nat → List ν)
    (hlocs : ∀ i g, locs i g ≠ [] → ∃ f, fns[i]? = some f ∧ hasAccessNode f g = true) (g : Nat) :
    lazySucc tbl generic fns locs g = eagerSucc fns locs g := by
  unfold lazySucc eagerSucc succAt
  have hall : List.filter (fun p : Fn × Nat => (fun _ => true) p.1) fns.zipIdx = fns.zipIdx := by simp
  rw [hall]
  apply flatMap_filter_eq
  rintro ⟨f, i⟩ hmem hsc
  have hfi : fns[i]? = some f := by
    have := List.mem_zipIdx hmem
    simp at this
    obtain ⟨hlt, he⟩ := this
    rw [he]; exact List.getElem?_eq_getElem hlt
  cases hl : locs i g with
  | nil => rfl
  | cons a l =>
    obtain ⟨f', hf', hacc⟩ := hlocs i g (by simp [hl])
    rw [hfi] at hf'
    cases hf'
    have := scan_of_complete hc (hwf f (List.mem_of_getElem? hfi)) hacc
    simp only at hsc
    rw [this] at hsc
    cases hsc

/-- conversely an incomplete table admits a program on which the on-demand traversal misses an access
location that the eager one follows -/
theorem lazy_ne_eager_of_incomplete (opsTbl : List (String × List String)) (tbl : List (String × String)) (generic : Bool)
    (hc : tableCompleteB opsTbl tbl generic = false) :
    ∃ (fns : List Fn) (locs : Nat → Nat → List Nat) (g : Nat), (∀ f ∈ fns, WF opsTbl f) ∧
      (∀ i g, locs i g ≠ [] → ∃ f, fns[i]? = some f ∧ hasAccessNode f g = true) ∧
      lazySucc tbl generic fns locs g ≠ eagerSucc fns locs g := by
  obtain ⟨f, g, hwf, hacc, hsc⟩ := incomplete_witness hc
  refine ⟨[f], (fun i g' => if i = 0 ∧ g' = g then [1] else []), g, ?_, ?_, ?_⟩
  · intro f' hf'; simp at hf'; subst hf'; exact hwf
  · intro i g' hne
    by_cases h : i = 0 ∧ g' = g
    · obtain ⟨rfl, rfl⟩ := h; exact ⟨f, rfl, hacc⟩
    · simp [h] at hne
  · simp [lazySucc, eagerSucc, succAt, List.zipIdx, hsc]

/-! ### the regenerated tables -/

/-- `reads_table_complete` / `writes_table_complete` for the current source, as decided by the oracle -/
def readsTableComplete : Bool :=
  tableCompleteB Argot.Gen.T1.ssaOperands Argot.Gen.T2.fnReads Argot.Gen.T2.fnReadsGeneric

def writesTableComplete : Bool :=
  tableCompleteB Argot.Gen.T1.ssaOperands Argot.Gen.T2.fnWrites Argot.Gen.T2.fnWritesGeneric

/-- the translator parsed both functions and the operand table -/
theorem t2_parsed : Argot.Gen.T2.unparsed = false ∧ Argot.Gen.T1.unparsed = false ∧
    Argot.Gen.T1.ssaOperands.length ≥ 30 := by decide

/-- the verdict for the current source, both directions instantiated on the regenerated tables:
taint's on-demand mode follows the same global successors as eager mode iff the reads table is
complete (and likewise backtrace with the writes table). -/
theorem current_lazy_verdict :
    (readsTableComplete = true → ∀ (fns : List Fn) (locs : Nat → Nat → List Nat),
        (∀ f ∈ fns, WF Argot.Gen.T1.ssaOperands f) →
        (∀ i g, locs i g ≠ [] → ∃ f, fns[i]? = some f ∧ hasAccessNode f g = true) →
        ∀ g, lazySucc Argot.Gen.T2.fnReads Argot.Gen.T2.fnReadsGeneric fns locs g = eagerSucc fns locs g) ∧
    (readsTableComplete = false → ∃ (fns : List Fn) (locs : Nat → Nat → List Nat) (g : Nat),
        (∀ f ∈ fns, WF Argot.Gen.T1.ssaOperands f) ∧
        lazySucc Argot.Gen.T2.fnReads Argot.Gen.T2.fnReadsGeneric fns locs g ≠ eagerSucc fns locs g) := by
  constructor
  · intro hc fns locs hwf hlocs g
    exact lazy_eq_eager _ _ _ hc fns hwf locs hlocs g
  · intro hc
    obtain ⟨fns, locs, g, h1, _, h3⟩ := lazy_ne_eager_of_incomplete _ _ _ hc
    exact ⟨fns, locs, g, h1, h3⟩

/-- **reads_table_complete / writes_table_complete hold for the current source** (regenerated tables,
re-checked by the kernel on every run; repaired by commit 3aea2ca: both functions now scan `Operands()`.
On the pinned tree 40 operand positions were unrecognised: finding F4, whose model is
`lazy_ne_eager_of_incomplete`.) -/
theorem reads_table_complete : readsTableComplete = true := by decide

theorem writes_table_complete : writesTableComplete = true := by decide

/-- hence **lazy = eager at every global node, for the current source**: taint's on-demand mode (and any
pkg-filter) follows the same read locations as the eager mode, backtrace's the same write locations. -/
theorem current_lazy_eq_eager (fns : List Fn) (locs : Nat → Nat → List Nat)
    (hwf : ∀ f ∈ fns, WF Argot.Gen.T1.ssaOperands f)
    (hlocs : ∀ i g, locs i g ≠ [] → ∃ f, fns[i]? = some f ∧ hasAccessNode f g = true) (g : Nat) :
    lazySucc Argot.Gen.T2.fnReads Argot.Gen.T2.fnReadsGeneric fns locs g = eagerSucc fns locs g ∧
    lazySucc Argot.Gen.T2.fnWrites Argot.Gen.T2.fnWritesGeneric fns locs g = eagerSucc fns locs g :=
  ⟨lazy_eq_eager _ _ _ reads_table_complete fns hwf locs hlocs g,
   lazy_eq_eager _ _ _ writes_table_complete fns hwf locs hlocs g⟩

#print axioms lazy_eq_eager
#print axioms lazy_ne_eager_of_incomplete
#print axioms reads_table_complete
#print axioms writes_table_complete
#print axioms current_lazy_eq_eager
#print axioms t2_parsed
#print axioms current_lazy_verdict

end Argot.LazyScan

/-! ## report / coverage / log options are read by reporting functions only (T9b) -/

namespace Argot.ReportOptions

def reportOptions : List String :=
  ["ReportCoverage", "ReportNoCalleeSites", "ReportPaths", "ReportSummaries", "ReportsDir", "CoverageFilter",
   "LogLevel", "SilenceWarn"]

/-- hand-written allow-list: functions whose use of these options only decides WHAT IS WRITTEN WHERE
(file creation, log verbosity, report text); read on 2026-09-22 -/
def reportingFns : List String :=
  [ -- configuration loading / validation, logger construction
    "analysis/config.Load", "analysis/config.LoadFromFiles", "analysis/config.setReportsDir",
    "analysis/config.NewLogGroup", "analysis/config.(Config).Verbose", "analysis/config.(Config).MatchCoverageFilter",
    -- report files
    "analysis/dataflow.openCoverage", "analysis/dataflow.openSummaries", "analysis.collectResults",
    "analysis/taint.reportTaintFlow", "analysis/taint.addCoverage",
    -- warnings printed only when verbose
    "analysis/dataflow.(*AnalyzerState).ReportMissingClosureNode",
    "analysis/dataflow.(*AnalyzerState).ReportMissingOrNotConstructedSummary",
    "analysis/dataflow.(*AnalyzerState).ReportSummaryNotConstructed",
    -- the command-line front end (sets the level from -verbose flags)
    "cmd/argot/taint.Run", "cmd/argot/backtrace.Run", "cmd/argot/cli.Run", "cmd/argot/defers.Run" ]

/-- accessors that return a configuration / logger object (their callers are unconstrained) -/
def constructors : List String :=
  ["analysis/config.Load", "analysis/config.LoadFromFiles", "analysis/config.setReportsDir", "analysis/config.NewLogGroup"]

/-- **report_options_neutral**: in the current source every function that reads one of the report /
coverage / log options — directly, or through an accessor of package config that hands the value on —
is in the allow-list of reporting functions; the options exist. -/
theorem report_options_neutral :
    Argot.Gen.T9b.unparsed = false ∧
    reportOptions.all (fun o => Argot.Gen.T9b.optionFields.contains o) = true ∧
    Argot.Gen.T9b.optionReaders.all (fun p => !reportOptions.contains p.1 || reportingFns.contains p.2) = true ∧
    Argot.Gen.T9b.optionReadersVia.all (fun t => !reportOptions.contains t.1 || constructors.contains t.2.1 ||
      reportingFns.contains t.2.2) = true := by
  decide

#print axioms report_options_neutral

end Argot.ReportOptions
