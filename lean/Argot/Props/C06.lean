/-
C06 — Analysis results are deterministic.

Property theorems only. Generic worklist theory: Argot/Base/Closure.lean (`Step` = one iteration for ANY
popped element, ANY order of its successors, ANY placement in the queue: this is the "order oracle"
for map iteration and worklist pops).  Parallel summary pass: Argot/Props/C20.lean.  Key rendering:
Argot/Proofs/KeyCanon.lean.

Full statement (the property): for the REAL visitor, two complete traversals of the same linked graph
from the same entry points report the same flows.  It is proved here for successor functions that are
determined by the dedup key (`KeyDetermined`), together with the schedule independence of the parallel
summary pass; it is `_partial` on the current code because the successors of parameter / call-argument /
free-variable nodes depend on `cur.Prev`, which is not in the key (F14): `order_dependent_witness` is a
traversal problem of exactly that shape on which two orders report different sets.  The max-alarms
exception of the property is C05's `max_alarms`.
-/
import Argot.Base.Closure
import Argot.Proofs.MapPar
import Argot.Proofs.KeyCanon

namespace Argot.C06
open Argot.Closure

variable {α κ : Type} [DecidableEq κ]

/-- the successor keys of an item are a function of its key -/
def KeyDetermined (key : α → κ) (succ : α → List α) : Prop :=
  ∀ a b, key a = key b → ∀ a' ∈ succ a, ∃ b' ∈ succ b, key b' = key a'

/-- what a finished traversal reports: the visited keys that are sinks -/
def Flows (key : α → κ) (isSink : κ → Prop) (s : State α κ) (k : κ) : Prop :=
  k ∈ s.visited.map key ∧ isSink k

/-- a complete traversal from one entry point with a fresh `seen` set -/
def Complete (key : α → κ) (succ : α → List α) (e : α) (s : State α κ) : Prop :=
  Steps key succ (init [e]) s ∧ s.queue = []

/-- **visit_order_independent** (one entry point): whatever the order oracle does, two complete
traversals report the same flows. -/
theorem visit_order_independent (key : α → κ) (succ : α → List α) (isSink : κ → Prop)
    (hdet : KeyDetermined key succ) (e : α) {s₁ s₂ : State α κ}
    (h₁ : Complete key succ e s₁) (h₂ : Complete key succ e s₂) :
    ∀ k, Flows key isSink s₁ k ↔ Flows key isSink s₂ k := by
  intro k
  have := order_independent key succ hdet (roots := [e]) (seen1 := []) (seen2 := [])
    (by simp) (by simp) h₁.1 h₁.2 h₂.1 h₂.2 k
  simp only [Flows, this]

/-- the flows of a complete traversal are exactly the sink keys in the closure of the entry key:
an order-free, schedule-free characterisation -/
theorem flows_eq_closure (key : α → κ) (succ : α → List α) (isSink : κ → Prop)
    (hdet : KeyDetermined key succ) (e : α) {s : State α κ} (h : Complete key succ e s) (k : κ) :
    Flows key isSink s k ↔ (Reach (Poss key succ) [key e] k ∧ isSink k) := by
  have := visited_eq_closure key succ hdet (roots := [e]) (seen0 := []) (by simp) h.1 h.2 k
  simp only [Flows, this, List.map_cons, List.map_nil]

/-- **all entry points, iterated in any order** (the entry-point map), each with its own traversal
order: the union of the reported flows depends only on the SET of entry points. -/
theorem entries_order_independent (key : α → κ) (succ : α → List α) (isSink : κ → Prop)
    (hdet : KeyDetermined key succ) (es₁ es₂ : List α) (hperm : ∀ e, e ∈ es₁ ↔ e ∈ es₂)
    (run₁ run₂ : α → State α κ)
    (h₁ : ∀ e ∈ es₁, Complete key succ e (run₁ e)) (h₂ : ∀ e ∈ es₂, Complete key succ e (run₂ e)) :
    ∀ k, (∃ e ∈ es₁, Flows key isSink (run₁ e) k) ↔ (∃ e ∈ es₂, Flows key isSink (run₂ e) k) := by
  intro k
  constructor
  · rintro ⟨e, he, hf⟩
    have he2 := (hperm e).1 he
    exact ⟨e, he2, (flows_eq_closure key succ isSink hdet e (h₂ e he2) k).2
      ((flows_eq_closure key succ isSink hdet e (h₁ e he) k).1 hf)⟩
  · rintro ⟨e, he, hf⟩
    have he1 := (hperm e).2 he
    exact ⟨e, he1, (flows_eq_closure key succ isSink hdet e (h₁ e he1) k).2
      ((flows_eq_closure key succ isSink hdet e (h₂ e he) k).1 hf)⟩

/-- the parallel summary pass returns the same slice under every schedule and every worker count
(C20 `result_eq_map`, restated for two runs) -/
theorem summaries_schedule_independent {τ σ : Type} (f : τ → σ) (jobs : List τ) (n₁ n₂ : Int)
    {s₁ s₂ : Argot.MapPar.State σ}
    (r₁ : Argot.MapPar.Reachable f jobs n₁ s₁) (t₁ : Argot.MapPar.Terminal s₁)
    (r₂ : Argot.MapPar.Reachable f jobs n₂ s₂) (t₂ : Argot.MapPar.Terminal s₂) :
    s₁.result = s₂.result := by
  have e₁ : s₁.result = (jobs.map f).map some := by
    have I := Argot.MapPar.inv_reachable r₁
    have ph := I.phase
    simp only [Argot.MapPar.Phase, t₁.1] at ph
    obtain ⟨ho, _, _, hres, hcov⟩ := ph
    obtain ⟨_, _, _, _, hperm⟩ := I.closed_facts ho
    apply List.ext_getElem?
    intro i
    simp only [Argot.MapPar.State.result]
    by_cases hi : i < jobs.length
    · have : i ∈ s₁.xs.map Prod.fst := (hperm.mem_iff).2 (by simpa using hi)
      obtain ⟨p, hp, rfl⟩ := List.mem_map.1 this
      rw [hcov p hp]
      have := I.vals_xs p hp
      simp only [List.getElem?_map] at this ⊢
      rw [this]; rfl
    · rw [List.getElem?_eq_none (by omega), List.getElem?_eq_none (by simp; omega)]
  have e₂ : s₂.result = (jobs.map f).map some := by
    have I := Argot.MapPar.inv_reachable r₂
    have ph := I.phase
    simp only [Argot.MapPar.Phase, t₂.1] at ph
    obtain ⟨ho, _, _, hres, hcov⟩ := ph
    obtain ⟨_, _, _, _, hperm⟩ := I.closed_facts ho
    apply List.ext_getElem?
    intro i
    simp only [Argot.MapPar.State.result]
    by_cases hi : i < jobs.length
    · have : i ∈ s₂.xs.map Prod.fst := (hperm.mem_iff).2 (by simpa using hi)
      obtain ⟨p, hp, rfl⟩ := List.mem_map.1 this
      rw [hcov p hp]
      have := I.vals_xs p hp
      simp only [List.getElem?_map] at this ⊢
      rw [this]; rfl
    · rw [List.getElem?_eq_none (by omega), List.getElem?_eq_none (by simp; omega)]
  rw [e₁, e₂]

/-- **The pipeline** (parallel intra-procedural pass, then the traversal of the graph `link` builds
from the summaries): any two runs — any schedules, any worker counts, any entry-point orders, any
worklist / map-iteration orders — report the same flows, provided the successors of the linked
graph are key-determined. -/
theorem analysis_deterministic {τ σ : Type} (f : τ → σ) (jobs : List τ) (n₁ n₂ : Int)
    {s₁ s₂ : Argot.MapPar.State σ}
    (r₁ : Argot.MapPar.Reachable f jobs n₁ s₁) (t₁ : Argot.MapPar.Terminal s₁)
    (r₂ : Argot.MapPar.Reachable f jobs n₂ s₂) (t₂ : Argot.MapPar.Terminal s₂)
    (key : α → κ) (link : List (Option σ) → α → List α) (isSink : κ → Prop)
    (hdet : ∀ summaries, KeyDetermined key (link summaries))
    (es₁ es₂ : List α) (hperm : ∀ e, e ∈ es₁ ↔ e ∈ es₂) (run₁ run₂ : α → State α κ)
    (h₁ : ∀ e ∈ es₁, Complete key (link s₁.result) e (run₁ e))
    (h₂ : ∀ e ∈ es₂, Complete key (link s₂.result) e (run₂ e)) :
    ∀ k, (∃ e ∈ es₁, Flows key isSink (run₁ e) k) ↔ (∃ e ∈ es₂, Flows key isSink (run₂ e) k) := by
  have e := summaries_schedule_independent f jobs n₁ n₂ r₁ t₁ r₂ t₂
  rw [e] at h₁
  exact entries_order_independent key (link s₂.result) isSink (hdet _) es₁ es₂ hperm run₁ run₂ h₁ h₂

/-! ### `_partial` status on the real visitor: successors that depend on `Prev` (F14) -/

/-- Items are (node, how-entered); the key is the node only — as `VisitorNode.Key()` ignores `Prev`.
Node 1 stands for a parameter node: entered from its call site (aux 1) it continues into the callee
body towards the sink (node 2); entered from inside the callee (aux 0) it has no successor there. -/
def exKey : Nat × Nat → Nat := Prod.fst

def exSucc : Nat × Nat → List (Nat × Nat)
  | (0, _) => [(1, 0), (1, 1)]
  | (1, 1) => [(2, 0)]
  | _ => []

/-- `exSucc` is not key-determined … -/
theorem ex_not_key_determined : ¬ KeyDetermined exKey exSucc := by
  intro h
  obtain ⟨b', hb', _⟩ := h (1, 1) (1, 0) rfl (2, 0) (by simp [exSucc])
  simp [exSucc] at hb'

/-- **negation witness**: … and two complete traversals from the same entry, differing only in the
order in which the two successors of node 0 are offered (a map iteration order), report different
flow sets: one reaches the sink 2, the other does not. -/
theorem order_dependent_witness :
    ∃ s₁ s₂ : State (Nat × Nat) Nat, Complete exKey exSucc (0, 0) s₁ ∧ Complete exKey exSucc (0, 0) s₂ ∧
      Flows exKey (· = 2) s₁ 2 ∧ ¬ Flows exKey (· = 2) s₂ 2 := by
  refine ⟨⟨[], [2, 1], [(2, 0), (1, 1), (0, 0)]⟩, ⟨[], [1], [(1, 0), (0, 0)]⟩, ⟨?_, rfl⟩, ⟨?_, rfl⟩, ?_, ?_⟩
  · have s1 : Step exKey exSucc (init [(0, 0)]) ⟨[(1, 1)], [1], [(0, 0)]⟩ :=
      Step.pop (a := (0, 0)) (rest := []) (cands := [(1, 1), (1, 0)]) (List.Perm.refl _)
        (List.Perm.swap _ _ _) (List.Perm.refl _)
    have s2 : Step exKey exSucc ⟨[(1, 1)], [1], [(0, 0)]⟩ ⟨[(2, 0)], [2, 1], [(1, 1), (0, 0)]⟩ :=
      Step.pop (a := (1, 1)) (rest := []) (cands := [(2, 0)]) (List.Perm.refl _)
        (List.Perm.refl _) (List.Perm.refl _)
    have s3 : Step exKey exSucc ⟨[(2, 0)], [2, 1], [(1, 1), (0, 0)]⟩ ⟨[], [2, 1], [(2, 0), (1, 1), (0, 0)]⟩ :=
      Step.pop (a := (2, 0)) (rest := []) (cands := []) (List.Perm.refl _)
        (List.Perm.refl _) (List.Perm.refl _)
    exact Steps.tail (Steps.tail (Steps.single s1) s2) s3
  · have s1 : Step exKey exSucc (init [(0, 0)]) ⟨[(1, 0)], [1], [(0, 0)]⟩ :=
      Step.pop (a := (0, 0)) (rest := []) (cands := [(1, 0), (1, 1)]) (List.Perm.refl _)
        (List.Perm.refl _) (List.Perm.refl _)
    have s2 : Step exKey exSucc ⟨[(1, 0)], [1], [(0, 0)]⟩ ⟨[], [1], [(1, 0), (0, 0)]⟩ :=
      Step.pop (a := (1, 0)) (rest := []) (cands := []) (List.Perm.refl _)
        (List.Perm.refl _) (List.Perm.refl _)
    exact Steps.tail (Steps.single s1) s2
  · exact ⟨by decide, rfl⟩
  · intro h; exact absurd h.1 (by decide)

/-- the full property for a traversal problem -/
def OrderIndependent (key : α → κ) (succ : α → List α) (isSink : κ → Prop) : Prop :=
  ∀ e s₁ s₂, Complete key succ e s₁ → Complete key succ e s₂ → ∀ k, Flows key isSink s₁ k ↔ Flows key isSink s₂ k

/-- **visit_order_independent_partial**: the statement with its hypothesis visible … -/
theorem visit_order_independent_partial (key : α → κ) (succ : α → List α) (isSink : κ → Prop) :
    KeyDetermined key succ → OrderIndependent key succ isSink :=
  fun hdet e _ _ h₁ h₂ => visit_order_independent key succ isSink hdet e h₁ h₂

/-- … and it cannot be dropped: the full statement fails for `Prev`-dependent successors. -/
theorem not_order_independent_in_general : ¬ OrderIndependent exKey exSucc (· = 2) := by
  intro h
  obtain ⟨s₁, s₂, c₁, c₂, f₁, f₂⟩ := order_dependent_witness
  exact f₂ ((h _ s₁ s₂ c₁ c₂ 2).1 f₁)

/-- what holds for the real visitor regardless: every run reports at least the sinks reachable along
successors that are GUARANTEED whatever `Prev` is, and at most the possibly reachable ones — the two
bounds between which a run-to-run difference can live. -/
theorem flows_between_bounds (key : α → κ) (succ : α → List α) (isSink : κ → Prop)
    (G : κ → κ → Prop) (hG : ∀ a k', G (key a) k' → ∃ a' ∈ succ a, key a' = k')
    (e : α) {s : State α κ} (h : Complete key succ e s) (k : κ) :
    ((Reach G [key e] k ∧ isSink k) → Flows key isSink s k) ∧
    (Flows key isSink s k → (Reach (Poss key succ) [key e] k ∧ isSink k)) := by
  constructor
  · rintro ⟨hr, hs⟩
    exact ⟨visited_contains_guaranteed key succ G hG (roots := [e]) (seen0 := []) (by simp) h.1 h.2 k
      (by simpa using hr), hs⟩
  · rintro ⟨hv, hs⟩
    obtain ⟨a, ha, rfl⟩ := List.mem_map.1 hv
    exact ⟨by simpa using visited_subset_poss key succ (roots := [e]) (seen0 := []) h.1 a ha, hs⟩

#print axioms visit_order_independent
#print axioms flows_eq_closure
#print axioms entries_order_independent
#print axioms summaries_schedule_independent
#print axioms analysis_deterministic
#print axioms ex_not_key_determined
#print axioms order_dependent_witness
#print axioms visit_order_independent_partial
#print axioms not_order_independent_in_general
#print axioms flows_between_bounds

end Argot.C06

/-! ## `key_canonical`: the dedup key determines its components -/

namespace Argot.KeyCanon

/-- the components `VisitorNode.Key()` renders (analysis/dataflow/explicit.go:104, trace.go:35,174):
`LongID ! id-id-… ! id-id-… _ kind . path|path|…` -/
structure VKey where
  node : Str
  trace : List Str
  closure : List Str
  kind : Str
  paths : List Str

def render (k : VKey) : Str :=
  k.node ++ '!' :: (joinWith '-' k.trace ++ '!' :: (joinWith '-' k.closure ++ '_' :: (k.kind ++ '.' :: joinWith '|' k.paths)))

/-- identifiers are `#<digits>.<digits>`: non-empty, no separator character -/
def IdOK (s : Str) : Prop := s ≠ [] ∧ '!' ∉ s ∧ '-' ∉ s ∧ '_' ∉ s

structure WF (k : VKey) : Prop where
  node : IdOK k.node
  trace : ∀ x ∈ k.trace, IdOK x
  closure : ∀ x ∈ k.closure, IdOK x
  kind : '.' ∉ k.kind                  -- `strconv.Itoa(Status.Kind)`
  paths : ∀ p ∈ k.paths, '|' ∉ p

/-- **key_canonical**: equal keys ⇒ equal node, call trace, closure trace, status kind and equal
joined access-path string … -/
theorem key_canonical (k₁ k₂ : VKey) (w₁ : WF k₁) (w₂ : WF k₂) (h : render k₁ = render k₂) :
    k₁.node = k₂.node ∧ k₁.trace = k₂.trace ∧ k₁.closure = k₂.closure ∧ k₁.kind = k₂.kind ∧
    joinWith '|' k₁.paths = joinWith '|' k₂.paths := by
  unfold render at h
  obtain ⟨hn, h⟩ := split_first h w₁.node.2.1 w₂.node.2.1
  have nb : ∀ {l : List Str}, (∀ x ∈ l, IdOK x) → '!' ∉ joinWith '-' l :=
    fun hl => not_mem_joinWith (by decide) (fun x hx => (hl x hx).2.1)
  obtain ⟨ht, h⟩ := split_first h (nb w₁.trace) (nb w₂.trace)
  have nu : ∀ {l : List Str}, (∀ x ∈ l, IdOK x) → '_' ∉ joinWith '-' l :=
    fun hl => not_mem_joinWith (by decide) (fun x hx => (hl x hx).2.2.2)
  obtain ⟨hc, h⟩ := split_first h (nu w₁.closure) (nu w₂.closure)
  obtain ⟨hk, hp⟩ := split_first h w₁.kind w₂.kind
  refine ⟨hn, ?_, ?_, hk, hp⟩
  · exact joinWith_inj_nonempty (fun x hx => ⟨(w₁.trace x hx).2.2.1, (w₁.trace x hx).1⟩)
      (fun x hx => ⟨(w₂.trace x hx).2.2.1, (w₂.trace x hx).1⟩) ht
  · exact joinWith_inj_nonempty (fun x hx => ⟨(w₁.closure x hx).2.2.1, (w₁.closure x hx).1⟩)
      (fun x hx => ⟨(w₂.closure x hx).2.2.1, (w₂.closure x hx).1⟩) hc

/-- … and, for non-empty path lists (the visitor starts with `[""]` and never empties the list),
equal access-path LISTS: the key is injective on (node, trace, closure trace, kind, path list). -/
theorem key_canonical_paths (k₁ k₂ : VKey) (w₁ : WF k₁) (w₂ : WF k₂) (n₁ : k₁.paths ≠ []) (n₂ : k₂.paths ≠ [])
    (h : render k₁ = render k₂) : k₁ = k₂ := by
  obtain ⟨a, b, c, d, e⟩ := key_canonical k₁ k₂ w₁ w₂ h
  have := joinWith_inj_paths n₁ n₂ w₁.paths w₂.paths e
  cases k₁; cases k₂; simp_all

/-- the only collision: no path vs. the single empty path -/
example : joinWith '|' ([] : List Str) = joinWith '|' [[]] := rfl

/-- the key is sensitive to the ORDER of the access-path list (which comes from map iteration): the same
path set may be visited under two keys — redundant visits, never a lost one (`flows_between_bounds`
holds for any key function). -/
example : joinWith '|' ["a".toList, "b".toList] ≠ joinWith '|' ["b".toList, "a".toList] := by decide

#print axioms key_canonical
#print axioms key_canonical_paths

end Argot.KeyCanon
