/-
C06 on the REAL taint visitor (model `Argot.TaintVisit` over the dumped linked graph, tie M6).

`Props/C06.lean` proves order independence for key-determined successors and shows that the real
successor function is not key-determined in general (F14: `Prev`, C01a: tracing info).  This file
closes the gap per run: a DECIDABLE criterion on the model's own (BFS) run of a source,

  `inProvedDomain G src tr fuel` = the run finished ∧ `entryBeforeExit` ∧ `keyDetOn`

(`entryBeforeExit`: the offered candidates are closed under the successor function; `keyDetOn`: every
offered candidate is indistinguishable — same fields outside the key, same `Prev`-dependent flag —
from the visited representative of its key, i.e. the successors ARE key-determined on everything this
source can reach) is proved sufficient for: EVERY finished traversal, in any order, reports exactly the
sinks the model run reports (`taint_deterministic_of_flags`), hence any two traversals agree, and the
union over all entry points does not depend on their order (`taint_deterministic_all_sources`).
The oracle (`oracle_c01`, record `c06run`) evaluates the criterion on the dumped graph of every
program the C06 driver runs repeatedly; for the sources inside it a run-to-run difference of the real
tool is a violation with nothing to attribute it to.

`entryBeforeExit` of ONE run alone is not enough (it makes that run maximal — C01
`flows_maximal_of_ebe` — but another order may visit a `Prev`-poor item first and report less):
`ebe_run_not_order_independent` is a closed witness (the F14 graph with its two chain lengths swapped:
the BFS run has `entryBeforeExit = true` and reports the sink, another finished traversal reports
nothing), which is why `keyDetOn` is part of the criterion.
-/
import Argot.Props.C01
import Argot.Model.C06Real

namespace Argot.C06Real
open Argot.Closure Argot.TaintVisit

theorem equiv_symm {G : LGraph} {a b : Item} (h : equiv G a b = true) : equiv G b a = true := by
  simp only [equiv, Bool.and_eq_true, beq_iff_eq] at h ⊢
  obtain ⟨⟨⟨⟨⟨⟨h1, h2⟩, h3⟩, h4⟩, h5⟩, h6⟩, h7⟩ := h
  exact ⟨⟨⟨⟨⟨⟨h1.symm, h2.symm⟩, h3.symm⟩, h4.symm⟩, h5.symm⟩, h6.symm⟩, h7.symm⟩

/-- under the criterion two reachable items with the same key have the same successors -/
theorem succ_key_det {G : LGraph} {src : Nat} {tr : List Nat} {m : State Item Key}
    (hm : FinishedRun G src tr m) (hE : entryBeforeExit G src tr m = true)
    (hK : keyDetOn G src tr m = true) (a b : Item)
    (ha : IReach (succ G src) [root src tr] a) (hb : IReach (succ G src) [root src tr] b)
    (hk : key a = key b) : succ G src a = succ G src b := by
  obtain ⟨oa, hoa, ea⟩ := reach_offered hE a ha
  obtain ⟨ob, hob, eb⟩ := reach_offered hE b hb
  obtain ⟨r, hr, hkr⟩ := offered_visited hm oa hoa
  simp only [keyDetOn, List.all_eq_true, Bool.or_eq_true, Bool.not_eq_true', decide_eq_false_iff_not] at hK
  have kra : key r = key oa := hkr
  have krb : key r = key ob := by rw [hkr, equiv_key ea, hk, ← equiv_key eb]
  have e1 : equiv G r oa = true := by
    rcases hK oa hoa r hr with h | h
    · exact absurd kra h
    · exact h
  have e2 : equiv G r ob = true := by
    rcases hK ob hob r hr with h | h
    · exact absurd krb h
    · exact h
  rw [← succ_congr src ea, ← succ_congr src e1, succ_congr src e2, succ_congr src eb]

/-- under the criterion EVERY finished traversal visits the key of every reachable item -/
theorem reach_visited {G : LGraph} {src : Nat} {tr : List Nat} {m s : State Item Key}
    (hm : FinishedRun G src tr m) (hE : entryBeforeExit G src tr m = true)
    (hK : keyDetOn G src tr m = true) (hs : FinishedRun G src tr s) :
    ∀ a, IReach (succ G src) [root src tr] a → ∃ w ∈ s.visited, key w = key a := by
  intro a ha
  induction ha with
  | root h =>
    simp only [List.mem_singleton] at h
    subst h
    exact offered_visited hs _ (by simp [offered])
  | @step a a' hra hstep ih =>
    obtain ⟨w, hw, hkw⟩ := ih
    have hrw : IReach (succ G src) [root src tr] w := visits_sound G src tr s hs.1 w hw
    have hsucc := succ_key_det hm hE hK w a hrw hra hkw
    have : a' ∈ offered G src tr s := by
      simp only [offered, List.mem_cons, List.mem_flatMap]
      exact Or.inr ⟨w, hw, by rw [hsucc]; exact hstep⟩
    exact offered_visited hs a' this

/-- **the sinks reported for a source are the same in every traversal order as in the model run**,
    whenever the model run satisfies the decidable criterion -/
theorem flows_eq_model (G : LGraph) (src : Nat) (tr : List Nat) (fuel : Nat)
    (h : inProvedDomain G src tr fuel = true) (s : State Item Key) (hs : FinishedRun G src tr s) :
    ∀ n, n ∈ flowsOf G s ↔ n ∈ flowsOf G (run G src tr fuel) := by
  simp only [inProvedDomain, flagsOf, Bool.and_eq_true, List.isEmpty_iff] at h
  obtain ⟨⟨hq, hE⟩, hK⟩ := h
  have hm : FinishedRun G src tr (run G src tr fuel) := ⟨bfs_steps key (succ G src) fuel _, hq⟩
  intro n
  constructor
  · exact flows_maximal_of_ebe G src tr _ s hm hE hs.1 n
  · intro hn
    obtain ⟨a, hpath, rfl, hrep⟩ := flows_are_paths G src tr _ hm.1 n hn
    obtain ⟨w, hw, hkw⟩ := reach_visited hm hE hK hs a hpath
    have hnode : w.node = a.node := by
      have := congrArg Prod.fst hkw
      simpa [key] using this
    simp only [flowsOf, List.mem_map, List.mem_filter]
    exact ⟨w, ⟨hw, (reported_key hkw).trans hrep⟩, hnode⟩

/-- **taint_deterministic_of_flags**: if the model's run of a source satisfies the per-run flags,
    any two finished traversals of that source — any pop order, any order of the out-edge maps, any
    queue discipline — report the same set of sinks. -/
theorem taint_deterministic_of_flags (G : LGraph) (src : Nat) (tr : List Nat) (fuel : Nat)
    (h : inProvedDomain G src tr fuel = true) (s₁ s₂ : State Item Key)
    (h₁ : FinishedRun G src tr s₁) (h₂ : FinishedRun G src tr s₂) :
    ∀ n, n ∈ flowsOf G s₁ ↔ n ∈ flowsOf G s₂ := fun n =>
  (flows_eq_model G src tr fuel h s₁ h₁ n).trans (flows_eq_model G src tr fuel h s₂ h₂ n).symm

/-- the (source entry, sink) pairs a whole analysis reports: one traversal per entry point -/
def Reports (G : LGraph) (es : List (Nat × List Nat)) (runOf : Nat × List Nat → State Item Key)
    (e : Nat × List Nat) (n : Nat) : Prop :=
  e ∈ es ∧ n ∈ flowsOf G (runOf e)

/-- **all sources**: two analyses that iterate the same SET of entry points in any two orders, each
    entry traversed in any order, report the same (entry, sink) pairs — provided every entry is in the
    proved domain. -/
theorem taint_deterministic_all_sources (G : LGraph) (fuel : Nat) (es₁ es₂ : List (Nat × List Nat))
    (hperm : ∀ e, e ∈ es₁ ↔ e ∈ es₂)
    (hdom : ∀ e ∈ es₁, inProvedDomain G e.1 e.2 fuel = true)
    (run₁ run₂ : Nat × List Nat → State Item Key)
    (h₁ : ∀ e ∈ es₁, FinishedRun G e.1 e.2 (run₁ e)) (h₂ : ∀ e ∈ es₂, FinishedRun G e.1 e.2 (run₂ e)) :
    ∀ e n, Reports G es₁ run₁ e n ↔ Reports G es₂ run₂ e n := by
  intro e n
  constructor
  · rintro ⟨he, hn⟩
    have he2 := (hperm e).1 he
    exact ⟨he2, (taint_deterministic_of_flags G e.1 e.2 fuel (hdom e he) _ _ (h₁ e he) (h₂ e he2) n).1 hn⟩
  · rintro ⟨he, hn⟩
    have he1 := (hperm e).2 he
    exact ⟨he1, (taint_deterministic_of_flags G e.1 e.2 fuel (hdom e he1) _ _ (h₁ e he1) (h₂ e he) n).2 hn⟩

/-- the per-source statement for the entries inside the domain only (the form the driver uses: sources
    outside the domain are counted separately) -/
theorem taint_deterministic_on_domain (G : LGraph) (fuel : Nat) (es₁ es₂ : List (Nat × List Nat))
    (hperm : ∀ e, e ∈ es₁ ↔ e ∈ es₂) (run₁ run₂ : Nat × List Nat → State Item Key)
    (h₁ : ∀ e ∈ es₁, FinishedRun G e.1 e.2 (run₁ e)) (h₂ : ∀ e ∈ es₂, FinishedRun G e.1 e.2 (run₂ e))
    (e : Nat × List Nat) (hd : inProvedDomain G e.1 e.2 fuel = true) (n : Nat) :
    Reports G es₁ run₁ e n ↔ Reports G es₂ run₂ e n := by
  constructor
  · rintro ⟨he, hn⟩
    have he2 := (hperm e).1 he
    exact ⟨he2, (taint_deterministic_of_flags G e.1 e.2 fuel hd _ _ (h₁ e he) (h₂ e he2) n).1 hn⟩
  · rintro ⟨he, hn⟩
    have he1 := (hperm e).2 he
    exact ⟨he1, (taint_deterministic_of_flags G e.1 e.2 fuel hd _ _ (h₁ e he1) (h₂ e he) n).2 hn⟩

/-! ### Non-vacuity and the shape outside the domain -/

namespace Direct
/-- `sink(source())`: node 0 = source(), node 1 = sink(..), node 2 = its argument -/
def G : LGraph :=
  { graphs := #[{ fn := 1 }],
    nodes := #[
      { kind := .call, graph := 0, callee := 3, callSite := 1, lassoClass := 1, out := [{ dst := 2 }] },
      { kind := .call, graph := 0, callee := 4, callSite := 2, args := [2], lassoClass := 2 },
      { kind := .callArg, graph := 0, index := 0, parent := 1, sink := true }] }

/-- inside the domain, and the sink is reported: the theorems are not vacuous -/
example : inProvedDomain G 0 [] 40 = true := by decide
example : flowsOf G (run G 0 [] 40) = [2] := by decide
end Direct

/-- `x := source(); y := id(x); sink(y)` (C01 `Ok.G`) is already OUTSIDE: the call argument is offered
    twice with the same key — entered from the source, and entered back from the callee's parameter —
    with different `Prev`-dependent flags.  (Its result is order independent all the same, because the
    second candidate is only reachable through the first; a criterion that sees this needs a dominance
    argument — not proved here.) -/
theorem ok_outside : inProvedDomain Ok.G 0 [] 40 = false := by decide

/-- the F14 and C01a graphs are outside (their `entryBeforeExit` fails) -/
theorem f14_outside : inProvedDomain F14.G 0 [] 40 = false := by decide
theorem c01a_outside : inProvedDomain C01a.G 0 [] 40 = false := by decide

namespace EbeOnly
/-- F14 with the chain lengths swapped: `f(a, b){ sink(b.v); b.v = a }` called as `f(id(id(x)), b)` with
    `b.v = x`: in BFS order the parameter `b` (node 6) is reached from its call site first, so the
    model run satisfies `entryBeforeExit` and reports the sink; the candidate (6, entered from inside
    the callee through `a`) is offered later and dropped.  `keyDetOn` is false: that candidate has
    the same key and a different `Prev`-dependent flag. -/
def G : LGraph :=
  { graphs := #[{ fn := 1 }, { fn := 2, callsites := [1], params := [some 5, some 6] }],
    nodes := #[
      { kind := .call, graph := 0, callee := 3, callSite := 1, lassoClass := 1, out := [{ dst := 3 }, { dst := 14 }] },
      { kind := .call, graph := 0, callee := 2, callSite := 2, calleeSummary := some 1, args := [2, 3], lassoClass := 2 },
      { kind := .callArg, graph := 0, index := 0, parent := 1 },
      { kind := .callArg, graph := 0, index := 1, parent := 1 },
      {},
      { kind := .param, graph := 1, index := 0, out := [{ dst := 6 }] },
      { kind := .param, graph := 1, index := 1, out := [{ dst := 13 }] },
      {}, {}, {}, {}, {},
      { kind := .call, graph := 1, callee := 4, callSite := 4, args := [13], lassoClass := 4 },
      { kind := .callArg, graph := 1, index := 0, parent := 12, sink := true },
      { kind := .synthetic, graph := 0, out := [{ dst := 15 }] },
      { kind := .synthetic, graph := 0, out := [{ dst := 2 }] }] }

theorem run_finished : (run G 0 [] 40).queue = [] := by decide
theorem run_ebe : entryBeforeExit G 0 [] (run G 0 [] 40) = true := by decide
theorem run_reports : flowsOf G (run G 0 [] 40) = [13] := by decide
theorem run_not_keydet : keyDetOn G 0 [] (run G 0 [] 40) = false := by decide
end EbeOnly

/-- `entryBeforeExit` of the model run alone does not put a source in the domain: on `EbeOnly.G` it
    holds while the successors are not key-determined on the offered candidates (the F14 shape is
    present; whether it bites depends on the order).  The criterion therefore demands `keyDetOn`. -/
theorem ebe_alone_insufficient :
    entryBeforeExit EbeOnly.G 0 [] (run EbeOnly.G 0 [] 40) = true ∧ inProvedDomain EbeOnly.G 0 [] 40 = false :=
  ⟨EbeOnly.run_ebe, by decide⟩

namespace EbeOnly
/-- one iteration that pops the chosen queue element `a` (candidates in dump order, appended) -/
def pick (s : State Item Key) (a : Item) : State Item Key :=
  ⟨s.queue.erase a ++ (offer key s.seen (succ G 0 a)).2, (offer key s.seen (succ G 0 a)).1, a :: s.visited⟩

theorem pick_step (s : State Item Key) (a : Item) (h : a ∈ s.queue) :
    Step key (succ G 0) s (pick s a) := by
  obtain ⟨q, seen, vis⟩ := s
  exact Step.pop (List.perm_cons_erase h) (List.Perm.refl _) (List.Perm.refl _)

def s0 : State Item Key := ⟨[root 0 []], [], []⟩
def s1 := pick s0 (root 0 [])
def s2 := pick s1 { node := 14, prev := some 0 }
def s3 := pick s2 { node := 15, prev := some 14 }
def s4 := pick s3 { node := 2, prev := some 15 }
def s5 := pick s4 { node := 5, trace := [1], prev := some 2 }
def s6 := pick s5 { node := 6, trace := [1], prev := some 5 }
def s7 := pick s6 { node := 3, prev := some 0 }

/-- a second finished traversal: the chain towards argument `a` is followed first, so the parameter
    `b` (node 6) is first reached from inside the callee and never expanded from its call site -/
theorem other_finished : FinishedRun G 0 [] s7 := by
  refine ⟨?_, by decide⟩
  have h1 := pick_step s0 (root 0 []) (by decide)
  have h2 := pick_step s1 { node := 14, prev := some 0 } (by decide)
  have h3 := pick_step s2 { node := 15, prev := some 14 } (by decide)
  have h4 := pick_step s3 { node := 2, prev := some 15 } (by decide)
  have h5 := pick_step s4 { node := 5, trace := [1], prev := some 2 } (by decide)
  have h6 := pick_step s5 { node := 6, trace := [1], prev := some 5 } (by decide)
  have h7 := pick_step s6 { node := 3, prev := some 0 } (by decide)
  exact Steps.tail (Steps.tail (Steps.tail (Steps.tail (Steps.tail (Steps.tail (Steps.single h1) h2) h3) h4) h5) h6) h7

theorem other_reports_nothing : flowsOf G s7 = [] := by decide
end EbeOnly

/-- **negation witness**: `entryBeforeExit` of the model run does NOT give order independence: on
    `EbeOnly.G` the model (BFS) run satisfies it and reports the sink 13, another finished traversal of
    the same source reports nothing. -/
theorem ebe_run_not_order_independent :
    entryBeforeExit EbeOnly.G 0 [] (run EbeOnly.G 0 [] 40) = true ∧
    ∃ s₁ s₂, FinishedRun EbeOnly.G 0 [] s₁ ∧ FinishedRun EbeOnly.G 0 [] s₂ ∧
      13 ∈ flowsOf EbeOnly.G s₁ ∧ 13 ∉ flowsOf EbeOnly.G s₂ := by
  refine ⟨EbeOnly.run_ebe, run EbeOnly.G 0 [] 40, EbeOnly.s7,
    ⟨bfs_steps key (succ EbeOnly.G 0) 40 _, EbeOnly.run_finished⟩, EbeOnly.other_finished, ?_, ?_⟩
  · rw [EbeOnly.run_reports]; simp
  · rw [EbeOnly.other_reports_nothing]; simp

#print axioms taint_deterministic_of_flags
#print axioms taint_deterministic_all_sources
#print axioms taint_deterministic_on_domain
#print axioms flows_eq_model
#print axioms ebe_alone_insufficient
#print axioms ebe_run_not_order_independent

end Argot.C06Real
