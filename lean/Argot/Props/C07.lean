/-
C07 — The analyses terminate without crashing on every well-typed program.

Property theorems only (models: Argot/Model/C07Path.lean, C07Visit.lean; helper lemmas: Argot/Proofs/C07*.lean;
hand-written expectations for the regenerated tables: Argot/Spec/C07Tables.lean; regenerated tables:
Argot/Gen/T1Dispatch.lean, T8Panics.lean, T11HasPath.lean — rebuilt from /repo on every check).

What is proved here, for ALL control-flow graphs / call graphs / successor functions (no size bound):
  * crash-freedom, table part: every SSA instruction kind is dispatched (`dispatch_total`), every `panic(`
    call site is accounted for (`panic_sites_accounted`);
  * the path search `lang.HasPathTo`: the current code (model `hasPathFix`; table T11 must say "enqueue") is linear
    (`hasPathFix_linear`, the full-strength statement `LinearlyBounded`) and decides reachability. The code before
    commit 2099ce8 (model `hasPathOld`, finding F7) always terminated, but only within the exponential bound Σ dⁱ
    (`hasPathOld_terminates`), and that was tight: on the CFG of n sequential if/else it took exactly 4·2ⁿ−3
    iterations (`hasPathOld_diamonds`), so it had no linear bound (`hasPathOld_not_linear`); the repair changed no
    answer (`hasPath_repair_same_answer`). These stay as the witness of the defect: if T11 ever says "dequeue"
    again the obligation `hasPath_marks_on_enqueue` breaks and the driver replays the diamond chain;
  * worklists with a `seen` set whose accepted keys carry repetition-free traces: the visitors' loop
    (`visit_terminates`, escape analysis off) and `GetAllCallingContexts` (`ctx_terminates`), with explicit
    bounds in terms of `numNodup` (the number of repetition-free lists over the labels).
The runtime part of the property (no panic, no divergence of the real binaries) is searched by the driver
(harness/cmd/c07), not proved.
-/
import Argot.Proofs.C07Diamonds
import Argot.Proofs.C07Visit
import Argot.Proofs.C07Reach
import Argot.Proofs.C07Fwd
import Argot.Spec.C07Tables
import Argot.Gen.T1Dispatch
import Argot.Gen.T8Panics
import Argot.Gen.T11HasPath
import Argot.Gen.T12TraceSteps

namespace Argot.C07
open Argot.Gen

/-! ## T1 / T8 / T11: obligations over the regenerated tables -/

/-- FULL statement: every `ssa.Instruction` implementer has a (non-panicking) case in `lang.InstrSwitch`. -/
def DispatchTotalFull : Prop := ∀ k ∈ T1.ssaInstrKinds, k ∈ T1.dispatchKinds

/-- what holds on the current code: every kind is dispatched except the ones that only occur in the bodies of
uninstantiated generic functions (`Spec.genericOnlyKinds`, never analysed: see Spec/C07Tables.lean), the
translator understood `InstrSwitch`, and nothing is dispatched that is not an instruction. -/
theorem dispatch_total :
    T1.unparsed = false ∧
    (∀ k ∈ T1.ssaInstrKinds, k ∈ T1.dispatchKinds ∨ k ∈ Spec.genericOnlyKinds) ∧
    (∀ k ∈ T1.dispatchKinds, k ∈ T1.ssaInstrKinds) := by decide

/-- the gap between `dispatch_total` and the full statement, as a concrete witness in the current tables. -/
theorem dispatch_total_full_fails : ¬ DispatchTotalFull := by
  intro h
  exact absurd (h "MultiConvert" (by decide)) (by decide)

/-- every `panic(` in analysis/** and internal/{funcutil,graphutil,analysisutil} is in the hand-classified list
(and vice versa): a new `panic(` — or a removed one — breaks this obligation. -/
theorem panic_sites_accounted : T8.panicSites = Spec.classified.map Spec.Site.key := by decide

/-- `lang.HasPathTo` marks a block when it is ENQUEUED (model `hasPathFix`; since commit 2099ce8, finding F7) and
the queue is FIFO. Before the repair this table said "dequeue" (model `hasPathOld`). -/
theorem hasPath_marks_on_enqueue : T11.markOn = "enqueue" ∧ T11.fifo = true := by decide

/-- every expression the visitors use for a successor's `Trace` / `ClosureTrace` is in the hand-classified list
(same / ancestor / add): the code-side content of hypothesis `StepShape` of `visit_terminates`. -/
theorem trace_steps_accounted : T12.traceExprs = Spec.traceExprs.map Spec.TraceExpr.key := by decide

/-! ## lang.HasPathTo -/

/-- FULL statement for a path search `run`: the number of loop iterations is linear in the size of the CFG. -/
def LinearlyBounded (run : Cfg → Nat → Nat → Nat → PResult) : Prop :=
  ∃ c, ∀ g src tgt fuel, wf g = true → (run g src tgt fuel).steps ≤ c * (g.length + 1)

/-- **The search is linear** (current code): for every well-formed CFG, source, target and fuel, at most one iteration per
block (+1 when the source is not a block of the CFG), and with `fuel ≥ g.length + 2` the loop exits by itself. -/
theorem hasPathFix_linear (g : Cfg) (hwf : wf g = true) (src tgt fuel : Nat) :
    (hasPathFix g src tgt fuel).steps ≤ g.length + 1 ∧
    (g.length + 2 ≤ fuel → (hasPathFix g src tgt fuel).done = true) := by
  have hV : ∀ b x, x ∈ succs g b → x ∈ src :: List.range g.length :=
    fun b x hx => by simp [succs_lt g hwf b x hx]
  have h := runFix_steps g tgt (src :: List.range g.length) hV fuel (initFix src) 0 (by simp [initFix])
    (by simp [initFix])
  simp only [initFix, List.length_cons, List.length_nil, List.length_range] at h
  have hs : (hasPathFix g src tgt fuel).steps ≤ g.length + 1 := by unfold hasPathFix initFix; omega
  refine ⟨hs, fun hf => ?_⟩
  cases hd : (hasPathFix g src tgt fuel).done with
  | true => rfl
  | false =>
    have := runWith_not_done (stepFix g tgt) fuel (initFix src) 0 hd
    unfold hasPathFix at hs
    omega

theorem hasPathFix_linearlyBounded : LinearlyBounded hasPathFix :=
  ⟨1, fun g src tgt fuel hwf => by have := (hasPathFix_linear g hwf src tgt fuel).1; omega⟩

/-- **The search before the repair terminated, within an exponential bound**: 1 + d + … + dⁿ iterations
(d = largest out-degree, n = number of blocks). -/
theorem hasPathOld_terminates (g : Cfg) (hwf : wf g = true) (src tgt fuel : Nat) (hsrc : src < g.length) :
    (hasPathOld g src tgt fuel).steps ≤ geo (maxDeg g) g.length ∧
    (geo (maxDeg g) g.length < fuel → (hasPathOld g src tgt fuel).done = true) := by
  have h := runOld_steps g hwf tgt fuel (initOld src) 0 (by simp [initOld]; exact hsrc)
  have hp : pot (maxDeg g) g.length (initOld src).que (initOld src).vis = geo (maxDeg g) g.length := by
    simp [pot, initOld, wgt, unvis_nil]
  rw [hp] at h
  have hs : (hasPathOld g src tgt fuel).steps ≤ geo (maxDeg g) g.length := by unfold hasPathOld; omega
  refine ⟨hs, fun hf => ?_⟩
  cases hd : (hasPathOld g src tgt fuel).done with
  | true => rfl
  | false =>
    have := runWith_not_done (stepOld g tgt) fuel (initOld src) 0 hd
    unfold hasPathOld at hs
    omega

/-- **The exponential bound was attained**: on the CFG of `n` sequential `if/else` (3n+1 blocks) the old code,
asked for a block that is not reachable, performs exactly 4·2ⁿ − 3 loop iterations. -/
theorem hasPathOld_diamonds (n fuel : Nat) (hf : 4 * 2 ^ n ≤ fuel) :
    hasPathOld (diamonds n) 0 (3 * n + 1) fuel = { answer := false, steps := 4 * 2 ^ n - 3, done := true } := by
  have hc := diaSteps_closed n 1
  have h := run_levels n n 0 (by omega) 1 [] (by simp) (fuel - 1 - diaSteps n 1) 0
  have e : fuel - 1 - diaSteps n 1 + 1 + diaSteps n 1 = fuel := by omega
  rw [e] at h
  have hq : ({ que := List.replicate 1 (head 0), vis := [] } : PState) = initOld 0 := by simp [head, initOld]
  rw [hq] at h
  unfold hasPathOld
  rw [h]
  congr 1
  omega

/-- the current search on the same inputs: at most 3n+2 iterations. -/
theorem hasPathFix_diamonds (n fuel : Nat) : (hasPathFix (diamonds n) 0 (3 * n + 1) fuel).steps ≤ 3 * n + 2 := by
  have := (hasPathFix_linear (diamonds n) (diamonds_wf n) 0 (3 * n + 1) fuel).1
  rw [diamonds_length] at this
  exact this

/-- **Both searches decide control-flow reachability** whenever they finish … -/
theorem hasPathOld_correct (g : Cfg) (src tgt fuel : Nat) (hd : (hasPathOld g src tgt fuel).done = true) :
    (hasPathOld g src tgt fuel).answer = true ↔ Reach g src tgt :=
  runOld_correct g src tgt fuel (initOld src) 0
    { qreach := by intro x hx; simp [initOld] at hx; subst hx; exact Reach.refl
      vis := by intro x hx; simp [initOld] at hx
      src := Or.inr (by simp [initOld]) } hd

theorem hasPathFix_correct (g : Cfg) (src tgt fuel : Nat) (hd : (hasPathFix g src tgt fuel).done = true) :
    (hasPathFix g src tgt fuel).answer = true ↔ Reach g src tgt :=
  runFix_correct g src tgt fuel (initFix src) 0
    { qreach := by intro x hx; simp [initFix] at hx; subst hx; exact Reach.refl
      vis := by intro x hx; simp [initFix] at hx; subst hx; exact Or.inl (by simp [initFix])
      src := by simp [initFix] } hd

/-- … so **the repair changed no answer**: with enough fuel for both, the current search returns exactly what the
old one returned, on every well-formed CFG. -/
theorem hasPath_repair_same_answer (g : Cfg) (hwf : wf g = true) (src tgt fuel : Nat) (hsrc : src < g.length)
    (hf : geo (maxDeg g) g.length < fuel) (hf' : g.length + 2 ≤ fuel) :
    (hasPathFix g src tgt fuel).answer = (hasPathOld g src tgt fuel).answer := by
  have hc := hasPathOld_correct g src tgt fuel ((hasPathOld_terminates g hwf src tgt fuel hsrc).2 hf)
  have hx := hasPathFix_correct g src tgt fuel ((hasPathFix_linear g hwf src tgt fuel).2 hf')
  cases h1 : (hasPathFix g src tgt fuel).answer <;> cases h2 : (hasPathOld g src tgt fuel).answer <;> simp_all

theorem pow_growth : ∀ c : Nat, 3 * (c * c) + 11 * c + 3 < 32 * 2 ^ c
  | 0 => by simp
  | c + 1 => by
    have ih := pow_growth c
    have h2 : c < 2 ^ c := Nat.lt_two_pow_self
    have e : (c + 1) * (c + 1) = c * c + 2 * c + 1 := by
      simp only [Nat.add_mul, Nat.mul_add, Nat.mul_one, Nat.one_mul]; omega
    rw [e, Nat.pow_succ]
    omega

/-- **Negation witness of the full statement for the code before the repair**: `hasPathOld` has no linear bound. -/
theorem hasPathOld_not_linear : ¬ LinearlyBounded hasPathOld := by
  rintro ⟨c, h⟩
  have hb := h (diamonds (c + 3)) 0 (3 * (c + 3) + 1) (4 * 2 ^ (c + 3)) (diamonds_wf _)
  rw [hasPathOld_diamonds (c + 3) _ (Nat.le_refl _), diamonds_length] at hb
  simp only at hb
  have hg := pow_growth c
  have e : 2 ^ (c + 3) = 8 * 2 ^ c := by rw [Nat.pow_add]; omega
  have e2 : c * (3 * (c + 3) + 1 + 1) = 3 * (c * c) + 11 * c := by
    simp only [Nat.mul_add, Nat.add_mul, Nat.mul_one]
    have : c * (3 * c) = 3 * (c * c) := by ac_rfl
    have : c * (3 * 3) = 9 * c := by omega
    omega
  rw [e, e2] at hb
  omega

/- concrete instance (the replay on the real tool, corpus/findings/F07_haspath_diamonds, has n = 26): n = 3,
10 blocks: 29 iterations against 10. -/
set_option maxRecDepth 8000 in
example : (hasPathOld (diamonds 3) 0 10 100).steps = 29 ∧ (hasPathFix (diamonds 3) 0 10 100).steps = 10 := by
  decide

/-! ## worklist of the intra-procedural pass -/

/-- **`RunForwardIterative` terminates** as soon as `ChangedOnEndBlock` answers `true` only finitely often (what a
monotone pass over a finite universe of marks guarantees; `chg` lists the successive answers, absent = false):
at most `1 + n·H` blocks are processed, `n` = number of blocks, `H` = number of `true` answers — whatever the
path predicate `reach` (i.e. independently of `HasPathTo`). -/
theorem forwardIterative_terminates (n : Nat) (reach : Nat → Nat → Bool) (chg : List Bool) (fuel : Nat)
    (hn : 0 < n) :
    (fwdRun n reach fuel chg [0] 0).1 ≤ 1 + n * chg.count true ∧
    (1 + n * chg.count true < fuel → (fwdRun n reach fuel chg [0] 0).2 = true) := by
  have h := fwdRun_pops n reach fuel chg [0] 0 (by simp) (by simp; exact hn)
  simp only [List.length_cons, List.length_nil, Nat.zero_add] at h
  refine ⟨h, fun hf => ?_⟩
  cases hd : (fwdRun n reach fuel chg [0] 0).2 with
  | true => rfl
  | false =>
    have := fwdRun_not_done n reach fuel chg [0] 0 hd
    omega

/-! ## worklists of the inter-procedural traversals -/

/-- **Visitor worklist terminates** (taint and backtrace `addNext`, escape analysis off): whatever the
successor function, as long as successors derive their traces from the current element by "same / Parent /
Add(label)" and draw nodes, labels and extras from finite lists, the number of pops is at most
`|roots| + |N|·a(|L|)²·|E|`, `a = numNodup`.  Elements may carry any auxiliary data (`Prev`, depth, …). -/
theorem visit_terminates {ε ν β χ : Type} [DecidableEq ν] [DecidableEq β] [DecidableEq χ]
    (key : ε → VKey ν β χ) (succ : ε → List ε) (extraOk : VKey ν β χ → Bool) (lifo : Bool)
    (N : List ν) (L : List β) (E : List χ) (roots : List ε)
    (hroots : ∀ e ∈ roots, GoodKey N L E (key e))
    (hsucc : ∀ cur e, e ∈ succ cur → StepShape N L E (key cur) (key e)) (fuel : Nat) :
    let r := wlRun key succ (fun c e => vAccept extraOk (key c) (key e)) lifo fuel { queue := roots, seen := [] } 0
    r.pops ≤ roots.length + N.length * (numNodup L.length * (numNodup L.length * E.length)) ∧
    (roots.length + N.length * (numNodup L.length * (numNodup L.length * E.length)) < fuel → r.done = true) ∧
    (∀ k ∈ r.final.seen, k.trace.Nodup ∧ k.ctrace.Nodup) := by
  intro r
  have hU := length_keyUniverse_le N L E
  have hpops := wlRun_pops_le key succ (fun c e => vAccept extraOk (key c) (key e)) lifo
    (fun e => GoodKey N L E (key e)) (keyUniverse N L E)
    (fun cur e hc he ha => good_of_step N L E extraOk (key cur) (key e) hc (hsucc cur e he) ha)
    (fun e he => mem_keyUniverse N L E (key e) he)
    fuel { queue := roots, seen := [] } 0 hroots (by simp) (by simp)
  simp only [List.length_nil, Nat.add_zero, Nat.zero_add] at hpops
  have hp : r.pops ≤ roots.length + N.length * (numNodup L.length * (numNodup L.length * E.length)) := by
    show (wlRun key succ _ lifo fuel _ 0).pops ≤ _
    omega
  refine ⟨hp, fun hf => ?_, ?_⟩
  · cases hd : r.done with
    | true => rfl
    | false =>
      have := wlRun_not_done key succ (fun c e => vAccept extraOk (key c) (key e)) lifo fuel
        { queue := roots, seen := [] } 0 hd
      have hp' : (wlRun key succ (fun c e => vAccept extraOk (key c) (key e)) lifo fuel
        { queue := roots, seen := [] } 0).pops ≤ _ := hp
      omega
  · -- every key ever inserted is good, in particular repetition-free
    have hseen := wlRun_seen_inv key succ (fun c e => vAccept extraOk (key c) (key e)) lifo
      (fun e => GoodKey N L E (key e)) (fun k => k.trace.Nodup ∧ k.ctrace.Nodup)
      (fun cur e hc he ha => good_of_step N L E extraOk (key cur) (key e) hc (hsucc cur e he) ha)
      (fun e he => ⟨he.tnd, he.cnd⟩)
      fuel { queue := roots, seen := [] } 0 hroots (by simp)
    exact hseen

/-- **`GetAllCallingContexts` terminates**: every enumerated stack is loop-free, so at most `a(|L|)` stacks are
dequeued, `L` = the call nodes (closed under "call sites of the enclosing function"). -/
theorem ctx_terminates {β : Type} [DecidableEq β] (callers : β → List β) (isEntry : β → Bool) (limit : Nat)
    (L : List β) (n : β) (hn : n ∈ L) (hclosed : ∀ x ∈ L, ∀ c ∈ callers x, c ∈ L) (fuel : Nat) :
    (ctxRun callers isEntry limit n fuel).pops ≤ numNodup L.length ∧
    (numNodup L.length < fuel → (ctxRun callers isEntry limit n fuel).done = true) ∧
    (∀ s ∈ (ctxRun callers isEntry limit n fuel).final.seen, s.Nodup) := by
  have hU := length_nodupLists_le L
  have hP0 : ∀ e ∈ [[n]], e.Nodup ∧ ∀ x ∈ e, x ∈ L := by
    intro e he; simp at he; subst he; simp [hn]
  have hpops := wlRun_pops_le (id : Trace β → Trace β) (ctxSucc callers isEntry limit) (fun _ _ => true) false
    (fun e => e.Nodup ∧ ∀ x ∈ e, x ∈ L) (nodupLists L)
    (fun cur e hc he _ => ctxSucc_good callers isEntry limit L hclosed cur e hc he)
    (fun e he => mem_nodupLists L e he.1 he.2)
    fuel { queue := [[n]], seen := [[n]] } 0 hP0 (by simp)
    (by intro k hk; simp at hk; subst hk; exact mem_nodupLists L _ (by simp) (by simp [hn]))
  simp only [List.length_cons, List.length_nil] at hpops
  have hp : (ctxRun callers isEntry limit n fuel).pops ≤ numNodup L.length := by unfold ctxRun; omega
  refine ⟨hp, fun hf => ?_, ?_⟩
  · cases hd : (ctxRun callers isEntry limit n fuel).done with
    | true => rfl
    | false =>
      have := wlRun_not_done (id : Trace β → Trace β) (ctxSucc callers isEntry limit) (fun _ _ => true) false fuel
        { queue := [[n]], seen := [[n]] } 0 hd
      unfold ctxRun at hp
      omega
  · have hseen := wlRun_seen_inv (id : Trace β → Trace β) (ctxSucc callers isEntry limit) (fun _ _ => true) false
      (fun e => e.Nodup ∧ ∀ x ∈ e, x ∈ L) (fun k => k.Nodup)
      (fun cur e hc he _ => ctxSucc_good callers isEntry limit L hclosed cur e hc he)
      (fun e he => he.1)
      fuel { queue := [[n]], seen := [[n]] } 0 hP0 (by intro k hk; simp at hk; subst hk; simp)
    exact hseen

/-- the lasso test is exactly "the current label already occurs among its ancestors"; extending a
repetition-free trace by a label that passes the test keeps it repetition-free. -/
theorem lasso_iff {β : Type} [DecidableEq β] (x : β) (t : Trace β) : lasso (x :: t) = true ↔ x ∈ t := by
  simp [lasso]

theorem add_keeps_repetition_free {β : Type} [DecidableEq β] (x : β) (t : Trace β) (ht : t.Nodup)
    (hl : lasso (x :: t) = false) : (x :: t).Nodup :=
  nodup_of_traceStep t (x :: t) ht (by simp [traceStep]) hl

/-! ### non-vacuity -/

/-- direct recursion `f → f`: one call node that is its own caller; one loop-free stack, found at once. -/
example : (ctxRun (fun (_ : Nat) => [0]) (fun _ => false) 0 0 10).pops = 1 ∧
    (ctxRun (fun (_ : Nat) => [0]) (fun _ => false) 0 0 10).done = true := by decide

/-- a two-function cycle explored by a visitor that pushes a label at every step: stops after the third pop. -/
example : (wlRun (ε := VKey Nat Nat Unit) id
      (fun k => [{ k with trace := (k.node % 2) :: k.trace, node := k.node + 1 }])
      (fun c e => vAccept (fun _ => true) c e) false 100
      { queue := [{ node := 0, trace := [], ctrace := [], extra := () }], seen := [] } 0).pops = 3 := by decide

example : numNodup 3 = 16 ∧ geo 2 4 = 31 := by decide

/-! ### axiom audit (compared with the allowed set by `check`) -/
#print axioms dispatch_total
#print axioms dispatch_total_full_fails
#print axioms panic_sites_accounted
#print axioms hasPath_marks_on_enqueue
#print axioms trace_steps_accounted
#print axioms hasPathFix_linear
#print axioms hasPathFix_linearlyBounded
#print axioms hasPathOld_terminates
#print axioms hasPathOld_diamonds
#print axioms hasPathFix_diamonds
#print axioms hasPathOld_not_linear
#print axioms hasPathOld_correct
#print axioms hasPathFix_correct
#print axioms hasPath_repair_same_answer
#print axioms forwardIterative_terminates
#print axioms visit_terminates
#print axioms ctx_terminates

end Argot.C07
