/-
C07 — crash freedom of the summary-graph construction (`no_panic_under_inv`, the part of the "Not done" list of
C07 that concerns analysis/dataflow/function_summary_graph.go).

Property theorems only (model: Argot/Model/SGraphE.lean — the node tables of `NewSummaryGraph` and the edge-adding
entry points as an `Except PanicSite` wrapper around the C17 op machine; lemmas: Argot/Proofs/SGraphNoPanic.lean).

Quantifiers: every allocator of node ids, every list of SSA facts of a function (parameters, free variables, call
instructions with argument lists and resolved callees, MakeClosure instructions, Return instructions), every
result of the monotone pass (marks per (instruction, value), alias maps), every C17 state — no size bound.

What is proved:
  * `stepE` panics exactly when `OpE.ok` fails (`no_panic_of_ok`, `panic_iff_not_ok`), and otherwise performs the
    C17 operations `lower T op` (`stepE_refines`); for sequences: `no_panic_reachable`;
  * the only panics of the modelled entry points are the explicit one of addCallArgEdge and the two nil
    dereferences of addParamEdge / addFreeVarEdge (`panic_sites_of_stepE`); addInEdge's "invalid dest node type"
    is unreachable from them (`invalidDest_unreachable`: each entry point passes one of the eleven handled types);
  * `NewSummaryGraph` panics exactly when some callee cannot be resolved (`build_no_panic_iff`; this is the site
    classified *reached*, known finding C07a);
  * on well-formed facts (`factsWF`, decidable) the whole modelled construction — tables, then every edge request of
    makeEdgesAtCallSite / makeEdgesAtClosure / makeEdgesAtReturn — runs without panic (`no_panic_under_inv`), and it
    keeps the C17 invariant (`inv_preserved_by_construction`);
  * each hypothesis of `factsWF` is needed (negation witnesses at the end);
  * tie to table T8 (`sgraph_panic_sites_modelled`): every `panic(` of function_summary_graph.go is a `PanicSite`
    of the model, the ones classified `inv` are among those proved unreachable, the one classified `reached` is
    `calleeUnresolved`.

What `factsWF` rests on in the Go code (read off, not regenerated): addCallInstr builds the argument nodes from
`lang.GetArgs(instr)` and makeEdgesAtCallSite iterates `lang.GetArgs(callInstr)` (the same function); the only
writers of `paramAliases` / `freeVarAliases` (initialize, addParamAliases, addFreeVarAliases, addAliases in
intra_procedural_monotone_analysis.go) insert elements of `function.Params` / `function.FreeVars`, the lists
`NewSummaryGraph` creates nodes for.
-/
import Argot.Proofs.SGraphNoPanic
import Argot.Spec.C07Tables
import Argot.Gen.T8Panics

namespace Argot.C07.NoPanic
open Argot.SGraph Argot.SGraphE Argot.Gen

/-! ## one entry point / a sequence of entry points -/

/-- an entry point whose precondition holds does not panic … -/
theorem no_panic_of_ok (σ : Static) (T : Tables) (st : State) (op : OpE) (h : op.ok T = true) :
    (stepE σ T st op).isOk = true := by
  rw [stepE_ok σ T st op h]; rfl

/-- … it performs exactly the C17 operations `lower T op` (the wrapper is thin) … -/
theorem stepE_refines (σ : Static) (T : Tables) (st : State) (op : OpE) (h : op.ok T = true) :
    stepE σ T st op = .ok (run σ st (lower T op)) := stepE_ok σ T st op h

/-- … and `OpE.ok` is exact: the Go code panics if and only if it fails. -/
theorem panic_iff_not_ok (σ : Static) (T : Tables) (st : State) (op : OpE) :
    (∃ e, stepE σ T st op = .error e) ↔ op.ok T = false := by
  constructor
  · rintro ⟨e, he⟩
    cases hok : op.ok T with
    | false => rfl
    | true => rw [stepE_ok σ T st op hok] at he; cases he
  · intro h
    cases hs : stepE σ T st op with
    | error e => exact ⟨e, rfl⟩
    | ok st' => rw [stepE_ok_inv σ T st st' op hs] at h; cases h

/-- the panics the modelled entry points can raise. -/
theorem panic_sites_of_stepE (σ : Static) (T : Tables) (st : State) (op : OpE) (e : PanicSite)
    (h : stepE σ T st op = .error e) : e = .callArgNoNode ∨ e = .paramNilNode ∨ e = .freeVarNilNode :=
  stepE_error σ T st op e h

/-- addInEdge's `panic("invalid dest node type")` is unreachable from the modelled entry points, in every state
and with any tables: each passes a destination of one of the eleven handled types. -/
theorem invalidDest_unreachable (σ : Static) (T : Tables) (st : State) (op : OpE) :
    stepE σ T st op ≠ .error .invalidDestType ∧ addInEdgeHandles op.destKind = true := by
  refine ⟨fun h => ?_, destKind_handled op⟩
  rcases stepE_error σ T st op _ h with h | h | h <;> cases h

/-- **No panic along a sequence** (induction over the list): if every request is ok, the run ends normally in the
state the C17 machine reaches on the lowered operations. -/
theorem no_panic_reachable (σ : Static) (T : Tables) (st : State) (ops : List OpE) (h : allOkE T ops = true) :
    runE σ T st ops = .ok (run σ st (ops.flatMap (lower T))) := runE_ok σ T st ops h

/-- conversely a run that ends normally had every request ok. -/
theorem ok_of_no_panic (σ : Static) (T : Tables) (st st' : State) (ops : List OpE)
    (h : runE σ T st ops = .ok st') : allOkE T ops = true := runE_ok_inv σ T st st' ops h

/-! ## NewSummaryGraph and the edge construction on well-formed facts -/

/-- `NewSummaryGraph` (model `buildE`) ends normally iff every call instruction's callee was resolved; the only
panic is addCallInstr's. -/
theorem build_no_panic_iff (A : Alloc) (F : Facts) :
    (∃ T, buildE A F = .ok T) ↔ F.calls.all (fun c => c.callees.isSome) = true := buildE_ok_iff A F

theorem build_panic_site (A : Alloc) (F : Facts) (e : PanicSite) (h : buildE A F = .error e) :
    e = .calleeUnresolved := by
  have hb : ∀ cs, buildCalls A cs = .error e → e = .calleeUnresolved := by
    intro cs
    induction cs with
    | nil => intro h; cases h
    | cons c cs ih =>
      intro h
      unfold buildCalls at h
      split at h
      · cases h; rfl
      · split at h
        · next e' he' => cases h; exact ih he'
        · cases h
  unfold buildE at h
  split at h
  · next e' he' => cases h; exact hb _ he'
  · cases h

/-- every edge request the modelled construction emits satisfies its precondition in the tables
`NewSummaryGraph` built. -/
theorem emitted_ops_ok (A : Alloc) (F : Facts) (I : Intra) (T : Tables) (hT : buildE A F = .ok T)
    (hwf : factsWF F I = true) : allOkE T (emitOps F I) = true := by
  simp only [allOkE, List.all_eq_true]
  exact emitOps_ok A F I T hT hwf

/-- **`no_panic_under_inv`**: on well-formed facts the modelled summary construction — `NewSummaryGraph`, then
every edge request of makeEdgesAtCallSite / makeEdgesAtClosure / makeEdgesAtReturn — raises no panic, from any
state of the C17 machine, and ends in the state reached by the lowered C17 operations. -/
theorem no_panic_under_inv (A : Alloc) (F : Facts) (I : Intra) (hwf : factsWF F I = true) :
    ∃ T, buildE A F = .ok T ∧
      ∀ (σ : Static) (st : State),
        runE σ T st (emitOps F I) = .ok (run σ st ((emitOps F I).flatMap (lower T))) := by
  have hres : F.calls.all (fun c => c.callees.isSome) = true := by
    simp only [factsWF, Bool.and_eq_true] at hwf
    exact hwf.1.1.2
  obtain ⟨T, hT⟩ := (build_no_panic_iff A F).2 hres
  exact ⟨T, hT, fun σ st => no_panic_reachable σ T st _ (emitted_ops_ok A F I T hT hwf)⟩

/-- … and the C17 invariant survives it, as long as no edge source is a global-access node of an already
constructed summary (`edgeSrcFree`, decidable: the C17 precondition of `addEdge`). -/
theorem inv_preserved_by_construction (σ : Static) (T : Tables) (st st' : State) (ops : List OpE)
    (hinv : inv σ st = true) (hrun : runE σ T st ops = .ok st')
    (hsrc : edgeSrcFree st (ops.flatMap (lower T)) = true) : inv σ st' = true := by
  have hok := ok_of_no_panic σ T st st' ops hrun
  rw [no_panic_reachable σ T st ops hok] at hrun
  cases hrun
  exact (inv_iff σ _).2 (Inv_run σ _ st ((inv_iff σ st).1 hinv) (allOk_of_edgeSrcFree σ st _ hsrc))

/-! ## tie to the regenerated table T8 -/

def sgraphFile : String := "analysis/dataflow/function_summary_graph.go"

/-- the `panic(` call a modelled site stands for (none: implicit runtime panic, not in T8). -/
def siteKey : PanicSite → Option (String × String × String)
  | .callArgNoNode => some (sgraphFile, "(*SummaryGraph).addCallArgEdge",
      "lit:attempting to set call arg edge but no call arg node")
  | .invalidDestType => some (sgraphFile, "addInEdge", "fmt:invalid dest node type: %T")
  | .calleeUnresolved => some (sgraphFile, "(*SummaryGraph).addCallInstr",
      "lit:critical information missing in analysis")
  | .paramNilNode => none
  | .freeVarNilNode => none

def allSites : List PanicSite := [.callArgNoNode, .invalidDestType, .calleeUnresolved, .paramNilNode, .freeVarNilNode]

/-- the sites shown unreachable above (`no_panic_under_inv`, `invalidDest_unreachable`). -/
def provedUnreachable : List PanicSite := [.callArgNoNode, .invalidDestType, .paramNilNode, .freeVarNilNode]

theorem allSites_complete (p : PanicSite) : p ∈ allSites := by cases p <;> decide

/-- every `panic(` of function_summary_graph.go (regenerated table T8) is a site of the model; those the committed
classification calls unreachable-by-invariant (`inv`) are among the sites proved unreachable, the one it calls
`reached` is addCallInstr's.  A new `panic(` in that file, or a reclassification, breaks this obligation. -/
theorem sgraph_panic_sites_modelled :
    (∀ k ∈ T8.panicSites, k.1 = sgraphFile → ∃ p ∈ allSites, siteKey p = some k) ∧
    (∀ s ∈ Spec.classified, s.file = sgraphFile → s.cls = .inv → ∃ p ∈ provedUnreachable, siteKey p = some s.key) ∧
    (∀ s ∈ Spec.classified, s.file = sgraphFile → s.cls = .reached → siteKey .calleeUnresolved = some s.key) ∧
    (∀ p ∈ allSites, ∀ k, siteKey p = some k → k ∈ T8.panicSites) := by
  refine ⟨by decide, by decide, by decide, ?_⟩
  intro p _ k hk
  cases p <;> simp only [siteKey, Option.some.injEq] at hk <;> first | (subst hk; decide) | cases hk

/-! ## non-vacuity and negation witnesses -/

/-- `func f(p) { x := g(p, q, p); h := func(){…p…}; return p }` with one resolved callee; `p` carries its
parameter mark, and aliases itself. -/
def exFacts : Facts :=
  { params := [1], freeVars := [], nres := 1
    calls := [⟨10, [1, 2, 1], some 3, some [100]⟩]
    closures := [(20, [1])]
    rets := [(30, [1])] }

def exIntra : Intra :=
  { marks := fun _ v => if v = 1 then [{ ty := .param, node := 1 }] else if v = 3 then [{ ty := .closure, node := 20 }] else []
    paramAliases := [(1, [1])]
    atReturn := fun _ => [({ ty := .callRet, node := 10 }, 1)] }

def exAlloc : Alloc :=
  { param := fun p => 1000 + p, freeVar := fun v => 2000 + v, callNode := fun c _ => 3000 + c,
    argNode := fun c _ i => 4000 + 10 * c + i, closure := fun x => 5000 + x, boundVar := fun x i => 6000 + 10 * x + i,
    ret := fun i => 7000 + i }

def exTables : Tables :=
  { params := [(1, 1001)], callees := [(10, [⟨3010, 100, [(1, 4100), (2, 4101), (1, 4102)]⟩])],
    closures := [(20, 5020, [(1, 6200)])], returns := [(30, [some 7000])] }

example : factsWF exFacts exIntra = true := by decide
example : (buildE exAlloc exFacts).toOption.map (·.callees) = some exTables.callees := by decide
example : (buildE exAlloc exFacts).toOption.map (·.params) = some exTables.params := by decide

/-- the run of the whole construction: no panic, and the edges p → both argument nodes, closure → call node,
p → bound variable, p → return, call → p are there (p → p is dropped by `isDiffNode`). -/
example : (runE ⟨id, id⟩ exTables {} (emitOps exFacts exIntra)).toOption.map (·.e.out) =
    some [(5020, 3010, -1), (1001, 4100, -1), (1001, 4102, -1), (1001, 6200, -1), (3010, 1001, -1), (1001, 7000, -1)] := by
  decide

example : inv ⟨id, id⟩ (run ⟨id, id⟩ {} ((emitOps exFacts exIntra).flatMap (lower exTables))) = true := by decide

/-- negation witness 1 (explicit site): a call node without a node for the argument — tables `buildE` never
produces — makes addCallArgEdge panic. -/
example : panicOf (stepE ⟨id, id⟩ { callees := [(10, [⟨3010, 100, [(1, 4100)]⟩])] } {}
    (.callArg { ty := .other, node := 0 } 10 2)) = some .callArgNoNode := by decide

/-- negation witness 2 (implicit site; hypothesis "aliases ⊆ params" of `factsWF` dropped): an alias map that
mentions a value without parameter node sends addParamEdge through `addEdge` on a nil node. -/
example : factsWF exFacts { exIntra with paramAliases := [(1, [9])] } = false ∧
    panicOf (runE ⟨id, id⟩ exTables {} (emitOps exFacts { exIntra with paramAliases := [(1, [9])] })) = some .paramNilNode ∧
    panicOf (stepE ⟨id, id⟩ exTables {} (.param { ty := .param, node := 1 } 9)) = some .paramNilNode := by decide

/-- … but an unresolvable mark adds no edge, hence no dereference: addParamEdge only records an error. -/
example : panicOf (stepE ⟨id, id⟩ exTables {} (.param { ty := .other, node := 1 } 9)) = none ∧
    lower exTables (.param { ty := .other, node := 1 } 9) = [] := by decide

/-- negation witness 3 (hypothesis "callees resolved" dropped; the *reached* site, known finding C07a). -/
example : panicOf (buildE exAlloc { exFacts with calls := [⟨10, [1], none, none⟩] }) = some .calleeUnresolved := by
  decide

#print axioms no_panic_of_ok
#print axioms stepE_refines
#print axioms panic_iff_not_ok
#print axioms panic_sites_of_stepE
#print axioms invalidDest_unreachable
#print axioms no_panic_reachable
#print axioms ok_of_no_panic
#print axioms build_no_panic_iff
#print axioms build_panic_site
#print axioms emitted_ops_ok
#print axioms no_panic_under_inv
#print axioms inv_preserved_by_construction
#print axioms sgraph_panic_sites_modelled

end Argot.C07.NoPanic
