/-
C08 — Function summaries cover every direct def-use chain of the function.

Property theorems only (criterion: Argot/Model/Intra.lean; chains: Argot/Spec/Intra.lean; helper
lemmas: Argot/Proofs/Intra.lean).  Tie kind V: the driver harness/cmd/c08 dumps, for every analysed
function, the first-order image `f` of its SSA, the REAL final state `S` of
`dataflow.IntraProceduralAnalysis`, the REAL summary edges `E`, and the compiled oracle evaluates
`closed f S E R` (R = instructions reachable from the entry).  The theorems below say what a
`true` answer implies, for every function shape (any number of instructions, any CFG, chains of
any length): no bound anywhere.
-/
import Argot.Proofs.Intra

namespace Argot.Intra

variable {f : Func} {S : State} {E : List Edge} {R : Array Bool}

theorem closed_parts (h : closed f S E R = true) :
    reachOK f R = true ∧ initOK f S R = true ∧ carryOK f S = true ∧ xferOK f S = true ∧
      edgesOK f S E R = true := by
  unfold closed at h
  simp only [Bool.and_eq_true] at h
  exact ⟨h.1.1.1.1, h.1.1.1.2, h.1.1.2, h.1.2, h.2⟩

/-- `R` really contains every instruction reachable from the entry. -/
theorem closed_reach (h : closed f S E R = true) {i : Nat} (hr : Reach f 0 i) : R.getD i false = true := by
  have hro := (closed_parts h).1
  unfold reachOK at hro
  simp only [Bool.and_eq_true] at hro
  exact reach_in_closed (closure_of_all hro.2) hro.1 hr

/-- **The property's second sentence.**  The state is closed under control-flow propagation:
an origin attached to a value at a program point is attached at every CFG-later point. -/
theorem closed_monotone_along_cfg (h : closed f S E R = true) {i j : Nat} (hr : Reach f i j)
    (v m : Nat) (hm : has S i v m = true) : has S j v m = true := by
  have hc := (closed_parts h).2.2.1
  induction hr with
  | refl => exact hm
  | @step j k _ hk ih =>
    unfold carryOK at hc
    have h1 := List.all_eq_true.1 hc j (List.mem_range.2 (instr_succs_lt hk))
    have h2 := List.all_eq_true.1 h1 k hk
    exact has_iff.2 (subsetS_sound _ _ _ h2 _ (has_iff.1 ih))

/-- one transfer step. -/
theorem closed_step (h : closed f S E R = true) {o : Origin} (ho : o ∈ f.origins) {i a : Nat}
    (hs : StepOK f o (f.instr i) a) (hm : has S i a o.mark = true) :
    has S i (f.instr i).res o.mark = true := by
  have hx := (closed_parts h).2.2.2.1
  unfold xferOK at hx
  have hlt := instr_res_lt hs.1
  unfold Func.instr at hs ⊢
  have h1 := List.all_eq_true.1 hx i (List.mem_range.2 hlt)
  have hres : ((f.instrs.getD i default).res == 0) = false := by simpa using hs.1
  simp only [hres, Bool.false_or] at h1
  have h2 := List.all_eq_true.1 h1 a hs.2.1
  apply has_iff.2
  apply mem_marksOf.1
  apply subsetS_sound _ _ _ h2
  apply List.mem_filter.2
  refine ⟨mem_marksOf.2 (has_iff.1 hm), ?_⟩
  unfold markPasses
  rw [Bool.or_eq_true, List.any_eq_true]
  refine Or.inr ⟨o, ho, ?_⟩
  rw [Bool.and_eq_true]
  exact ⟨by simp, hs.2.2⟩

/-- **Chains are covered in the state.**  If the real final state satisfies the criterion, then along
every chain of value-computing instructions (of any length, through any control flow) from an
origin `o` whose program point is reachable, the mark of `o` is attached to the value at the point
the chain arrives at. -/
theorem closed_covers_chains (h : closed f S E R = true) {o : Origin} (ho : o ∈ f.origins)
    (hr : Reach f 0 o.loc) {u v : Nat} (hc : Chain f o u v) : has S u v o.mark = true := by
  induction hc with
  | base =>
    have hi := (closed_parts h).2.1
    unfold initOK at hi
    have := List.all_eq_true.1 hi o ho
    simpa [closed_reach h hr] using this
  | carry _ hj ih => exact closed_monotone_along_cfg h (Reach.step (Reach.refl _) hj) _ _ ih
  | step _ hs ih => exact closed_step h ho hs ih

/-- **… and in the summary.**  If the chain arrives at a boundary use `t` (returned value, call
argument, closure binding, `If` condition), every summary node of the origin has an edge to every
summary node of that use (with the origin's tuple index). -/
theorem closed_summary_edge (h : closed f S E R = true) {o : Origin} (ho : o ∈ f.origins)
    (hr : Reach f 0 o.loc) {t : Target} (ht : t ∈ f.targets) (hc : Chain f o t.loc t.val) :
    ∀ sn ∈ o.nodes, ∀ tn ∈ t.nodes, (sn, tn, eidx o) ∈ E := by
  have hm := closed_covers_chains h ho hr hc
  have he := (closed_parts h).2.2.2.2
  unfold edgesOK at he
  simp only [Bool.and_eq_true] at he
  obtain ⟨hwf, het⟩ := he
  have hmem : (o, match o.idx with | none => R | some _ => reachPlus f o.loc) ∈ originReach f R :=
    List.mem_map.2 ⟨o, ho, rfl⟩
  have h1 := List.all_eq_true.1 (List.all_eq_true.1 het t ht) _ hmem
  have hw := List.all_eq_true.1 hwf _ hmem
  -- the point of use is one at which the edge is demanded
  have hdem : ((match o.idx with | none => R | some _ => reachPlus f o.loc).getD t.loc false ||
      (t.loc == o.loc && t.val == o.val)) = true := by
    cases hidx : o.idx with
    | none =>
      simp only [Bool.or_eq_true]
      exact Or.inl (closed_reach h (Reach.trans hr (chain_reach hc)))
    | some k =>
      simp only [hidx, Option.isNone_some, Bool.false_or, Bool.and_eq_true, beq_iff_eq] at hw
      obtain ⟨hk, hcl⟩ := hw
      unfold closedFrom at hcl
      simp only [Bool.and_eq_true] at hcl
      rcases chain_call_plus (by simpa [Func.instr] using hk) hc with ⟨e1, e2⟩ | ⟨j, hj, hrj⟩
      · simp [e1, e2]
      · simp only [Bool.or_eq_true]
        refine Or.inl (reach_in_closed (closure_of_all hcl.2) ?_ hrj)
        exact List.all_eq_true.1 hcl.1 j hj
  have hms : (marksOf (S t.loc) t.val).contains o.mark = true := by
    simpa using mem_marksOf.2 (has_iff.1 hm)
  simp only [hms, hdem, Bool.not_true, Bool.false_or] at h1
  intro sn hsn tn htn
  have := List.all_eq_true.1 (List.all_eq_true.1 h1 sn hsn) tn htn
  simpa using this

/-! ### the same at the level of SSA values (plain reachability over operands)

`ssaOK f R` is the decidable SSA sanity the oracle evaluates on every dumped function (answer `ssa=1`):
definitions are unique and reach their uses in the CFG. Under it, the instruction-level chains
above are exactly what the simple value-level relation `DefUse` (the property's "chain of
value-computing instructions") generates. -/

theorem defuse_chain (h : closed f S E R = true) (hs : ssaOK f R = true) {o : Origin}
    (ho : o ∈ f.origins) {v : Nat} (hd : DefUse f o v) : Chain f o (defLoc f v) v := by
  unfold ssaOK at hs
  simp only [Bool.and_eq_true] at hs
  obtain ⟨⟨hso, hsi⟩, _⟩ := hs
  induction hd with
  | base =>
    have := List.all_eq_true.1 hso o ho
    rw [beq_iff_eq] at this
    rw [this]; exact Chain.base
  | @step i a _ hri hst ih =>
    have hR := closed_reach h hri
    have hlt := instr_res_lt hst.1
    have h1 := List.all_eq_true.1 hsi i (List.mem_range.2 hlt)
    unfold Func.instr at hst ⊢
    simp only [hR, Bool.not_true, Bool.false_or, Bool.and_eq_true, Bool.or_eq_true, beq_iff_eq] at h1
    obtain ⟨hdef, hops⟩ := h1
    have hdef' : defLoc f (f.instrs.getD i default).res = i := by
      rcases hdef with h0 | h0
      · exact absurd h0 hst.1
      · exact h0
    have hreach := reachFrom_sound (List.all_eq_true.1 hops a hst.2.1)
    have hc : Chain f o i a := chain_along ih hreach
    have := Chain.step hc (by unfold Func.instr; exact hst)
    unfold Func.instr at this
    rw [hdef']; exact this

/-- **Def-use chains are covered by the summary.**  If value `t.val` used at the reachable boundary
use `t` derives from origin `o` through any chain of the listed value-computing instructions
(`DefUse`: reflexive-transitive closure of operand → result), the summary connects every node of `o`
to every node of `t`. -/
theorem closed_covers_defuse (h : closed f S E R = true) (hs : ssaOK f R = true) {o : Origin}
    (ho : o ∈ f.origins) (hr : Reach f 0 o.loc) {t : Target} (ht : t ∈ f.targets)
    (hrt : Reach f 0 t.loc) (hd : DefUse f o t.val) :
    ∀ sn ∈ o.nodes, ∀ tn ∈ t.nodes, (sn, tn, eidx o) ∈ E := by
  have hc := defuse_chain h hs ho hd
  have hs' := hs
  unfold ssaOK at hs'
  simp only [Bool.and_eq_true] at hs'
  have h1 := List.all_eq_true.1 hs'.2 t ht
  simp only [closed_reach h hrt, Bool.not_true, Bool.false_or] at h1
  exact closed_summary_edge h ho hr ht (chain_along hc (reachFrom_sound h1))

/-! ### non-vacuity: a diamond with a phi, a conversion, a call and a return

    0: t1 = p + p        (binop)       1: if c goto 2 else 3
    2: t2 = conv t1 ; →4               3: t3 = call g(t1) ; →4
    4: t4 = phi(t2,t3) ; 5: return t4
   values: p=1 c=2 t1=3 t2=4 t3=5 t4=6 ; marks: param p = 1, call t3#0 = 2 ; nodes: p=10 call=11 arg=12 ret=13 -/
def exF : Func :=
  { instrs := #[ { kind := .binop, res := 3, ops := [1, 1], succs := [1] },
                 { kind := .ifc, ops := [2], succs := [2, 3] },
                 { kind := .convert, res := 4, ops := [3], succs := [4] },
                 { kind := .call, res := 5, ops := [3], succs := [4] },
                 { kind := .phi, res := 6, ops := [4, 5], succs := [5] },
                 { kind := .ret, ops := [6] } ],
    origins := [⟨1, 1, 0, none, [10]⟩, ⟨2, 5, 3, some 0, [11]⟩],
    targets := [⟨3, 3, [12]⟩, ⟨5, 6, [13]⟩] }

def exS : State := fun i =>
  match i with
  | 0 => [(1, 1), (3, 1)] | 1 => [(1, 1), (3, 1)] | 2 => [(1, 1), (3, 1), (4, 1)]
  | 3 => [(1, 1), (3, 1), (5, 2)] | 4 => [(1, 1), (3, 1), (4, 1), (5, 2), (6, 1), (6, 2)]
  | 5 => [(1, 1), (3, 1), (4, 1), (5, 2), (6, 1), (6, 2)] | _ => []

def exE : List Edge := [(10, 12, 0), (10, 13, 0), (11, 13, 1)]

example : closed exF exS exE (reachFrom exF 0) = true := by
  simp [closed, reachOK, initOK, carryOK, xferOK, edgesOK, originReach, closedFrom, reachPlus, reachFrom,
    reachSeeds, reachLoop, exF, exS, exE, has, marksOf, subsetS, factLt, dataOps, markPasses, eidx, List.range,
    List.range.loop, Array.getD, Array.setIfInBounds]

example : ssaOK exF (reachFrom exF 0) = true := by
  simp [ssaOK, defLoc, reachFrom, reachSeeds, reachLoop, exF, dataOps, List.range, List.range.loop, Array.getD,
    Array.setIfInBounds, Array.findIdx?, Array.findIdx?.loop]

/-- the criterion rejects the same state with the phi transfer dropped (what a broken `DoPhi` yields). -/
example : closed exF (fun i => (exS i).filter (· != (6, 2))) exE (reachFrom exF 0) = false := by
  simp [closed, reachOK, initOK, carryOK, xferOK, edgesOK, originReach, closedFrom, reachPlus, reachFrom,
    reachSeeds, reachLoop, exF, exS, exE, has, marksOf, subsetS, factLt, dataOps, markPasses, eidx, List.range,
    List.range.loop, Array.getD, Array.setIfInBounds]

/-- the chain param p → binop → convert → phi → return exists in `exF`. -/
example : Chain exF ⟨1, 1, 0, none, [10]⟩ 5 6 := by
  have c0 : Chain exF ⟨1, 1, 0, none, [10]⟩ 0 1 := Chain.base
  have c1 : Chain exF ⟨1, 1, 0, none, [10]⟩ 0 3 :=
    Chain.step (i := 0) c0 ⟨by decide, by decide, by decide⟩
  have c2 : Chain exF ⟨1, 1, 0, none, [10]⟩ 2 3 :=
    Chain.carry (Chain.carry c1 (j := 1) (by decide)) (j := 2) (by decide)
  have c3 : Chain exF ⟨1, 1, 0, none, [10]⟩ 2 4 := Chain.step (i := 2) c2 ⟨by decide, by decide, by decide⟩
  have c4 : Chain exF ⟨1, 1, 0, none, [10]⟩ 4 4 := Chain.carry c3 (j := 4) (by decide)
  have c5 : Chain exF ⟨1, 1, 0, none, [10]⟩ 4 6 := Chain.step (i := 4) c4 ⟨by decide, by decide, by decide⟩
  exact Chain.carry c5 (j := 5) (by decide)

/-! ### negation witnesses: the REAL dumped results of two recorded replays on the pinned tree 25e32d0
(both defects have since been repaired — 327a23f, f02a8b5 — the literals below are the OLD results)

`exB` is the SSA image of `_, e := source2(); s, ok := e.(string); if ok { sink(s) }`
(corpus/findings/C08b_commaok_extract, first flow) and `exBS`/`exBE` the state and edges the real pass
produced for it: the chain call-result #1 → extract → type assertion → extract #0 → call argument
exists, the mark is absent at the sink argument, the criterion is false.  `exA` is
`func three(x string) (int, int, string) { return 0, 1, x }` (corpus/findings/C08a_return_index). -/

def exB : Func :=
  { instrs := #[ { kind := .call, res := 2, succs := [1] },
                 { kind := .extract, res := 3, ops := [2], aux := 0, succs := [2] },
                 { kind := .extract, res := 4, ops := [2], aux := 1, succs := [3] },
                 { kind := .typeAssert, res := 5, ops := [4], succs := [4] },
                 { kind := .extract, res := 6, ops := [5], aux := 0, succs := [5] },
                 { kind := .extract, res := 7, ops := [5], aux := 1, succs := [6] },
                 { kind := .ifc, ops := [7], succs := [7, 8] },
                 { kind := .call, res := 9, ops := [6], succs := [8] },
                 { kind := .ret } ],
    origins := [⟨1, 2, 0, some 0, [1]⟩, ⟨2, 2, 0, some 1, [1]⟩],
    targets := [⟨6, 7, [2]⟩, ⟨7, 6, [4]⟩] }

def exBS : State := fun i =>
  match i with
  | 0 => [(2, 1), (2, 2)] | 1 => [(2, 1), (2, 2), (3, 1)] | 2 => [(2, 1), (2, 2), (3, 1), (4, 2)]
  | 3 => [(2, 1), (2, 2), (3, 1), (4, 2), (5, 2)] | 4 => [(2, 1), (2, 2), (3, 1), (4, 2), (5, 2)]
  | 5 => [(2, 1), (2, 2), (3, 1), (4, 2), (5, 2), (7, 2)] | 6 => [(2, 1), (2, 2), (3, 1), (4, 2), (5, 2), (7, 2)]
  | 7 => [(2, 1), (2, 2), (3, 1), (4, 2), (5, 2), (7, 2)] | 8 => [(2, 1), (2, 2), (3, 1), (4, 2), (5, 2), (7, 2)]
  | _ => []

def exBE : List Edge := [(1, 2, 2)]

/-- C08b on the model: the chain is there, the real state misses it, the criterion says so. -/
theorem pinned_commaok_witness :
    Chain exB ⟨2, 2, 0, some 1, [1]⟩ 7 6 ∧ has exBS 7 6 2 = false ∧
      closed exB exBS exBE (reachFrom exB 0) = false := by
  refine ⟨?_, by decide, ?_⟩
  · have c0 : Chain exB ⟨2, 2, 0, some 1, [1]⟩ 0 2 := Chain.base
    have c1 : Chain exB ⟨2, 2, 0, some 1, [1]⟩ 2 2 :=
      Chain.carry (Chain.carry c0 (j := 1) (by decide)) (j := 2) (by decide)
    have c2 : Chain exB ⟨2, 2, 0, some 1, [1]⟩ 2 4 := Chain.step (i := 2) c1 ⟨by decide, by decide, by decide⟩
    have c3 : Chain exB ⟨2, 2, 0, some 1, [1]⟩ 3 5 :=
      Chain.step (i := 3) (Chain.carry c2 (j := 3) (by decide)) ⟨by decide, by decide, by decide⟩
    have c4 : Chain exB ⟨2, 2, 0, some 1, [1]⟩ 4 6 :=
      Chain.step (i := 4) (Chain.carry c3 (j := 4) (by decide)) ⟨by decide, by decide, by decide⟩
    exact Chain.carry (Chain.carry (Chain.carry c4 (j := 5) (by decide)) (j := 6) (by decide)) (j := 7) (by decide)
  · simp [closed, reachOK, initOK, carryOK, xferOK, edgesOK, originReach, closedFrom, reachPlus, reachFrom,
      reachSeeds, reachLoop, exB, exBS, exBE, has, marksOf, subsetS, factLt, dataOps, markPasses, passes, defKind,
      eidx, List.range, List.range.loop, Array.getD, Array.setIfInBounds, Array.find?]

def exA : Func :=
  { instrs := #[ { kind := .ret, ops := [2, 3, 1] } ],
    origins := [⟨1, 1, 0, none, [1]⟩],
    targets := [⟨0, 2, [2]⟩, ⟨0, 3, [3]⟩, ⟨0, 1, [4]⟩] }

/-- C08a on the model: the parameter is returned as result #2, its mark is on the returned value at
the return, and the real summary has no edge into the node of result #2. -/
theorem pinned_return_index_witness :
    Chain exA ⟨1, 1, 0, none, [1]⟩ 0 1 ∧ has (fun _ => [(1, 1)]) 0 1 1 = true ∧ (1, 4, 0) ∉ ([] : List Edge) ∧
      closed exA (fun _ => [(1, 1)]) [] (reachFrom exA 0) = false := by
  refine ⟨Chain.base, by decide, by simp, ?_⟩
  simp [closed, reachOK, initOK, carryOK, xferOK, edgesOK, originReach, closedFrom, reachPlus, reachFrom,
    reachSeeds, reachLoop, exA, has, marksOf, subsetS, factLt, dataOps, eidx, List.range,
    List.range.loop, Array.getD, Array.setIfInBounds]

#print axioms closed_covers_chains
#print axioms closed_summary_edge
#print axioms closed_monotone_along_cfg
#print axioms closed_covers_defuse
#print axioms pinned_commaok_witness
#print axioms pinned_return_index_witness

end Argot.Intra
