/-
C08 (memory rows) / C01 layer L2 — chains through memory are covered by the intra-procedural state.

Criterion: Argot/Model/IntraMem.lean (`closedMem`: `storeOK`, `aliasOK`, `loadOK`), evaluated by `oracle_c08`
on the REAL final state of `dataflow.IntraProceduralAnalysis`, with the store/load rows read off the SSA and the
may-alias relation dumped from the REAL pointer analysis (`state.PointerAnalysis.Queries[a].MayAlias(Queries[b])`).
The theorems say what `closed ∧ closedMem = true` implies: any chain built from def-use steps, CFG steps and
memory hops store → may-alias → (CFG-later) load carries the origin's mark — any number of hops, any CFG, any
function size.
-/
import Argot.Model.IntraMem
import Argot.Props.C08

namespace Argot.Intra

variable {f : Func} {M : Mem} {S : State} {E : List Edge} {R : Array Bool}

theorem closedMem_parts (h : closedMem f M S = true) :
    storeOK M S = true ∧ aliasOK f M S = true ∧ loadOK M S = true := by
  unfold closedMem at h
  simp only [Bool.and_eq_true] at h
  exact ⟨h.1.1, h.1.2, h.2⟩

/-- store row: a mark on a stored value is on the address, at the store. -/
theorem closedMem_store (h : closedMem f M S = true) {r : StoreRow} (hr : r ∈ M.stores) {d m : Nat}
    (hd : d ∈ r.vals) (hm : has S r.loc d m = true) : has S r.loc r.addr m = true := by
  have hs := (closedMem_parts h).1
  unfold storeOK at hs
  have h1 := List.all_eq_true.1 (List.all_eq_true.1 hs r hr) d hd
  exact has_iff.2 (mem_marksOf.1 (subsetS_sound _ _ _ h1 _ (mem_marksOf.2 (has_iff.1 hm))))

/-- alias row: a mark on the address of a store is, at the store, on every may-alias of the address
(except the address's own initial mark). -/
theorem closedMem_alias (h : closedMem f M S = true) {r : StoreRow} (hr : r ∈ M.stores) {b m : Nat}
    (hb : M.alias r.addr b = true) (hne : selfInit f r.addr m = false) (hm : has S r.loc r.addr m = true) :
    has S r.loc b m = true := by
  have ha := (closedMem_parts h).2.1
  unfold aliasOK at ha
  have h1 := List.all_eq_true.1 ha r hr
  have hb' : b ∈ M.aliases r.addr := by
    unfold Mem.alias at hb
    simpa using hb
  have h2 := List.all_eq_true.1 h1 b hb'
  apply has_iff.2
  apply mem_marksOf.1
  apply subsetS_sound _ _ _ h2
  exact List.mem_filter.2 ⟨mem_marksOf.2 (has_iff.1 hm), by simp [hne]⟩

/-- load row: a mark on the address of a load is on the loaded value, at the load. -/
theorem closedMem_load (h : closedMem f M S = true) {r : LoadRow} (hr : r ∈ M.loads) {m : Nat}
    (hm : has S r.loc r.addr m = true) : has S r.loc r.res m = true := by
  have hl := (closedMem_parts h).2.2
  unfold loadOK at hl
  have h1 := List.all_eq_true.1 hl r hr
  exact has_iff.2 (mem_marksOf.1 (subsetS_sound _ _ _ h1 _ (mem_marksOf.2 (has_iff.1 hm))))

/-- **Chains through memory are covered in the state** (general form: any number of memory hops).  If the
real final state satisfies `closed` and `closedMem`, the mark of a reachable origin `o` is attached to `v` at
`u` whenever an `MChain` (def-use steps, CFG steps, store / may-alias / load hops) arrives there. -/
theorem closedMem_covers_mchains (h : closed f S E R = true) (hm : closedMem f M S = true) {o : Origin}
    (ho : o ∈ f.origins) (hr : Reach f 0 o.loc) {u v : Nat} (hc : MChain f M o u v) :
    has S u v o.mark = true := by
  induction hc with
  | base => exact closed_covers_chains h ho hr Chain.base
  | carry _ hj ih => exact closed_monotone_along_cfg h (Reach.step (Reach.refl _) hj) _ _ ih
  | step _ hs ih => exact closed_step h ho hs ih
  | store hrow hd _ ih => exact closedMem_store hm hrow hd ih
  | alias hrow hb hne _ ih => exact closedMem_alias hm hrow hb hne ih
  | load hrow _ ih => exact closedMem_load hm hrow ih

/-! ### composition with the register-only chains of `closed_covers_chains` -/

theorem MChain.of_chain {o : Origin} {i v : Nat} (hc : Chain f o i v) : MChain f M o i v := by
  induction hc with
  | base => exact MChain.base
  | carry _ hj ih => exact MChain.carry ih hj
  | step _ hs ih => exact MChain.step ih hs

theorem MChain.along {o : Origin} {i j v : Nat} (hc : MChain f M o i v) (hr : Reach f i j) :
    MChain f M o j v := by
  induction hr with
  | refl => exact hc
  | step _ hk ih => exact MChain.carry ih hk

theorem MChain.tail {o : Origin} {i0 v0 i v : Nat} (hc : MChain f M o i0 v0) (ht : Tail f o i0 v0 i v) :
    MChain f M o i v := by
  induction ht with
  | refl => exact hc
  | carry _ hj ih => exact MChain.carry ih hj
  | step _ hs ih => exact MChain.step ih hs

/-- the shape `v —store→ a ~alias~ b —(CFG)→ load→ x —def-use→ w` is an `MChain`. -/
theorem mem_chain_shape {o : Origin} {v b u w : Nat} {rs : StoreRow} {rl : LoadRow}
    (hv : Chain f o rs.loc v) (hrs : rs ∈ M.stores) (hvs : v ∈ rs.vals)
    (hal : M.alias rs.addr b = true) (hne : selfInit f rs.addr o.mark = false)
    (hsl : Reach f rs.loc rl.loc) (hrl : rl ∈ M.loads) (hlb : rl.addr = b)
    (ht : Tail f o rl.loc rl.res u w) : MChain f M o u w := by
  have c1 : MChain f M o rs.loc rs.addr := MChain.store hrs hvs (MChain.of_chain hv)
  have c2 : MChain f M o rs.loc b := MChain.alias hrs hal hne c1
  have c3 : MChain f M o rl.loc rl.addr := hlb ▸ MChain.along c2 hsl
  exact MChain.tail (MChain.load hrl c3) ht

/-- **L2, the memory row.**  Let the real final state satisfy `closed ∧ closedMem`.  If the stored value `v`
derives from the reachable origin `o` at the store `rs` (`*a = v`, `m[k] = v`, `ch <- v`), `b` may alias the
address `a` according to the dumped pointer analysis, the load `rl` (`x = *b`, `m'[k]`, `<-ch'`) is CFG-later
than the store, and `w` at `u` derives from `x` through any def-use chain, then `o`'s mark is attached to `w` at
`u`.  (Side condition `selfInit … = false`: the mark is not the initial mark of the address value itself —
`initialize()` does not alias-mark those; see Model/IntraMem.lean.) -/
theorem closedMem_covers_mem_chains (h : closed f S E R = true) (hm : closedMem f M S = true) {o : Origin}
    (ho : o ∈ f.origins) (hr : Reach f 0 o.loc) {v b u w : Nat} {rs : StoreRow} {rl : LoadRow}
    (hv : Chain f o rs.loc v) (hrs : rs ∈ M.stores) (hvs : v ∈ rs.vals)
    (hal : M.alias rs.addr b = true) (hne : selfInit f rs.addr o.mark = false)
    (hsl : Reach f rs.loc rl.loc) (hrl : rl ∈ M.loads) (hlb : rl.addr = b)
    (ht : Tail f o rl.loc rl.res u w) : has S u w o.mark = true :=
  closedMem_covers_mchains h hm ho hr (mem_chain_shape hv hrs hvs hal hne hsl hrl hlb ht)

/-- … and in the summary: if the chain arrives at a boundary use `t` that is CFG-reachable from where an edge
of `o` is demanded, `edgesOK` gives the summary edge.  Stated for parameters / free variables (edges demanded
at every reachable point). -/
theorem closedMem_summary_edge (h : closed f S E R = true) (hm : closedMem f M S = true) {o : Origin}
    (ho : o ∈ f.origins) (hr : Reach f 0 o.loc) (hidx : o.idx = none) {t : Target} (ht : t ∈ f.targets)
    (hrt : Reach f 0 t.loc) (hc : MChain f M o t.loc t.val) :
    ∀ sn ∈ o.nodes, ∀ tn ∈ t.nodes, (sn, tn, eidx o) ∈ E := by
  have hmk := closedMem_covers_mchains h hm ho hr hc
  have he := (closed_parts h).2.2.2.2
  unfold edgesOK at he
  simp only [Bool.and_eq_true] at he
  have hmem : (o, match o.idx with | none => R | some _ => reachPlus f o.loc) ∈ originReach f R :=
    List.mem_map.2 ⟨o, ho, rfl⟩
  have h1 := List.all_eq_true.1 (List.all_eq_true.1 he.2 t ht) _ hmem
  have hms : (marksOf (S t.loc) t.val).contains o.mark = true := by
    simpa using mem_marksOf.2 (has_iff.1 hmk)
  have hdem : ((match o.idx with | none => R | some _ => reachPlus f o.loc).getD t.loc false ||
      (t.loc == o.loc && t.val == o.val)) = true := by
    simp only [hidx, Bool.or_eq_true]
    exact Or.inl (closed_reach h hrt)
  simp only [hms, hdem, Bool.not_true, Bool.false_or] at h1
  intro sn hsn tn htn
  have := List.all_eq_true.1 (List.all_eq_true.1 h1 sn hsn) tn htn
  simpa using this

/-! ### non-vacuity: `func stld(p, q *string, v string) string { *p = v; return *q }` called as `stld(&s, &s, …)`
(`exMS` is the REAL final state the pass produced for it, `exMM` the real rows incl. `ma 1 2` from the real pointer
analysis — dumped with VERIF_C08_EXPLORE; node ids renamed)

    0: store *p = v     1: x = *q (unop)     2: return x
   values: p=1 q=2 v=3 x=4 ; marks: param p = 1, q = 2, v = 3 ; nodes: p=10 q=11 v=12 ret=13 -/
def exMF : Func :=
  { instrs := #[ { kind := .other, ops := [], succs := [1] },
                 { kind := .unop, res := 4, ops := [2], succs := [2] },
                 { kind := .ret, ops := [4] } ],
    origins := [⟨1, 1, 0, none, [10]⟩, ⟨2, 2, 0, none, [11]⟩, ⟨3, 3, 0, none, [12]⟩],
    targets := [⟨2, 4, [13]⟩] }

def exMM : Mem := { stores := [⟨0, 1, [3]⟩], loads := [⟨1, 2, 4⟩], al := [(1, [2])] }

def exMS : State := fun i =>
  match i with
  | 0 => [(1, 1), (1, 3), (2, 2), (2, 3), (3, 3), (4, 3)]
  | 1 => [(1, 1), (1, 3), (2, 2), (2, 3), (3, 3), (4, 2), (4, 3)]
  | 2 => [(1, 1), (1, 3), (2, 2), (2, 3), (3, 3), (4, 2), (4, 3)]
  | _ => []

def exME : List Edge := [(11, 13, 0), (12, 13, 0)]

example : closed exMF exMS exME (reachFrom exMF 0) = true := by
  simp [closed, reachOK, initOK, carryOK, xferOK, edgesOK, originReach, closedFrom, reachPlus, reachFrom,
    reachSeeds, reachLoop, exMF, exMS, exME, has, marksOf, subsetS, factLt, dataOps, markPasses, eidx, List.range,
    List.range.loop, Array.getD, Array.setIfInBounds]

example : closedMem exMF exMM exMS = true := by
  simp [closedMem, storeOK, aliasOK, loadOK, selfInit, Mem.aliases, exMF, exMM, exMS, marksOf, subsetS]

/-- the chain param v → store *p → alias q → load x → return exists in `exMF`/`exMM` … -/
example : MChain exMF exMM ⟨3, 3, 0, none, [12]⟩ 2 4 := by
  have hv : Chain exMF ⟨3, 3, 0, none, [12]⟩ 0 3 := Chain.base
  refine mem_chain_shape (rs := ⟨0, 1, [3]⟩) (rl := ⟨1, 2, 4⟩) (b := 2) hv (by simp [exMM]) (by simp)
    (by simp [Mem.alias, Mem.aliases, exMM]) (by simp [selfInit, exMF])
    (Reach.step (Reach.refl _) (by simp [Func.instr, exMF])) (by simp [exMM]) rfl ?_
  exact Tail.carry Tail.refl (by simp [Func.instr, exMF])

/-- … the criterion rejects the same state with the alias marking dropped (what a pass without
`markPtrAliases` yields: `q` and hence `x` lack `v`'s mark) … -/
example : closedMem exMF exMM (fun i => (exMS i).filter (fun p => p != (2, 3) && p != (4, 3))) = false := by
  simp [closedMem, storeOK, aliasOK, loadOK, selfInit, Mem.aliases, exMF, exMM, exMS, marksOf, subsetS]

/-- … and the real state does NOT carry the own initial mark of `p` (mark 1) on its alias `q`: that is why
`aliasOK` has the `selfInit` exemption (without it the criterion would be false on the unchanged tree),
while `v`'s mark must be — and is — there. -/
example : has exMS 0 2 1 = false ∧ selfInit exMF 1 1 = true ∧ has exMS 0 2 3 = true := by
  simp [has, exMS, selfInit, exMF]

#print axioms closedMem_covers_mchains
#print axioms closedMem_covers_mem_chains
#print axioms closedMem_summary_edge
#print axioms mem_chain_shape

end Argot.Intra
