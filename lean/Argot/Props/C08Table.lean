/-
C08, regenerated table T5: what `analysis/dataflow/builtins.go` says NOW (extracted by
`harness/extract T5` into Argot/Gen/T5Builtins.lean on every check run) against the operands the
property needs a handled builtin to transfer (`Intra.builtinNeeds`, the same expectation the
criterion `Intra.closed` uses for `builtin` instructions).

Full-strength statements (kept visible):
  `BuiltinTableCovers`       — every handled builtin transfers every needed operand at every arity
                               x/tools can produce (min/max are variadic);
  `BuiltinsIdentifiedByType` — the pass recognises builtins as `*ssa.Builtin`, not by name.
Both were FALSE on the pinned tree 25e32d0 (findings F3, F2) and hold since the repairs 698a6c8 /
a4d0e93: they are proved below over the regenerated table (`builtin_table_covers`,
`builtins_identified_by_type`), so a return of either defect makes the kernel reject the build.  The
negation witness is kept as a theorem about a literal copy of the OLD table.
-/
import Argot.Model.BuiltinTable
import Argot.Gen.T5Builtins

namespace Argot.BuiltinTable
open Argot.Intra Argot.Gen

/-- every (name, arity) x/tools SSA can produce for a handled builtin. -/
def Possible (name : String) (n : Nat) : Prop :=
  (name, n) ∈ fixedCases ∨ ((name = "min" ∨ name = "max") ∧ 1 ≤ n)

def BuiltinTableCovers (hs : List Handled) (rows : List Row) : Prop :=
  ∀ name n, Possible name n → covers hs rows name n = true

def BuiltinsIdentifiedByType : Prop := T5.identifiedByType = true

theorem builtinNeeds_lt {name : String} {n k : Nat} (h : k ∈ builtinNeeds name n) : k < n := by
  unfold builtinNeeds at h
  split at h
  · exact List.mem_range.1 (List.mem_of_mem_take h)
  · split at h
    · exact List.mem_range.1 h
    · split at h
      · exact List.mem_range.1 (List.mem_of_mem_take h)
      · cases h

/-- the decidable sufficient condition is sound: a guard-free row transferring the whole argument
list covers every arity. -/
theorem coversAllArities_sound {hs : List Handled} {rows : List Row} {name : String}
    (h : coversAllArities rows name = true) (n : Nat) : covers hs rows name n = true := by
  unfold covers
  rw [Bool.or_eq_true]
  right
  rw [List.all_eq_true]
  intro k hk
  unfold coversAllArities at h
  obtain ⟨r, hr, hc⟩ := List.any_eq_true.1 h
  simp only [Bool.and_eq_true] at hc
  obtain ⟨⟨hn, ha⟩, ht⟩ := hc
  have hmem : (Ref.allArgs, Ref.result) ∈ r.transfers := by simpa using ht
  have hg : guardOK r.arity n = true := by
    cases hra : r.arity with
    | none => rfl
    | some _ => rw [hra] at ha; cases ha
  rw [List.contains_iff_mem]
  unfold transfersOf
  rw [List.mem_flatMap]
  refine ⟨r, hr, ?_⟩
  rw [hn, hg]
  simp only [Bool.and_self, if_true]
  rw [List.mem_flatMap]
  exact ⟨(Ref.allArgs, Ref.result), hmem, by simpa using builtinNeeds_lt hk⟩

/-! ### obligations over the regenerated table -/

/-- **T5, partial (holds on the tree as it is).** For every fixed-arity combination x/tools can
produce — including `min`/`max` with exactly two operands — a builtin that is declared handled
transfers every operand the property needs to its result. -/
theorem builtin_table_covers_partial :
    (fixedCases.all fun c => covers T5.handled T5.rows c.1 c.2) = true := by decide

/-- **T5, variadic min/max (full strength, unbounded in the arity).** The code transfers every
operand of `min` / `max` to the result at every arity (finding F3, repaired by 698a6c8: a return of
the exactly-two-operands guard makes `decide` fail here). -/
theorem builtin_minmax_all_arities :
    ∀ n, covers T5.handled T5.rows "min" n = true ∧ covers T5.handled T5.rows "max" n = true :=
  fun n => ⟨coversAllArities_sound (by decide) n, coversAllArities_sound (by decide) n⟩

/-- **T5, identification (full strength).** Builtins are recognised through a type assertion to
`*ssa.Builtin` (finding F2, repaired by a4d0e93). -/
theorem builtins_identified_by_type : BuiltinsIdentifiedByType := by
  unfold BuiltinsIdentifiedByType; decide

/-- assembling the full-strength statement. -/
theorem builtin_table_covers_of_minmax
    (h : ∀ n, covers T5.handled T5.rows "min" n = true ∧ covers T5.handled T5.rows "max" n = true) :
    BuiltinTableCovers T5.handled T5.rows := by
  intro name n hp
  rcases hp with hp | ⟨hm, _⟩
  · have := List.all_eq_true.1 builtin_table_covers_partial (name, n) hp
    simpa using this
  · rcases hm with rfl | rfl
    · exact (h n).1
    · exact (h n).2

/-- **T5 (full strength).** Every handled builtin transfers every operand the property needs, at
every arity x/tools can produce. -/
theorem builtin_table_covers : BuiltinTableCovers T5.handled T5.rows :=
  builtin_table_covers_of_minmax builtin_minmax_all_arities

/-! ### negation witness on a literal copy of the table at the pinned commit 25e32d0 (before 698a6c8) -/

def pinnedHandled : List Handled :=
  [⟨["ssa:wrapnilchk"], none⟩, ⟨["append", "len", "close", "delete", "println", "print", "recover", "cap"], none⟩,
   ⟨["complex", "imag", "real"], none⟩, ⟨["min", "max", "clear"], none⟩, ⟨["copy"], some 2⟩, ⟨["Error"], none⟩]

def pinnedRows : List Row :=
  [⟨["ssa:wrapnilchk"], none, [(.allArgs, .result)]⟩,
   ⟨["append"], some 2, [(.arg 0, .result), (.arg 1, .arg 0), (.arg 1, .result)]⟩,
   ⟨["copy"], some 2, [(.arg 1, .arg 0)]⟩, ⟨["cap"], none, []⟩,
   ⟨["complex", "min", "max"], some 2, [(.arg 1, .result), (.arg 0, .result)]⟩,
   ⟨["len", "imag", "real"], none, [(.allArgs, .result)]⟩, ⟨["close", "delete", "clear"], none, []⟩,
   ⟨["println", "print"], none, []⟩, ⟨["recover"], none, []⟩, ⟨["Error"], none, [(.recv, .result)]⟩]

/-- F3: `min(a, b, c)` is declared handled and nothing is transferred. -/
theorem pinned_not_covers : ¬ BuiltinTableCovers pinnedHandled pinnedRows := by
  intro h
  have := h "min" 3 (Or.inr ⟨Or.inl rfl, by decide⟩)
  exact absurd this (by decide)

#print axioms builtin_table_covers_partial
#print axioms builtin_minmax_all_arities
#print axioms builtins_identified_by_type
#print axioms builtin_table_covers
#print axioms pinned_not_covers

end Argot.BuiltinTable
