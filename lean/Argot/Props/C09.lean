/-
C09 — Built-in standard-library summaries over-approximate the real functions.

Property theorems only (model: Argot/Model/Summ.lean, Argot/Model/SGraphEdges.lean; lemmas:
Argot/Proofs/Summ.lean; the table: Argot/Gen/StdTable.lean, regenerated from the Go source by
`harness/extract T6` on every run).

Quantifiers: `apply_exact`, `apply_conforming`, `dropped_iff_out_of_range`, `edge_iff_listed` hold for
every signature, every summary (matrices of any shape, negative and out-of-range positions included)
— this is the application half of the property ("a real flow is never lost because positions do not
line up": a position is lost iff it is out of range, and only then).  `std_table_conforms` ranges over
every row of the table as it is in the source *now*.

The semantic half (the body of each standard-library function exhibits no flow absent from its row)
is not modelled; it is searched by native execution in the driver (labelled partial).
-/
import Argot.Proofs.Summ
import Argot.Proofs.Contract
import Argot.Gen.StdTable
import Argot.Spec.Summ

namespace Argot.Summ
open Argot.SGraph

/-- **Application is exact.**  `PopulateGraphFromSummary` on a fresh summary graph creates, in order,
exactly the edges of the in-range written positions; the positions for which the helper returned
`false` (nothing is logged) are exactly the out-of-range ones; the `in` maps mirror the `out` maps
with the same tuple index and are functional. -/
theorem apply_exact (sg : Sig) (hasRet : Bool) (s : Summary) :
    (apply sg hasRet s).g.out = (s.listed.filter (Pos.ok sg hasRet)).map Pos.edge ∧
    (apply sg hasRet s).dropped = s.listed.filter (fun p => !p.ok sg hasRet) ∧
    (∀ d src i, (d, src, i) ∈ (apply sg hasRet s).g.inn ↔ (src, d, i) ∈ (apply sg hasRet s).g.out) ∧
    inKeysUnique (apply sg hasRet s).g.inn = true := apply_exact' sg hasRet s

/-- For a conforming summary nothing is dropped and every written position has its edge. -/
theorem apply_conforming (sg : Sig) (hasRet : Bool) (s : Summary) (hc : conforms sg hasRet s = true) :
    (apply sg hasRet s).dropped = [] ∧ (apply sg hasRet s).g.out = s.listed.map Pos.edge :=
  apply_conforming' sg hasRet s hc

/-- The silently discarded positions are exactly the written positions out of range … -/
theorem dropped_iff_out_of_range (sg : Sig) (hasRet : Bool) (s : Summary) (p : Pos) :
    p ∈ (apply sg hasRet s).dropped ↔ p ∈ s.listed ∧ p.ok sg hasRet = false :=
  dropped_iff_out_of_range' sg hasRet s p

/-- … where "in range" means what it says: -/
theorem ok_iff (sg : Sig) (hasRet : Bool) (a b : Int) :
    ((Pos.arg a b).ok sg hasRet = true ↔ (0 ≤ a ∧ a < sg.nParams) ∧ (0 ≤ b ∧ b < sg.nParams)) ∧
    ((Pos.ret a b).ok sg hasRet = true ↔ (0 ≤ a ∧ a < sg.nParams) ∧ (0 ≤ b ∧ b < sg.nResults) ∧ hasRet = true) :=
  ⟨ok_arg_iff' sg hasRet a b, ok_ret_iff' sg hasRet a b⟩

/-- **Edges are exactly the written in-range flows** (used again by C10): for in-range `i`, `j`
the summary graph has the edge `param i → result j` iff `Rets[i]` lists `j`; likewise `param i → param k`
iff `Args[i]` lists `k`. -/
theorem edge_iff_listed (sg : Sig) (s : Summary) (i : Nat) (hi : i < sg.nParams) :
    (∀ j, j < sg.nResults →
      ((PNode.param i, PNode.ret j, (j : Int)) ∈ (apply sg true s).g.out ↔ ∃ row, s.rets[i]? = some row ∧ (j : Int) ∈ row)) ∧
    (∀ k, k < sg.nParams →
      ((PNode.param i, PNode.param k, (0 : Int)) ∈ (apply sg true s).g.out ↔ ∃ row, s.args[i]? = some row ∧ (k : Int) ∈ row)) :=
  edge_iff_listed' sg s i hi

/-! ### the regenerated table -/

/-- The full statement: every row that names a function of the installed library fits its signature. -/
def StdTableConforms : Prop := ∀ e ∈ Gen.stdTable, e.conforms = true

/-- **Whole-table conformance (partial: the recorded rows excepted)**, re-decided by the kernel over the
table extracted from the current source. -/
theorem std_table_conforms : ∀ e ∈ Gen.stdTable, e.key ∉ knownMisfits → e.conforms = true := by
  have h : (Gen.stdTable.all fun e => e.conforms || knownMisfits.contains e.key) = true := by decide +kernel
  intro e he hk
  have := List.all_eq_true.1 h e he
  simp only [Bool.or_eq_true, List.contains_eq_mem, decide_eq_true_eq] at this
  exact this.resolve_right hk

/-- Applying any row of the table outside the recorded ones loses no written position (given that
the function has a return node whenever it has results, which the driver checks on the real graph). -/
theorem std_rows_lose_nothing (e : StdEntry) (he : e ∈ Gen.stdTable) (hk : e.key ∉ knownMisfits)
    (sg : Sig) (hs : e.sig = some sg) : (apply sg true e.summ).dropped = [] := by
  have := std_table_conforms e he hk
  simp only [StdEntry.conforms, hs] at this
  exact (apply_conforming sg true e.summ this).1

/-- the extraction produced a table (a translator that silently produced nothing would make the
theorems above vacuous). -/
theorem std_table_nonempty : 300 ≤ Gen.stdTable.length ∧ Gen.stdTable.length = Gen.stdTableSize ∧
    200 ≤ (Gen.stdTable.filter fun e => e.sig.isSome).length := by decide +kernel

/-- **A written flow is produced when the summary is applied at a call site**: for every row of the table
outside the recorded ones, in the one-call program `a_i := source(); r… := f(a…); sink(r_j)…; sink(a_k)…`
(f linked to the row's predefined summary graph) the visitor model of C10 reports `sink(r_j)` iff the row
lists `j` for `i`, and `sink(a_k)` iff it lists `k` — nothing written is lost, nothing unwritten appears. -/
theorem std_flows_reported (e : StdEntry) (he : e ∈ Gen.stdTable) (hk : e.key ∉ knownMisfits)
    (sg : Sig) (hs : e.sig = some sg) (i : Nat) (hi : i < sg.nParams) (ptr : Nat → Bool) :
    let p : Contract.OneCall := ⟨sg, e.summ, i, ptr, fun j => j⟩
    (Contract.visitOneCall p (Contract.defaultFuel p)).converged = true ∧
    (∀ j, Sum.inl j ∈ (Contract.visitOneCall p (Contract.defaultFuel p)).reported ↔
      j < sg.nResults ∧ ∃ row, e.summ.rets[i]? = some row ∧ (j : Int) ∈ row) ∧
    (∀ k, Sum.inr k ∈ (Contract.visitOneCall p (Contract.defaultFuel p)).reported ↔
      k < sg.nParams ∧ k ≠ i ∧ ptr k = true ∧ ∃ row, e.summ.args[i]? = some row ∧ (k : Int) ∈ row) ∧
    (apply sg true e.summ).dropped = [] := by
  intro p
  have hc := Contract.converged_default p hi (fun j _ => rfl)
  have hx := Contract.visitOneCall_exact p hi (fun j _ => rfl) _ hc
  exact ⟨hc, hx.1, hx.2, std_rows_lose_nothing e he hk sg hs⟩

/-! ### negation witness in the model (independent of the table): a written position out of range is lost -/

/-- `strings.Join(elems []string, sep string) string` with the row `Args {{0},{1}}, Rets {{0},{1}}`:
the separator's flow to the (only) result is written at result index 1, which does not exist; the
edge `param 1 → result` is not created and nothing else carries it. -/
theorem misfit_loses_flow :
    let s : Summary := ⟨[[0], [1]], [[0], [1]]⟩
    let sg : Sig := ⟨2, 1⟩
    conforms sg true s = false ∧ (apply sg true s).dropped = [Pos.ret 1 1] ∧
    (∀ i, (PNode.param 1, PNode.ret 0, i) ∉ (apply sg true s).g.out) := by
  refine ⟨by decide, by decide, ?_⟩
  intro i
  have : (apply ⟨2, 1⟩ true ⟨[[0], [1]], [[0], [1]]⟩).g.out =
      [(.param 0, .param 0, 0), (.param 1, .param 1, 0), (.param 0, .ret 0, 0)] := by decide
  rw [this]; simp

/-! ### non-vacuity -/

example : (apply ⟨2, 1⟩ true ⟨[[0], [0, 1]], [[0], [0]]⟩).g.out =
    [(.param 0, .param 0, 0), (.param 1, .param 0, 0), (.param 1, .param 1, 0), (.param 0, .ret 0, 0), (.param 1, .ret 0, 0)] ∧
    (apply ⟨2, 1⟩ true ⟨[[0], [0, 1]], [[0], [0]]⟩).dropped = [] := by decide

example : (apply ⟨1, 2⟩ false ⟨[[0, 3], [-1]], [[1]]⟩).dropped = [Pos.arg 0 3, Pos.arg 1 (-1), Pos.ret 0 1] := by decide

example : ∃ e ∈ Gen.stdTable, e.key = "strings.Replace" ∧ e.conforms = true := by decide +kernel

#print axioms apply_exact
#print axioms apply_conforming
#print axioms dropped_iff_out_of_range
#print axioms edge_iff_listed
#print axioms std_table_conforms
#print axioms std_rows_lose_nothing
#print axioms std_flows_reported
#print axioms misfit_loses_flow

end Argot.Summ
