/-
C10 — User dataflow specifications are applied exactly as written.

Property theorems only (models: Argot/Model/Contract.lean, Argot/Model/Summ.lean; lemmas:
Argot/Proofs/Summ.lean, Argot/Proofs/Contract.lean).

Quantifiers: every signature and every specification (matrices of any shape and arity — not only
arity ≤ 3), every environment (contract map, implementation map, call graph, summaries computed from
bodies), every call instruction.
-/
import Argot.Proofs.Contract

namespace Argot.Contract
open Argot.Summ Argot.SGraph

/-! ### the summary graph of a specification -/

/-- **The graph built for a specification has exactly the listed edges** (any arity): for in-range
positions, `param i → result j` iff `Rets[i]` lists `j`, and `param i → param k` iff `Args[i]` lists `k`;
no other out edge exists. -/
theorem contract_edges_iff (sg : Sig) (spec : Summary) (i : Nat) (hi : i < sg.nParams) :
    (∀ j, j < sg.nResults →
      ((PNode.param i, PNode.ret j, (j : Int)) ∈ (apply sg true spec).g.out ↔ ∃ row, spec.rets[i]? = some row ∧ (j : Int) ∈ row)) ∧
    (∀ k, k < sg.nParams →
      ((PNode.param i, PNode.param k, (0 : Int)) ∈ (apply sg true spec).g.out ↔ ∃ row, spec.args[i]? = some row ∧ (k : Int) ∈ row)) :=
  edge_iff_listed' sg spec i hi

/-- every out edge of the specification graph comes from a written, in-range position. -/
theorem contract_edges_only_listed (sg : Sig) (spec : Summary) (e : PNode × PNode × Idx)
    (he : e ∈ (apply sg true spec).g.out) : ∃ p ∈ spec.listed, p.ok sg true = true ∧ p.edge = e := by
  rw [(apply_exact' sg true spec).1, List.mem_map] at he
  obtain ⟨p, hp, rfl⟩ := he
  rw [List.mem_filter] at hp
  exact ⟨p, hp.1, hp.2, rfl⟩

/-! ### which summary a call is linked to -/

/-- **An interface-method specification takes precedence** over the analysed implementations and over a
function specification of the implementation: a dynamic call whose method key has a (built) interface
contract resolves to exactly one callee, of kind `InterfaceContract`, and the call node is linked to the
interface contract's graph — whatever the call graph, the implementation map, the summaries computed
from bodies, the predefined table and the other contracts say. -/
theorem interface_contract_precedes {B} (env : Env B) (c : Call) (g : CGraph)
    (hs : c.static = none) (hinv : c.invoke = true) (hc : env.contracts c.methodKey = some (some g)) :
    resolveCallee env c true = [(g.parent, .interfaceContract)] ∧
    linkCallee env c (g.parent, .interfaceContract) = .contract g := by
  constructor
  · simp [resolveCallee, hs, hc]
  · simp [linkCallee, loadExternal, hinv, hc]

/-- the same, stated against competing information: changing everything except the interface contract
does not change the outcome. -/
theorem interface_contract_independent {B} (env env' : Env B) (c : Call) (g : CGraph)
    (hs : c.static = none) (hinv : c.invoke = true)
    (hc : env.contracts c.methodKey = some (some g)) (hc' : env'.contracts c.methodKey = some (some g)) (cg' : List String) :
    resolveCallee env c true = resolveCallee env' { c with cg := cg' } true ∧
    linkCallee env c (g.parent, .interfaceContract) = linkCallee env' { c with cg := cg' } (g.parent, .interfaceContract) := by
  have h1 := interface_contract_precedes env c g hs hinv hc
  have h2 := interface_contract_precedes env' { c with cg := cg' } g hs hinv hc'
  exact ⟨h1.1.trans h2.1.symm, h1.2.trans h2.2.symm⟩

/-- a statically resolved call to a function that has a (built) function specification is linked to it. -/
theorem function_contract_linked {B} (env : Env B) (c : Call) (f : String) (g : CGraph)
    (hs : c.static = some f) (hc : env.contracts f = some (some g)) :
    resolveCallee env c true = [(f, .static)] ∧ linkCallee env c (f, .static) = .contract g := by
  constructor
  · simp [resolveCallee, hs]
  · simp [linkCallee, loadExternal, hc]

/-- **The body is not consulted.**  When a contract applies to a callee, the linked summary does not
depend on the summaries computed from function bodies (nor on the predefined table) … -/
theorem body_irrelevant {B} (env : Env B) (built' : String → Option B) (predef' : String → Option Summary)
    (c : Call) (callee : String × CalleeType) (g : CGraph) (h : loadExternal env c callee = some g) :
    linkCallee { env with built := built', predef := predef' } c callee = .contract g ∧
    linkCallee env c callee = .contract g := by
  have h' : loadExternal { env with built := built', predef := predef' } c callee = some g := h
  simp [linkCallee, h, h']

/-- … its edges are those of the specification alone (`Summ.apply` of the written matrices on the
signature of the function the graph was created on) … -/
theorem contract_graph_is_spec (sg : Sig) (g : CGraph) :
    (apply sg true g.spec).g.out = (g.spec.listed.filter (Pos.ok sg true)).map Pos.edge :=
  (apply_exact' sg true g.spec).1

/-- … and no summary is built from the body of a function that has a specification (directly, or
through the interface method it implements). -/
theorem contract_function_not_summarised {B} (env : Env B) (f : String)
    (h : (∃ g, env.keys f = none ∧ env.contracts f = some g) ∨
         (∃ k g, env.keys f = some k ∧ env.contracts k = some (some g))) :
    shouldBuildSummary env f = false := by
  rcases h with ⟨g, hk, hc⟩ | ⟨k, g, hk, hc⟩ <;> simp [shouldBuildSummary, hasExternalContract, hk, hc]

/-! ### the visitor on a one-call program (all arities) -/

/-- **Flows are reported exactly as written.**  In the one-call program
`a_i := source(); r… := f(a…); sink(r_j)…; sink(a_k)…` where `f` is linked to the graph of a
specification, the visitor reports `sink(r_j)` iff `Rets[i]` lists `j`, and `sink(a_k)` (k ≠ i, an
argument whose node has an edge to its later use) iff `Args[i]` lists `k`. -/
theorem contract_flows_iff (p : OneCall) (hi : p.i < p.sg.nParams)
    (hidx : ∀ j, j < p.sg.nResults → p.resIdx j = (j : Int))
    (fuel : Nat) (hconv : (visitOneCall p fuel).converged = true) :
    (∀ j, Sum.inl j ∈ (visitOneCall p fuel).reported ↔
      j < p.sg.nResults ∧ ∃ row, p.spec.rets[p.i]? = some row ∧ (j : Int) ∈ row) ∧
    (∀ k, Sum.inr k ∈ (visitOneCall p fuel).reported ↔
      k < p.sg.nParams ∧ k ≠ p.i ∧ p.ptr k = true ∧ ∃ row, p.spec.args[p.i]? = some row ∧ (k : Int) ∈ row) :=
  visitOneCall_exact p hi hidx fuel hconv

/-- the visitor loop on a one-call program terminates within the fuel the oracle gives it … -/
theorem contract_visit_terminates (p : OneCall) (hi : p.i < p.sg.nParams)
    (hidx : ∀ j, j < p.sg.nResults → p.resIdx j = (j : Int)) :
    (visitOneCall p (defaultFuel p)).converged = true :=
  converged_default p hi hidx

/-- … so the statement holds unconditionally for the run the oracle performs. -/
theorem contract_flows_iff_default (p : OneCall) (hi : p.i < p.sg.nParams)
    (hidx : ∀ j, j < p.sg.nResults → p.resIdx j = (j : Int)) :
    (∀ j, Sum.inl j ∈ (visitOneCall p (defaultFuel p)).reported ↔
      j < p.sg.nResults ∧ ∃ row, p.spec.rets[p.i]? = some row ∧ (j : Int) ∈ row) ∧
    (∀ k, Sum.inr k ∈ (visitOneCall p (defaultFuel p)).reported ↔
      k < p.sg.nParams ∧ k ≠ p.i ∧ p.ptr k = true ∧ ∃ row, p.spec.args[p.i]? = some row ∧ (k : Int) ∈ row) :=
  contract_flows_iff p hi hidx _ (contract_visit_terminates p hi hidx)

/-! ### call forms -/

/-- **Deferred and spawned calls** (`defer f(a…)`, `go f(a…)`).  The language discards the results of such a
call: the call node has no out edge, and the driver runs the model on the *observed* signature
`⟨nParams, 0⟩`.  Nothing is lost by that: no result flow is reported, the argument flows are those of the run
on the full signature, i.e. exactly the listed ones.  (Which instruction — `Call`, `Defer`, `Go` — carries the
call is not an input of `resolveCallee` / `linkCallee`: `Call` has no such field, so the theorems of the
previous section hold for every call form; closures and method expressions only change the function that
contains the call, which `OneCall` does not mention either.) -/
theorem contract_flows_discarded_results (p : OneCall) (hi : p.i < p.sg.nParams)
    (hidx : ∀ j, j < p.sg.nResults → p.resIdx j = (j : Int)) :
    let p0 : OneCall := { p with sg := ⟨p.sg.nParams, 0⟩ }
    (∀ j, Sum.inl j ∉ (visitOneCall p0 (defaultFuel p0)).reported) ∧
    (∀ k, Sum.inr k ∈ (visitOneCall p0 (defaultFuel p0)).reported ↔
      Sum.inr k ∈ (visitOneCall p (defaultFuel p)).reported) ∧
    (∀ k, Sum.inr k ∈ (visitOneCall p0 (defaultFuel p0)).reported ↔
      k < p.sg.nParams ∧ k ≠ p.i ∧ p.ptr k = true ∧ ∃ row, p.spec.args[p.i]? = some row ∧ (k : Int) ∈ row) := by
  intro p0
  have h0 := contract_flows_iff_default p0 hi (fun j hj => absurd hj (Nat.not_lt_zero _))
  have h := contract_flows_iff_default p hi hidx
  exact ⟨fun j hj => Nat.not_lt_zero _ ((h0.1 j).1 hj).1, fun k => (h0.2 k).trans (h.2 k).symm, h0.2⟩

/-! ### non-vacuity -/

/-- a deferred call of a two-result function: only the listed argument flow is observable. -/
example : (visitOneCall ⟨⟨2, 0⟩, ⟨[[0, 1], []], [[0, 1], []]⟩, 0, fun _ => true, fun j => j⟩ 30).reported = [.inr 1] := by
  decide

example : (visitOneCall ⟨⟨3, 2⟩, ⟨[[1], [2], []], [[], [], [1]]⟩, 0, fun _ => true, fun j => j⟩ 30).reported = [.inr 1] := by
  decide

example : (visitOneCall ⟨⟨2, 2⟩, ⟨[[0, 1], []], [[0, 1], []]⟩, 0, fun _ => true, fun j => j⟩ 30).reported = [.inl 0, .inl 1, .inr 1] := by
  decide

example : resolveCallee (B := Unit)
    { contracts := fun k => if k = "p.I.M" then some (some ⟨"(*p.T).M", ⟨[[0]], [[0]]⟩, true⟩) else
                            if k = "(*p.T).M" then some (some ⟨"(*p.T).M", ⟨[[]], [[]]⟩, false⟩) else none,
      keys := fun _ => none, impls := fun _ => ["(*p.T).M", "(*p.U).M"], built := fun _ => some (), predef := fun _ => none }
    { static := none, invoke := true, methodKey := "p.I.M", cg := ["(*p.T).M", "(*p.U).M"] } true
    = [("(*p.T).M", .interfaceContract)] := by decide

#print axioms contract_edges_iff
#print axioms contract_edges_only_listed
#print axioms interface_contract_precedes
#print axioms interface_contract_independent
#print axioms function_contract_linked
#print axioms body_irrelevant
#print axioms contract_function_not_summarised
#print axioms contract_flows_iff
#print axioms contract_visit_terminates
#print axioms contract_flows_iff_default
#print axioms contract_flows_discarded_results

end Argot.Contract
