/-
C11 — Pointer analysis never misses an alias that occurs at run time.

Property theorems only (machine: Argot/Spec/PtrMachine.lean; criterion: Argot/Model/Ptr.lean; invariant
lemmas: Argot/Proofs/Ptr.lean).

Quantifiers: every program `P` of SSA facts (any number of functions, any instructions, any call forms),
every result `R` (points-to sets, call graph, reachable set, derived heap table) that satisfies the two
decidable criteria, every execution of the pointer machine of any length (all interleavings of all
threads, all choices of object identities and of map / channel / array indices), every thread, frame
and register.  The criteria are evaluated by the compiled oracle on the REAL result of
`internal/pointer` for every generated program (tie V2); the solver's internals (HVN, cycle
detection, constraint generation) are covered only through the result.
-/
import Argot.Proofs.Ptr

namespace Argot.Ptr

/-- **Allocation-site soundness.**  If the result is closed, then in every reachable machine state every
register that holds a pointer into an object allocated at site `s` (at abstract path `π`) and whose
points-to set was queried has the label `(s, π)` in that set. -/
theorem closed_sound (P : Prog) (R : Res) (hp : ptrClosed P R = true) (hc : cgClosed P R = true)
    {σ : State} (h : Reachable P σ) {stk : List Frame} (hstk : stk ∈ σ.threads) {fr : Frame} (hfr : fr ∈ stk)
    {r : Nat} {o : Obj} {p : List CSel} {S : List Label}
    (hv : fr.regs r = Val.ptr o p) (hS : R.pt fr.fn r = some S) : (o.site, absPath p) ∈ S := by
  have hI := reachable_inv hp hc h
  have hf := stackInv_frames stk (hI.threads stk hstk) fr hfr
  have := hf.2 r
  rw [hv, hS] at this
  exact cov_ptr_mem this

/-- the same for function values (the label of a function or of any of its closures) -/
theorem closed_sound_fn (P : Prog) (R : Res) (hp : ptrClosed P R = true) (hc : cgClosed P R = true)
    {σ : State} (h : Reachable P σ) {stk : List Frame} (hstk : stk ∈ σ.threads) {fr : Frame} (hfr : fr ∈ stk)
    {r g : Nat} {S : List Label}
    (hv : fr.regs r = Val.fn g) (hS : R.pt fr.fn r = some S) : (Site.fn g, []) ∈ S := by
  have hI := reachable_inv hp hc h
  have hf := stackInv_frames stk (hI.threads stk hstk) fr hfr
  have := hf.2 r
  rw [hv, hS] at this
  exact cov_fn_mem this

/-- heap cells: a pointer stored in a cell is in the derived heap table at the cell's label -/
theorem closed_sound_heap (P : Prog) (R : Res) (hp : ptrClosed P R = true) (hc : cgClosed P R = true)
    {σ : State} (h : Reachable P σ) {o o' : Obj} {q p' : List CSel}
    (hv : σ.mem.heap o q = Val.ptr o' p') : (o'.site, absPath p') ∈ R.heap (o.site, absPath q) := by
  have hI := reachable_inv hp hc h
  have := hI.mem.heap o q
  rw [hv] at this
  exact this _ rfl

/-- **Indirect queries** (`pts(*v)`, used by the dataflow alias marking): if additionally `iqClosed`, then
whatever pointer is stored in the cell a register points to is in the register's indirect set. -/
theorem indirect_sound (P : Prog) (R : Res) (hp : ptrClosed P R = true) (hc : cgClosed P R = true)
    (hq : iqClosed R = true)
    {σ : State} (h : Reachable P σ) {stk : List Frame} (hstk : stk ∈ σ.threads) {fr : Frame} (hfr : fr ∈ stk)
    {r : Nat} {o o' : Obj} {p p' : List CSel} {L : List Label}
    (hv : fr.regs r = Val.ptr o p) (hcell : σ.mem.heap o p = Val.ptr o' p')
    (hL : (fr.fn, r, L) ∈ R.iq) : (o'.site, absPath p') ∈ L := by
  have hI := reachable_inv hp hc h
  have hf := stackInv_frames stk (hI.threads stk hstk) fr hfr
  simp only [iqClosed, List.all_eq_true] at hq
  have h1 := hq _ hL
  simp only [hf.1, Bool.not_true, Bool.false_or] at h1
  obtain ⟨S, hS, hall⟩ := srcs_some h1
  have hmem := closed_sound P R hp hc h hstk hfr hv hS
  simp only [List.all_eq_true] at hall
  exact subL_iff.1 (hall _ hmem) _ (closed_sound_heap P R hp hc h hcell)

/-- **May-alias soundness.**  Two registers (of any two frames of any threads) that hold, in the same
reachable state, pointers to the same location of the same object (more generally: to locations of one
object with the same abstract path) have intersecting points-to sets: `mayAlias` answers true. -/
theorem may_alias_sound (P : Prog) (R : Res) (hp : ptrClosed P R = true) (hc : cgClosed P R = true)
    {σ : State} (h : Reachable P σ)
    {stk₁ stk₂ : List Frame} (h₁ : stk₁ ∈ σ.threads) (h₂ : stk₂ ∈ σ.threads)
    {fr₁ fr₂ : Frame} (hf₁ : fr₁ ∈ stk₁) (hf₂ : fr₂ ∈ stk₂)
    {r₁ r₂ : Nat} {o : Obj} {p₁ p₂ : List CSel} {S₁ S₂ : List Label}
    (hv₁ : fr₁.regs r₁ = Val.ptr o p₁) (hv₂ : fr₂.regs r₂ = Val.ptr o p₂) (hp12 : absPath p₁ = absPath p₂)
    (hS₁ : R.pt fr₁.fn r₁ = some S₁) (hS₂ : R.pt fr₂.fn r₂ = some S₂) :
    mayAlias S₁ S₂ = true := by
  have m₁ := closed_sound P R hp hc h h₁ hf₁ hv₁ hS₁
  have m₂ := closed_sound P R hp hc h h₂ hf₂ hv₂ hS₂
  rw [← hp12] at m₂
  simp only [mayAlias, List.any_eq_true]
  exact ⟨_, m₁, List.contains_iff_mem.2 m₂⟩

/-- in particular for equal addresses -/
theorem may_alias_same_address (P : Prog) (R : Res) (hp : ptrClosed P R = true) (hc : cgClosed P R = true)
    {σ : State} (h : Reachable P σ)
    {stk₁ stk₂ : List Frame} (h₁ : stk₁ ∈ σ.threads) (h₂ : stk₂ ∈ σ.threads)
    {fr₁ fr₂ : Frame} (hf₁ : fr₁ ∈ stk₁) (hf₂ : fr₂ ∈ stk₂)
    {r₁ r₂ : Nat} {v : Val} {o : Obj} {p : List CSel} {S₁ S₂ : List Label} (hv : v = Val.ptr o p)
    (hv₁ : fr₁.regs r₁ = v) (hv₂ : fr₂.regs r₂ = v)
    (hS₁ : R.pt fr₁.fn r₁ = some S₁) (hS₂ : R.pt fr₂.fn r₂ = some S₂) :
    mayAlias S₁ S₂ = true :=
  may_alias_sound P R hp hc h h₁ h₂ hf₁ hf₂ (hv ▸ hv₁) (hv ▸ hv₂) rfl hS₁ hS₂

/-! ### non-vacuity

`exP`:  main (function 0) = { r0 := new S (site 0); r1 := &r0.f ; *r1 := r0 ; r2 := *r1 ; r3 := id(r2) }
        id   (function 1) = { return p0 }                                                                -/

def exP : Prog :=
  { funcs := #[
      ⟨[], [], [.alloc 0 0, .addr 1 (.reg 0) (.field 7), .store (.reg 1) [] (.reg 0), .load 2 (.reg 1) [],
               .call 0 (.static 1) [.reg 2] [3] false]⟩,
      ⟨[0], [], [.ret [.reg 0]]⟩],
    methods := [], roots := [0] }

def exL : Label := (Site.alloc 0, [])
def exLf : Label := (Site.alloc 0, [ASel.field 7])

/-- a closed result for `exP` -/
def exR : Res :=
  { pt := fun f r => if f = 0 then (if r = 1 then some [exLf] else if r ≤ 3 then some [exL] else none)
                     else if f = 1 ∧ r = 0 then some [exL] else none,
    cg := fun f c g => f == 0 && c == 0 && g == 1,
    reach := fun f => f ≤ 1,
    heap := fun l => if l = exLf then [exL] else [] }

/-- the same result with the label dropped from the loaded register `r2`: not closed (the load rule fails) -/
def exRbad : Res :=
  { exR with pt := fun f r => if f = 0 ∧ r = 2 then some [] else exR.pt f r }

example : ptrClosed exP exR = true ∧ cgClosed exP exR = true := by decide
example : ptrClosed exP exRbad = false := by decide

/-- the criterion is not satisfied by dropping the call edge either -/
example : cgClosed exP { exR with cg := fun _ _ _ => false } = false := by decide

/-- and the machine really reaches a state in which `r2` of `main` holds a pointer to the object of site 0
(so the conclusion of `closed_sound` is about something that happens) -/
example : ∃ σ, Reachable exP σ ∧ ∃ stk ∈ σ.threads, ∃ fr ∈ stk, fr.fn = 0 ∧
    fr.regs 2 = Val.ptr ⟨5, Site.alloc 0⟩ [] := by
  let f0 : Frame := ⟨0, fun _ => Val.nil, []⟩
  let o : Obj := ⟨5, Site.alloc 0⟩
  let f1 := f0.set 0 (.ptr o [])
  let f2 := f1.set 1 (.ptr o ([] ++ [CSel.field 7]))
  let m1 := emptyMem.setHeap o [CSel.field 7] (.ptr o [])
  let f3 := f2.set 2 (m1.heap o [CSel.field 7])
  have s1 : Step exP ⟨[] ++ [f0] :: [], emptyMem⟩ none ⟨[] ++ [f1] :: [] ++ [], emptyMem⟩ :=
    Step.mk [] [] [f0] [f1] emptyMem emptyMem none none
      (TStep.next f0 [] emptyMem (.alloc 0 0) f1 emptyMem (by decide) (Exec.alloc 0 0 5))
  have s2 : Step exP ⟨[] ++ [f1] :: [], emptyMem⟩ none ⟨[] ++ [f2] :: [] ++ [], emptyMem⟩ :=
    Step.mk [] [] [f1] [f2] emptyMem emptyMem none none
      (TStep.next f1 [] emptyMem (.addr 1 (.reg 0) (.field 7)) f2 emptyMem (by decide)
        (Exec.addr 1 (.reg 0) (.field 7) o [] (CSel.field 7) (by simp [eval, f1, Frame.set]) rfl))
  have s3 : Step exP ⟨[] ++ [f2] :: [], emptyMem⟩ none ⟨[] ++ [f2] :: [] ++ [], m1⟩ :=
    Step.mk [] [] [f2] [f2] emptyMem m1 none none
      (TStep.next f2 [] emptyMem (.store (.reg 1) [] (.reg 0)) f2 m1 (by decide)
        (Exec.store (.reg 1) [] (.reg 0) o [CSel.field 7] [CSel.field 7]
          (by simp [eval, f2, Frame.set]) ⟨[], rfl, by simp⟩))
  have s4 : Step exP ⟨[] ++ [f2] :: [], m1⟩ none ⟨[] ++ [f3] :: [] ++ [], m1⟩ :=
    Step.mk [] [] [f2] [f3] m1 m1 none none
      (TStep.next f2 [] m1 (.load 2 (.reg 1) []) f3 m1 (by decide)
        (Exec.load 2 (.reg 1) [] o [CSel.field 7] [CSel.field 7] (by simp [eval, f2, Frame.set]) ⟨[], rfl, by simp⟩))
  refine ⟨_, Reachable.step (Reachable.step (Reachable.step (Reachable.step Reachable.init s1) s2) s3) s4,
    [f3], by simp, f3, by simp, rfl, ?_⟩
  simp [f3, f2, f1, m1, Frame.set, Mem.setHeap, o]

/-! ### axiom audit (compared with the allowed set by `check`) -/
#print axioms closed_sound
#print axioms closed_sound_fn
#print axioms closed_sound_heap
#print axioms indirect_sound
#print axioms may_alias_sound
#print axioms may_alias_same_address

end Argot.Ptr
