/-
C12 — The call graph contains every call that can happen at run time.

Property theorems only (machine: Argot/Spec/PtrMachine.lean; criteria: Argot/Model/Ptr.lean; clients:
Argot/Model/Cg.lean; invariant: Argot/Proofs/Ptr.lean; worklist theory: Argot/Base/Closure.lean).

Quantifiers: every program of SSA facts, every result satisfying the two decidable criteria, every
execution of the pointer machine (any length, any interleaving), every call event — static, through a
function value, a closure, a bound-method / thunk wrapper (wrappers are ordinary functions of the
facts, so a source-level call through a wrapper is a path of two edges) or an interface method.
`cgClosed` / `ptrClosed` are evaluated by the oracle on the REAL call graph and points-to sets of every
generated program.
-/
import Argot.Proofs.Ptr
import Argot.Model.Cg

namespace Argot.Cg
open Argot Argot.Ptr

/-- **Every call event is a call-graph edge at its site**, and both ends are in the reachable set. -/
theorem cg_sound (P : Prog) (R : Res) (hp : ptrClosed P R = true) (hc : cgClosed P R = true)
    {σ σ' : State} (h : Reachable P σ) {f c g : Nat} (hs : Step P σ (some (f, c, g)) σ') :
    R.cg f c g = true ∧ R.reach f = true ∧ R.reach g = true :=
  (step_inv hp hc (reachable_inv hp hc h) hs).2 (f, c, g) rfl

/-- **Every executed function is in the reachable-function set**: the function of every frame of every
thread of every reachable state. -/
theorem executed_reachable (P : Prog) (R : Res) (hp : ptrClosed P R = true) (hc : cgClosed P R = true)
    {σ : State} (h : Reachable P σ) {stk : List Frame} (hstk : stk ∈ σ.threads) {fr : Frame} (hfr : fr ∈ stk) :
    R.reach fr.fn = true :=
  (stackInv_frames stk ((reachable_inv hp hc h).threads stk hstk) fr hfr).1

/-! ### `CallGraphReachable` is the least set closed under the edges -/

def EdgeRel (edges : List (Nat × Nat)) (a b : Nat) : Prop := (a, b) ∈ edges

theorem poss_iff (edges : List (Nat × Nat)) (a b : Nat) :
    Closure.Poss id (succs edges) a b ↔ EdgeRel edges a b := by
  constructor
  · rintro ⟨x, rfl, y, hy, rfl⟩
    simp only [succs, List.mem_map, List.mem_filter, beq_iff_eq] at hy
    obtain ⟨e, ⟨he, h1⟩, h2⟩ := hy
    simp only [id] at *
    have : e = (x, y) := by cases e; simp_all
    simp only [EdgeRel]
    rw [← this]; exact he
  · intro h
    refine ⟨a, rfl, b, ?_, rfl⟩
    simp only [succs, List.mem_map, List.mem_filter, beq_iff_eq]
    exact ⟨(a, b), ⟨h, rfl⟩, rfl⟩

/-- `reach` computes exactly the functions reachable from the entry points along call-graph edges
(for every order in which the Go loop could pop its frontier: `Closure.order_independent`). -/
theorem reachable_is_closure (edges : List (Nat × Nat)) (roots : List Nat) (f : Nat) :
    f ∈ reach edges roots ↔ Closure.Reach (EdgeRel edges) roots f := by
  have h := Closure.run_eq_closure (key := id) (succ := succs edges) (fun a b hab a' ha' => ⟨a', by
      simp only [id] at hab; exact hab ▸ ha', rfl⟩)
    (fun a => a ∈ nodes edges roots)
    (by
      intro a _ a' ha'
      simp only [succs, List.mem_map, List.mem_filter] at ha'
      obtain ⟨e, ⟨he, _⟩, rfl⟩ := ha'
      simp only [nodes, List.mem_append, List.mem_map]
      exact Or.inr ⟨e, he, rfl⟩)
    (nodes edges roots) (fun a ha => ha)
    (roots := roots) (fun a ha => by simp [nodes, ha])
    (fuel := roots.length + (nodes edges roots).length) (Nat.le_refl _) f
  simp only [List.map_id] at h
  rw [reach, h]
  constructor
  · intro hr
    exact Closure.Reach.mono (fun _ hk => hk) (fun a b hab => (poss_iff edges a b).1 hab) hr
  · intro hr
    exact Closure.Reach.mono (fun _ hk => hk) (fun a b hab => (poss_iff edges a b).2 hab) hr

/-- least: contained in every set that contains the entry points and is closed under the edges -/
theorem reach_least (edges : List (Nat × Nat)) (roots : List Nat) (S : Nat → Prop)
    (hroot : ∀ r ∈ roots, S r) (hclosed : ∀ a b, S a → (a, b) ∈ edges → S b) :
    ∀ f ∈ reach edges roots, S f := fun _ hf =>
  Closure.Reach.least S hroot (fun _ _ ha hab => hclosed _ _ ha hab) ((reachable_is_closure edges roots _).1 hf)

/-- closed: contains the entry points and every callee of a member -/
theorem reach_closed (edges : List (Nat × Nat)) (roots : List Nat) :
    (∀ r ∈ roots, r ∈ reach edges roots) ∧
    (∀ a b, a ∈ reach edges roots → (a, b) ∈ edges → b ∈ reach edges roots) :=
  ⟨fun _ hr => (reachable_is_closure edges roots _).2 (Closure.Reach.root hr),
   fun _ _ ha hab => (reachable_is_closure edges roots _).2
     (Closure.Reach.step ((reachable_is_closure edges roots _).1 ha) hab)⟩

/-! ### `ResolveCallee` never omits the function actually called -/

/-- For a call instruction of the running function that executes with callee frame `nf`: the callee is
among the functions `resolveCallee` returns, provided the list of call-graph callees it is given is the
complete list for that site (`byType` — the fallback — may be anything: it is only used when the call
graph has no callee at the site, and then no call can happen there). -/
theorem resolveCallee_contains_actual (P : Prog) (R : Res) (hp : ptrClosed P R = true) (hc : cgClosed P R = true)
    {σ : State} (h : Reachable P σ) {fr : Frame} {stk : List Frame} (hstk : (fr :: stk) ∈ σ.threads)
    {c : Nat} {callee : Callee} {args : List Opnd} {dsts : List Nat} {spawn : Bool} {nf : Frame} {ev : Event}
    (hi : Instr.call c callee args dsts spawn ∈ P.code fr.fn)
    (hex : Exec P fr σ.mem (.call c callee args dsts spawn) (.call nf spawn ev))
    (cgCallees byType : List Nat) (hcg : ∀ g, R.cg fr.fn c g = true → g ∈ cgCallees) :
    nf.fn ∈ resolveCallee (staticOf callee) cgCallees byType := by
  have hI := reachable_inv hp hc h
  have hf := (hI.threads _ hstk).head
  obtain ⟨h1, h2, h3, _, _⟩ :=
    exec_call (instrOK_of_closed hp hf.1 hi) (cgInstrOK_of_closed hc hf.1 hi) hf.2 hI.mem hex
  have hev : ev.2.1 = c := by cases hex; rfl
  have hmem : nf.fn ∈ cgCallees := by
    apply hcg
    rw [← h1, ← hev, ← h2]; exact h3
  cases hex with
  | call _ _ _ _ _ g captured actuals hres =>
    cases hres with
    | static g => simp [resolveCallee, staticOf, newFrame]
    | func x g he =>
      simp only [resolveCallee, staticOf]
      split
      · next hemp => simp [List.isEmpty_iff.1 hemp] at hmem
      · exact hmem
    | closure x o g he hs =>
      simp only [resolveCallee, staticOf]
      split
      · next hemp => simp [List.isEmpty_iff.1 hemp] at hmem
      · exact hmem
    | invoke x mth o n t g paths cells he hs hm hcells =>
      simp only [resolveCallee, staticOf]
      split
      · next hemp => simp [List.isEmpty_iff.1 hemp] at hmem
      · exact hmem

/-! ### non-vacuity -/

/-- main → f, main → g, g → h, k → main (k itself not reachable) -/
def exEdges : List (Nat × Nat) := [(0, 1), (0, 2), (2, 3), (4, 0)]

example : reach exEdges [0] = [3, 2, 1, 0] := by decide
example : 4 ∉ reach exEdges [0] := by decide
example : resolveCallee none [] [7, 8] = [7, 8] ∧ resolveCallee none [5] [7, 8] = [5] ∧
    resolveCallee (some 1) [5] [7] = [1] := by decide

#print axioms cg_sound
#print axioms executed_reachable
#print axioms reachable_is_closure
#print axioms reach_least
#print axioms reach_closed
#print axioms resolveCallee_contains_actual

end Argot.Cg
