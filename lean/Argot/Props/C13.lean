/-
C13 — With escape analysis on, concurrency cannot hide a flow silently.

(1) `escape_or_flow`: the property as a composition of named hypotheses — the other properties
    (C01 traversal completeness, mark-set completeness, C14 locality soundness) and what
    `checkEscape` does with a locality map; `noncall_necessary` shows that the hypothesis "the
    instruction that touches the shared memory is not a call" cannot be dropped (today builtin calls
    are never checked: corpus/findings/F16_escape_builtin_calls_local).
(2) `context_defined`: the escape-context bookkeeping of the taint visitor (Model/EscCtx.lean)
    always finds the context it looks up as long as the traversal never returns past the function it
    started in (`context_defined_partial`); `context_undefined_witness`: an unmatched return makes
    the look-up fail — the code's own error "missing escape for … in context …", which the real
    runs of harness/cmd/c13 exhibit on most goroutine programs.
-/
import Argot.Model.EscCtx

namespace Argot.C13

/-- what the theorem talks about; everything is a parameter (the other properties supply the facts) -/
structure World (Src Sink Instr Node Ctx : Type) where
  /-- some execution moves data of the source into the sink -/
  Obs : Src → Sink → Prop
  /-- … along a path the thread-blind traversal semantics describes (C01's valid paths) -/
  Seq : Src → Sink → Prop
  /-- the instruction moves data of the source through memory reachable from another goroutine -/
  Shared : Src → Instr → Prop
  /-- the traversal started at the source visits the node under the escape context -/
  Visited : Src → Node → Ctx → Prop
  /-- `GraphNode.Marks()`: the instructions touched by the data a node represents -/
  marks : Node → Instr → Prop
  isCall : Instr → Prop
  /-- the locality map of the context has a rationale (≠ nil) for the instruction -/
  nonlocal : Ctx → Instr → Prop
  /-- in the calls the context describes, the instruction accesses memory reachable from another goroutine -/
  sharedAccess : Ctx → Instr → Prop
  Sinks : Src → Sink → Prop
  Escapes : Src → Prop

variable {Src Sink Instr Node Ctx : Type}

/-- the hypotheses, one per property / mechanism -/
structure Hyps (W : World Src Sink Instr Node Ctx) : Prop where
  /-- a flow is explained sequentially or passes through shared memory at some instruction -/
  split : ∀ s k, W.Obs s k → W.Seq s k ∨ ∃ i, W.Shared s i
  /-- C01: the traversal reports every sequentially explained flow -/
  c01 : ∀ s k, W.Seq s k → W.Sinks s k
  /-- mark-set completeness (V1) + C01 reachability: the traversal visits a node whose mark set
  contains the instruction, under a context that describes the call in which the access is shared
  (`context_defined`: the context exists) -/
  markset : ∀ s i, W.Shared s i → ∃ n c, W.Visited s n c ∧ W.marks n i ∧ W.sharedAccess c i
  /-- C14: an instruction that accesses shared memory is not classified local -/
  c14 : ∀ c i, W.sharedAccess c i → ¬ W.isCall i → W.nonlocal c i
  /-- `checkEscape`: a non-call instruction of a visited node with a rationale is recorded -/
  checkEscape : ∀ s n c i, W.Visited s n c → W.marks n i → ¬ W.isCall i → W.nonlocal c i → W.Escapes s
  /-- the instruction that touches the shared memory is not a call -/
  noncall : ∀ s i, W.Shared s i → ¬ W.isCall i

/-- **escape_or_flow**: every observable flow is reported as a taint flow, or its source is reported
as escaping. -/
theorem escape_or_flow (W : World Src Sink Instr Node Ctx) (H : Hyps W) (s : Src) (k : Sink)
    (h : W.Obs s k) : W.Sinks s k ∨ W.Escapes s := by
  rcases H.split s k h with hs | ⟨i, hi⟩
  · exact Or.inl (H.c01 s k hs)
  · obtain ⟨n, c, hv, hm, ha⟩ := H.markset s i hi
    have hnc := H.noncall s i hi
    exact Or.inr (H.checkEscape s n c i hv hm hnc (H.c14 c i ha hnc))

/-- a world in which a builtin call moves the data: all hypotheses but `noncall` hold, the
conclusion fails -/
def callWorld : World Unit Unit Unit Unit Unit where
  Obs := fun _ _ => True
  Seq := fun _ _ => False
  Shared := fun _ _ => True
  Visited := fun _ _ _ => True
  marks := fun _ _ => True
  isCall := fun _ => True
  nonlocal := fun _ _ => False
  sharedAccess := fun _ _ => True
  Sinks := fun _ _ => False
  Escapes := fun _ => False

/-- the hypothesis `noncall` cannot be dropped -/
theorem noncall_necessary :
    (∀ s k, callWorld.Obs s k → callWorld.Seq s k ∨ ∃ i, callWorld.Shared s i) ∧
    (∀ s k, callWorld.Seq s k → callWorld.Sinks s k) ∧
    (∀ s i, callWorld.Shared s i → ∃ n c, callWorld.Visited s n c ∧ callWorld.marks n i ∧ callWorld.sharedAccess c i) ∧
    (∀ c i, callWorld.sharedAccess c i → ¬ callWorld.isCall i → callWorld.nonlocal c i) ∧
    (∀ s n c i, callWorld.Visited s n c → callWorld.marks n i → ¬ callWorld.isCall i → callWorld.nonlocal c i →
      callWorld.Escapes s) ∧
    ¬ (∀ s k, callWorld.Obs s k → callWorld.Sinks s k ∨ callWorld.Escapes s) := by
  refine ⟨fun _ _ _ => Or.inr ⟨(), trivial⟩, fun _ _ h => h.elim, fun _ _ _ => ⟨(), (), trivial, trivial, trivial⟩,
    fun _ _ _ h => (h trivial).elim, fun _ _ _ _ _ _ h => (h trivial).elim, ?_⟩
  intro h
  rcases h () () trivial with h' | h'
  · exact h'
  · exact h'

end Argot.C13

namespace Argot.EscCtx

/-- every frame of the current stack has its context stored -/
def Good (stored : List (Fn × Key)) : Fn → List (Site × Fn) → Prop
  | f, [] => (f, []) ∈ stored
  | f, (c, g) :: rest => (f, key ((c, g) :: rest)) ∈ stored ∧ Good stored g rest

theorem Good.head {stored : List (Fn × Key)} {f : Fn} {st : List (Site × Fn)} (h : Good stored f st) :
    (f, key st) ∈ stored := by
  cases st with
  | nil => exact h
  | cons p rest => obtain ⟨c, g⟩ := p; exact h.1

theorem Good.mono {stored : List (Fn × Key)} (x : Fn × Key) {f : Fn} {st : List (Site × Fn)}
    (h : Good stored f st) : Good (x :: stored) f st := by
  induction st generalizing f with
  | nil => exact List.mem_cons_of_mem _ h
  | cons p rest ih =>
    obtain ⟨c, g⟩ := p
    exact ⟨List.mem_cons_of_mem _ h.1, ih h.2⟩

/-- **context_defined** (partial: the traversal never returns past its starting function).
Whenever the visitor looks up the escape context of the function and call stack it is in, the
context exists: no "missing escape for … in context …" error. -/
theorem context_defined_partial (ms : List Move) (s : State) (hg : Good s.stored s.fn s.stack)
    (hb : balanced s.stack.length ms = true) : ∃ s', run s ms = .ok s' ∧ Good s'.stored s'.fn s'.stack := by
  induction ms generalizing s with
  | nil => exact ⟨s, rfl, hg⟩
  | cons m ms ih =>
    cases m with
    | stay =>
      have hmem := hg.head
      simp only [run, step, hmem, if_true]
      exact ih s hg (by simpa [balanced] using hb)
    | down c g =>
      simp only [run, step]
      apply ih
      · exact ⟨List.mem_cons_self, Good.mono _ hg⟩
      · simpa [balanced] using hb
    | up =>
      cases hst : s.stack with
      | nil => rw [hst] at hb; simp [balanced] at hb
      | cons p rest =>
        obtain ⟨c, f⟩ := p
        rw [hst] at hg hb
        have hmem : (f, key rest) ∈ s.stored := hg.2.head
        simp only [run, step, hst, hmem, if_true]
        apply ih
        · exact hg.2
        · simpa [balanced] using hb
    | upUnknown g k => simp [balanced] at hb

theorem context_defined_from_source (f : Fn) (ms : List Move) (hb : balanced 0 ms = true) :
    ∃ s', run (init f) ms = .ok s' :=
  let ⟨s', h, _⟩ := context_defined_partial ms (init f) (by simp [init, Good]) hb
  ⟨s', h⟩

/-- Negation witness of the unrestricted statement: a return into a caller that no earlier step
visited (source inside a callee or a goroutine entry function, data flowing back through a
parameter) looks up a context that was never stored. -/
theorem context_undefined_witness : run (init 0) [Move.upUnknown 1 [7]] = .error "missing escape" := by
  simp [run, step, init]

/-- non-vacuity: a call, work in the callee, return, work in the caller -/
example : ∃ s', run (init 0) [.stay, .down 3 1, .stay, .down 4 2, .up, .up, .stay] = .ok s' :=
  context_defined_from_source 0 _ (by decide)

end Argot.EscCtx
