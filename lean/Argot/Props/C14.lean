/-
C14 — An instruction classified as thread-local never touches shared memory.

Part 1 (this file, tie T7): obligations over the tables regenerated from analysis/escape/escape.go on
every run.  Part 2: `EscCore` (Argot/Props/C14Core.lean) — the call-free core of the transfer
function over a pointer machine.  The runtime dimension is searched with the race detector
(harness/cmd/c14).
-/
import Argot.Gen.Escape
import Argot.Gen.T1Dispatch
import Argot.Spec.EscLocality

namespace Argot.EscLoc
open Argot.Gen

/-- the translator read every function in the shape it knows -/
theorem tables_parsed : Escape.unparsed = false ∧ T1.unparsed = false := by decide

/-- **locality_covers_memory_access** (partial: the non-call, non-conversion forms).  Every
instruction kind of `memAccessCore` has a case in `instructionLocality` that passes its pointer
operand to `derefsAreLocal` and is not an unconditional `return nil`. -/
theorem locality_covers_memory_access_partial :
    ∀ p, p ∈ memAccessCore → covered Escape.localityCases p.1 p.2 = true := by decide

/-- none of the core memory-accessing kinds is classified local unconditionally, and a kind
without a case is not classified local -/
theorem no_core_access_always_local :
    (∀ p, p ∈ memAccessCore → alwaysLocal Escape.localityCases p.1 = false) ∧
    Escape.localityDefaultLocal = false := by decide

/-- Negation witness of the full statement on the pinned table: `string(bytes)` conversions and
builtin calls are classified local without consulting `derefsAreLocal` (replayed on the real tool:
corpus/findings/F16_escape_builtin_calls_local, F18_escape_convert_to_string). -/
theorem pinned_not_covers : ¬ LocalityCoversMemoryAccess pinnedLocality := by
  intro h
  have := h ("*ssa.Call", "Call.Args") (by decide)
  revert this; decide

/-- regression guard: whatever the pinned table covers, the current table covers -/
theorem gen_covers_pinned :
    ∀ p, p ∈ memAccess → covered pinnedLocality p.1 p.2 = true → covered Escape.localityCases p.1 p.2 = true := by
  decide

/-- the full statement holds as soon as the two remaining forms consult `derefsAreLocal` -/
theorem locality_covers_of_extra (cases : List LocRow)
    (hcore : ∀ p, p ∈ memAccessCore → covered cases p.1 p.2 = true)
    (hextra : ∀ p, p ∈ memAccessExtra → covered cases p.1 p.2 = true) :
    LocalityCoversMemoryAccess cases := by
  intro p hp
  rcases List.mem_append.1 hp with h | h
  · exact hcore p h
  · exact hextra p h

/-- **escTransferKinds_total** (partial): every SSA instruction kind of the pinned x/tools except
`Defer`, `RunDefers`, `MultiConvert` has a non-empty case in `transferFunction`. -/
theorem escTransferKinds_total_partial :
    ∀ k, k ∈ T1.ssaInstrKinds → k ∉ transferGaps → handled Escape.transferCases k = true := by decide

/-- Negation witness on the pinned table: `*ssa.Defer` has an empty case (F11). -/
theorem pinned_transfer_not_total : ¬ TransferTotal T1.ssaInstrKinds pinnedTransfer := by
  intro h
  have := h "Defer" (by decide)
  revert this; decide

/-- regression guard for the transfer table -/
theorem gen_transfer_covers_pinned :
    ∀ k, k ∈ T1.ssaInstrKinds → handled pinnedTransfer k = true → handled Escape.transferCases k = true := by
  decide

end Argot.EscLoc
