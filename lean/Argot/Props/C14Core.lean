/-
C14, part 2 — the call-free core of the escape transfer function is sound over a pointer machine.

Machine (Proofs/EscCore.lean): variables hold nil or an object, every object has one pointer cell,
`go f(v)` hands the object of `v` to another goroutine; an object is `Shared` when it is reachable
through the heap from an object handed over — now or by any later store.  Abstraction: an object is
represented by its allocation site.  `Abs σ g`: the graph has an edge for every concrete pointer and
every handed-over object is Leaked.  Quantifiers: every instruction sequence (any length), every
choice of fresh objects, every intrinsic-status function bounded by Leaked.

Not covered (named in the evidence): calls and summary instantiation, fields/subnodes, load nodes,
calling contexts, the instruction kinds outside the fragment; their runtime behaviour is searched
with the race detector (harness/cmd/c14).
-/
import Argot.Proofs.EscCore

namespace Argot.EscCore
open Argot.EGraph Argot.EGraph.EGraph

variable {I : Node → Nat}

/-- the machine executes a list of instructions -/
inductive Run : CState → List Instr → CState → Prop where
  | nil (σ) : Run σ [] σ
  | cons {σ σ' σ'' i is} : Step σ i σ' → Run σ' is σ'' → Run σ (i :: is) σ''

/-- **esc_core_sound** (straight-line code): running the instructions on the machine and folding the
transfer function over the graph preserves the abstraction relation and well-formedness. -/
theorem esc_core_sound (hI : ∀ n, I n ≤ 2) {σ σ' : CState} {is : List Instr} (hr : Run σ is σ') :
    ∀ {g : EGraph}, WF I g → Cwf σ → Abs σ g →
      Abs σ' (is.foldl (transfer I) g) ∧ WF I (is.foldl (transfer I) g) ∧ Cwf σ' := by
  induction hr with
  | nil σ => intro g hg hc ha; exact ⟨ha, hg, hc⟩
  | cons hs _ ih =>
    intro g hg hc ha
    obtain ⟨ha', hc'⟩ := step_sound hI hg hc ha hs
    exact ih (transfer_wf_le hI hg _).1 hc' ha'

/-- **esc_core_sound** (control flow, fixpoint form): a well-formed graph that absorbs the transfer
function of every instruction of the function (what the block-level fixpoint yields at its join)
abstracts every state reachable by executing instructions of the function in any order. -/
theorem esc_core_sound_fixpoint (hI : ∀ n, I n ≤ 2) (prog : List Instr) {G : EGraph} (hG : WF I G)
    (hpost : ∀ i, i ∈ prog → LE (transfer I G i) G)
    {σ σ' : CState} {is : List Instr} (hr : Run σ is σ') (his : ∀ i, i ∈ is → i ∈ prog)
    (hc : Cwf σ) (ha : Abs σ G) : Abs σ' G ∧ Cwf σ' := by
  induction hr with
  | nil σ => exact ⟨ha, hc⟩
  | @cons σ σ1 σ2 i is hs _ ih =>
    obtain ⟨ha', hc'⟩ := step_sound hI hG hc ha hs
    have ha'' : Abs σ1 G := ha'.mono (hpost i (his i List.mem_cons_self)) hG.le2
    exact ih (fun j hj => his j (List.mem_cons_of_mem _ hj)) hc' ha''

/-- **local_means_unshared**: if `derefsAreLocal` classifies the pointer as local (all its pointees
are Local in the graph) then the object it holds at run time is not reachable from any object handed
to another goroutine: the access cannot touch shared memory. -/
theorem local_means_unshared {σ : CState} {g : EGraph} (hg : WF I g) (ha : Abs σ g) {a : Node} {o : Obj}
    (hv : σ.val a = some o) (hloc : derefsAreLocal g a = true) : ¬ Shared σ o := by
  intro hs
  have h2 := shared_leaked hg ha hs
  have hp : σ.site o ∈ pointees g a := mem_pointees_of_pedge hg (ha.vars a o hv)
  unfold derefsAreLocal at hloc
  have := List.all_eq_true.1 hloc _ hp
  simp at this
  omega

/-- the same for the two memory-accessing instructions of the fragment: an instruction classified
local accesses an unshared object -/
theorem local_instr_unshared {σ : CState} {g : EGraph} (hg : WF I g) (ha : Abs σ g) :
    (∀ a v o, σ.val a = some o → isLocal g (.store a v) = true → ¬ Shared σ o) ∧
    (∀ v a o, σ.val a = some o → isLocal g (.load v a) = true → ¬ Shared σ o) :=
  ⟨fun _ _ _ hv hl => local_means_unshared hg ha hv hl, fun _ _ _ hv hl => local_means_unshared hg ha hv hl⟩

/-! ### non-vacuity -/

/-- variables 0,1,2; allocation sites 10,11 -/
def exProg : List Instr := [.alloc 0 10, .alloc 1 11, .store 0 1, .goCall 0, .load 2 0]

def exI : Node → Nat := fun _ => 0

/-- after `go f(x0)` both objects are Leaked: the load through `x0` and a store through `x2`
(which holds the second object) are not local -/
example : isLocal (exProg.foldl (transfer exI) EGraph.empty) (.load 2 0) = false := by decide
example : isLocal (exProg.foldl (transfer exI) EGraph.empty) (.store 2 1) = false := by decide
/-- before the `go` everything is local -/
example : isLocal ((exProg.take 3).foldl (transfer exI) EGraph.empty) (.store 0 1) = true := by decide

/-- the empty graph abstracts the initial state -/
example : Abs ⟨fun _ => none, fun _ => none, [], [], fun _ => 0⟩ EGraph.empty :=
  ⟨fun _ _ h => by simp at h, fun _ _ h => by simp at h, fun _ h => by simp at h⟩

end Argot.EscCore
