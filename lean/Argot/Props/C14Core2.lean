/-
C14, part 3 — the call-free core of the escape transfer function with struct fields, globals and
panic is sound over a multi-threaded pointer machine.

Machine (Proofs/EscCore2.lean): threads with their own variables and one heap; a cell is an object
plus a field path (`fieldAddr p f` yields the interior pointer `&p.f`; stores and loads go through
any pointer, interior or not); `global v gn` yields the pointer to the cell of a global; `go f(v)`
starts a new thread that holds `v`; `panic v` hands `v` over.  A run interleaves the threads: every
step is taken by an arbitrary existing thread, every thread executes instructions of the analysed
instruction set in any order.  A cell is `SharedWith t` when it is reachable in memory (pointer
contents and field steps) from a cell handed to `go`/`panic`, from a global, or from a variable of a
thread other than `t`.

Abstraction: a cell is represented by the allocation site of its object followed by the field
subnodes of its path (`Cfg.sub`, the node group's `FieldSubnode`); a global is its own site with
intrinsic status Leaked.  `Abs2 σ g`: an edge for every concrete pointer, a subnode edge for every
materialised field cell, Leaked for globals and handed-over cells, and the ownership discipline
(what a thread holds is an object it allocated or is Leaked).

Not covered (named in the evidence): calls and summary instantiation, load nodes (writes of
goroutines that run *other* code into shared cells), whole-struct copies, calling contexts.
-/
import Argot.Proofs.EscCore2

namespace Argot.EscCore2
open Argot.EGraph Argot.EGraph.EGraph Argot.EscCore

variable {cfg : Cfg}

/-- an interleaved execution: each instruction of the list is executed by some existing thread -/
inductive Run2 : CState2 → List Instr2 → CState2 → Prop where
  | nil (σ) : Run2 σ [] σ
  | cons {σ σ' σ'' t i is} : t < σ.nthreads → Step2 σ t i σ' → Run2 σ' is σ'' → Run2 σ (i :: is) σ''

/-- **esc_core2_sound** (straight-line form): executing the instructions (by whichever threads) and
folding the transfer function over the graph in the same order preserves the abstraction relation. -/
theorem esc_core2_sound (hI : ∀ n, cfg.I n ≤ 2) {σ σ' : CState2} {is : List Instr2} (hr : Run2 σ is σ') :
    ∀ {g : EGraph}, (∀ i, i ∈ is → GlobOk cfg i) → WF cfg.I g → Cwf2 σ → Abs2 cfg σ g →
      Abs2 cfg σ' (is.foldl (transfer2 cfg) g) ∧ WF cfg.I (is.foldl (transfer2 cfg) g) ∧ Cwf2 σ' := by
  induction hr with
  | nil σ => intro g _ hg hc ha; exact ⟨ha, hg, hc⟩
  | cons _ hs _ ih =>
    intro g hok hg hc ha
    obtain ⟨ha', hc'⟩ := step_sound2 hI hg (hok _ List.mem_cons_self) hc ha hs
    exact ih (fun j hj => hok j (List.mem_cons_of_mem _ hj)) (transfer2_wf_le hI hg _).1 hc' ha'

/-- everything reachable from a global, a `go` argument or a `panic` value is Leaked in a graph that
abstracts the state -/
theorem reachable_leaked2 {σ : CState2} {g : EGraph} (hg : WF cfg.I g) (hc : Cwf2 σ) (ha : Abs2 cfg σ g)
    {c : Cell} (hcell : c ∈ σ.cells)
    (hs : (∃ r, r ∈ σ.roots ∧ Reach2 σ r c) ∨ (∃ gn, Reach2 σ (.glob gn, []) c)) :
    g.st (absC cfg σ.site c) = 2 := by
  rcases hs with ⟨r, hr, hreach⟩ | ⟨gn, hreach⟩
  · exact reach_leaked hg hc ha hreach hcell (ha.roots r hr)
  · exact reach_leaked hg hc ha hreach hcell (ha.globs gn (reach_cells hc hreach hcell))

/-- **esc_core2_sound_fixpoint** (control flow and interleaving, fixpoint form): a well-formed graph
that absorbs the transfer function of every instruction (a post-fixpoint) abstracts every state
reachable by threads executing those instructions in any order: every concrete points-to edge has
its edge in the graph, and every cell reachable from a global, a `go` argument or a `panic` value is
Leaked in the graph. -/
theorem esc_core2_sound_fixpoint (hI : ∀ n, cfg.I n ≤ 2) (prog : List Instr2)
    (hok : ∀ i, i ∈ prog → GlobOk cfg i) {G : EGraph} (hG : WF cfg.I G)
    (hpost : ∀ i, i ∈ prog → LE (transfer2 cfg G i) G)
    {σ σ' : CState2} {is : List Instr2} (hr : Run2 σ is σ') (his : ∀ i, i ∈ is → i ∈ prog)
    (hc : Cwf2 σ) (ha : Abs2 cfg σ G) :
    Abs2 cfg σ' G ∧ Cwf2 σ' ∧
    (∀ t v c, σ'.val t v = some c → PEdge G v (absC cfg σ'.site c)) ∧
    (∀ c c', σ'.heap c = some c' → PEdge G (absC cfg σ'.site c) (absC cfg σ'.site c')) ∧
    (∀ c, c ∈ σ'.cells → ((∃ r, r ∈ σ'.roots ∧ Reach2 σ' r c) ∨ (∃ gn, Reach2 σ' (.glob gn, []) c)) →
      G.st (absC cfg σ'.site c) = 2) := by
  have key : Abs2 cfg σ' G ∧ Cwf2 σ' := by
    induction hr with
    | nil σ => exact ⟨ha, hc⟩
    | @cons σ σ1 σ2 t i is _ hs _ ih =>
      have hi := his i List.mem_cons_self
      obtain ⟨ha', hc'⟩ := step_sound2 hI hG (hok i hi) hc ha hs
      have ha'' : Abs2 cfg σ1 G := ha'.mono (hpost i hi) hG.le2
      exact ih (fun j hj => his j (List.mem_cons_of_mem _ hj)) hc' ha''
  exact ⟨key.1, key.2, fun t v c h => (key.1.vars t v c h).1, fun c c' h => (key.1.heap c c' h).1,
    fun c hcell hs => reachable_leaked2 hG key.2 key.1 hcell hs⟩

/-- **local_means_unshared2**: if `derefsAreLocal` classifies the pointer as local, the cell it
points to in thread `t` (an object's own cell or a field cell) is not reachable by any other
goroutine. -/
theorem local_means_unshared2 {σ : CState2} {g : EGraph} (hg : WF cfg.I g) (hc : Cwf2 σ) (ha : Abs2 cfg σ g)
    {t : Tid} {a : Node} {c : Cell} (hv : σ.val t a = some c) (hloc : derefsAreLocal g a = true) :
    ¬ SharedWith σ t c := by
  have hcell : c ∈ σ.cells := hc.val t a c hv
  have hp : absC cfg σ.site c ∈ pointees g a := mem_pointees_of_pedge hg (ha.vars t a c hv).1
  have h0 : g.st (absC cfg σ.site c) = 0 := by
    unfold derefsAreLocal at hloc
    have := List.all_eq_true.1 hloc _ hp
    simpa using this
  have hown : σ.owner c.1 = t := by
    rcases (ha.vars t a c hv).2 with o | l
    · exact o
    · omega
  rintro (hs | hs | ⟨t', v, r, hne, hr, hreach⟩)
  · have := reachable_leaked2 hg hc ha hcell (Or.inl hs); omega
  · have := reachable_leaked2 hg hc ha hcell (Or.inr hs); omega
  · rcases reach_owned hg hc ha hreach hcell (ha.vars t' v r hr).2 with o | l
    · exact hne (o.symm.trans hown)
    · omega

/-- the pointer through which the instruction accesses memory -/
def accessed : Instr2 → Option Node
  | .store a _ => some a
  | .load _ a => some a
  | _ => none

/-- **local_instr_unshared2**: a memory access that `instructionLocality` classifies as local touches
no cell reachable from another goroutine -/
theorem local_instr_unshared2 {σ : CState2} {g : EGraph} (hg : WF cfg.I g) (hc : Cwf2 σ) (ha : Abs2 cfg σ g)
    {t : Tid} {i : Instr2} {a : Node} {c : Cell} (hacc : accessed i = some a) (hv : σ.val t a = some c)
    (hloc : isLocal2 g i = true) : ¬ SharedWith σ t c := by
  cases i with
  | store a' v => cases hacc; exact local_means_unshared2 hg hc ha hv hloc
  | load v a' => cases hacc; exact local_means_unshared2 hg hc ha hv hloc
  | _ => cases hacc

/-- end to end: in every state reachable by interleaved execution of the instruction set, an access
classified local by the post-fixpoint graph is to an unshared cell -/
theorem local_instr_unshared2_fixpoint (hI : ∀ n, cfg.I n ≤ 2) (prog : List Instr2)
    (hok : ∀ i, i ∈ prog → GlobOk cfg i) {G : EGraph} (hG : WF cfg.I G)
    (hpost : ∀ i, i ∈ prog → LE (transfer2 cfg G i) G)
    {σ σ' : CState2} {is : List Instr2} (hr : Run2 σ is σ') (his : ∀ i, i ∈ is → i ∈ prog)
    (hc : Cwf2 σ) (ha : Abs2 cfg σ G)
    {t : Tid} {i : Instr2} {a : Node} {c : Cell} (hacc : accessed i = some a) (hv : σ'.val t a = some c)
    (hloc : isLocal2 G i = true) : ¬ SharedWith σ' t c := by
  obtain ⟨ha', hc', _⟩ := esc_core2_sound_fixpoint hI prog hok hG hpost hr his hc ha
  exact local_instr_unshared2 hG hc' ha' hacc hv hloc

/-! ### non-vacuity -/

/-- node 20 is a global; the subnode of `b` for field `f` is `1000 + 16 b + f` -/
def exCfg : Cfg := ⟨fun n => if n = 20 then 2 else 0, fun b f => 1000 + 16 * b + f⟩

theorem exCfg_le2 : ∀ n, exCfg.I n ≤ 2 := by
  intro n; simp only [exCfg]; split <;> omega

/-- `s := new(S); p := &s.f7; x := new(T); *p = x; go f(s); q := &s.f7; *q = x` -/
def exShared : List Instr2 :=
  [.alloc 0 10, .fieldAddr 1 0 7, .alloc 2 11, .store 1 2, .goCall 0, .fieldAddr 3 0 7, .store 3 2]

/-- the write to the field of the struct handed to `go` is classified non-local, and so is a load
through the pointer that was stored in that field -/
example : isLocal2 ((exShared.take 6).foldl (transfer2 exCfg) EGraph.empty) (.store 3 2) = false := by decide
example : isLocal2 (exShared.foldl (transfer2 exCfg) EGraph.empty) (.load 4 2) = false := by decide
/-- the same write before the `go` (a purely local struct) is local -/
example : isLocal2 ((exShared.take 3).foldl (transfer2 exCfg) EGraph.empty) (.store 1 2) = true := by decide
example : isLocal2 ((exShared.take 4).foldl (transfer2 exCfg) EGraph.empty) (.load 4 1) = true := by decide

/-- `g := &G; x := new(T); *g = x`: the store to the global and later accesses through `x` are non-local -/
def exGlobal : List Instr2 := [.global 5 20, .alloc 2 11, .store 5 2]
example : isLocal2 ((exGlobal.take 2).foldl (transfer2 exCfg) EGraph.empty) (.store 5 2) = false := by decide
example : isLocal2 (exGlobal.foldl (transfer2 exCfg) EGraph.empty) (.load 6 2) = false := by decide
example : isLocal2 ((exGlobal.take 2).foldl (transfer2 exCfg) EGraph.empty) (.load 6 2) = true := by decide
example : ∀ i, i ∈ exGlobal → GlobOk exCfg i := by
  intro i hi
  simp only [exGlobal, List.mem_cons, List.not_mem_nil, or_false] at hi
  rcases hi with rfl | rfl | rfl <;> simp [GlobOk, exCfg]

/-- `x := new(T); panic(x)` leaks `x` -/
example : isLocal2 ([Instr2.alloc 0 10, .panic 0].foldl (transfer2 exCfg) EGraph.empty) (.load 1 0) = false := by
  decide

/-- the initial state (one thread, empty memory) is well-formed and abstracted by the empty graph -/
def exInit : CState2 := ⟨1, fun _ _ => none, fun _ => none, [], [], [], fun _ => 0, fun _ => 0⟩

example : Cwf2 exInit :=
  ⟨fun _ _ _ h => by simp [exInit] at h, fun _ _ h => by simp [exInit] at h, fun _ h => by simp [exInit] at h,
   fun _ _ h => by simp [exInit] at h, fun _ _ h => by simp [exInit] at h⟩

example : Abs2 exCfg exInit EGraph.empty :=
  ⟨fun _ _ _ h => by simp [exInit] at h, fun _ _ h => by simp [exInit] at h, fun _ h => by simp [exInit] at h,
   fun _ h => by simp [exInit] at h, fun _ _ h => by simp [exInit] at h⟩

/-- the sharing notion is inhabited: after `s := new(S); go f(s); q := &s.f7` the field cell held by
thread 0 is reachable by the new goroutine -/
example : ∃ σ', Run2 exInit [.alloc 0 10, .goCall 0, .fieldAddr 3 0 7] σ' ∧
    σ'.val 0 3 = some (.heap 0, [7]) ∧ SharedWith σ' 0 (.heap 0, [7]) := by
  refine ⟨_, .cons (t := 0) (by decide) (.alloc _ 0 0 10 0 (by simp [exInit]))
    (.cons (t := 0) (by decide) (.goCall _ 0 0 (.heap 0, []) (by simp [setVar]))
      (.cons (t := 0) (by decide) (.fieldAddr _ 0 3 0 7 (.heap 0, []) (by simp [setVar, exInit]))
        (.nil _))), by simp [setVar, fld], ?_⟩
  exact Or.inl ⟨(.heap 0, []), by simp, Reach2.field 7 (Reach2.refl _)⟩

end Argot.EscCore2
