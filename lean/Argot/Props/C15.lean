/-
C15 — Escape graphs form a join-semilattice and transfer functions are monotone.

Property theorems only (model: Argot/Model/EGraph.lean; specification: Argot/Spec/EGraph.lean;
helper lemmas: Argot/Proofs/EGraph*.lean).  Quantifiers: every node universe (`Node = Nat`, any
intrinsic-status function `I`), every graph satisfying `WF I` (the representation invariants of
the repository's own `wellFormedEscapeGraph`, status ≥ intrinsic, status closed along edges).
`lessEqual`, `matchesG`, `merge`, `addEdge`, `mergeNodeStatus` are the executable definitions the
oracle runs against the real `LessEqual`, `Matches`, `Merge`, `AddEdge`, `MergeNodeStatus`.
-/
import Argot.Proofs.EGraphOrder

namespace Argot.EGraph
namespace EGraph

/-! ### `LessEqual` is a partial order whose equivalence is `Matches` -/

theorem lessEqual_refl {g : EGraph} (hg : Rep g) : lessEqual g g = true :=
  (lessEqual_iff hg).2 (LE.refl g)

theorem lessEqual_trans {g h k : EGraph} (hg : Rep g) (hh : Rep h)
    (h1 : lessEqual g h = true) (h2 : lessEqual h k = true) : lessEqual g k = true :=
  (lessEqual_iff hg).2 (((lessEqual_iff hg).1 h1).trans ((lessEqual_iff hh).1 h2))

/-- antisymmetry: `g ≤ h ≤ g` exactly when `Matches` holds -/
theorem lessEqual_antisymm_iff {g h : EGraph} (hg : Rep g) (hh : Rep h) :
    (lessEqual g h = true ∧ lessEqual h g = true) ↔ matchesG g h = true := by
  rw [lessEqual_iff hg, lessEqual_iff hh, matchesG_iff hg hh]
  exact ⟨fun ⟨a, b⟩ => LE.antisymm hg hh a b, fun e => ⟨e.le, e.symm.le⟩⟩

theorem matchesG_refl {g : EGraph} (hg : Rep g) : matchesG g g = true :=
  (matchesG_iff hg hg).2 (Equiv.refl g)

theorem matchesG_symm {g h : EGraph} (hg : Rep g) (hh : Rep h) (e : matchesG g h = true) :
    matchesG h g = true :=
  (matchesG_iff hh hg).2 ((matchesG_iff hg hh).1 e).symm

theorem matchesG_trans {g h k : EGraph} (hg : Rep g) (hh : Rep h) (hk : Rep k)
    (e1 : matchesG g h = true) (e2 : matchesG h k = true) : matchesG g k = true :=
  (matchesG_iff hg hk).2 (((matchesG_iff hg hh).1 e1).trans ((matchesG_iff hh hk).1 e2))

end EGraph
end Argot.EGraph
