/-
C15 — Escape graphs form a join-semilattice and transfer functions are monotone.

Property theorems only (model: Argot/Model/EGraph.lean; specification: Argot/Spec/EGraph.lean;
helper lemmas: Argot/Proofs/EGraph*.lean).  Quantifiers: every node universe (`Node = Nat`, any
intrinsic-status function `I`), every graph satisfying `WF I` (the representation invariants of
the repository's own `wellFormedEscapeGraph`, status ≥ intrinsic, status closed along edges).
`lessEqual`, `matchesG`, `merge`, `addEdge`, `mergeNodeStatus` are the executable definitions the
oracle runs against the real `LessEqual`, `Matches`, `Merge`, `AddEdge`, `MergeNodeStatus`.
-/
import Argot.Proofs.EGraphAssign
import Argot.Proofs.Fixpoint

namespace Argot.EGraph
namespace EGraph

/-! ### `LessEqual` is a partial order whose equivalence is `Matches` -/

theorem lessEqual_refl {g : EGraph} (hg : Rep g) : lessEqual g g = true :=
  (lessEqual_iff hg).2 (LE.refl g)

theorem lessEqual_trans {g h k : EGraph} (hg : Rep g) (hh : Rep h)
    (h1 : lessEqual g h = true) (h2 : lessEqual h k = true) : lessEqual g k = true :=
  (lessEqual_iff hg).2 (((lessEqual_iff hg).1 h1).trans ((lessEqual_iff hh).1 h2))

/-- antisymmetry: `g ≤ h ≤ g` exactly when `Matches` holds -/
theorem lessEqual_antisymm_iff {g h : EGraph} (hg : Rep g) (hh : Rep h) :
    (lessEqual g h = true ∧ lessEqual h g = true) ↔ matchesG g h = true := by
  rw [lessEqual_iff hg, lessEqual_iff hh, matchesG_iff hg hh]
  exact ⟨fun ⟨a, b⟩ => LE.antisymm hg hh a b, fun e => ⟨e.le, e.symm.le⟩⟩

theorem matchesG_refl {g : EGraph} (hg : Rep g) : matchesG g g = true :=
  (matchesG_iff hg hg).2 (Equiv.refl g)

theorem matchesG_symm {g h : EGraph} (hg : Rep g) (hh : Rep h) (e : matchesG g h = true) :
    matchesG h g = true :=
  (matchesG_iff hh hg).2 ((matchesG_iff hg hh).1 e).symm

theorem matchesG_trans {g h k : EGraph} (hg : Rep g) (hh : Rep h) (hk : Rep k)
    (e1 : matchesG g h = true) (e2 : matchesG h k = true) : matchesG g k = true :=
  (matchesG_iff hg hk).2 (((matchesG_iff hg hh).1 e1).trans ((matchesG_iff hh hk).1 e2))

/-! ### well-formedness is preserved by every operation -/

variable {I : Node → Nat}

theorem addNode_preserves_wf (hI : ∀ n, I n ≤ 2) {g : EGraph} (hg : WF I g) (n : Node) :
    WF I (addNode I g n) := addNode_wf hI hg n

theorem addEdge_preserves_wf (hI : ∀ n, I n ≤ 2) {g : EGraph} (hg : WF I g) (a b : Node) (f : Flags) :
    WF I (addEdge I g a b f) := addEdge_wf hI hg a b f

/-- `MergeNodeStatus` on a node of the graph (the analysis always calls `AddNode` first, or applies
it to pointees; on an absent node the code leaves a status without an edge row, which the
repository's own `wellFormedEscapeGraph` rejects) -/
theorem mergeNodeStatus_preserves_wf {g : EGraph} (hg : WF I g) {n : Node} (hn : n ∈ g.dom) {s : Nat}
    (hs : s ≤ 2) : WF I (mergeNodeStatus g n s) := (mns_spec hg hn hs).wf

theorem merge_preserves_wf (hI : ∀ n, I n ≤ 2) {g h : EGraph} (hg : WF I g) (hh : WF I h) :
    WF I (merge I g h) := (merge_spec hI hg hh).wf

/-! ### `Merge` is the join -/

/-- **merge_status_eq_closure**: nodes = union, flags = union, and the status computed by the
worklist propagation is the declarative closure `n ↦ sup { max (st_g m) (st_h m) | m ⟶* n }` over
the union of the edges — whatever the order in which Go iterates over its maps. -/
theorem merge_status_eq_closure (hI : ∀ n, I n ≤ 2) {g h : EGraph} (hg : WF I g) (hh : WF I h) :
    (∀ x, x ∈ (merge I g h).dom ↔ x ∈ g.dom ∨ x ∈ h.dom) ∧
    (∀ a b, (merge I g h).fl a b = (g.fl a b).or (h.fl a b)) ∧
    (∀ n, (merge I g h).st n = cl (orFl g h) (fun x => max (g.st x) (h.st x)) n) := by
  have sp := merge_spec hI hg hh
  refine ⟨sp.dom, sp.fl, fun n => ?_⟩
  exact sp.least.unique (isLeast_cl _ _ (fun x => Nat.max_le.2 ⟨hg.le2 x, hh.le2 x⟩)) n

theorem merge_idem (hI : ∀ n, I n ≤ 2) {g : EGraph} (hg : WF I g) : matchesG (merge I g g) g = true :=
  (matchesG_iff (merge_spec hI hg hg).wf.toRep hg.toRep).2 (merge_idem_equiv hI hg)

theorem merge_comm (hI : ∀ n, I n ≤ 2) {g h : EGraph} (hg : WF I g) (hh : WF I h) :
    matchesG (merge I g h) (merge I h g) = true :=
  (matchesG_iff (merge_spec hI hg hh).wf.toRep (merge_spec hI hh hg).wf.toRep).2 (merge_comm_equiv hI hg hh)

theorem merge_assoc (hI : ∀ n, I n ≤ 2) {g h k : EGraph} (hg : WF I g) (hh : WF I h) (hk : WF I k) :
    matchesG (merge I (merge I g h) k) (merge I g (merge I h k)) = true :=
  (matchesG_iff (merge_spec hI (merge_spec hI hg hh).wf hk).wf.toRep
    (merge_spec hI hg (merge_spec hI hh hk).wf).wf.toRep).2 (merge_assoc_equiv hI hg hh hk)

theorem le_merge_left' (hI : ∀ n, I n ≤ 2) {g h : EGraph} (hg : WF I g) (hh : WF I h) :
    lessEqual g (merge I g h) = true := (lessEqual_iff hg.toRep).2 (le_merge_left hI hg hh)

theorem le_merge_right' (hI : ∀ n, I n ≤ 2) {g h : EGraph} (hg : WF I g) (hh : WF I h) :
    lessEqual h (merge I g h) = true := (lessEqual_iff hh.toRep).2 (le_merge_right hI hg hh)

/-- **merge_least**: `Merge` is the least upper bound -/
theorem merge_least (hI : ∀ n, I n ≤ 2) {g h k : EGraph} (hg : WF I g) (hh : WF I h) (hk : WF I k)
    (h1 : lessEqual g k = true) (h2 : lessEqual h k = true) : lessEqual (merge I g h) k = true :=
  (lessEqual_iff (merge_spec hI hg hh).wf.toRep).2
    (merge_least_le hI hg hh hk ((lessEqual_iff hg.toRep).1 h1) ((lessEqual_iff hh.toRep).1 h2))

/-! ### monotonicity of the primitives (fixed node universe, same arguments) -/

theorem addNode_mono (hI : ∀ n, I n ≤ 2) {g h : EGraph} (hg : WF I g) (hh : WF I h)
    (hle : lessEqual g h = true) (n : Node) : lessEqual (addNode I g n) (addNode I h n) = true :=
  (lessEqual_iff (addNode_wf hI hg n).toRep).2 (addNode_mono_le hI hg hh ((lessEqual_iff hg.toRep).1 hle) n)

theorem addEdge_mono (hI : ∀ n, I n ≤ 2) {g h : EGraph} (hg : WF I g) (hh : WF I h)
    (hle : lessEqual g h = true) (a b : Node) (f : Flags) (hf : f.any = true) :
    lessEqual (addEdge I g a b f) (addEdge I h a b f) = true :=
  (lessEqual_iff (addEdge_wf hI hg a b f).toRep).2
    (addEdge_mono_le hI hg hh ((lessEqual_iff hg.toRep).1 hle) a b f hf)

theorem mergeNodeStatus_mono {g h : EGraph} (hg : WF I g) (hh : WF I h) (hle : lessEqual g h = true)
    {n : Node} (hn : n ∈ g.dom) {s : Nat} (hs : s ≤ 2) :
    lessEqual (mergeNodeStatus g n s) (mergeNodeStatus h n s) = true :=
  (lessEqual_iff (mns_spec hg hn hs).wf.toRep).2 (mns_mono_le hg hh ((lessEqual_iff hg.toRep).1 hle) hn hs)

theorem merge_mono (hI : ∀ n, I n ≤ 2) {g g' h h' : EGraph} (hg : WF I g) (hg' : WF I g') (hh : WF I h)
    (hh' : WF I h') (h1 : lessEqual g g' = true) (h2 : lessEqual h h' = true) :
    lessEqual (merge I g h) (merge I g' h') = true :=
  (lessEqual_iff (merge_spec hI hg hh).wf.toRep).2
    (merge_mono_le hI hg hg' hh hh' ((lessEqual_iff hg.toRep).1 h1) ((lessEqual_iff hh.toRep).1 h2))

/-- extensive: the primitives only add information -/
theorem addEdge_extensive (hI : ∀ n, I n ≤ 2) {g : EGraph} (hg : WF I g) (a b : Node) (f : Flags) :
    lessEqual g (addEdge I g a b f) = true := (lessEqual_iff hg.toRep).2 (addEdge_le hI hg.toRep a b f)

/-! ### composite operations

`weakAssign`, `storeField`, `loadField` (Model/EGraph.lean) are checked against the real code by the
correspondence M5, including subnode and load-node creation.  Proved here: the flat fragment (no
subnode edge leaves the source, hence the node group is untouched) and `CallUnknown`.  The full
statements are kept as `Prop`s. -/

/-- **Full statement** (monotonicity of `WeakAssign` over a fixed node universe): -/
def WeakAssignMonotone (ng : NG) : Prop :=
  ∀ (g h : EGraph) (fuel : Nat) (d s : Node), WF ng.intr g → WF ng.intr h → lessEqual g h = true →
    (weakAssign fuel ng g d s).1.next = ng.next → (weakAssign fuel ng h d s).1.next = ng.next →
    lessEqual (weakAssign fuel ng g d s).2 (weakAssign fuel ng h d s).2 = true

/-- **Full statement** for summary instantiation, for a function `call pre callee` standing for
`EscapeGraph.Call` (u-edges, deferred representatives, load-node creation): monotone in the caller
graph and in the callee summary.  `Call` is not modelled; this statement is supported only by the
repository's own per-instruction monotonicity check, switched on and collected by the hook, and by
the permuted-worklist runs (harness/cmd/c15 parts C and D). -/
def CallMonotone (I : Node → Nat) (call : EGraph → EGraph → EGraph) : Prop :=
  ∀ g g' c c', WF I g → WF I g' → WF I c → WF I c' → lessEqual g g' = true → lessEqual c c' = true →
    lessEqual (call g c) (call g' c') = true

/-- the simplest summary instantiation, `Merge`, satisfies the statement (non-vacuity of `CallMonotone`) -/
theorem callMonotone_merge (hI : ∀ n, I n ≤ 2) : CallMonotone I (merge I) :=
  fun _ _ _ _ hg hg' hc hc' h1 h2 => merge_mono hI hg hg' hc hc' h1 h2

/-- `WeakAssign` on the flat fragment is the fold of `AddEdge(dest, p, internal)` over the pointees -/
theorem weakAssign_flat_eq (ng : NG) (g : EGraph) (fuel : Nat) (dest src : Node)
    (hns : NoSubOut (addNode ng.intr g dest) src) :
    weakAssign (fuel + 1) ng g dest src = (ng, waFlat ng.intr g dest src) :=
  weakAssign_flat ng g fuel dest src hns

theorem weakAssign_preserves_wf_partial (ng : NG) (hI : ∀ n, ng.intr n ≤ 2) {g : EGraph} (hg : WF ng.intr g)
    (fuel : Nat) (dest src : Node) (hns : NoSubOut (addNode ng.intr g dest) src) :
    WF ng.intr (weakAssign (fuel + 1) ng g dest src).2 := by
  rw [weakAssign_flat_eq ng g fuel dest src hns]; exact (waFlat_spec hI hg dest src).wf

/-- **weakAssign_mono** (partial: no subnode edge leaves `src` in either graph) -/
theorem weakAssign_mono_partial (ng : NG) (hI : ∀ n, ng.intr n ≤ 2) {g h : EGraph} (hg : WF ng.intr g)
    (hh : WF ng.intr h) (hle : lessEqual g h = true) (fuel : Nat) (dest src : Node)
    (hg' : NoSubOut (addNode ng.intr g dest) src) (hh' : NoSubOut (addNode ng.intr h dest) src) :
    lessEqual (weakAssign (fuel + 1) ng g dest src).2 (weakAssign (fuel + 1) ng h dest src).2 = true := by
  rw [weakAssign_flat_eq ng g fuel dest src hg', weakAssign_flat_eq ng h fuel dest src hh']
  exact (lessEqual_iff (waFlat_spec hI hg dest src).wf.toRep).2
    (waFlat_mono_le hI hg hh ((lessEqual_iff hg.toRep).1 hle) dest src)

/-- what `WeakAssign(dest, src)` guarantees on the flat fragment: `dest` points (internally) to
everything `src` points to, and the result is the least well-formed graph above `g` that does -/
theorem weakAssign_flat_edges (hI : ∀ n, I n ≤ 2) {g : EGraph} (hg : WF I g) (dest src p : Node)
    (hp : (g.fl src p).ext = true ∨ (g.fl src p).int = true) : ((waFlat I g dest src).fl dest p).int = true :=
  (waFlat_spec hI hg dest src).edges p hp

/-- `StoreField(addr, val, "")` on the flat fragment: a fold of flat weak assignments, node group untouched -/
theorem storeField_flat_eq (ng : NG) (hI : ∀ n, ng.intr n ≤ 2) {g : EGraph} (hg : WF ng.intr g) (addr val : Node)
    (hns : NoSubOut g val) :
    storeField ng g addr val none = (ng, foldWA ng.intr g ((pointees g addr).map fun p => (p, val))) :=
  storeField_flat ng hI hg addr val hns

theorem storeField_preserves_wf_partial (ng : NG) (hI : ∀ n, ng.intr n ≤ 2) {g : EGraph} (hg : WF ng.intr g)
    (addr val : Node) (hns : NoSubOut g val) : WF ng.intr (storeField ng g addr val none).2 := by
  rw [storeField_flat_eq ng hI hg addr val hns]; exact (foldWA_spec hI hg _).1

/-- **storeField_mono** (partial: empty field name, no subnode edge out of the stored value, and
the stored value is not itself a pointee of the address — value nodes of SSA registers never are) -/
theorem storeField_mono_partial (ng : NG) (hI : ∀ n, ng.intr n ≤ 2) {g h : EGraph} (hg : WF ng.intr g)
    (hh : WF ng.intr h) (hle : lessEqual g h = true) (addr val : Node) (hg' : NoSubOut g val)
    (hh' : NoSubOut h val) (hdisj : val ∉ pointees h addr) :
    lessEqual (storeField ng g addr val none).2 (storeField ng h addr val none).2 = true := by
  have hle' := (lessEqual_iff hg.toRep).1 hle
  rw [storeField_flat_eq ng hI hg addr val hg', storeField_flat_eq ng hI hh addr val hh']
  apply (lessEqual_iff (foldWA_spec hI hg _).1.toRep).2
  have hsubp : ∀ p, p ∈ pointees g addr → p ∈ pointees h addr := by
    intro p hp
    obtain ⟨hpd, hpe⟩ := mem_succs.1 hp
    exact mem_succs.2 ⟨hle'.dom p hpd, Flags.any_of_le (hle'.fl addr p) hpe⟩
  apply foldWA_mono_le hI hg hh hle'
  · intro pr hpr
    obtain ⟨p, hp, rfl⟩ := List.mem_map.1 hpr
    exact List.mem_map.2 ⟨p, hsubp p hp, rfl⟩
  · intro pr pr' hpr hpr' e
    obtain ⟨p, _, rfl⟩ := List.mem_map.1 hpr
    obtain ⟨p', hp', rfl⟩ := List.mem_map.1 hpr'
    have e' : val = p' := e
    exact hdisj (e' ▸ hsubp p' hp')
  · intro pr hpr
    obtain ⟨p, hp, rfl⟩ := List.mem_map.1 hpr
    exact (mem_succs.1 (hsubp p hp)).1

/-- the generic form used for loads as well: a sequence of flat weak assignments is monotone in the
graph and in the set of (destination, source) pairs, provided no source is a destination -/
theorem foldWA_mono (hI : ∀ n, I n ≤ 2) {g h : EGraph} (hg : WF I g) (hh : WF I h) (hle : lessEqual g h = true)
    (ps ps' : List (Node × Node)) (hsub : ∀ pr, pr ∈ ps → pr ∈ ps')
    (hdisj : ∀ pr pr', pr ∈ ps → pr' ∈ ps → pr.2 ≠ pr'.1) (hdom : ∀ pr, pr ∈ ps → pr.1 ∈ h.dom) :
    lessEqual (foldWA I g ps) (foldWA I h ps') = true :=
  (lessEqual_iff (foldWA_spec hI hg ps).1.toRep).2
    (foldWA_mono_le hI hg hh ((lessEqual_iff hg.toRep).1 hle) ps ps' hsub hdisj hdom)

/-- leaking a set of nodes of the graph (`CallUnknown` on their pointers): well-formed, same edges,
every given node leaked, and the least such status -/
theorem leakAll_preserves_wf {g : EGraph} (hg : WF I g) (ns : List Node) (hns : ∀ n, n ∈ ns → n ∈ g.dom) :
    WF I (ns.foldl (fun g n => mergeNodeStatus g n 2) g) := (leakAll_spec hg ns hns).1

theorem leakAll_mono {g h : EGraph} (hg : WF I g) (hh : WF I h) (hle : lessEqual g h = true) (ns : List Node)
    (hns : ∀ n, n ∈ ns → n ∈ g.dom) :
    lessEqual (ns.foldl (fun g n => mergeNodeStatus g n 2) g) (ns.foldl (fun g n => mergeNodeStatus g n 2) h) = true := by
  have hle' := (lessEqual_iff hg.toRep).1 hle
  obtain ⟨g1, g2, g3, _, _, g6⟩ := leakAll_spec hg ns hns
  obtain ⟨h1, h2, h3, h4, h5, _⟩ := leakAll_spec hh ns (fun n hn => hle'.dom n (hns n hn))
  apply (lessEqual_iff g1.toRep).2
  refine ⟨fun a b => by rw [g3, h3]; exact hle'.fl a b, fun x hx => by rw [h2]; rw [g2] at hx; exact hle'.dom x hx, ?_⟩
  apply g6
  · exact closedFl_of_le h1.closed (fun a b => by rw [h3]; exact hle'.fl a b)
  · exact fun x => Nat.le_trans (hle'.st x) (h4 x)
  · exact h5

/-! ### non-vacuity and the role of the hypothesis -/

/-- kinds: node 0 a variable, node 1 an allocation, node 2 a global (intrinsically leaked) -/
def exI : Node → Nat := fun n => if n = 2 then 2 else 0

def exG : EGraph :=
  { dom := [0, 1], st := fun _ => 0, out := fun n => n = 0 || n = 1,
    fl := fun a b => if a = 0 ∧ b = 1 then Flags.internal else Flags.none }

def exH : EGraph :=
  { dom := [1, 2], st := fun n => if n = 2 then 2 else 0, out := fun n => n = 1 || n = 2,
    fl := fun a b => if a = 2 ∧ b = 0 then Flags.none else Flags.none }

/-- `exK`: the global points to the allocation; status closed -/
def exK : EGraph :=
  { dom := [1, 2], st := fun n => if n = 1 ∨ n = 2 then 2 else 0, out := fun n => n = 1 || n = 2,
    fl := fun a b => if a = 2 ∧ b = 1 then Flags.internal else Flags.none }

example : wfB exI exG 3 = true ∧ wfB exI exK 3 = true := by decide
example : matchesG (merge exI exG exK) (merge exI exK exG) = true := by decide
example : (merge exI exG exK).st 1 = 2 ∧ (merge exI exG exK).st 0 = 0 := by decide
example : lessEqual exG (merge exI exG exK) = true ∧ lessEqual (merge exI exG exK) exG = false := by decide

/-- a graph whose status is not closed (the global is leaked, its pointee is not) -/
def exBad : EGraph :=
  { dom := [1, 2], st := fun n => if n = 2 then 2 else 0, out := fun n => n = 1 || n = 2,
    fl := fun a b => if a = 2 ∧ b = 1 then Flags.internal else Flags.none }

/-- without closedness `Merge` is not commutative: the hypothesis `WF` is needed -/
example : matchesG (merge exI exG exBad) (merge exI exBad exG) = false := by decide

end EGraph

/-! ### chaotic iteration -/

open Fixpoint in
/-- **Chaotic iteration**: over a finite-height preorder with monotone transfer functions, every
fair order of re-analysis reaches a post-fixpoint that lies below every post-fixpoint. -/
theorem chaotic_iteration_reaches_lfp {L : Type} {n : Nat} (fw : Framework L n) (σ : Nat → Fin n)
    (hfair : Fair σ) :
    ∃ T, fw.PostFix (fw.run σ T) ∧ ∀ y, fw.PostFix y → ∀ i, fw.le (fw.run σ T i) (y i) :=
  fw.reaches_least_fixpoint σ hfair

open Fixpoint in
/-- **Order independence**: two fair worklist orders end in equivalent fixpoints. -/
theorem chaotic_iteration_order_independent {L : Type} {n : Nat} (fw : Framework L n)
    (σ τ : Nat → Fin n) (hσ : Fair σ) (hτ : Fair τ) :
    ∃ T T', fw.PostFix (fw.run σ T) ∧ fw.PostFix (fw.run τ T') ∧
      (∀ i, fw.le (fw.run σ T i) (fw.run τ T' i)) ∧ (∀ i, fw.le (fw.run τ T' i) (fw.run σ T i)) :=
  fw.order_independent σ τ hσ hτ

end Argot.EGraph
