/-
C15 — the trimming step of the function summary (`EscapeGraph.CloneReachable`, called by
`functionAnalysisState.Resummarize`) is a monotone, shrinking, idempotent operation that preserves
well-formedness and leaves every node reachable from the roots untouched; the reachable set it computes is
the reflexive-transitive closure of the edge relation from the roots and does not depend on the order in
which the Go loop pops its worklist and ranges over its maps.

Model: Argot/Model/EGraphClone.lean (the worklist is the generic one of Argot/Base/Closure.lean).
Together with `merge_mono` / `weakAssign_mono` (Props/C15, Props/C15Mono) this makes the map
"block-end graphs ↦ trimmed summary" of `Resummarize` monotone up to `simplifySummary`, which is not modelled.
-/
import Argot.Model.EGraphClone
import Argot.Proofs.EGraphOrder
import Argot.Props.C15Mono

namespace Argot.EGraph
namespace EGraph

/-- the edge relation the worklist follows: `b` is an inner key of `g.edges[a]` -/
def Succ (g : EGraph) (a b : Node) : Prop := b ∈ g.succs a

/-- reachable from the roots along edges of any kind -/
def ReachR (g : EGraph) (roots : List Node) (n : Node) : Prop := Closure.Reach g.Succ roots n

private theorem poss_iff (g : EGraph) (k k' : Node) :
    Closure.Poss (fun a : Node => a) g.succs k k' ↔ g.Succ k k' := by
  constructor
  · rintro ⟨a, ha, a', ha', hk'⟩
    have ha : a = k := ha
    have hk' : a' = k' := hk'
    subst ha; subst hk'; exact ha'
  · intro h; exact ⟨k, rfl, k', h, rfl⟩

/-- **Termination.** The worklist of `CloneReachable` is empty within `2·|roots| + |status|` pops. -/
theorem reachFrom_converges (g : EGraph) (roots : List Node) : g.reachConv roots = true := by
  unfold reachConv
  have h := Closure.run_terminates (fun a : Node => a) g.succs (fun a => a ∈ roots ∨ a ∈ g.dom)
    (fun a _ a' ha' => Or.inr (mem_succs.1 ha').1) (roots ++ g.dom)
    (fun a h => List.mem_append.2 h) (roots := roots) (fun a h => Or.inl h)
    (fuel := g.reachFuel roots) (by simp [reachFuel, List.length_append]; omega)
  simp [h]

/-- **Exactness of the reachable set.** `reachable[n]` at the end of the loop iff `n` is reachable from the
roots along edges. -/
theorem mem_reachFrom_iff (g : EGraph) (roots : List Node) (n : Node) :
    n ∈ g.reachFrom roots ↔ g.ReachR roots n := by
  have h := Closure.run_eq_closure (fun a : Node => a) g.succs
    (fun a b hab a' ha' => ⟨a', by have hab : a = b := hab; subst hab; exact ha', rfl⟩)
    (fun a => a ∈ roots ∨ a ∈ g.dom)
    (fun a _ a' ha' => Or.inr (mem_succs.1 ha').1) (roots ++ g.dom)
    (fun a h => List.mem_append.2 h) (roots := roots) (fun a h => Or.inl h)
    (fuel := g.reachFuel roots) (by simp [reachFuel, List.length_append]; omega) n
  have e1 : ∀ l : List Node, l.map (fun a : Node => a) = l := fun l => by simp
  rw [e1, e1] at h
  unfold reachFrom ReachR
  rw [h]
  constructor
  · exact fun r => Closure.Reach.mono (fun _ hk => hk) (fun k k' hp => (poss_iff g k k').1 hp) r
  · exact fun r => Closure.Reach.mono (fun _ hk => hk) (fun k k' hp => (poss_iff g k k').2 hp) r

/-- **Order independence.** Whatever element the Go loop pops, in whatever order it ranges over
`g.edges[n]`, and wherever it puts the new nodes (LIFO in the code), with the roots marked up front as the
code does: when the worklist is empty the marked set is the set `reachFrom` computes. -/
theorem reach_any_order (g : EGraph) (roots : List Node) {s : Closure.State Node Node}
    (hs : Closure.Steps (fun a : Node => a) g.succs ⟨roots, roots, []⟩ s) (hq : s.queue = []) (n : Node) :
    n ∈ s.visited ↔ n ∈ g.reachFrom roots := by
  have h := Closure.visited_eq_closure (fun a : Node => a) g.succs
    (fun a b hab a' ha' => ⟨a', by have hab : a = b := hab; subst hab; exact ha', rfl⟩)
    (roots := roots) (seen0 := roots) (fun k hk => by simpa using hk) hs hq n
  have e1 : ∀ l : List Node, l.map (fun a : Node => a) = l := fun l => by simp
  rw [e1, e1] at h
  rw [h, mem_reachFrom_iff]
  constructor
  · exact fun r => Closure.Reach.mono (fun _ hk => hk) (fun k k' hp => (poss_iff g k k').1 hp) r
  · exact fun r => Closure.Reach.mono (fun _ hk => hk) (fun k k' hp => (poss_iff g k k').2 hp) r

/-! ### the trimmed graph -/

theorem clone_dom {g : EGraph} {roots : List Node} {n : Node} :
    n ∈ (g.cloneReachable roots).dom ↔ n ∈ g.dom ∧ g.ReachR roots n := by
  simp [cloneReachable, mem_reachFrom_iff]

theorem clone_st_of_reach {g : EGraph} {roots : List Node} {n : Node} (h : g.ReachR roots n) :
    (g.cloneReachable roots).st n = g.st n := by
  simp [cloneReachable, (mem_reachFrom_iff g roots n).2 h]

theorem clone_st_of_not {g : EGraph} {roots : List Node} {n : Node} (h : ¬ g.ReachR roots n) :
    (g.cloneReachable roots).st n = 0 := by
  have : n ∉ g.reachFrom roots := fun hn => h ((mem_reachFrom_iff g roots n).1 hn)
  simp [cloneReachable, this]

theorem clone_fl_of_reach {g : EGraph} {roots : List Node} {a : Node} (h : g.ReachR roots a) (b : Node) :
    (g.cloneReachable roots).fl a b = g.fl a b := by
  simp [cloneReachable, (mem_reachFrom_iff g roots a).2 h]

theorem clone_fl_of_not {g : EGraph} {roots : List Node} {a : Node} (h : ¬ g.ReachR roots a) (b : Node) :
    (g.cloneReachable roots).fl a b = Flags.none := by
  have : a ∉ g.reachFrom roots := fun hn => h ((mem_reachFrom_iff g roots a).1 hn)
  simp [cloneReachable, this]

theorem clone_out {g : EGraph} {roots : List Node} {n : Node} :
    (g.cloneReachable roots).out n = true ↔ g.ReachR roots n ∧ g.out n = true := by
  simp [cloneReachable, mem_reachFrom_iff]

/-- an edge of the trimmed graph is an edge of `g` between two reachable nodes -/
theorem clone_edge {g : EGraph} (hg : Rep g) {roots : List Node} {a b : Node}
    (h : ((g.cloneReachable roots).fl a b).any = true) :
    g.ReachR roots a ∧ g.ReachR roots b ∧ (g.fl a b).any = true := by
  by_cases ha : g.ReachR roots a
  · rw [clone_fl_of_reach ha] at h
    exact ⟨ha, Closure.Reach.step ha (mem_succs.2 ⟨(hg.ends a b h).2, h⟩), h⟩
  · rw [clone_fl_of_not ha] at h; simp [Flags.any_none] at h

/-- **Untouched inside.** Every node reachable from the roots keeps its status, its edge row and all its
out-edges: no query that starts at a formal, a free variable or a return node can tell `g` from the trimmed
graph. -/
theorem cloneReachable_keeps (g : EGraph) (roots : List Node) (n : Node) (h : g.ReachR roots n) :
    (g.cloneReachable roots).st n = g.st n ∧ (g.cloneReachable roots).out n = g.out n ∧
    (∀ b, (g.cloneReachable roots).fl n b = g.fl n b) ∧
    (n ∈ (g.cloneReachable roots).dom ↔ n ∈ g.dom) := by
  refine ⟨clone_st_of_reach h, ?_, clone_fl_of_reach h, ?_⟩
  · simp [cloneReachable, (mem_reachFrom_iff g roots n).2 h]
  · rw [clone_dom]; exact ⟨fun x => x.1, fun x => ⟨x, h⟩⟩

/-- representation invariants survive -/
theorem cloneReachable_rep {g : EGraph} (hg : Rep g) (roots : List Node) : Rep (g.cloneReachable roots) where
  le2 n := by
    by_cases h : g.ReachR roots n
    · rw [clone_st_of_reach h]; exact hg.le2 n
    · rw [clone_st_of_not h]; omega
  zero n hn := by
    by_cases h : g.ReachR roots n
    · rw [clone_st_of_reach h]; exact hg.zero n (fun hd => hn (clone_dom.2 ⟨hd, h⟩))
    · exact clone_st_of_not h
  out n := by
    rw [clone_out, clone_dom, hg.out n]; exact ⟨fun x => ⟨x.2, x.1⟩, fun x => ⟨x.2, x.1⟩⟩
  ends a b h := by
    obtain ⟨ha, hb, he⟩ := clone_edge hg h
    exact ⟨clone_dom.2 ⟨(hg.ends a b he).1, ha⟩, clone_dom.2 ⟨(hg.ends a b he).2, hb⟩⟩

/-- **Well-formedness is preserved** (the code panics right after the trim if it is not). -/
theorem cloneReachable_preserves_wf {I : Node → Nat} {g : EGraph} (hg : WF I g) (roots : List Node) :
    WF I (g.cloneReachable roots) where
  toRep := cloneReachable_rep hg.toRep roots
  intr n hn := by
    obtain ⟨hd, hr⟩ := clone_dom.1 hn
    rw [clone_st_of_reach hr]; exact hg.intr n hd
  closed a b h := by
    obtain ⟨ha, hb, he⟩ := clone_edge hg.toRep h
    rw [clone_st_of_reach ha, clone_st_of_reach hb]; exact hg.closed a b he

/-- **Shrinking.** The trimmed graph is below the original in the analysis' order. -/
theorem cloneReachable_le (g : EGraph) (roots : List Node) : LE (g.cloneReachable roots) g where
  fl a b := by
    by_cases h : g.ReachR roots a
    · rw [clone_fl_of_reach h]; exact Flags.le_refl _
    · rw [clone_fl_of_not h]; exact Flags.none_le _
  dom n hn := (clone_dom.1 hn).1
  st n := by
    by_cases h : g.ReachR roots n
    · rw [clone_st_of_reach h]; exact Nat.le_refl _
    · rw [clone_st_of_not h]; exact Nat.zero_le _

theorem cloneReachable_lessEqual {g : EGraph} (hg : Rep g) (roots : List Node) :
    (g.cloneReachable roots).lessEqual g = true :=
  (lessEqual_iff (cloneReachable_rep hg roots)).2 (cloneReachable_le g roots)

/-- a larger graph reaches more -/
theorem reach_mono {g h : EGraph} (hle : LE g h) {roots roots' : List Node} (hr : ∀ r ∈ roots, r ∈ roots')
    {n : Node} (hn : g.ReachR roots n) : h.ReachR roots' n := by
  refine Closure.Reach.mono hr ?_ hn
  intro a b hab
  obtain ⟨hd, he⟩ := mem_succs.1 hab
  exact mem_succs.2 ⟨hle.dom b hd, Flags.any_of_le (hle.fl a b) he⟩

/-- **Monotone** in the graph and in the root set: a larger input never yields a smaller trimmed summary. -/
theorem cloneReachable_mono {g h : EGraph} (hle : LE g h) {roots roots' : List Node}
    (hr : ∀ r ∈ roots, r ∈ roots') : LE (g.cloneReachable roots) (h.cloneReachable roots') where
  fl a b := by
    by_cases ha : g.ReachR roots a
    · rw [clone_fl_of_reach ha, clone_fl_of_reach (reach_mono hle hr ha)]; exact hle.fl a b
    · rw [clone_fl_of_not ha]; exact Flags.none_le _
  dom n hn := by
    obtain ⟨hd, hrn⟩ := clone_dom.1 hn
    exact clone_dom.2 ⟨hle.dom n hd, reach_mono hle hr hrn⟩
  st n := by
    by_cases hn : g.ReachR roots n
    · rw [clone_st_of_reach hn, clone_st_of_reach (reach_mono hle hr hn)]; exact hle.st n
    · rw [clone_st_of_not hn]; exact Nat.zero_le _

theorem cloneReachable_mono_lessEqual {g h : EGraph} (hg : Rep g) (hgh : g.lessEqual h = true)
    (roots : List Node) : (g.cloneReachable roots).lessEqual (h.cloneReachable roots) = true :=
  (lessEqual_iff (cloneReachable_rep hg roots)).2
    (cloneReachable_mono ((lessEqual_iff hg).1 hgh) (fun _ hr => hr))

/-- reachability inside the trimmed graph is reachability in `g` -/
theorem reach_clone_iff (g : EGraph) (roots : List Node) (n : Node) :
    (g.cloneReachable roots).ReachR roots n ↔ g.ReachR roots n := by
  constructor
  · exact reach_mono (cloneReachable_le g roots) (fun _ hr => hr)
  · intro h
    induction h with
    | root hk => exact Closure.Reach.root hk
    | step hka hab ih =>
      rename_i a b
      obtain ⟨hd, he⟩ := mem_succs.1 hab
      refine Closure.Reach.step ih (mem_succs.2 ⟨clone_dom.2 ⟨hd, Closure.Reach.step hka hab⟩, ?_⟩)
      rw [clone_fl_of_reach hka]; exact he

/-- **Idempotent.** Trimming twice is trimming once (as the Go maps see it). -/
theorem cloneReachable_idem (g : EGraph) (roots : List Node) :
    Equiv ((g.cloneReachable roots).cloneReachable roots) (g.cloneReachable roots) where
  dom n := by
    rw [clone_dom, reach_clone_iff]
    exact ⟨fun x => x.1, fun x => ⟨x, (clone_dom.1 x).2⟩⟩
  st n := by
    by_cases h : g.ReachR roots n
    · rw [clone_st_of_reach ((reach_clone_iff g roots n).2 h)]
    · rw [clone_st_of_not (fun x => h ((reach_clone_iff g roots n).1 x)), clone_st_of_not h]
  out n := by
    by_cases h : g.ReachR roots n
    · have h1 : n ∈ g.reachFrom roots := (mem_reachFrom_iff g roots n).2 h
      have h2 : n ∈ (g.cloneReachable roots).reachFrom roots :=
        (mem_reachFrom_iff _ roots n).2 ((reach_clone_iff g roots n).2 h)
      show (decide (n ∈ (g.cloneReachable roots).reachFrom roots) && (g.cloneReachable roots).out n) =
        (g.cloneReachable roots).out n
      simp [h2]
    · have h1 : n ∉ g.reachFrom roots := fun x => h ((mem_reachFrom_iff g roots n).1 x)
      have h2 : n ∉ (g.cloneReachable roots).reachFrom roots :=
        fun x => h ((reach_clone_iff g roots n).1 ((mem_reachFrom_iff _ roots n).1 x))
      have e1 : ((g.cloneReachable roots).cloneReachable roots).out n = false := by
        show (decide (n ∈ (g.cloneReachable roots).reachFrom roots) && _) = false
        simp [h2]
      have e2 : (g.cloneReachable roots).out n = false := by
        show (decide (n ∈ g.reachFrom roots) && _) = false
        simp [h1]
      rw [e1, e2]
  fl a b := by
    by_cases h : g.ReachR roots a
    · rw [clone_fl_of_reach ((reach_clone_iff g roots a).2 h)]
    · rw [clone_fl_of_not (fun x => h ((reach_clone_iff g roots a).1 x)), clone_fl_of_not h]

/-- the roots themselves are kept whenever they have a status -/
theorem cloneReachable_keeps_roots (g : EGraph) (roots : List Node) (r : Node) (hr : r ∈ roots)
    (hd : r ∈ g.dom) : r ∈ (g.cloneReachable roots).dom :=
  clone_dom.2 ⟨hd, Closure.Reach.root hr⟩

/-- nothing outside the reachable part survives: the trimmed graph has no node, status or edge row for a
node that no root reaches (this is what keeps summaries small). -/
theorem cloneReachable_drops (g : EGraph) (roots : List Node) (n : Node) (h : ¬ g.ReachR roots n) :
    n ∉ (g.cloneReachable roots).dom ∧ (g.cloneReachable roots).st n = 0 ∧
    (g.cloneReachable roots).out n = false ∧ ∀ b, (g.cloneReachable roots).fl n b = Flags.none := by
  refine ⟨fun hn => h (clone_dom.1 hn).2, clone_st_of_not h, ?_, clone_fl_of_not h⟩
  have h1 : n ∉ g.reachFrom roots := fun x => h ((mem_reachFrom_iff g roots n).1 x)
  show (decide (n ∈ g.reachFrom roots) && _) = false
  simp [h1]

/-! ### the function summary as a function of the return-block end states

`Resummarize`: `returnResult := empty; for each block ending in Return: returnResult.Merge(blockEnd)` … then
`returnResult.CloneReachable(formals ++ freevars ++ returnNodes)`.  (The `WeakAssign` of the returned values
to the return nodes in between is `weakAssign_mono` of Props/C15Mono and keeps its hypotheses; `simplifySummary`
afterwards is not modelled.) -/

/-- join of the return-block end states, then the trim -/
def summaryOf (I : Node → Nat) (roots : List Node) (ends : List EGraph) : EGraph :=
  (ends.foldl (merge I) EGraph.empty).cloneReachable roots

/-- `CloneReachable` as a monotone operation in the sense used for block transfer functions -/
theorem cloneReachable_monoOp (I : Node → Nat) (roots : List Node) :
    MonoOp I (fun _ => True) (fun g => g.cloneReachable roots) :=
  ⟨fun _ hg _ => cloneReachable_preserves_wf hg roots, fun _ _ _ => trivial,
   fun _ _ _ _ _ _ hle => cloneReachable_mono hle (fun _ hr => hr)⟩

private theorem foldl_merge_mono {I : Node → Nat} (hI : ∀ n, I n ≤ 2) :
    ∀ (ps : List (EGraph × EGraph)), (∀ p ∈ ps, WF I p.1 ∧ WF I p.2 ∧ LE p.1 p.2) →
    ∀ acc acc', WF I acc → WF I acc' → LE acc acc' →
      WF I ((ps.map Prod.fst).foldl (merge I) acc) ∧ WF I ((ps.map Prod.snd).foldl (merge I) acc') ∧
      LE ((ps.map Prod.fst).foldl (merge I) acc) ((ps.map Prod.snd).foldl (merge I) acc') := by
  intro ps
  induction ps with
  | nil => intro _ acc acc' ha ha' hle; exact ⟨ha, ha', hle⟩
  | cons p ps ih =>
    intro h acc acc' ha ha' hle
    obtain ⟨he, he', hl⟩ := h p (List.mem_cons_self ..)
    exact ih (fun q hq => h q (List.mem_cons_of_mem _ hq)) _ _ (merge_preserves_wf hI ha he)
      (merge_preserves_wf hI ha' he') (merge_mono_le hI ha ha' he he' hle hl)

/-- **The summary is monotone in the block-end states**: if every return block's end state grows (in the
analysis' order; `ps` pairs the smaller with the larger state of each return block) the trimmed summary grows —
the step that makes the whole-program fixpoint over summaries a monotone iteration. -/
theorem summaryOf_mono {I : Node → Nat} (hI : ∀ n, I n ≤ 2) (roots : List Node) (ps : List (EGraph × EGraph))
    (h : ∀ p ∈ ps, WF I p.1 ∧ WF I p.2 ∧ LE p.1 p.2) :
    LE (summaryOf I roots (ps.map Prod.fst)) (summaryOf I roots (ps.map Prod.snd)) ∧
    WF I (summaryOf I roots (ps.map Prod.fst)) ∧ WF I (summaryOf I roots (ps.map Prod.snd)) := by
  obtain ⟨h1, h2, h3⟩ := foldl_merge_mono hI ps h _ _ (wf_empty I) (wf_empty I) (LE.refl _)
  exact ⟨cloneReachable_mono h3 (fun _ hr => hr), cloneReachable_preserves_wf h1 roots,
    cloneReachable_preserves_wf h2 roots⟩

/-- the summary does not depend on the order in which the return blocks are merged (Go ranges over the
`blockEnd` map): swapping two neighbours gives graphs that are equal as the Go maps see them -/
theorem summaryOf_swap {I : Node → Nat} (hI : ∀ n, I n ≤ 2) (roots : List Node) {a b : EGraph}
    (ha : WF I a) (hb : WF I b) :
    LE (summaryOf I roots [a, b]) (summaryOf I roots [b, a]) := by
  have e : ∀ x y : EGraph, WF I x → WF I y →
      LE (merge I (merge I EGraph.empty x) y) (merge I (merge I EGraph.empty y) x) := by
    intro x y hx hy
    have w0 := wf_empty I
    have wx := merge_preserves_wf hI w0 hx
    have wy := merge_preserves_wf hI w0 hy
    refine merge_least_le hI wx hy (merge_preserves_wf hI wy hx) ?_ ?_
    · refine merge_least_le hI w0 hx (merge_preserves_wf hI wy hx) ?_ (le_merge_right hI wy hx)
      exact (le_merge_left hI w0 hy).trans (le_merge_left hI wy hx)
    · exact (le_merge_right hI w0 hy).trans (le_merge_left hI wy hx)
  exact cloneReachable_mono (e a b ha hb) (fun _ hr => hr)

/-! ### non-vacuity: a 4-node graph, node 3 unreachable from root 0 -/

def exClone : EGraph :=
  { dom := [0, 1, 2, 3], st := fun n => if n = 3 then 2 else if n = 0 then 0 else 1, out := fun n => decide (n < 4)
    fl := fun a b => if (a = 0 ∧ b = 1) ∨ (a = 1 ∧ b = 2) ∨ (a = 2 ∧ b = 1) ∨ (a = 3 ∧ b = 3) then Flags.internal
      else Flags.none }

example : (exClone.cloneReachable [0]).dom = [0, 1, 2] := by decide
example : exClone.reachConv [0] = true := by decide
example : (exClone.cloneReachable [0]).lessEqual exClone = true := by decide
example : exClone.lessEqual (exClone.cloneReachable [0]) = false := by decide

end EGraph
end Argot.EGraph
