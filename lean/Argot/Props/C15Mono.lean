/-
C15 — monotonicity of the composite escape-graph operations, beyond the flat fragment.

Property theorems only (model: Argot/Model/EGraph.lean, Argot/Model/EscCore.lean; helper lemmas:
Argot/Proofs/EGraphMono2.lean).  Everything is over a FIXED node universe: the node group `ng` is an
argument, the hypotheses `Fix`/`SFix` say that every field subnode the operation asks for already
exists in `ng`, and the theorems show that `ng` is returned unchanged.

Shape of the hypotheses (all stated on the LARGER graph `h`; they are inherited by `g ≤ h`):

* `R` is a set of nodes containing the source of the weak assignment and closed under the subnode
  edges of `h` — the rows the operation READS;
* `Desc ng d x` — `x` is the destination `d` or a field subnode below it in `ng` — the rows it WRITES;
* no written row is a read row.  Without this the unrestricted statement `WeakAssignMonotone` (Props/C15)
  is FALSE on the model: `weakAssignMonotone_overlap_false` below.  The real `WeakAssign` iterates over a
  Go map in those places, so on such arguments its result depends on the map iteration order
  (already recorded as an assumption of the M5 correspondence in props/C15.json).

`LoadField` additionally needs the load node to be named by the node group already (`historyNode … =
some hn`: the load operation was seen before, so `EnsureLoadNode` creates nothing and records nothing)
and a single pointee of the address: `EnsureLoadNode` reads the *status* of the pointee, which an
earlier iteration of the loop over the pointees may have raised, so with several pointees the result
depends on the iteration order (DESIGN §10 C15).
-/
import Argot.Proofs.EGraphMono2
import Argot.Props.C15

namespace Argot.EGraph
namespace EGraph

/-! ### (1) `WeakAssign`, subnode recursion included -/

/-- the node group is returned unchanged, the result is well-formed, above `g`, and it is the LEAST
well-formed graph above `g` that meets the demand `Sat` (destination present, internal edges to the
ext/int pointees of the source, analogous field subnodes linked, recursively) -/
theorem weakAssign_spec (ng : NG) (hI : ∀ n, ng.intr n ≤ 2) {g : EGraph} (hg : WF ng.intr g) (fuel : Nat)
    (d s : Node) (R : Node → Prop) (hRs : R s) (hRc : ∀ a b, R a → (g.fl a b).sub = true → R b)
    (hRd : ∀ x, Desc ng d x → ¬ R x) (hfix : Fix ng g.fl fuel d s) :
    (weakAssign fuel ng g d s).1 = ng ∧ WF ng.intr (weakAssign fuel ng g d s).2 ∧
    lessEqual g (weakAssign fuel ng g d s).2 = true ∧ Sat ng g.fl (weakAssign fuel ng g d s).2 fuel d s ∧
    (∀ k, WF ng.intr k → lessEqual g k = true → Sat ng g.fl k fuel d s →
      lessEqual (weakAssign fuel ng g d s).2 k = true) := by
  have r := wa_res ng hI hg fuel d s R hRs hRc hRd hfix
  exact ⟨r.ng_eq, r.least.wf, (lessEqual_iff hg.toRep).2 r.least.ge, r.least.sat,
    fun k hk hle hs => (lessEqual_iff r.least.wf.toRep).2 (r.least.least k hk ((lessEqual_iff hg.toRep).1 hle) hs)⟩

theorem weakAssign_preserves_wf (ng : NG) (hI : ∀ n, ng.intr n ≤ 2) {g : EGraph} (hg : WF ng.intr g) (fuel : Nat)
    (d s : Node) (R : Node → Prop) (hRs : R s) (hRc : ∀ a b, R a → (g.fl a b).sub = true → R b)
    (hRd : ∀ x, Desc ng d x → ¬ R x) (hfix : Fix ng g.fl fuel d s) :
    WF ng.intr (weakAssign fuel ng g d s).2 :=
  (weakAssign_spec ng hI hg fuel d s R hRs hRc hRd hfix).2.1

/-- **weakAssign_mono** (full: any fuel, subnode recursion included, fixed node universe) -/
theorem weakAssign_mono (ng : NG) (hI : ∀ n, ng.intr n ≤ 2) {g h : EGraph} (hg : WF ng.intr g) (hh : WF ng.intr h)
    (hle : lessEqual g h = true) (fuel : Nat) (d s : Node) (R : Node → Prop) (hRs : R s)
    (hRc : ∀ a b, R a → (h.fl a b).sub = true → R b) (hRd : ∀ x, Desc ng d x → ¬ R x)
    (hfix : Fix ng h.fl fuel d s) :
    (weakAssign fuel ng g d s).1 = ng ∧ (weakAssign fuel ng h d s).1 = ng ∧
    lessEqual (weakAssign fuel ng g d s).2 (weakAssign fuel ng h d s).2 = true := by
  have hle' := (lessEqual_iff hg.toRep).1 hle
  have hRcg : ∀ a b, R a → (g.fl a b).sub = true → R b :=
    fun a b ha hs => hRc a b ha (Flags.sub_of_le (hle'.fl a b) hs)
  have rg := wa_res ng hI hg fuel d s R hRs hRcg hRd (Fix_anti ng hle'.fl fuel d s hfix)
  have rh := wa_res ng hI hh fuel d s R hRs hRc hRd hfix
  exact ⟨rg.ng_eq, rh.ng_eq, (lessEqual_iff rg.least.wf.toRep).2
    (wa_mono_le ng hI hg hh hle' fuel d s R hRs hRc hRd hfix)⟩

/-! ### (2) `StoreField`, any field, no flat-fragment restriction -/

theorem storeField_preserves_wf (ng : NG) (hI : ∀ n, ng.intr n ≤ 2) {g : EGraph} (hg : WF ng.intr g)
    (addr val : Node) (field : Option Nat) (R : Node → Prop) (hRv : R val)
    (hRc : ∀ a b, R a → (g.fl a b).sub = true → R b)
    (hpt : ∀ p, p ∈ pointees g addr → (∀ x, Desc ng p x → ¬ R x) ∧ SFix ng g.fl val field p) :
    (storeField ng g addr val field).1 = ng ∧ WF ng.intr (storeField ng g addr val field).2 := by
  rw [storeField_eq]
  have r := store_fold ng hI R g.fl hRc val field hRv (pointees g addr) g hg (fun _ _ _ => rfl) hpt
  exact ⟨r.ng_eq, r.least.wf⟩

/-- **storeField_mono**: the read set `R` contains the stored value and is closed under subnode edges;
no pointee of the address, nor a field subnode below one, is in `R`; the field subnodes asked for exist -/
theorem storeField_mono (ng : NG) (hI : ∀ n, ng.intr n ≤ 2) {g h : EGraph} (hg : WF ng.intr g) (hh : WF ng.intr h)
    (hle : lessEqual g h = true) (addr val : Node) (field : Option Nat) (R : Node → Prop) (hRv : R val)
    (hRc : ∀ a b, R a → (h.fl a b).sub = true → R b)
    (hpt : ∀ p, p ∈ pointees h addr → (∀ x, Desc ng p x → ¬ R x) ∧ SFix ng h.fl val field p) :
    lessEqual (storeField ng g addr val field).2 (storeField ng h addr val field).2 = true := by
  have hle' := (lessEqual_iff hg.toRep).1 hle
  have hwf := (storeField_preserves_wf ng hI hg addr val field R hRv
    (fun a b ha hs => hRc a b ha (Flags.sub_of_le (hle'.fl a b) hs))
    (fun p hp => ⟨(hpt p (pointees_mono hle' addr p hp)).1,
      SFix_anti ng hle'.fl val field p (hpt p (pointees_mono hle' addr p hp)).2⟩)).2
  exact (lessEqual_iff hwf.toRep).2 (store_mono_le ng hI hg hh hle' addr val field R hRv hRc hpt)

/-! ### (3) `LoadField`: one pointee, load node named by the node group -/

/-- **loadField_mono**, empty field name -/
theorem loadField_mono_nofield (ng : NG) (hI : ∀ n, ng.intr n ≤ 2) {g h : EGraph} (hg : WF ng.intr g)
    (hh : WF ng.intr h) (hle : lessEqual g h = true) (hnd : g.dom.Nodup) (val addr p hn : Node) (op : Nat)
    (hsingle : pointees h addr = [p])
    (hhist : historyNode ng op (ng.next + 1) (some p) none = some hn)
    (R : Node → Prop) (hRp : R p) (hRc : ∀ a b, R a → (h.fl a b).sub = true → R b)
    (hRd : ∀ x, Desc ng val x → ¬ R x) (hfix : Fix ng h.fl (ng.next + 2) val p) :
    (loadField ng h val addr op none).1 = ng ∧
    lessEqual (loadField ng g val addr op none).2 (loadField ng h val addr op none).2 = true := by
  have hle' := (lessEqual_iff hg.toRep).1 hle
  obtain ⟨hm, hge, _, hng⟩ := ens_wa_mono_le ng hI hg hh hle' (ng.next + 2) val p hn R hRp hRc hRd hfix
  rw [loadField_single_none hsingle hhist]
  refine ⟨hng, ?_⟩
  rcases pointees_sub_single hle' hnd hsingle with h0 | h1
  · rw [loadField_nil h0]
    exact (lessEqual_iff hg.toRep).2 (hle'.trans hge)
  · rw [loadField_single_none h1 hhist]
    obtain ⟨_, _, hwf, _⟩ := ens_wa_mono_le ng hI hg hg (LE.refl g) (ng.next + 2) val p hn R hRp
      (fun a b ha hs => hRc a b ha (Flags.sub_of_le (hle'.fl a b) hs)) hRd (Fix_anti ng hle'.fl _ val p hfix)
    exact (lessEqual_iff hwf.toRep).2 hm

/-- **loadField_mono**, field `f`: the field subnode `c` of the pointee exists; the read set is closed
under the subnode edges of `h` and the edge `p → c` that `FieldSubnode` links -/
theorem loadField_mono_field (ng : NG) (hI : ∀ n, ng.intr n ≤ 2) {g h : EGraph} (hg : WF ng.intr g)
    (hh : WF ng.intr h) (hle : lessEqual g h = true) (hnd : g.dom.Nodup) (val addr p c hn : Node) (op f : Nat)
    (hsingle : pointees h addr = [p]) (hc : ng.sub p f = some c)
    (hhist : historyNode ng op (ng.next + 1) (some c) none = some hn)
    (R : Node → Prop) (hRp : R c) (hRc : ∀ a b, R a → ((linkSub h.fl p c) a b).sub = true → R b)
    (hRd : ∀ x, Desc ng val x → ¬ R x) (hfix : Fix ng (linkSub h.fl p c) (ng.next + 2) val c) :
    (loadField ng h val addr op (some f)).1 = ng ∧
    lessEqual (loadField ng g val addr op (some f)).2 (loadField ng h val addr op (some f)).2 = true := by
  have hle' := (lessEqual_iff hg.toRep).1 hle
  have hg1 := addEdge_wf hI hg p c Flags.subnode
  have hh1 := addEdge_wf hI hh p c Flags.subnode
  have hle1 := addEdge_mono_le hI hg hh hle' p c Flags.subnode rfl
  have hsub1 : ∀ a b, ((addEdge ng.intr h p c Flags.subnode).fl a b).sub = true →
      ((linkSub h.fl p c) a b).sub = true := by
    intro a b hs
    rw [linkSub_sub_iff]
    rcases (addEdge_sub_iff hI hh p c _ a b).1 hs with h1 | ⟨h1, h2, _⟩
    · exact Or.inl h1
    · exact Or.inr ⟨h1, h2⟩
  have hRc1 : ∀ a b, R a → ((addEdge ng.intr h p c Flags.subnode).fl a b).sub = true → R b :=
    fun a b ha hs => hRc a b ha (hsub1 a b hs)
  have hfix1 := Fix_anti_sub ng hsub1 (ng.next + 2) val c hfix
  obtain ⟨hm, hge, _, hng⟩ := ens_wa_mono_le ng hI hg1 hh1 hle1 (ng.next + 2) val c hn R hRp hRc1 hRd hfix1
  rw [loadField_single_some hsingle hc hhist]
  refine ⟨hng, ?_⟩
  rcases pointees_sub_single hle' hnd hsingle with h0 | h1
  · rw [loadField_nil h0]
    exact (lessEqual_iff hg.toRep).2 ((hle'.trans (addEdge_le hI hh.toRep p c _)).trans hge)
  · rw [loadField_single_some h1 hc hhist]
    obtain ⟨_, _, hwf, _⟩ := ens_wa_mono_le ng hI hg1 hg1 (LE.refl _) (ng.next + 2) val c hn R hRp
      (fun a b ha hs => hRc1 a b ha (Flags.sub_of_le (hle1.fl a b) hs)) hRd (Fix_anti ng hle1.fl _ val c hfix1)
    exact (lessEqual_iff hwf.toRep).2 hm

/-! ### (4) compositions of monotone primitives -/

/-- **comp_mono**: the composition of two transfer functions that keep well-formedness and an
invariant and are monotone on graphs satisfying it is again such a function -/
theorem comp_mono {I : Node → Nat} {Inv : EGraph → Prop} {f f' : EGraph → EGraph} (hf : MonoOp I Inv f)
    (hf' : MonoOp I Inv f') : MonoOp I Inv (fun g => f' (f g)) := hf.comp hf'

/-- any finite sequence (a basic block) of such functions -/
theorem seq_mono {I : Node → Nat} {α : Type} {Inv : EGraph → Prop} (t : EGraph → α → EGraph) (l : List α)
    (h : ∀ a, a ∈ l → MonoOp I Inv (fun g => t g a)) : MonoOp I Inv (fun g => l.foldl t g) :=
  MonoOp.foldl t l h

end EGraph

namespace EscMono
open Argot.EscCore Argot.EGraph.EGraph

variable {I : Node → Nat}

/-- **every call-free instruction kind of the M11 tie is monotone** (`EscCore.transfer`: alloc, copy,
store, load, go), on graphs in which no edge enters a value node (`NoInto V`), for instructions that
respect the SSA discipline (`InstrOk V`) -/
theorem escCore_transfer_mono (hI : ∀ n, I n ≤ 2) (V : Node → Prop) (i : Instr) (hi : InstrOk V i)
    {g h : EGraph} (hg : WF I g) (hh : WF I h) (hVh : NoInto V h) (hle : lessEqual g h = true) :
    lessEqual (transfer I g i) (transfer I h i) = true :=
  (lessEqual_iff (transfer_wf_le hI hg i).1.toRep).2
    (transfer_mono_le hI hg hh hVh ((lessEqual_iff hg.toRep).1 hle) i hi)

/-- a basic block of call-free instructions: well-formedness and the invariant are kept, and the
block transfer function is monotone -/
theorem escCore_block_mono (hI : ∀ n, I n ≤ 2) (V : Node → Prop) (is : List Instr)
    (his : ∀ i, i ∈ is → InstrOk V i) {g h : EGraph} (hg : WF I g) (hh : WF I h) (hVg : NoInto V g)
    (hVh : NoInto V h) (hle : lessEqual g h = true) :
    WF I (is.foldl (transfer I) h) ∧ NoInto V (is.foldl (transfer I) h) ∧
    lessEqual (is.foldl (transfer I) g) (is.foldl (transfer I) h) = true := by
  have m := seq_mono (I := I) (transfer I) is (fun i hi => transfer_monoOp hI V i (his i hi))
  exact ⟨m.wf h hh hVh, m.inv h hh hVh, (lessEqual_iff (m.wf g hg hVg).toRep).2
    (m.mono g h hg hh hVg hVh ((lessEqual_iff hg.toRep).1 hle))⟩

end EscMono

/-! ### non-vacuity: one node universe, concrete graphs -/

namespace EGraph

/-- universe: 0 = struct register `d`, 3 = `d.f`; 1 = struct register `s`, 2 = `s.f`; 4, 5 = local
objects; 6 = a pointer register; 7 = an escaped object that is the load node of operation 5,
8 = `7.f`, 9 = `7.f.f` -/
def mNg : NG where
  next := 10
  intr := fun n => if n = 7 ∨ n = 8 ∨ n = 9 then 1 else 0
  sub := fun b f => if f = 0 then
      (if b = 1 then some 2 else if b = 0 then some 3 else if b = 7 then some 8 else if b = 8 then some 9 else none)
    else none
  par := fun c => if c = 2 then some (1, 0) else if c = 3 then some (0, 0) else if c = 8 then some (7, 0)
    else if c = 9 then some (8, 0) else none
  loadChild := fun _ => none
  loadBase := fun _ => none
  loadOps := fun n => if n = 7 then [5] else []

theorem mI : ∀ n, mNg.intr n ≤ 2 := by
  intro n; simp only [mNg]; split <;> omega

theorem wf_empty (I : Node → Nat) : WF I EGraph.empty :=
  { le2 := fun _ => Nat.zero_le _, zero := fun _ _ => rfl, out := fun n => by simp [EGraph.empty],
    ends := fun a b h => by simp [EGraph.empty, Flags.none, Flags.any] at h,
    intr := fun n hn => by simp [EGraph.empty] at hn,
    closed := fun a b h => by simp [EGraph.empty, Flags.none, Flags.any] at h }

/-- `s -sub→ s.f -int→ 4`, `6 -int→ 7` -/
def mG : EGraph :=
  addEdge mNg.intr (addEdge mNg.intr (addEdge mNg.intr EGraph.empty 1 2 Flags.subnode) 2 4 Flags.internal)
    6 7 Flags.internal

/-- `mG` plus `s.f -int→ 5` and `7 -int→ 4` -/
def mH : EGraph := addEdge mNg.intr (addEdge mNg.intr mG 2 5 Flags.internal) 7 4 Flags.internal

theorem mG_wf : WF mNg.intr mG := addEdge_wf mI (addEdge_wf mI (addEdge_wf mI (wf_empty _) _ _ _) _ _ _) _ _ _
theorem mH_wf : WF mNg.intr mH := addEdge_wf mI (addEdge_wf mI mG_wf _ _ _) _ _ _

theorem mG_le_mH : lessEqual mG mH = true :=
  (lessEqual_iff mG_wf.toRep).2
    ((addEdge_le mI mG_wf.toRep _ _ _).trans (addEdge_le mI (addEdge_wf mI mG_wf _ _ _).toRep _ _ _))

/-- the only subnode edge of `mH` is `1 → 2` -/
theorem mH_sub {a b : Node} (h : (mH.fl a b).sub = true) : a = 1 ∧ b = 2 := by
  unfold mH at h
  rw [addEdge_sub_iff mI (addEdge_wf mI mG_wf _ _ _), addEdge_sub_iff mI mG_wf] at h
  unfold mG at h
  rw [addEdge_sub_iff mI (addEdge_wf mI (addEdge_wf mI (wf_empty _) _ _ _) _ _ _),
    addEdge_sub_iff mI (addEdge_wf mI (wf_empty _) _ _ _), addEdge_sub_iff mI (wf_empty _)] at h
  simp [EGraph.empty, Flags.none, Flags.internal, Flags.subnode] at h
  exact h

/-- read set: the struct register `s` and its field -/
def mR : Node → Prop := fun x => x = 1 ∨ x = 2

theorem mR_closed : ∀ a b, mR a → (mH.fl a b).sub = true → mR b :=
  fun _ _ _ hs => Or.inr (mH_sub hs).2

theorem mDesc0 : ∀ x, Desc mNg 0 x → ¬ mR x := by
  intro x hx
  have h3 : ∀ y, Desc mNg 3 y → y = 3 := fun y hy => Desc.leaf (fun f => by simp [mNg]) hy
  have : x = 0 ∨ x = 3 := by
    rcases hx.inv with e | ⟨f, c, hs, hd⟩
    · exact Or.inl e
    · have : c = 3 := by
        simp only [mNg] at hs
        split at hs
        · simp at hs; exact hs.symm
        · cases hs
      subst this; exact Or.inr (h3 x hd)
  rcases this with rfl | rfl <;> simp [mR]

theorem mFix01 (fuel : Nat) : Fix mNg mH.fl (fuel + 2) 0 1 := by
  intro p hs q f hpar
  obtain ⟨_, rfl⟩ := mH_sub hs
  have : f = 0 := by simp [mNg] at hpar; exact hpar.2.symm
  subst this
  refine ⟨3, by simp [mNg], Fix_of_noSub _ _ _ _ _ fun p => ?_⟩
  cases hx : (mH.fl 2 p).sub
  · rfl
  · exact absurd (mH_sub hx).1 (by decide)

/-- (1) the hypotheses of `weakAssign_mono` are satisfiable with a subnode edge out of the source, and
the recursion did copy the field: `d.f` points to what `s.f` points to -/
example : lessEqual (weakAssign 3 mNg mG 0 1).2 (weakAssign 3 mNg mH 0 1).2 = true :=
  (weakAssign_mono mNg mI mG_wf mH_wf mG_le_mH 3 0 1 mR (Or.inl rfl) mR_closed mDesc0 (mFix01 1)).2.2

example : ((weakAssign 3 mNg mH 0 1).2.fl 0 3).sub = true ∧ ((weakAssign 3 mNg mH 0 1).2.fl 3 5).int = true ∧
    ((weakAssign 3 mNg mG 0 1).2.fl 3 5).int = false ∧ (weakAssign 3 mNg mH 0 1).1.next = 10 := by decide

/-- every node at or below the escaped object 7 is 7, 8 or 9 — none of them is read -/
theorem mDesc7 : ∀ x, Desc mNg 7 x → ¬ mR x := by
  intro x hx
  have h9 : ∀ y, Desc mNg 9 y → y = 9 := fun y hy => Desc.leaf (fun f => by simp [mNg]) hy
  have h8 : ∀ y, Desc mNg 8 y → y = 8 ∨ y = 9 := by
    intro y hy
    rcases hy.inv with e | ⟨f, c, hs, hd⟩
    · exact Or.inl e
    · have : c = 9 := by
        simp only [mNg] at hs
        split at hs
        · simp at hs; exact hs.symm
        · cases hs
      subst this; exact Or.inr (h9 y hd)
  have : x = 7 ∨ x = 8 ∨ x = 9 := by
    rcases hx.inv with e | ⟨f, c, hs, hd⟩
    · exact Or.inl e
    · have : c = 8 := by
        simp only [mNg] at hs
        split at hs
        · simp at hs; exact hs.symm
        · cases hs
      subst this; exact Or.inr (h8 x hd)
  rcases this with rfl | rfl | rfl <;> simp [mR]

theorem mH_pointees6 : pointees mH 6 = [7] := by decide

/-- (2) `StoreField(6, s, f)`: `7.f` is linked, `7.f.f` receives what `s.f` points to -/
example : lessEqual (storeField mNg mG 6 1 (some 0)).2 (storeField mNg mH 6 1 (some 0)).2 = true := by
  apply storeField_mono mNg mI mG_wf mH_wf mG_le_mH 6 1 (some 0) mR (Or.inl rfl) mR_closed
  intro p hp
  rw [mH_pointees6] at hp
  have : p = 7 := by simpa using hp
  subst this
  refine ⟨mDesc7, 8, by simp [mNg], ?_⟩
  intro p hs q f hpar
  obtain ⟨_, rfl⟩ := mH_sub hs
  have : f = 0 := by simp [mNg] at hpar; exact hpar.2.symm
  subst this
  refine ⟨9, by simp [mNg], Fix_of_noSub _ _ _ _ _ fun p => ?_⟩
  cases hx : (mH.fl 2 p).sub
  · rfl
  · exact absurd (mH_sub hx).1 (by decide)

example : ((storeField mNg mH 6 1 (some 0)).2.fl 7 8).sub = true ∧ ((storeField mNg mH 6 1 (some 0)).2.fl 9 5).int = true ∧
    (storeField mNg mH 6 1 (some 0)).2.st 5 = 1 ∧ (storeField mNg mH 6 1 (some 0)).1.next = 10 := by decide

/-- read set of the loads: the escaped object and its field subnodes -/
def mR7 : Node → Prop := fun x => x = 7 ∨ x = 8 ∨ x = 9

theorem mDesc0' : ∀ x, Desc mNg 0 x → ¬ mR7 x := by
  intro x hx
  have h3 : ∀ y, Desc mNg 3 y → y = 3 := fun y hy => Desc.leaf (fun f => by simp [mNg]) hy
  have : x = 0 ∨ x = 3 := by
    rcases hx.inv with e | ⟨f, c, hs, hd⟩
    · exact Or.inl e
    · have : c = 3 := by
        simp only [mNg] at hs
        split at hs
        · simp at hs; exact hs.symm
        · cases hs
      subst this; exact Or.inr (h3 x hd)
  rcases this with rfl | rfl <;> simp [mR7]

theorem mG_nodup : mG.dom.Nodup := by decide

theorem mR7_closed : ∀ a b, mR7 a → (mH.fl a b).sub = true → mR7 b := by
  intro a b ha hs
  obtain ⟨rfl, _⟩ := mH_sub hs
  rcases ha with h | h | h <;> exact absurd h (by decide)

/-- (3) `LoadField(d, 6, op 5, "")`: the pointee 7 is escaped, its load node is named by the history
(7 itself: the loop case), `d` receives the self edge target and the pointee of 7 -/
example : lessEqual (loadField mNg mG 0 6 5 none).2 (loadField mNg mH 0 6 5 none).2 = true :=
  (loadField_mono_nofield mNg mI mG_wf mH_wf mG_le_mH mG_nodup 0 6 7 7 5 mH_pointees6 (by decide) mR7 (Or.inl rfl)
    mR7_closed mDesc0'
    (Fix_of_noSub _ _ _ _ _ fun p => by
      cases hx : (mH.fl 7 p).sub
      · rfl
      · exact absurd (mH_sub hx).1 (by decide))).2

example : ((loadField mNg mH 0 6 5 none).2.fl 7 7).ext = true ∧ ((loadField mNg mH 0 6 5 none).2.fl 0 7).int = true ∧
    ((loadField mNg mH 0 6 5 none).2.fl 0 4).int = true ∧ ((loadField mNg mG 0 6 5 none).2.fl 0 4).int = false := by
  decide

theorem mR7_closed_link : ∀ a b, mR7 a → ((linkSub mH.fl 7 8) a b).sub = true → mR7 b := by
  intro a b ha hs
  rcases (linkSub_sub_iff _ _ _ _ _).1 hs with h | ⟨_, rfl⟩
  · exact mR7_closed a b ha h
  · exact Or.inr (Or.inl rfl)

/-- (3') `LoadField(d, 6, op 5, f)`: the field subnode `7.f` is linked and is escaped; its load node is
named by the history (the parent 7) -/
example : lessEqual (loadField mNg mG 0 6 5 (some 0)).2 (loadField mNg mH 0 6 5 (some 0)).2 = true :=
  (loadField_mono_field mNg mI mG_wf mH_wf mG_le_mH mG_nodup 0 6 7 8 7 5 0 mH_pointees6 (by simp [mNg]) (by decide)
    mR7 (Or.inr (Or.inl rfl)) mR7_closed_link mDesc0'
    (Fix_of_noSub _ _ _ _ _ fun p => by
      cases hx : ((linkSub mH.fl 7 8) 8 p).sub
      · rfl
      · rcases (linkSub_sub_iff _ _ _ _ _).1 hx with h | ⟨h, _⟩
        · exact absurd (mH_sub h).1 (by decide)
        · exact absurd h (by decide))).2

example : ((loadField mNg mH 0 6 5 (some 0)).2.fl 7 8).sub = true ∧ ((loadField mNg mH 0 6 5 (some 0)).2.fl 8 7).ext = true ∧
    ((loadField mNg mH 0 6 5 (some 0)).2.fl 0 7).int = true ∧ (loadField mNg mH 0 6 5 (some 0)).1.next = 10 := by decide

/-! ### negation witnesses: what fails without the hypotheses -/

/-- universe of the overlap witness: 0 = `d`, 1 = `d.a` (the SOURCE, below the destination), 2 = `d.b`,
3 = `d.a.a`, 4 = `d.a.b`, 5 = `d.a.a.b`, 6 = an object; fields a = 0, b = 1 -/
def oNg : NG where
  next := 7
  intr := fun _ => 0
  sub := fun b f => if b = 0 ∧ f = 0 then some 1 else if b = 0 ∧ f = 1 then some 2 else if b = 1 ∧ f = 0 then some 3
    else if b = 1 ∧ f = 1 then some 4 else if b = 3 ∧ f = 1 then some 5 else none
  par := fun c => if c = 1 then some (0, 0) else if c = 2 then some (0, 1) else if c = 3 then some (1, 0)
    else if c = 4 then some (1, 1) else if c = 5 then some (3, 1) else none
  loadChild := fun _ => none
  loadBase := fun _ => none
  loadOps := fun _ => []

theorem oI : ∀ n, oNg.intr n ≤ 2 := fun _ => Nat.zero_le _

/-- `1 -sub→ 3`, `1 -sub→ 4`, `3 -sub→ 5`, `5 -int→ 6`; node 3 enters the node list before node 4 -/
def oG : EGraph :=
  addEdge oNg.intr (addEdge oNg.intr (addEdge oNg.intr (addEdge oNg.intr EGraph.empty 1 3 Flags.subnode) 1 4 Flags.subnode)
    3 5 Flags.subnode) 5 6 Flags.internal

/-- the same nodes, edges and statuses; node 4 enters the node list before node 3 -/
def oH : EGraph :=
  addEdge oNg.intr (addEdge oNg.intr (addEdge oNg.intr (addEdge oNg.intr EGraph.empty 1 4 Flags.subnode) 1 3 Flags.subnode)
    3 5 Flags.subnode) 5 6 Flags.internal

theorem oG_wf : WF oNg.intr oG :=
  addEdge_wf oI (addEdge_wf oI (addEdge_wf oI (addEdge_wf oI (wf_empty _) _ _ _) _ _ _) _ _ _) _ _ _
theorem oH_wf : WF oNg.intr oH :=
  addEdge_wf oI (addEdge_wf oI (addEdge_wf oI (addEdge_wf oI (wf_empty _) _ _ _) _ _ _) _ _ _) _ _ _

/-- **the unrestricted statement `WeakAssignMonotone` (Props/C15) is false on the model**: `oG` and `oH`
are the same Go maps (`Matches`), no node is created, yet `WeakAssign(d, d.a)` gives `d.b → 6` on `oG`
and not on `oH`: the loop over the subnode edges of the source copies `d.a.a.b` into `d.a.b` in one
iteration and reads `d.a.b` in another, so the result depends on the order of the two iterations —
in Go, on the iteration order of `g.edges[src]`.  The written rows meet the read rows here, which the
hypothesis `hRd` of `weakAssign_mono` excludes. -/
theorem weakAssignMonotone_overlap_false : ¬ WeakAssignMonotone oNg := by
  intro hm
  have h := hm oG oH 4 0 1 oG_wf oH_wf (by decide) (by decide) (by decide)
  exact absurd h (by decide)

example : matchesG oG oH = true ∧ ((weakAssign 4 oNg oG 0 1).2.fl 2 6).int = true ∧
    ((weakAssign 4 oNg oH 0 1).2.fl 2 6).int = false := by decide

/-- universe of the load witness: 0 = pointer register, 1 = an object `b`, 2 = the load node of `b`
(`loadChild b`), 3 = the load node of 2, 4 = the register loaded into; load operation 5 not yet recorded -/
def lNg : NG where
  next := 5
  intr := fun n => if n = 2 ∨ n = 3 then 1 else 0
  sub := fun _ _ => none
  par := fun _ => none
  loadChild := fun n => if n = 1 then some 2 else if n = 2 then some 3 else none
  loadBase := fun n => if n = 2 then some 1 else if n = 3 then some 2 else none
  loadOps := fun _ => []

theorem lI : ∀ n, lNg.intr n ≤ 2 := by
  intro n; simp only [lNg]; split <;> omega

/-- `0 → b`, `0 → 2`; `b` is Local -/
def lG : EGraph := addEdge lNg.intr (addEdge lNg.intr EGraph.empty 0 1 Flags.internal) 0 2 Flags.internal

/-- the same graph with `b` Escaped -/
def lH : EGraph := mergeNodeStatus lG 1 1

theorem lG_wf : WF lNg.intr lG := addEdge_wf lI (addEdge_wf lI (wf_empty _) _ _ _) _ _ _
theorem lH_wf : WF lNg.intr lH := mergeNodeStatus_preserves_wf lG_wf (by decide) (by decide)

/-- **`LoadField` with two pointees is not monotone on the model even over a fixed node universe**, when
the load operation is not yet recorded in the node group: on `lG` (`b` Local) the pointee 2 gets the
edge to its own load node 3; on `lH ≥ lG` (`b` Escaped) the loop first records the operation on node 2
(the load node of `b`), so that `getHistoryNodeOfOp` then answers 2 for the pointee 2 and the edge
`2 → 3` is never added.  `loadField_mono_*` exclude this by `historyNode … = some hn` (nothing is
recorded) and one pointee. -/
theorem loadField_two_pointees_not_monotone :
    WF lNg.intr lG ∧ WF lNg.intr lH ∧ lessEqual lG lH = true ∧
    (loadField lNg lG 4 0 5 none).1.next = lNg.next ∧ (loadField lNg lH 4 0 5 none).1.next = lNg.next ∧
    lessEqual (loadField lNg lG 4 0 5 none).2 (loadField lNg lH 4 0 5 none).2 = false :=
  ⟨lG_wf, lH_wf, by decide, by decide, by decide, by decide⟩

example : ((loadField lNg lG 4 0 5 none).2.fl 2 3).ext = true ∧ ((loadField lNg lH 4 0 5 none).2.fl 2 3).ext = false ∧
    ((loadField lNg lH 4 0 5 none).2.fl 2 2).ext = true := by decide

end EGraph

/-! ### (4) non-vacuity: a basic block of the call-free core -/

namespace EscMono
open Argot.EscCore Argot.EGraph.EGraph

def bI : Node → Nat := fun _ => 0
/-- value nodes (SSA registers) are the nodes below 10 -/
def bV : Node → Prop := fun n => n < 10
def bProg : List Instr := [.alloc 0 10, .alloc 1 11, .store 0 1, .goCall 0, .load 2 0]
def bH : EGraph := addEdge bI EGraph.empty 3 12 Flags.internal

theorem bI2 : ∀ n, bI n ≤ 2 := fun _ => Nat.zero_le _

theorem bProg_ok : ∀ i, i ∈ bProg → InstrOk bV i := by
  intro i hi
  simp only [bProg, List.mem_cons, List.not_mem_nil, or_false] at hi
  rcases hi with rfl | rfl | rfl | rfl | rfl <;> simp [InstrOk, bV]

example : lessEqual (bProg.foldl (transfer bI) EGraph.empty) (bProg.foldl (transfer bI) bH) = true :=
  (escCore_block_mono bI2 bV bProg bProg_ok (wf_empty _) (addEdge_wf bI2 (wf_empty _) _ _ _)
    (fun _ _ _ => rfl)
    (addEdge_noInto bI2 (wf_empty _) (fun _ _ _ => rfl) (by simp [bV]))
    ((lessEqual_iff (wf_empty bI).toRep).2 (addEdge_le bI2 (wf_empty bI).toRep _ _ _))).2.2

example : (bProg.foldl (transfer bI) bH).st 11 = 2 ∧ ((bProg.foldl (transfer bI) bH).fl 2 11).int = true ∧
    ((bProg.foldl (transfer bI) bH).fl 3 12).int = true ∧ ((bProg.foldl (transfer bI) EGraph.empty).fl 3 12).int = false := by
  decide

end EscMono
end Argot.EGraph
