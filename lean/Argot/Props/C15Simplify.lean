/-
C15 — `simplifySummary`, the last step of `Resummarize` (after `CloneReachable`, Props/C15Clone.lean).

Proved for every graph: it only shrinks (`simplify_le`), only load nodes are removed (`removed_are_loads`,
`simplify_keeps_nonload`: formals, free variables, return nodes, allocations and globals keep their status), every
out-edge of a removed node goes to a removed node and no internal edge enters one (`removed_closed`,
`removed_no_internal_in`), and well-formedness is preserved (`simplify_preserves_wf`).

It is NOT monotone in the analysis' order (`simplify_not_monotone`, two nodes): a node that is Escaped in `g` keeps its
internal out-edge, the same node Leaked in `h ≥ g` loses it (`removeNodesInSet`: "remove internal out-edges from leaked
nodes"), so `simplifySummary g ≰ simplifySummary h`.  The witness is replayed on the real `simplifySummary` by the
C15 driver (observation `simplify-not-monotone`, reported in the evidence); `simplify_mono_status_only` is what does hold:
the node set and the statuses of the result are monotone on graphs that remove the same set.
-/
import Argot.Model.EGraphSimplify
import Argot.Proofs.EGraphOrder
import Argot.Proofs.EGraphClosure

namespace Argot.EGraph
namespace EGraph

variable {isLoad isSub : Node → Bool}

theorem pruneStep_subset (g : EGraph) (c : List Node) : ∀ x ∈ pruneStep g c, x ∈ c :=
  fun _ hx => (List.mem_filter.1 hx).1

theorem prune_subset (g : EGraph) : ∀ (f : Nat) (c : List Node), ∀ x ∈ prune g f c, x ∈ c := by
  intro f
  induction f with
  | zero => intro c x hx; exact hx
  | succ f ih =>
    intro c x hx
    unfold prune at hx
    simp only at hx
    split at hx
    · exact hx
    · exact pruneStep_subset g c x (ih _ x hx)

/-- every successor of a member is a member -/
def SuccClosed (g : EGraph) (C : List Node) : Prop := ∀ s ∈ C, ∀ d ∈ g.succs s, d ∈ C

theorem prune_closed (g : EGraph) : ∀ (f : Nat) (c : List Node), c.length ≤ f → SuccClosed g (prune g f c) := by
  intro f
  induction f with
  | zero =>
    intro c hc s hs
    have : c = [] := List.eq_nil_of_length_eq_zero (by omega)
    subst this; simp [prune] at hs
  | succ f ih =>
    intro c hc
    unfold prune
    simp only
    split
    · rename_i heq
      intro s hs d hd
      have hall := (List.length_filter_eq_length_iff.1 heq) s hs
      exact of_decide_eq_true ((List.all_eq_true.1 hall) d hd)
    · rename_i hne
      refine ih _ ?_
      have hle : (pruneStep g c).length ≤ c.length := List.length_filter_le _ _
      have hne' : (pruneStep g c).length ≠ c.length := hne
      omega

theorem removed_sub_cands0 (g : EGraph) : ∀ x ∈ removed isLoad isSub g, x ∈ cands0 isLoad isSub g :=
  fun x hx => (List.mem_filter.1 (prune_subset g _ _ x hx)).1

/-- **Only load nodes are removed**, and only Escaped ones or Leaked subnodes. -/
theorem removed_are_loads (g : EGraph) (x : Node) (hx : x ∈ removed isLoad isSub g) :
    x ∈ g.dom ∧ isLoad x = true ∧ (g.st x = 1 ∨ (g.st x = 2 ∧ isSub x = true)) := by
  have h := List.mem_filter.1 (removed_sub_cands0 g x hx)
  refine ⟨h.1, ?_⟩
  have h2 := h.2
  simp only [Bool.and_eq_true, Bool.or_eq_true, beq_iff_eq] at h2
  exact ⟨h2.1.1, h2.1.2⟩

/-- **The removed set is closed under successors**: a removed node only points to removed nodes. -/
theorem removed_closed (g : EGraph) : SuccClosed g (removed isLoad isSub g) := by
  refine prune_closed g _ _ ?_
  have h1 : (cands1 g (cands0 isLoad isSub g)).length ≤ (cands0 isLoad isSub g).length := List.length_filter_le _ _
  have h2 : (cands0 isLoad isSub g).length ≤ g.dom.length := List.length_filter_le _ _
  omega

/-- **No internal edge enters a removed node** (from a node that has an edge row). -/
theorem removed_no_internal_in (g : EGraph) (s d : Node) (hs : s ∈ g.dom) (ho : g.out s = true)
    (hd : d ∈ removed isLoad isSub g) : (g.fl s d).int = false := by
  have h := (List.mem_filter.1 (prune_subset g _ _ d hd)).2
  simp only [Bool.not_eq_true', List.any_eq_false, Bool.and_eq_true, Bool.or_eq_true, not_and, not_or] at h
  have := h s hs ho
  cases hb : (g.fl s d).int
  · rfl
  · exact absurd hb this.1

/-! ### the simplified graph -/

theorem simp_dom {g : EGraph} {n : Node} :
    n ∈ (simplifySummary isLoad isSub g).dom ↔ n ∈ g.dom ∧ n ∉ removed isLoad isSub g := by
  simp [simplifySummary, removeSet]

theorem simp_st_kept {g : EGraph} {n : Node} (h : n ∉ removed isLoad isSub g) :
    (simplifySummary isLoad isSub g).st n = g.st n := by
  simp [simplifySummary, removeSet, h]

theorem simp_st_removed {g : EGraph} {n : Node} (h : n ∈ removed isLoad isSub g) :
    (simplifySummary isLoad isSub g).st n = 0 := by
  simp [simplifySummary, removeSet, h]

theorem simp_fl_le (g : EGraph) (a b : Node) :
    Flags.le ((simplifySummary isLoad isSub g).fl a b) (g.fl a b) = true := by
  show Flags.le (if a ∈ removed isLoad isSub g ∨ b ∈ removed isLoad isSub g then Flags.none
    else if g.st a = 2 ∧ g.fl a b = Flags.internal then Flags.none else g.fl a b) (g.fl a b) = true
  split
  · exact Flags.none_le _
  · split
    · exact Flags.none_le _
    · exact Flags.le_refl _

theorem simp_edge {g : EGraph} {a b : Node} (h : ((simplifySummary isLoad isSub g).fl a b).any = true) :
    a ∉ removed isLoad isSub g ∧ b ∉ removed isLoad isSub g ∧ (g.fl a b).any = true := by
  have hle := simp_fl_le (isLoad := isLoad) (isSub := isSub) g a b
  refine ⟨?_, ?_, Flags.any_of_le hle h⟩
  · intro ha
    have : (simplifySummary isLoad isSub g).fl a b = Flags.none := by simp [simplifySummary, removeSet, ha]
    rw [this] at h; simp [Flags.any_none] at h
  · intro hb
    have : (simplifySummary isLoad isSub g).fl a b = Flags.none := by simp [simplifySummary, removeSet, hb]
    rw [this] at h; simp [Flags.any_none] at h

/-- **Shrinking.** -/
theorem simplify_le (g : EGraph) : LE (simplifySummary isLoad isSub g) g where
  fl a b := simp_fl_le g a b
  dom n hn := (simp_dom.1 hn).1
  st n := by
    by_cases h : n ∈ removed isLoad isSub g
    · rw [simp_st_removed h]; exact Nat.zero_le _
    · rw [simp_st_kept h]; exact Nat.le_refl _

/-- **Everything that is not a load node survives with its status** — in particular the roots of the trim
(formals, free variables, return nodes), allocation nodes and globals. -/
theorem simplify_keeps_nonload (g : EGraph) (n : Node) (hd : n ∈ g.dom) (hl : isLoad n = false) :
    n ∈ (simplifySummary isLoad isSub g).dom ∧ (simplifySummary isLoad isSub g).st n = g.st n := by
  have hn : n ∉ removed isLoad isSub g := fun h => by
    have := (removed_are_loads g n h).2.1; rw [hl] at this; exact Bool.noConfusion this
  exact ⟨simp_dom.2 ⟨hd, hn⟩, simp_st_kept hn⟩

/-- representation invariants survive -/
theorem simplify_rep {g : EGraph} (hg : Rep g) : Rep (simplifySummary isLoad isSub g) where
  le2 n := by
    by_cases h : n ∈ removed isLoad isSub g
    · rw [simp_st_removed h]; omega
    · rw [simp_st_kept h]; exact hg.le2 n
  zero n hn := by
    by_cases h : n ∈ removed isLoad isSub g
    · exact simp_st_removed h
    · rw [simp_st_kept h]; exact hg.zero n (fun hd => hn (simp_dom.2 ⟨hd, h⟩))
  out n := by
    rw [simp_dom, ← hg.out n]
    simp [simplifySummary, removeSet]
    exact ⟨fun x => ⟨x.2, x.1⟩, fun x => ⟨x.2, x.1⟩⟩
  ends a b h := by
    obtain ⟨ha, hb, he⟩ := simp_edge h
    exact ⟨simp_dom.2 ⟨(hg.ends a b he).1, ha⟩, simp_dom.2 ⟨(hg.ends a b he).2, hb⟩⟩

/-- **Well-formedness is preserved** (the code checks `wellFormedEscapeGraph` right after and panics otherwise). -/
theorem simplify_preserves_wf {I : Node → Nat} {g : EGraph} (hg : WF I g) :
    WF I (simplifySummary isLoad isSub g) where
  toRep := simplify_rep hg.toRep
  intr n hn := by
    obtain ⟨hd, hr⟩ := simp_dom.1 hn
    rw [simp_st_kept hr]; exact hg.intr n hd
  closed a b h := by
    obtain ⟨ha, hb, he⟩ := simp_edge h
    rw [simp_st_kept ha, simp_st_kept hb]; exact hg.closed a b he

/-- what does hold of the order: when `g ≤ h` remove the same node set, node sets and statuses are monotone -/
theorem simplify_mono_status_only {g h : EGraph} (hle : LE g h)
    (hsame : ∀ n, n ∈ removed isLoad isSub g ↔ n ∈ removed isLoad isSub h) :
    (∀ n, n ∈ (simplifySummary isLoad isSub g).dom → n ∈ (simplifySummary isLoad isSub h).dom) ∧
    (∀ n, (simplifySummary isLoad isSub g).st n ≤ (simplifySummary isLoad isSub h).st n) := by
  constructor
  · intro n hn
    obtain ⟨hd, hr⟩ := simp_dom.1 hn
    exact simp_dom.2 ⟨hle.dom n hd, fun x => hr ((hsame n).2 x)⟩
  · intro n
    by_cases hr : n ∈ removed isLoad isSub g
    · rw [simp_st_removed hr]; exact Nat.zero_le _
    · rw [simp_st_kept hr, simp_st_kept (fun x => hr ((hsame n).2 x))]; exact hle.st n

/-! ### the negation witness: `simplifySummary` is not monotone -/

/-- node 0 —internal→ node 1, both Escaped; no load node -/
def smG : EGraph :=
  { dom := [0, 1], st := fun n => if n < 2 then 1 else 0, out := fun n => decide (n < 2),
    fl := fun a b => if a = 0 ∧ b = 1 then Flags.internal else Flags.none }

/-- the same graph with both nodes Leaked -/
def smH : EGraph := { smG with st := fun n => if n < 2 then 2 else 0 }

def noLoad : Node → Bool := fun _ => false

example : smG.wfB (fun _ => 0) 2 = true := by decide
example : smH.wfB (fun _ => 0) 2 = true := by decide

/-- **`simplifySummary` is not monotone**: `smG ≤ smH`, both well-formed, but the simplified graphs are not ordered:
the Leaked source loses its internal out-edge, the Escaped one keeps it. -/
theorem simplify_not_monotone :
    smG.lessEqual smH = true ∧
    (simplifySummary noLoad noLoad smG).lessEqual (simplifySummary noLoad noLoad smH) = false := by
  constructor <;> decide

/-- a second witness, through node removal: load node 1 (subnode of 0); with the parent Escaped and the child Leaked
the child is kept (`status[src] != status[dest]`), with both Leaked it is removed -/
def smG2 : EGraph :=
  { dom := [0, 1], st := fun n => if n = 0 then 1 else if n = 1 then 2 else 0, out := fun n => decide (n < 2),
    fl := fun a b => if a = 0 ∧ b = 1 then Flags.subnode else Flags.none }

def smH2 : EGraph := { smG2 with st := fun n => if n < 2 then 2 else 0 }

def load1 : Node → Bool := fun n => n == 1

theorem simplify_not_monotone_removal :
    smG2.lessEqual smH2 = true ∧
    (simplifySummary load1 load1 smG2).dom = [0, 1] ∧ (simplifySummary load1 load1 smH2).dom = [0] ∧
    (simplifySummary load1 load1 smG2).lessEqual (simplifySummary load1 load1 smH2) = false := by
  refine ⟨?_, ?_, ?_, ?_⟩ <;> decide

end EGraph
end Argot.EGraph
