/-
C16 — Defer analysis computes exactly the possible defer stacks.

Property theorems only (helper lemmas: Argot/Proofs/Defers.lean; model: Argot/Model/Defers.lean;
path semantics: Argot/Spec/Defers.lean).  Quantifiers: every CFG `g` (any number of blocks, any
successor structure, any mix of Defer / RunDefers / other instructions), every block order `ord`
that enumerates all blocks, every fuel.  `converged` is an output of the model (the Go loop exited
by itself); the correspondence check confirms it on every real function, and
`analyze_terminates` (Props/C16Term.lean) proves it for `fuel ≥ bound g`.
-/
import Argot.Proofs.Defers
import Argot.Proofs.DefersCycle
import Argot.Proofs.DefersTerm

namespace Argot.Defers

theorem analyze_inv (g : Cfg) (hg : g ≠ []) (hwf : wf g = true) (ord : List Nat) (fuel : Nat) :
    LoopInv g (analyze g ord fuel).final :=
  (iterate_inv g (wf_WF g hwf) ord fuel _ (init_inv g hg)).1

/-- No spurious stack: whatever is recorded at a RunDefers is the stack of some path
(in the push-unless-present semantics); holds at every moment, converged or not. -/
theorem analyze_sound' (g : Cfg) (hg : g ≠ []) (hwf : wf g = true) (ord : List Nat) (fuel : Nat)
    (p : Site) (S : StackSet) (s : Stack)
    (hS : (analyze g ord fuel).setAt g p = some S) (hs : s ∈ S) : StacksAt' g p s := by
  have I := analyze_inv g hg hwf ord fuel
  simp only [Result.setAt, Option.map_eq_some_iff] at hS
  obtain ⟨v0, hv0, rfl⟩ := hS
  obtain ⟨hne, hsub⟩ := I.psound p.1 v0 hv0
  obtain ⟨s0, h0, rfl⟩ := (walkVal_mem p.1 s _ 0 v0 hne).1 hs
  exact ⟨s0, I.sound p.1 s0 (hsub s0 h0), rfl⟩

/-- At convergence the block states contain the stack of every path. -/
theorem analyze_covers_entry (g : Cfg) (hg : g ≠ []) (hwf : wf g = true) (ord : List Nat) (fuel : Nat)
    (hord : ∀ b, b < g.length → b ∈ ord) (hconv : (analyze g ord fuel).converged = true)
    {b : Nat} {s : Stack} (h : AtEntry' g b s) :
    s ∈ (analyze g ord fuel).final.init.getD b [] := by
  have I := analyze_inv g hg hwf ord fuel
  have hq := (iterate_inv g (wf_WF g hwf) ord fuel _ (init_inv g hg)).2 hconv
  have hclear : ∀ b, (analyze g ord fuel).final.changed.getD b false = false := by
    intro b
    rcases Nat.lt_or_ge b g.length with hb | hb
    · exact hq b (hord b hb)
    · have : (analyze g ord fuel).final.changed.length ≤ b := by rw [I.len2]; exact hb
      simp [List.getD_eq_getElem?_getD, List.getElem?_eq_none this]
  induction h with
  | entry => exact I.entry
  | @step b c s _ hc ih =>
    have hne : (analyze g ord fuel).final.init.getD b [] ≠ [] := by
      intro hn; rw [hn] at ih; simp at ih
    have := (I.closed b (hclear b) hne).2 c hc
    exact this _ ((walkVal_mem b _ _ 0 _ hne).2 ⟨s, ih, rfl⟩)

theorem analyze_complete' (g : Cfg) (hg : g ≠ []) (hwf : wf g = true) (ord : List Nat) (fuel : Nat)
    (hord : ∀ b, b < g.length → b ∈ ord) (hconv : (analyze g ord fuel).converged = true)
    (p : Site) (s : Stack) (h : StacksAt' g p s) :
    ∃ S, (analyze g ord fuel).setAt g p = some S ∧ s ∈ S := by
  have I := analyze_inv g hg hwf ord fuel
  have hq := (iterate_inv g (wf_WF g hwf) ord fuel _ (init_inv g hg)).2 hconv
  obtain ⟨s0, h0, rfl⟩ := h
  have hin := analyze_covers_entry g hg hwf ord fuel hord hconv h0
  have hne : (analyze g ord fuel).final.init.getD p.1 [] ≠ [] := by
    intro hn; rw [hn] at hin; simp at hin
  have hb : p.1 < g.length := by
    rcases Nat.lt_or_ge p.1 g.length with hb | hb
    · exact hb
    · have : (analyze g ord fuel).final.init.length ≤ p.1 := by rw [I.len1]; exact hb
      simp [List.getD_eq_getElem?_getD, List.getElem?_eq_none this] at hne
  have hpr := (I.closed p.1 (hq p.1 (hord p.1 hb)) hne).1
  refine ⟨_, by simp only [Result.setAt, hpr, Option.map_some]; rfl, ?_⟩
  exact (walkVal_mem p.1 _ _ 0 _ hne).2 ⟨s0, hin, rfl⟩

/-- **Unbounded exactly when some path executes a defer statement twice** (real semantics:
the same defer statement is pushed while already on the runtime stack). -/
theorem unbounded_iff_repeats (g : Cfg) (hg : g ≠ []) (hwf : wf g = true) (ord : List Nat) (fuel : Nat)
    (hord : ∀ b, b < g.length → b ∈ ord) (hconv : (analyze g ord fuel).converged = true) :
    (analyze g ord fuel).bounded = false ↔ RepeatsReal g := by
  have I := analyze_inv g hg hwf ord fuel
  have hq := (iterate_inv g (wf_WF g hwf) ord fuel _ (init_inv g hg)).2 hconv
  rw [← repeats_iff_real]
  constructor
  · intro h
    apply I.repsound
    simpa [analyze] using h
  · rintro ⟨b, j, s, hd, ⟨s0, h0, rfl⟩, hm⟩
    have hin := analyze_covers_entry g hg hwf ord fuel hord hconv h0
    have hne : (analyze g ord fuel).final.init.getD b [] ≠ [] := by
      intro hn; rw [hn] at hin; simp at hin
    have hb : b < g.length := by
      rcases Nat.lt_or_ge b g.length with hb | hb
      · exact hb
      · have : (analyze g ord fuel).final.init.length ≤ b := by rw [I.len1]; exact hb
        simp [List.getD_eq_getElem?_getD, List.getElem?_eq_none this] at hne
    have hpr := (I.closed b (hq b (hord b hb)) hne).1
    cases hrep : (analyze g ord fuel).final.anyRep with
    | true => simp [analyze] at hrep ⊢; exact hrep
    | false =>
      exfalso
      have := I.rep hrep b _ hpr
      have ht := (walkRep_iff b (blockOf g b).instrs 0 _ hne).2 ⟨j, hd, s0, hin, by simpa using hm⟩
      rw [this] at ht; exact Bool.noConfusion ht

/-- **Unbounded exactly when a reachable defer statement lies on a control-flow cycle** — the
property's own wording. `runDefersTerminal` (a block containing RunDefers has no successor: the
shape x/tools emits) is a decidable hypothesis evaluated by the oracle on every dumped function. -/
theorem unbounded_iff_defer_on_cycle (g : Cfg) (hg : g ≠ []) (hwf : wf g = true)
    (ht : runDefersTerminal g = true) (ord : List Nat) (fuel : Nat)
    (hord : ∀ b, b < g.length → b ∈ ord) (hconv : (analyze g ord fuel).converged = true) :
    (analyze g ord fuel).bounded = false ↔ DeferOnCycle g := by
  rw [unbounded_iff_repeats g hg hwf ord fuel hord hconv]
  exact ⟨repeatsReal_cycle g, cycle_repeatsReal g (runDefersTerminal_iff g ht)⟩

/-- the hypothesis `runDefersTerminal` is needed: with a RunDefers on the cycle the stack is
emptied on every turn, the defer is on a cycle, and the analysis (rightly) says bounded. -/
def exRunDefersOnCycle : Cfg := [ ⟨[.defer, .runDefers], [0, 1]⟩, ⟨[.other], []⟩ ]

example : (analyze exRunDefersOnCycle [0, 1] 10).converged = true ∧
    (analyze exRunDefersOnCycle [0, 1] 10).bounded = true ∧ runDefersTerminal exRunDefersOnCycle = false := by
  simp [exRunDefersOnCycle, runDefersTerminal, analyze, iterate, round, initState, processBlock, propagate,
    walkVal, walkRep, transfer, stackSetUnion, stackCompare, siteCompare, sortDedup, insertStack, pushUnless]

example : DeferOnCycle exRunDefersOnCycle :=
  ⟨0, 0, by simp [exRunDefersOnCycle, blockOf], Reach.refl 0, 0, by simp [exRunDefersOnCycle, blockOf], Reach.refl 0⟩

/-- **Exactness.**  If the analysis converged and reports `bounded`, then at every point `p`
the recorded set is exactly the set of runtime defer stacks (real, always-pushing semantics)
of the control-flow paths from the entry to `p`. -/
theorem analyze_exact (g : Cfg) (hg : g ≠ []) (hwf : wf g = true) (ord : List Nat) (fuel : Nat)
    (hord : ∀ b, b < g.length → b ∈ ord) (hconv : (analyze g ord fuel).converged = true)
    (hb : (analyze g ord fuel).bounded = true) (p : Site) (s : Stack) :
    (∃ S, (analyze g ord fuel).setAt g p = some S ∧ s ∈ S) ↔ StacksAt g p s := by
  have hnr : ¬ RepeatsReal g := by
    intro h
    have := (unbounded_iff_repeats g hg hwf ord fuel hord hconv).2 h
    rw [hb] at this; exact Bool.noConfusion this
  have hnr' : ¬ Repeats g := fun h => hnr ((repeats_iff_real g).1 h)
  constructor
  · rintro ⟨S, hS, hs⟩
    rcases stacksAt_real_of' g (analyze_sound' g hg hwf ord fuel p S s hS hs) with h | h
    · exact h
    · exact absurd h hnr
  · intro h
    rcases stacksAt'_of_real g h with h | h
    · exact analyze_complete' g hg hwf ord fuel hord hconv p s h
    · exact absurd h hnr'

/-- **Termination**: for every CFG and every block order the loop exits by itself within
`potBound g + 1` outer iterations (`potBound g = 2·|blocks|·maxStacks g + |blocks|`, where
`maxStacks g` counts the lists of instruction sites of length ≤ the number of sites). The potential
`2·Σ|state b| + #clear flags` grows with every processed block and is bounded because block states are
strictly sorted (duplicate-free) sets of duplicate-free stacks. -/
theorem analyze_terminates (g : Cfg) (hg : g ≠ []) (hwf : wf g = true) (ord : List Nat) (fuel : Nat)
    (hf : potBound g < fuel) : (analyze g ord fuel).converged = true :=
  iterate_term g hg (wf_WF g hwf) ord fuel _ ⟨init_inv g hg, init_sorted g⟩ (by omega)

/-- once the loop has exited by itself, more fuel changes nothing (so the oracle's run with a
fixed generous fuel is the run of `analyze_total` whenever it reports `conv=1`). -/
theorem analyze_fuel_irrelevant (g : Cfg) (ord : List Nat) (f k : Nat)
    (hc : (analyze g ord f).converged = true) : analyze g ord (f + k) = analyze g ord f := by
  have key : ∀ (n : Nat) (σ : State), (iterate g ord n σ).2 = true →
      iterate g ord (n + k) σ = iterate g ord n σ := by
    intro n
    induction n with
    | zero => intro σ h; simp [iterate] at h
    | succ n ih =>
      intro σ h
      have e : n + 1 + k = (n + k) + 1 := by omega
      rw [e]
      unfold iterate at h ⊢
      simp only at h ⊢
      split
      · rename_i hr; simp only [hr, if_true] at h; exact ih _ h
      · rfl
  simp only [analyze] at hc ⊢
  rw [key f _ hc]

/-- Total correctness, no convergence hypothesis left: with enough fuel the analysis ends, decides
boundedness by the cycle criterion and, when bounded, reports exactly the path stacks. -/
theorem analyze_total (g : Cfg) (hg : g ≠ []) (hwf : wf g = true) (ht : runDefersTerminal g = true)
    (ord : List Nat) (hord : ∀ b, b < g.length → b ∈ ord) :
    let r := analyze g ord (potBound g + 1)
    r.converged = true ∧ (r.bounded = false ↔ DeferOnCycle g) ∧
    (r.bounded = true → ∀ p s, (∃ S, r.setAt g p = some S ∧ s ∈ S) ↔ StacksAt g p s) := by
  have hc := analyze_terminates g hg hwf ord (potBound g + 1) (Nat.lt_succ_self _)
  exact ⟨hc, unbounded_iff_defer_on_cycle g hg hwf ht ord _ hord hc,
    fun hb p s => analyze_exact g hg hwf ord _ hord hc hb p s⟩

/-- the reported sets are in canonical form: strictly sorted by `stackCompare`, hence duplicate-free. -/
theorem analyze_sets_sorted (g : Cfg) (hg : g ≠ []) (hwf : wf g = true) (ord : List Nat) (fuel : Nat)
    (p : Site) (S : StackSet) (hS : (analyze g ord fuel).setAt g p = some S) : Sorted S := by
  have I := analyze_inv g hg hwf ord fuel
  simp only [Result.setAt, Option.map_eq_some_iff] at hS
  obtain ⟨v0, hv0, rfl⟩ := hS
  apply walkVal_sorted
  -- the recorded state is a prefix-time value of `init`, itself sorted: re-run the invariant with sortedness
  have key : ∀ (n : Nat) (σ : State), TermInv g σ → (∀ b S, σ.processed.getD b none = some S → Sorted S) →
      (∀ b S, (iterate g ord n σ).1.processed.getD b none = some S → Sorted S) := by
    intro n
    induction n with
    | zero => intro σ _ h; simpa [iterate] using h
    | succ n ih =>
      intro σ T h
      have hr : ∀ (is : List Nat) (σ : State), TermInv g σ →
          (∀ b S, σ.processed.getD b none = some S → Sorted S) →
          TermInv g (round g is σ).1 ∧ (∀ b S, (round g is σ).1.processed.getD b none = some S → Sorted S) := by
        intro is
        induction is with
        | nil => intro σ T h; exact ⟨by simpa [round] using T, by simpa [round] using h⟩
        | cons i is ihr =>
          intro σ T h
          unfold round
          split
          · rename_i hch
            have hi : i < g.length := by
              rcases Nat.lt_or_ge i g.length with hh | hh
              · exact hh
              · have hge : σ.changed.length ≤ i := by rw [T.inv.len2]; exact hh
                simp [List.getD_eq_getElem?_getD, List.getElem?_eq_none hge] at hch
            have T' : TermInv g (processBlock g i σ) :=
              ⟨process_inv g (wf_WF g hwf) i σ hi hch T.inv, process_sorted g i σ T.sorted⟩
            refine ihr _ T' ?_
            intro b S hb
            simp only [processBlock, getD_set] at hb
            split at hb
            · simp at hb; subst hb; exact T.sorted i
            · exact h b S hb
          · exact ihr σ T h
      unfold iterate
      simp only
      obtain ⟨T', h'⟩ := hr ord σ T h
      split
      · exact ih _ T' h'
      · exact h'
  refine key fuel (initState g) ⟨init_inv g hg, init_sorted g⟩ ?_ p.1 v0 hv0
  intro b S hb
  simp [initState, List.getD_eq_getElem?_getD, List.getElem?_replicate] at hb
  split at hb <;> simp at hb

/-- **Order independence**: two block orders (each enumerating every block), each converged, report the
same boundedness and — when bounded — the same *set* of stacks at every point. -/
theorem analyze_order_irrelevant (g : Cfg) (hg : g ≠ []) (hwf : wf g = true)
    (ord₁ ord₂ : List Nat) (f₁ f₂ : Nat)
    (h₁ : ∀ b, b < g.length → b ∈ ord₁) (h₂ : ∀ b, b < g.length → b ∈ ord₂)
    (c₁ : (analyze g ord₁ f₁).converged = true) (c₂ : (analyze g ord₂ f₂).converged = true) :
    (analyze g ord₁ f₁).bounded = (analyze g ord₂ f₂).bounded ∧
    ((analyze g ord₁ f₁).bounded = true → ∀ p s,
      (∃ S, (analyze g ord₁ f₁).setAt g p = some S ∧ s ∈ S) ↔
      (∃ S, (analyze g ord₂ f₂).setAt g p = some S ∧ s ∈ S)) := by
  have e₁ := unbounded_iff_repeats g hg hwf ord₁ f₁ h₁ c₁
  have e₂ := unbounded_iff_repeats g hg hwf ord₂ f₂ h₂ c₂
  have hbe : (analyze g ord₁ f₁).bounded = (analyze g ord₂ f₂).bounded := by
    cases hb1 : (analyze g ord₁ f₁).bounded <;> cases hb2 : (analyze g ord₂ f₂).bounded <;> simp_all
  refine ⟨hbe, fun hb p s => ?_⟩
  rw [analyze_exact g hg hwf ord₁ f₁ h₁ c₁ hb, analyze_exact g hg hwf ord₂ f₂ h₂ c₂ (hbe ▸ hb)]

/-! ### non-vacuity: a concrete CFG with a branch, two defers and two exits, and a loop with a defer -/

/-- `if c { defer A } ; defer B ; return` — blocks: 0 → {1,2}; 1: defer → 2; 2: defer, rundefers. -/
def exDiamond : Cfg :=
  [ ⟨[.other], [1, 2]⟩, ⟨[.defer, .other], [2]⟩, ⟨[.defer, .runDefers, .other], []⟩ ]

example : wf exDiamond = true ∧ (analyze exDiamond [0, 1, 2] 10).converged = true ∧
    (analyze exDiamond [0, 1, 2] 10).bounded = true ∧
    (analyze exDiamond [0, 1, 2] 10).setAt exDiamond (2, 1) = some [[(1, 0), (2, 0)], [(2, 0)]] := by
  simp [exDiamond, wf, analyze, iterate, round, initState, processBlock, propagate, walkVal, walkRep, transfer,
    stackSetUnion, stackCompare, siteCompare, sortDedup, insertStack, pushUnless, Result.setAt]

/-- `for { defer A }` — block 1 loops on itself with a defer: unbounded. -/
def exLoop : Cfg := [ ⟨[.other], [1]⟩, ⟨[.defer], [1, 2]⟩, ⟨[.runDefers], []⟩ ]

example : wf exLoop = true ∧ (analyze exLoop [0, 1, 2] 10).converged = true ∧
    (analyze exLoop [0, 1, 2] 10).bounded = false := by
  simp [exLoop, wf, analyze, iterate, round, initState, processBlock, propagate, walkVal, walkRep, transfer,
    stackSetUnion, stackCompare, siteCompare, sortDedup, insertStack, pushUnless]

/-! ### axiom audit (compared with the allowed set by `check`) -/
#print axioms analyze_sound'
#print axioms analyze_complete'
#print axioms unbounded_iff_repeats
#print axioms analyze_exact
#print axioms unbounded_iff_defer_on_cycle
#print axioms analyze_order_irrelevant
#print axioms analyze_terminates
#print axioms analyze_total
#print axioms analyze_fuel_irrelevant
#print axioms analyze_sets_sorted

end Argot.Defers
