/-
C17 — Dataflow graphs are structurally consistent in both directions.

Property theorems only (model: Argot/Model/SGraph.lean, Argot/Model/SGraphEdges.lean; lemmas:
Argot/Proofs/SGraph.lean).

Quantifiers: every static assignment of call instructions / MakeClosure instructions to nodes, every
state, every operation, every finite sequence of operations (edge insertion of both kinds, creation
of global-access nodes, write marking, callee linking, closure linking, global synchronisation at the
end of a summary construction) — i.e. every graph the tool can build, eagerly or on demand, provided
each operation is performed under the (decidable) precondition `Op.ok` the Go code takes for granted.
`inv` is the decidable invariant the oracle evaluates on every dumped real graph (tie V4).
-/
import Argot.Proofs.SGraph

namespace Argot.SGraph

/-- the empty graph is consistent. -/
theorem inv_init (σ : Static) : inv σ {} = true := (inv_iff σ {}).2 (Inv_init σ)

/-- every operation preserves consistency:
(a) `d ∈ out s ↔ s ∈ in d`, every in entry has its out entry with the same tuple index, `in` is a map;
(b) a linked call node is registered in its callee summary's call sites and conversely;
(c) a closure node is registered with the summary of its closure;
(d) read/write location sets of globals = access nodes of constructed summaries. -/
theorem inv_step (σ : Static) (st : State) (op : Op) (h : inv σ st = true) (hok : op.ok σ st = true) :
    inv σ (step σ st op) = true :=
  (inv_iff σ _).2 (Inv_step σ st op ((inv_iff σ st).1 h) hok)

/-- **Every reachable graph is consistent** (induction over the operation list). -/
theorem inv_reachable (σ : Static) (ops : List Op) (hok : allOk σ {} ops = true) :
    inv σ (run σ {} ops) = true :=
  (inv_iff σ _).2 (Inv_run σ ops {} (Inv_init σ) hok)

/-- … and from any consistent state on. -/
theorem inv_reachable_from (σ : Static) (st : State) (ops : List Op) (h : inv σ st = true)
    (hok : allOk σ st ops = true) : inv σ (run σ st ops) = true :=
  (inv_iff σ _).2 (Inv_run σ ops st ((inv_iff σ st).1 h) hok)

/-- forward and backward traversals see the same connected pairs. -/
theorem same_pairs (σ : Static) (st : State) (h : inv σ st = true) (s d : Nat) :
    (∃ i, (s, d, i) ∈ st.e.out) ↔ (∃ i, (d, s, i) ∈ st.e.inn) := by
  have I := (inv_iff σ st).1 h
  constructor
  · rintro ⟨i, hi⟩
    obtain ⟨⟨d', s', i'⟩, hf, h1, h2⟩ := I.e_out_in _ hi
    simp only at h1 h2; subst h1 h2
    exact ⟨i', hf⟩
  · rintro ⟨i, hi⟩
    obtain ⟨⟨s', d', i'⟩, ht, h1, h2, _⟩ := I.e_in_out _ hi
    simp only at h1 h2; subst h1 h2
    exact ⟨i', ht⟩

/-- the index recorded on the `in` side always exists on the `out` side. -/
theorem in_index_sound (σ : Static) (st : State) (h : inv σ st = true) (s d : Nat) (i : Idx)
    (hi : (d, s, i) ∈ st.e.inn) : (s, d, i) ∈ st.e.out := by
  obtain ⟨⟨s', d', i'⟩, ht, h1, h2, h3⟩ := ((inv_iff σ st).1 h).e_in_out _ hi
  simp only at h1 h2 h3; subst h1 h2 h3
  exact ht

/-! ### "with the same tuple index" -/

/-- The property's full statement about indices: in every reachable graph every out entry has the in
entry *with the same tuple index* and conversely. -/
def InvIndexHolds : Prop := ∀ (σ : Static) (ops : List Op), allOk σ {} ops = true → invIndex (run σ {} ops) = true

/-- **It is false on the current code** (the `in` side is `map[source]EdgeInfo`: one entry per source,
overwritten; the `out` side keeps one entry per index): two insertions suffice. -/
theorem inv_index_false : ¬ InvIndexHolds := by
  intro h
  have := h ⟨id, id⟩ [.addEdge 1 2 0, .addEdge 1 2 1] (by decide)
  revert this
  decide

/-- the two-operation witness, spelled out: both out entries exist, only the last index is on the in side. -/
theorem inv_index_witness :
    (run ⟨id, id⟩ {} [.addEdge 1 2 0, .addEdge 1 2 1]).e.out = [(1, 2, 0), (1, 2, 1)] ∧
    (run ⟨id, id⟩ {} [.addEdge 1 2 0, .addEdge 1 2 1]).e.inn = [(2, 1, 1)] := by decide

/-- **Partial theorem**: on graphs where every connected pair carries a single index (decidable;
evaluated by the oracle on every dumped graph) out and in agree *with* the tuple index. -/
theorem inv_index_partial (σ : Static) (st : State) (h : inv σ st = true) (hs : singleIndex st = true) :
    invIndex st = true := by
  have I := (inv_iff σ st).1 h
  simp only [singleIndex, List.all_eq_true, Bool.or_eq_true, Bool.not_eq_true', Bool.and_eq_false_iff,
    decide_eq_false_iff_not, decide_eq_true_eq] at hs
  simp only [invIndex, Edges.indexConsistent, Bool.and_eq_true, List.all_eq_true, List.any_eq_true, decide_eq_true_eq]
  constructor
  · intro t ht
    obtain ⟨f, hf, h1, h2⟩ := I.e_out_in t ht
    obtain ⟨t', ht', g1, g2, g3⟩ := I.e_in_out f hf
    refine ⟨f, hf, ⟨h1, h2⟩, ?_⟩
    rcases hs t ht t' ht' with (hne | hne) | heq
    · exact absurd (h2.symm.trans g2) hne
    · exact absurd (h1.symm.trans g1) hne
    · rw [g3, heq]
  · intro f hf
    obtain ⟨t, ht, g1, g2, g3⟩ := I.e_in_out f hf
    exact ⟨t, ht, ⟨g1, g2⟩, g3⟩

/-! ### non-vacuity: a run that uses every operation -/

def exOps : List Op := [
  .addAccess 10 1 100, .addAccess 11 1 101, .markWrite 11, .addEdge 10 3 (-1), .addEdge 4 11 (-1),
  .appendEdge 5 6 0, .syncGlobals 1,
  .linkCallee 7 2, .linkCallee 8 2, .linkCallee 7 3, .linkClosure 9 (some 2), .linkClosure 9 none, .linkClosure 9 (some 3),
  .addEdge 3 4 0, .addEdge 3 4 0 ]

example : allOk ⟨fun n => n, fun c => c⟩ {} exOps = true ∧ inv ⟨fun n => n, fun c => c⟩ (run ⟨fun n => n, fun c => c⟩ {} exOps) = true ∧
    (run ⟨fun n => n, fun c => c⟩ {} exOps).readLoc = [(100, 10)] ∧ (run ⟨fun n => n, fun c => c⟩ {} exOps).writeLoc = [(101, 11)] ∧
    (run ⟨fun n => n, fun c => c⟩ {} exOps).callsites = [(2, 7, 7), (2, 8, 8)] := by decide

/-- a precondition is not decoration: two call nodes at one call instruction linked to one summary break (b). -/
example : inv ⟨fun _ => 0, id⟩ (run ⟨fun _ => 0, id⟩ {} [.linkCallee 7 2, .linkCallee 8 2]) = false := by decide

#print axioms inv_init
#print axioms inv_step
#print axioms inv_reachable
#print axioms same_pairs
#print axioms in_index_sound
#print axioms inv_index_false
#print axioms inv_index_partial

end Argot.SGraph
