/-
C17 — the converse registrations ("… and vice versa", "Forward and backward traversals therefore see the
same graph").

Model: Argot/Model/SGraph.lean (op machine), Argot/Model/SGraphConv.lean (the decidable converse invariants
the oracle evaluates).  Duality of the two traversals: Argot/Props/C03Dual.lean.

WHAT IS ONE-DIRECTIONAL IN THE MODEL
* (b) `InvCalls` is already two-directional: `calls_conv_of_inv` (nothing to add).
* (c) `InvClosures` is `ClosureSummary ⊆ ReferringMakeClosures` only.  Its converse `InvRefConv` (every entry of
  `ReferringMakeClosures` of summary `S` is a closure node at that MakeClosure instruction whose
  `ClosureSummary` is `S`) is NOT preserved by the op machine: `conv_not_invariant` (link, then unlink: the
  entry stays).  It is preserved exactly by the operations satisfying `Op.okConv` (a closure node is never
  re-linked to a different summary and never unlinked): `inv_conv_step`, `inv_conv_step_exact`.
* under `inv` ∧ `invClosuresConv` the forward and backward one-step relations are converses of each other, and
  so are the reachability relations: `same_graph_both_ways`.
-/
import Argot.Model.SGraphConv
import Argot.Props.C17
import Argot.Props.C03Dual

namespace Argot.SGraph

theorem invClosuresConv_iff (σ : Static) (st : State) : invClosuresConv σ st = true ↔ InvRefConv σ st := by
  simp [invClosuresConv]

/-- the oracle's count is the invariant: no stale entry iff the converse of (c) holds. -/
theorem stale_nil_iff (σ : Static) (st : State) : staleReferring σ st = [] ↔ InvRefConv σ st := by
  simp only [staleReferring, List.filter_eq_nil_iff, InvRefConv]
  constructor
  · intro h t ht
    have := h t ht
    simpa using this
  · intro h t ht
    have := h t ht
    simpa using this

/-- `InvRefConv` is at least the hypothesis `forward_backward_dual` needs. -/
theorem refConv_dual {σ : Static} {st : State} (h : InvRefConv σ st) : Dual.InvClosuresConv st :=
  fun t ht => (h t ht).2

/-- **(b) is two-directional in the model**: the converse half of (b) is part of `inv`. -/
theorem calls_conv_of_inv (σ : Static) (st : State) (h : inv σ st = true) : invCallsConv σ st = true := by
  have I := (inv_iff σ st).1 h
  simp only [invCallsConv, decide_eq_true_eq]
  exact I.calls_bwd

theorem staleCallsites_nil_of_inv (σ : Static) (st : State) (h : inv σ st = true) : staleCallsites σ st = [] := by
  have I := (inv_iff σ st).1 h
  simp only [staleCallsites, List.filter_eq_nil_iff]
  intro t ht
  have := I.calls_bwd t ht
  simpa using this

theorem refConv_init (σ : Static) : InvRefConv σ {} := by intro t ht; cases ht

/-- **the converse of (c) is preserved by every operation performed under `Op.okConv`**: every operation but
`linkClosure`; `linkClosure c (some S)` when `c` is unlinked or already linked to `S`; `linkClosure c none`
when `c` is unlinked. -/
theorem inv_conv_step (σ : Static) (st : State) (op : Op) (h : InvRefConv σ st) (hok : op.okConv st = true) :
    InvRefConv σ (step σ st op) := by
  cases op with
  | addEdge s d i => exact h
  | appendEdge s d i => exact h
  | addAccess a S g => simp only [step]; split <;> exact h
  | markWrite a => exact h
  | linkCallee n S => simp only [step]; split <;> exact h
  | syncGlobals S => exact h
  | linkClosure c oS =>
    cases oS with
    | none =>
      simp only [Op.okConv, List.all_eq_true, Bool.not_eq_true', decide_eq_false_iff_not] at hok
      intro t ht
      obtain ⟨h1, h2⟩ := h t ht
      refine ⟨h1, ?_⟩
      simp only [step, List.mem_filter, Bool.not_eq_true', decide_eq_false_iff_not]
      exact ⟨h2, hok _ h2⟩
    | some S =>
      simp only [Op.okConv, List.all_eq_true, Bool.or_eq_true, Bool.not_eq_true', decide_eq_false_iff_not,
        decide_eq_true_eq] at hok
      intro t ht
      simp only [step, List.mem_append, List.mem_filter, List.mem_singleton] at ht ⊢
      rcases ht with ⟨ht, _⟩ | rfl
      · obtain ⟨h1, h2⟩ := h t ht
        refine ⟨h1, ?_⟩
        by_cases hc : t.2.2 = c
        · rcases hok _ h2 with hne | heq
          · exact absurd hc hne
          · right
            simp only at heq
            rw [← hc, ← heq]
        · left
          exact ⟨h2, by simpa using hc⟩
      · exact ⟨rfl, Or.inr rfl⟩

/-- **… and by no other**: on a state satisfying (c), an operation outside `Op.okConv` produces a stale entry. -/
theorem inv_conv_step_exact (σ : Static) (st : State) (op : Op) (hc : InvClosures σ st)
    (hok : op.okConv st = false) : ¬ InvRefConv σ (step σ st op) := by
  cases op with
  | addEdge s d i => simp [Op.okConv] at hok
  | appendEdge s d i => simp [Op.okConv] at hok
  | addAccess a S g => simp [Op.okConv] at hok
  | markWrite a => simp [Op.okConv] at hok
  | linkCallee n S => simp [Op.okConv] at hok
  | syncGlobals S => simp [Op.okConv] at hok
  | linkClosure c oS =>
    cases oS with
    | none =>
      simp only [Op.okConv, List.all_eq_false, Bool.not_eq_true', decide_eq_false_iff_not, Decidable.not_not] at hok
      obtain ⟨p, hp, hpc⟩ := hok
      intro hconv
      have href := hc p hp
      have := (hconv _ (by simpa [step] using href)).2
      simp [step, hpc] at this
    | some S =>
      simp only [Op.okConv, List.all_eq_false, Bool.or_eq_true, Bool.not_eq_true', decide_eq_false_iff_not,
        decide_eq_true_eq, not_or, Decidable.not_not] at hok
      obtain ⟨p, hp, hpc, hpS⟩ := hok
      intro hconv
      have href := hc p hp
      have hmem : (p.2, σ.cinstr p.1, p.1) ∈ (step σ st (.linkClosure c (some S))).referring := by
        simp only [step, List.mem_append, List.mem_filter, List.mem_singleton]
        left
        exact ⟨href, by simp [hpS]⟩
      have := (hconv _ hmem).2
      simp [step, hpc] at this
      exact hpS this

/-- the two together: on a state satisfying (c) and its converse, the converse survives an operation iff the
operation is performed under `Op.okConv`. -/
theorem inv_conv_step_iff (σ : Static) (st : State) (op : Op) (hc : InvClosures σ st) (h : InvRefConv σ st) :
    InvRefConv σ (step σ st op) ↔ op.okConv st = true := by
  constructor
  · intro h'
    cases hk : op.okConv st with
    | true => rfl
    | false => exact absurd h' (inv_conv_step_exact σ st op hc hk)
  · exact inv_conv_step σ st op h

theorem refConv_run (σ : Static) (ops : List Op) : ∀ st, InvRefConv σ st → allOkConv σ st ops = true →
    InvRefConv σ (run σ st ops) := by
  induction ops with
  | nil => intro st h _; exact h
  | cons op ops ih =>
    intro st h hok
    simp only [allOkConv, Bool.and_eq_true] at hok
    exact ih _ (inv_conv_step σ st op h hok.1) hok.2

/-- every graph the op machine builds under `Op.ok` and `Op.okConv` satisfies `inv` and the converse of (c). -/
theorem inv_conv_reachable (σ : Static) (ops : List Op) (hok : allOk σ {} ops = true)
    (hokc : allOkConv σ {} ops = true) :
    inv σ (run σ {} ops) = true ∧ invClosuresConv σ (run σ {} ops) = true :=
  ⟨inv_reachable σ ops hok, (invClosuresConv_iff σ _).2 (refConv_run σ ops {} (refConv_init σ) hokc)⟩

/-- the statement one would like: the converse of (c) holds on every graph the op machine builds. -/
def ConvInvariant : Prop :=
  ∀ (σ : Static) (ops : List Op), allOk σ {} ops = true → invClosuresConv σ (run σ {} ops) = true

/-- **It is false for the op machine as it is** (`closureNode.ClosureSummary = closureSummary // nil is safe`
after an earlier link: `ReferringMakeClosures` keeps the entry) — the state of
`Dual.dual_false_without_closure_converse`. -/
theorem conv_not_invariant : ¬ ConvInvariant := by
  intro h
  have := h ⟨id, id⟩ Dual.staleOps (by decide)
  revert this
  decide

/-- the witness spelled out: `inv` holds, one stale entry, and the two traversals disagree on it (backward
reaches the bound variable 20 from the free variable 30, forward does not reach 30 from 20). -/
theorem conv_witness :
    allOk ⟨id, id⟩ {} Dual.staleOps = true ∧ inv ⟨id, id⟩ (run ⟨id, id⟩ {} Dual.staleOps) = true ∧
    staleReferring ⟨id, id⟩ (run ⟨id, id⟩ {} Dual.staleOps) = [(2, 9, 9)] ∧
    allOkConv ⟨id, id⟩ {} Dual.staleOps = false ∧
    Closure.Reach (Dual.Bwd Dual.staleView) [30] 20 ∧ ¬ Closure.Reach (Dual.Fwd Dual.staleView) [20] 30 :=
  ⟨by decide, by decide, by decide, by decide,
    Dual.dual_false_without_closure_converse.2.2.2.1, Dual.dual_false_without_closure_converse.2.2.2.2⟩

/-- **same_graph_both_ways.** On every linked graph satisfying `inv` and the converse of (c) the backward
one-step relation is exactly the converse of the forward one, hence `t` is forward-reachable from `s` iff `s`
is backward-reachable from `t` (no bound on the graph or on the paths). -/
theorem same_graph_both_ways (v : Dual.View) (h : inv v.σ v.st = true)
    (hc : invClosuresConv v.σ v.st = true) :
    (∀ s t, Dual.Fwd v s t ↔ Dual.Bwd v t s) ∧
    (∀ s t, Closure.Reach (Dual.Fwd v) [s] t ↔ Closure.Reach (Dual.Bwd v) [t] s) := by
  have I := (inv_iff v.σ v.st).1 h
  have hc' := refConv_dual ((invClosuresConv_iff v.σ v.st).1 hc)
  exact ⟨Dual.bwd_is_conv_fwd v ⟨I.e_out_in, I.e_in_out, I.e_uniq⟩ ⟨I.calls_fwd, I.calls_bwd⟩ I.clos hc',
    Dual.forward_backward_dual_inv v h hc'⟩

/-- … for every graph the op machine builds under `Op.ok` and `Op.okConv`, every layout. -/
theorem same_graph_reachable (σ : Static) (L : Dual.Layout) (ops : List Op) (hok : allOk σ {} ops = true)
    (hokc : allOkConv σ {} ops = true) (s t : Nat) :
    Closure.Reach (Dual.Fwd ⟨σ, L, run σ {} ops⟩) [s] t ↔ Closure.Reach (Dual.Bwd ⟨σ, L, run σ {} ops⟩) [t] s :=
  (same_graph_both_ways ⟨σ, L, run σ {} ops⟩ (inv_conv_reachable σ ops hok hokc).1
    (inv_conv_reachable σ ops hok hokc).2).2 s t

/-! ### non-vacuity -/

/-- the run of `Props/C17.lean` that uses every operation unlinks and re-links closure node 9 (to summary 2, then
none, then 3): allowed by `Op.ok`, not by `Op.okConv`, and it ends with the stale entry (2, 9, 9). -/
example : allOk ⟨id, id⟩ {} exOps = true ∧ allOkConv ⟨id, id⟩ {} exOps = false ∧
    staleReferring ⟨id, id⟩ (run ⟨id, id⟩ {} exOps) = [(2, 9, 9)] := by decide

/-- the same run without the unlink / re-link satisfies both, with a registered closure. -/
example : let ops : List Op := [.linkCallee 7 2, .linkClosure 9 (some 2), .linkClosure 9 (some 2), .addEdge 3 4 0]
    allOk ⟨id, id⟩ {} ops = true ∧ allOkConv ⟨id, id⟩ {} ops = true ∧
    (run ⟨id, id⟩ {} ops).referring = [(2, 9, 9)] ∧ invClosuresConv ⟨id, id⟩ (run ⟨id, id⟩ {} ops) = true := by decide

/-- node ownership: an entry whose node is not owned is counted, an owned one is not. -/
example : orphanCallsites { calls := [7] } { callsites := [(2, 7, 7), (2, 8, 8)] } = [(2, 8, 8)] ∧
    orphanReferring { closures := [] } { referring := [(2, 9, 9)] } = [(2, 9, 9)] := by decide

#print axioms inv_conv_step
#print axioms inv_conv_step_exact
#print axioms inv_conv_step_iff
#print axioms inv_conv_reachable
#print axioms conv_not_invariant
#print axioms conv_witness
#print axioms same_graph_both_ways
#print axioms same_graph_reachable
#print axioms calls_conv_of_inv
#print axioms stale_nil_iff

end Argot.SGraph
