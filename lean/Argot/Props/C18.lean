/-
C18 — The reachability analysis is conservative.

Property theorems only (model: Argot/Model/Reach.lean, regenerated tables: Argot/Gen/Reach.lean interpreted
by Argot/Model/ReachGen.lean, abstract execution semantics: Argot/Spec/Reach.lean, lemmas:
Argot/Proofs/Reach.lean, generic worklist theorem: Argot/Base/Closure.lean).

Quantifiers: every program `P` (any number of functions / instructions / operands / types), every root
list, every `Tables` (= every variant of the two operand switches and of `findCallees`).

* `reach_is_lfp`     the computed set contains the roots, is closed under `findCallees`, and is the least
                     such set (for any traversal order: `Closure` theorems; the Go loop is LIFO, the model FIFO);
* `reach_mono_roots`, `reach_four_ordered`   monotone in the roots, hence the four -nomain / -noinit sets are
                     ordered: (nomain,noinit) ⊆ (nomain) , (noinit) ⊆ (default);
* `reach_subset_all` contained in AllFunctions;
* `reach_sound`      contains the RTA-style execution semantics `Exec` GIVEN `OperandTableComplete T`
                     (a decidable obligation; it was FALSE before repository commit 3c101cd — `Defer`/`Go`
                     arguments not visited, F8 — and HOLDS for the regenerated table now:
                     `gen_operand_table_complete`, `reach_sound_current`) and `NoInterfaceWidening P`;
* `exec_subset_of_stable` + `sound_of_criterion`   the per-program criterion the oracle evaluates on every
                     dumped program (no hypothesis on the tables);
* negation witnesses: `old_table_incomplete`, `old_unsound_defer_arg`, `old_unsound_go_arg` about the table
                     of the code BEFORE the repair (kept as a literal; the corpus inputs are regression cases now),
                     `pinned_unsound_widening` about the current one (open finding; replayed on the real tool:
                     corpus/findings/F08_reach_defer_go_args/widening);
* `gen_known`, `gen_covers_pinned`   obligations over the regenerated table.
-/
import Argot.Proofs.Reach
import Argot.Model.ReachGen

namespace Argot.Reach
open Argot

/-- **Least fixed point.** For well-formed facts and roots inside the program: the result contains the
roots, is closed under `findCallees`, and is contained in every set with these two properties. -/
theorem reach_is_lfp (T : Tables) (P : Prog) (hw : wf P = true) (roots : List Nat)
    (hr : ∀ r ∈ roots, r < P.fns.length) :
    (∀ r ∈ roots, r ∈ closure T P roots) ∧
    (∀ f ∈ closure T P roots, ∀ g ∈ findCallees T P f, g ∈ closure T P roots) ∧
    (∀ S : Nat → Prop, (∀ r ∈ roots, S r) → (∀ f g, S f → g ∈ findCallees T P f → S g) →
      ∀ k ∈ closure T P roots, S k) := by
  refine ⟨?_, ?_, ?_⟩
  · intro r h; exact (mem_closure_iff hw hr r).2 (Closure.Reach.root h)
  · intro f hf g hg
    exact (mem_closure_iff hw hr g).2 (Closure.Reach.step ((mem_closure_iff hw hr f).1 hf) hg)
  · intro S h1 h2 k hk
    exact Closure.Reach.least S h1 (fun a b ha hab => h2 a b ha hab) ((mem_closure_iff hw hr k).1 hk)

/-- **Monotone in the roots.** -/
theorem reach_mono_roots (T : Tables) (P : Prog) (hw : wf P = true) (roots roots' : List Nat)
    (hr : ∀ r ∈ roots, r < P.fns.length) (hr' : ∀ r ∈ roots', r < P.fns.length)
    (hsub : ∀ r ∈ roots, r ∈ roots') : ∀ k ∈ closure T P roots, k ∈ closure T P roots' := by
  intro k hk
  exact (mem_closure_iff hw hr' k).2
    (Closure.Reach.mono hsub (fun _ _ h => h) ((mem_closure_iff hw hr k).1 hk))

/-- **The four root selections are ordered as the property claims**: excluding main and/or init only
shrinks the result. -/
theorem reach_four_ordered (T : Tables) (P : Prog) (hw : wf P = true) (a b a' b' : Bool)
    (ha : a' = true → a = true) (hb : b' = true → b = true) :
    ∀ k ∈ findReachable T P a b, k ∈ findReachable T P a' b' :=
  reach_mono_roots T P hw _ _ (entryPoints_lt P a b) (entryPoints_lt P a' b') (entryPoints_mono P ha hb)

/-- with both roots excluded nothing is reachable -/
theorem reach_no_roots (T : Tables) (P : Prog) : findReachable T P true true = [] := by
  have : entryPoints P true true = [] := by
    simp [entryPoints, isEntry]
  simp [findReachable, closure, this, Closure.run, Closure.init, Closure.bfs, fuel]

/-- **Contained in AllFunctions.** -/
theorem reach_subset_all (T : Tables) (P : Prog) (hw : wf P = true) (roots : List Nat)
    (hr : ∀ r ∈ roots, r < P.fns.length) : ∀ k ∈ closure T P roots, k < P.fns.length := by
  intro k hk
  exact Closure.Reach.least (· < P.fns.length) hr (fun _ _ _ hab => findCallees_lt hw hab)
    ((mem_closure_iff hw hr k).1 hk)

/-- **Soundness** w.r.t. the abstract execution semantics, given a complete operand table and no
interface-to-interface widening in the program. -/
theorem reach_sound (T : Tables) (P : Prog) (hw : wf P = true) (roots : List Nat)
    (hr : ∀ r ∈ roots, r < P.fns.length) (hT : OperandTableComplete T) (hW : NoInterfaceWidening P) :
    ∀ g, Exec P roots g → g ∈ closure T P roots := by
  obtain ⟨hops, hmk, hva, hil⟩ := hT
  obtain ⟨_, hclosed, _⟩ := reach_is_lfp T P hw roots hr
  intro g hg
  induction hg with
  | root h => exact (mem_closure_iff hw hr _).2 (Closure.Reach.root h)
  | @ref f g _ hg ih =>
    refine hclosed f ih g (mem_findCallees.2 (Or.inr ?_))
    refine (mem_valueFns_iff hw f g).2 ⟨⟨hil, hva⟩, Closure.Reach.root ?_⟩
    simp only [funcRefs, List.mem_flatMap, List.mem_filterMap] at hg
    obtain ⟨ins, hi, o, ho, hog⟩ := hg
    have hfn : o.2 = .fn g := by
      cases h2 : o.2 with
      | fn g' => rw [h2] at hog; simp at hog; rw [hog]
      | instr _ => rw [h2] at hog; simp at hog
      | other => rw [h2] at hog; simp at hog
    have hcan := (instrWf_op (fnAt_instr_wf hw f hi) ho).2 g hfn
    simp only [vroots, List.mem_flatMap]
    refine ⟨ins, hi, mem_visitedOps.2 ⟨o, ho, ?_, by rw [hfn]; simp [nodeOf]⟩⟩
    exact List.contains_iff_mem.2 (hops _ (List.contains_iff_mem.1 hcan))
  | @invoke f f' g ins ins' c m _ hi hc hinv _ hi' hm hcf hg ih ih' =>
    refine hclosed f' ih' g (mem_findCallees.2 (Or.inl ⟨ins', hi', Or.inr ?_⟩))
    have hkind := (instrWf_conv (fnAt_instr_wf hw f' hi') hm).1
    have hjm := instrWf_call (fnAt_instr_wf hw f hi) hc hinv
    unfold ifaceTargetsOf
    rw [hm]
    simp only [hmk, hkind, Bool.and_self, if_true]
    unfold ifaceCallees
    simp only
    by_cases he : (methodsOf P m).isEmpty = true
    · rw [if_pos he]; exact List.mem_map.2 ⟨_, hg, rfl⟩
    · rw [if_neg he]
      refine List.mem_map.2 ⟨_, List.mem_filter.2 ⟨hg, ?_⟩, rfl⟩
      have hW' : hasWidening P = false := hW
      simp only [canFlow, hW', Bool.false_or, Bool.and_eq_true, Bool.or_eq_true, List.all_eq_true] at hcf
      rcases hcf.2 with h | h
      · exact absurd h he
      · exact h _ (List.contains_iff_mem.1 hjm)

/-- a set that contains the roots and is closed under the rules of `Exec` contains `Exec`
(`stable` is decidable: the oracle evaluates it on the set it computes) -/
theorem exec_subset_of_stable (P : Prog) (roots E : List Nat) (hs : stable P roots E = true) :
    ∀ g, Exec P roots g → g ∈ E := by
  simp only [stable, Bool.and_eq_true, List.all_eq_true] at hs
  obtain ⟨h1, h2⟩ := hs
  intro g hg
  induction hg with
  | root h => exact subsetB_iff.1 h1 _ h
  | @ref f g _ hg ih =>
    exact subsetB_iff.1 (h2 f ih) g (by simp only [specSucc, List.mem_append]; exact Or.inl hg)
  | @invoke f f' g ins ins' c m _ hi hc hinv _ hi' hm hcf hg ih ih' =>
    refine subsetB_iff.1 (h2 f ih) g ?_
    simp only [specSucc, List.mem_append]
    exact Or.inr (mem_dispatch.2 ⟨ins, hi, c, hc, hinv, f', ih', ins', hi', m, hm, hcf, hg⟩)

/-- **Per-program criterion** (no hypothesis on the tables): if the oracle's stable execution set is
contained in the computed reachable set, every function of `Exec` is reported. -/
theorem sound_of_criterion (T : Tables) (P : Prog) (roots E : List Nat) (hs : stable P roots E = true)
    (hsub : ∀ g ∈ E, g ∈ closure T P roots) : ∀ g, Exec P roots g → g ∈ closure T P roots :=
  fun g hg => hsub g (exec_subset_of_stable P roots E hs g hg)

/-! ### negation witnesses (F8): the table before the repair, and interface widening -/

/-- `func main() { defer run(cb) }` : 0 = main, 1 = run, 2 = cb (only mentioned as the argument) -/
def witnessArg (kind : String) : Prog :=
  { fns := [ { name := "main", hasPkg := true, pkgName := "main", anon := [],
               instrs := [ { kind := kind, ops := [("Value", .fn 1), ("Args", .fn 2)],
                             call := some ⟨false, "", []⟩ } ] },
             { name := "run", hasPkg := true, pkgName := "main", anon := [], instrs := [] },
             { name := "cb", hasPkg := true, pkgName := "main", anon := [], instrs := [] } ],
    types := [] }

theorem old_table_incomplete : ¬ OperandTableComplete oldTables := by decide

/-- **F8, deferred call**: the callback executes (`Exec`) but is not in the computed set. -/
theorem old_unsound_defer_arg :
    wf (witnessArg "Defer") = true ∧ Exec (witnessArg "Defer") [0] 2 ∧
    2 ∉ closure oldTables (witnessArg "Defer") [0] := by
  refine ⟨by decide, ?_, by decide⟩
  exact Exec.ref (Exec.root List.mem_cons_self) (by decide)

/-- **F8, go statement**: same for `go run(cb)`. -/
theorem old_unsound_go_arg :
    wf (witnessArg "Go") = true ∧ Exec (witnessArg "Go") [0] 2 ∧
    2 ∉ closure oldTables (witnessArg "Go") [0] := by
  refine ⟨by decide, ?_, by decide⟩
  exact Exec.ref (Exec.root List.mem_cons_self) (by decide)

/-- with the arguments of Defer and Go visited, the table is complete -/
theorem fixed_table_complete : OperandTableComplete pinnedTables := by decide

/-- … and the repaired code computes the callback of the two witnesses -/
example : 2 ∈ closure pinnedTables (witnessArg "Defer") [0] ∧ 2 ∈ closure pinnedTables (witnessArg "Go") [0] := by
  decide

/-- `var s Small = T{}; s.(Big).B()` : 0 = main, 1 = (T).A, 2 = (T).B; type 0 = Small{A}, type 1 = Big{A,B} -/
def witnessWiden : Prog :=
  { fns := [ { name := "main", hasPkg := true, pkgName := "main", anon := [],
               instrs := [ { kind := "MakeInterface", ops := [("X", .other)],
                             conv := some ⟨0, [("A", 1), ("B", 2)]⟩ },
                           { kind := "TypeAssert", ops := [("X", .instr 0)], widen := true },
                           { kind := "Call", ops := [("Value", .instr 1)],
                             call := some ⟨true, "B", ["A", "B"]⟩ } ] },
             { name := "A", hasPkg := true, pkgName := "main", anon := [], instrs := [] },
             { name := "B", hasPkg := true, pkgName := "main", anon := [], instrs := [] } ],
    types := [ .iface ["A"] [], .iface ["A", "B"] [] ] }

/-- **F8, interface widening**: `(T).B` executes after the assertion to `Big` but is not in the computed
set — even with a complete operand table. -/
theorem pinned_unsound_widening :
    wf witnessWiden = true ∧ Exec witnessWiden [0] 2 ∧
    2 ∉ closure pinnedTables witnessWiden [0] := by
  refine ⟨by decide, ?_, by decide⟩
  exact Exec.invoke (f := 0) (f' := 0) (ins := { kind := "Call", ops := [("Value", .instr 1)], call := some ⟨true, "B", ["A", "B"]⟩ })
    (ins' := { kind := "MakeInterface", ops := [("X", .other)], conv := some ⟨0, [("A", 1), ("B", 2)]⟩ })
    (c := ⟨true, "B", ["A", "B"]⟩) (m := ⟨0, [("A", 1), ("B", 2)]⟩)
    (Exec.root List.mem_cons_self) (by decide) rfl rfl (Exec.root List.mem_cons_self) (by decide) rfl
    (by decide) (by decide)

/-! ### obligations over the regenerated table (T3) -/

/-- every guard path of the current source is one the model interprets -/
theorem gen_known : genKnown = true := by decide +kernel

/-- everything visited / handled by the pinned code (after the repair of F8) still is -/
theorem gen_covers_pinned : pinnedTables.covers genTables = true := by decide +kernel

/-- **the operand table of the current source is complete** (this obligation was false before 3c101cd) -/
theorem gen_operand_table_complete : OperandTableComplete genTables := by decide +kernel

/-- what is proved for the code as it is now: soundness w.r.t. `Exec` for every program without
interface-to-interface widening -/
theorem reach_sound_current (P : Prog) (hw : wf P = true) (roots : List Nat)
    (hr : ∀ r ∈ roots, r < P.fns.length) (hW : NoInterfaceWidening P) :
    ∀ g, Exec P roots g → g ∈ closure genTables P roots :=
  reach_sound genTables P hw roots hr gen_operand_table_complete hW

/-! ### non-vacuity: closures, interface dispatch, the four root selections -/

/-- 0 main: calls 2, converts T to I{M} (method M = 4), 1 init: stores function 3 in a global,
    2: go closure 5 (anonymous function of 2), 3, 4, 5: leaves, 6: unreachable -/
def exProg : Prog :=
  { fns := [ { name := "main", hasPkg := true, pkgName := "main", anon := [],
               instrs := [ { kind := "Call", ops := [("Value", .fn 2)], call := some ⟨false, "", []⟩ },
                           { kind := "MakeInterface", ops := [("X", .other)], conv := some ⟨0, [("M", 4), ("N", 6)]⟩ } ] },
             { name := "init", hasPkg := true, pkgName := "main", anon := [],
               instrs := [ { kind := "Store", ops := [("Addr", .other), ("Val", .fn 3)] } ] },
             { name := "f", hasPkg := true, pkgName := "main", anon := [5],
               instrs := [ { kind := "MakeClosure", ops := [("Fn", .fn 5), ("Bindings", .other)] },
                           { kind := "Go", ops := [("Value", .instr 0)], call := some ⟨false, "", []⟩ } ] },
             { name := "g", hasPkg := true, pkgName := "main", anon := [], instrs := [] },
             { name := "M", hasPkg := true, pkgName := "main", anon := [], instrs := [] },
             { name := "f$1", hasPkg := true, pkgName := "main", anon := [], instrs := [] },
             { name := "N", hasPkg := true, pkgName := "main", anon := [], instrs := [] } ],
    types := [ .named 1, .iface ["M"] [] ] }

example : wf exProg = true := by decide
example : entryPoints exProg false false = [0, 1] := by decide
/-- the reachable set as the sorted list of the function indices it contains -/
def asSet (n : Nat) (l : List Nat) : List Nat := (List.range n).filter fun k => l.contains k

example : asSet 7 (findReachable pinnedTables exProg false false) = [0, 1, 2, 3, 4, 5] := by decide +kernel
example : asSet 7 (findReachable pinnedTables exProg false true) = [0, 2, 4, 5] := by decide +kernel
example : asSet 7 (findReachable pinnedTables exProg true false) = [1, 3] := by decide +kernel
example : findReachable pinnedTables exProg true true = [] := by decide +kernel
example : stable exProg [0, 1] (execSet exProg [0, 1]) = true := by decide +kernel

/-! ### axiom audit (compared with the allowed set by `check`) -/
#print axioms reach_is_lfp
#print axioms reach_mono_roots
#print axioms reach_four_ordered
#print axioms reach_subset_all
#print axioms reach_sound
#print axioms exec_subset_of_stable
#print axioms sound_of_criterion
#print axioms old_table_incomplete
#print axioms old_unsound_defer_arg
#print axioms old_unsound_go_arg
#print axioms pinned_unsound_widening
#print axioms fixed_table_complete
#print axioms gen_known
#print axioms gen_covers_pinned
#print axioms gen_operand_table_complete
#print axioms reach_sound_current

end Argot.Reach
