/-
C18 — "the reachability set contains every function reachable in the pointer-analysis call graph".

Property theorems only (criterion: Argot/Model/ReachPtr.lean, core Lean, executable; lemmas:
Argot/Proofs/ReachPtr.lean; call-graph client `Cg.reach` = `dataflow.CallGraphReachable`: Argot/Model/Cg.lean,
C12; worklist theory: Argot/Base/Closure.lean).

Quantifiers: every program `P` of SSA facts, every `Tables` with a complete operand table, every root list,
every call graph given as a list of edges `(caller, site, callee)` — NOT only the one the pointer analysis
computes — that satisfies the decidable provenance criterion `provOK P R edges` for some subset `R` of the
computed reachability set (in particular for the set itself): every edge is

  * the static callee of the call at its site, or
  * goes to a function *named* by a function of `R`: a function-value operand (argument, stored, returned,
    captured, sent, `MakeClosure.Fn` — `$bound` / `$thunk` functions are such operands), or the method
    (`MethodValue`: the wrapper itself for promoted / pointer-receiver wrappers) of a type converted to an
    interface whose method set names it, or
  * is the dispatch of the invoke at its site to the method of a type a function of `R` converts to an
    interface and that may flow to the receiver (`canFlow`).

* `ptr_reach_subset`          `Cg.reach` of such a call graph ⊆ `closure` (given `OperandTableComplete`,
                              `NoInterfaceWidening`): RTA-style reachability over-approximates every call graph
                              whose edges have provenance in the facts;
* `ptr_reach_subset_named`    the same without `NoInterfaceWidening` for the strict criterion `provNamed`
                              (no dispatch disjunct);
* `ptr_reach_subset_findReachable`, `ptr_reach_subset_current`   instances: `R` = the reachability set, roots =
                              the entry points, tables = the regenerated ones;
* `ptr_reach_widening_witness`  `NoInterfaceWidening` cannot be dropped from `ptr_reach_subset` (the F8-widening
                              program: the edge main → (T).B satisfies the criterion, (T).B is not computed; the
                              strict criterion rejects that edge);
* `wrapper_clause_unsound`    justifying an edge to a wrapper `g` by "the function `g` wraps is named" would NOT
                              be sufficient, which is why the criterion asks for `g` itself.
-/
import Argot.Proofs.ReachPtr
import Argot.Props.C18

namespace Argot.Reach
open Argot

/-- one justified edge (strict form) keeps the computed set closed -/
theorem edgeNamed_closed {T : Tables} {P : Prog} (hw : wf P = true) {roots : List Nat}
    (hr : ∀ r ∈ roots, r < P.fns.length) (hT : OperandTableComplete T) {R : List Nat}
    (hR : ∀ f ∈ R, f ∈ closure T P roots) {e : Edge} (he : edgeNamed P (namedBy P R) e = true)
    (hf : e.1 ∈ closure T P roots) : e.2.2 ∈ closure T P roots := by
  simp only [edgeNamed, Bool.or_eq_true, List.contains_iff_mem] at he
  rcases he with hs | hn
  · exact ref_closed hw hr hT hf (staticAt_ref hs)
  · exact namedBy_closed hw hr hT hR hn

/-- one justified edge keeps the computed set closed -/
theorem edgeOK_closed {T : Tables} {P : Prog} (hw : wf P = true) {roots : List Nat}
    (hr : ∀ r ∈ roots, r < P.fns.length) (hT : OperandTableComplete T) (hW : NoInterfaceWidening P)
    {R : List Nat} (hR : ∀ f ∈ R, f ∈ closure T P roots) {e : Edge}
    (he : edgeOK P R (namedBy P R) e = true) (hf : e.1 ∈ closure T P roots) :
    e.2.2 ∈ closure T P roots := by
  simp only [edgeOK, Bool.or_eq_true] at he
  rcases he with hn | hd
  · exact edgeNamed_closed hw hr hT hR hn hf
  · obtain ⟨ins, hi, c, hc, hinv, f', hf', ins', hi', m, hm, hcf, hg⟩ := dispatchAt_spec hd
    exact conv_closed hw hr hT (hR f' hf') hi' hm (dispatch_ifaceCallee hw hW hi hc hinv hcf hg)

/-- **Pointer-call-graph inclusion.**  For well-formed facts, a complete operand table and a program
without interface-to-interface widening: the functions reachable (`Cg.reach`, C12) from roots inside the
computed set along the edges of ANY call graph satisfying the provenance criterion w.r.t. a subset `R` of
the computed set are in the computed set. -/
theorem ptr_reach_subset (T : Tables) (P : Prog) (hw : wf P = true) (roots : List Nat)
    (hr : ∀ r ∈ roots, r < P.fns.length) (hT : OperandTableComplete T) (hW : NoInterfaceWidening P)
    (R : List Nat) (hR : ∀ f ∈ R, f ∈ closure T P roots)
    (cgRoots : List Nat) (hroots : ∀ r ∈ cgRoots, r ∈ closure T P roots)
    (edges : List Edge) (hprov : provOK P R edges = true) :
    ∀ g ∈ Cg.reach (cgEdges edges) cgRoots, g ∈ closure T P roots := by
  intro g hg
  simp only [provOK, List.all_eq_true] at hprov
  refine Closure.Reach.least (· ∈ closure T P roots) hroots ?_ (mem_cgReach.1 hg)
  intro a b ha hab
  obtain ⟨s, hs⟩ := mem_succs_cgEdges.1 hab
  exact edgeOK_closed hw hr hT hW hR (hprov _ hs) ha

/-- the strict criterion (static callee or named function; no dispatch disjunct) needs no hypothesis on
widening -/
theorem ptr_reach_subset_named (T : Tables) (P : Prog) (hw : wf P = true) (roots : List Nat)
    (hr : ∀ r ∈ roots, r < P.fns.length) (hT : OperandTableComplete T)
    (R : List Nat) (hR : ∀ f ∈ R, f ∈ closure T P roots)
    (cgRoots : List Nat) (hroots : ∀ r ∈ cgRoots, r ∈ closure T P roots)
    (edges : List Edge) (hprov : provNamed P R edges = true) :
    ∀ g ∈ Cg.reach (cgEdges edges) cgRoots, g ∈ closure T P roots := by
  intro g hg
  simp only [provNamed, List.all_eq_true] at hprov
  refine Closure.Reach.least (· ∈ closure T P roots) hroots ?_ (mem_cgReach.1 hg)
  intro a b ha hab
  obtain ⟨s, hs⟩ := mem_succs_cgEdges.1 hab
  exact edgeNamed_closed hw hr hT hR (hprov _ hs) ha

/-- the form the driver's inclusion has: same root selection on both sides, provenance w.r.t. the
reachability set itself -/
theorem ptr_reach_subset_findReachable (T : Tables) (P : Prog) (hw : wf P = true) (exMain exInit : Bool)
    (hT : OperandTableComplete T) (hW : NoInterfaceWidening P) (edges : List Edge)
    (hprov : provOK P (findReachable T P exMain exInit) edges = true) :
    ∀ g ∈ Cg.reach (cgEdges edges) (entryPoints P exMain exInit), g ∈ findReachable T P exMain exInit := by
  have hr := entryPoints_lt P exMain exInit
  exact ptr_reach_subset T P hw _ hr hT hW _ (fun _ h => h) _
    (fun r h => (reach_is_lfp T P hw _ hr).1 r h) edges hprov

/-- … for the code as it is now (operand table regenerated from the Go source) -/
theorem ptr_reach_subset_current (P : Prog) (hw : wf P = true) (exMain exInit : Bool)
    (hW : NoInterfaceWidening P) (edges : List Edge)
    (hprov : provOK P (findReachable genTables P exMain exInit) edges = true) :
    ∀ g ∈ Cg.reach (cgEdges edges) (entryPoints P exMain exInit),
      g ∈ findReachable genTables P exMain exInit :=
  ptr_reach_subset_findReachable genTables P hw exMain exInit gen_operand_table_complete hW edges hprov

/-! ### negation witnesses -/

/-- **`NoInterfaceWidening` is needed.**  On the F8-widening program (`s.(Big).B()` with `s` converted to
`Small`) the call-graph edge main → (T).B at the invoke satisfies the provenance criterion (dispatch
disjunct), (T).B is call-graph reachable, and is not in the computed set.  The strict criterion rejects
the edge. -/
theorem ptr_reach_widening_witness :
    wf witnessWiden = true ∧ OperandTableComplete pinnedTables ∧
    provOK witnessWiden (closure pinnedTables witnessWiden [0]) [(0, 2, 2)] = true ∧
    provNamed witnessWiden (closure pinnedTables witnessWiden [0]) [(0, 2, 2)] = false ∧
    2 ∈ Cg.reach (cgEdges [(0, 2, 2)]) [0] ∧ 2 ∉ closure pinnedTables witnessWiden [0] := by
  decide

/-- `func main() { w() }` plus a synthetic `w$bound` that nobody names: 0 = main, 1 = w, 2 = w$bound -/
def witnessWrapper : Prog :=
  { fns := [ { name := "main", hasPkg := true, pkgName := "main", anon := [],
               instrs := [ { kind := "Call", ops := [("Value", .fn 1)], call := some ⟨false, "", []⟩ } ] },
             { name := "w", hasPkg := true, pkgName := "main", anon := [], instrs := [] },
             { name := "w$bound", hasPkg := true, pkgName := "main", anon := [],
               instrs := [ { kind := "Call", ops := [("Value", .fn 1)], call := some ⟨false, "", []⟩ } ] } ],
    types := [] }

/-- **Why the criterion asks for the wrapper itself.**  An edge to the wrapper 2 whose wrapped function 1
is named by `main` (and is the static callee of the wrapper): the wrapper is call-graph reachable but not
computed — "the function `g` wraps is named" is not a sufficient provenance for an edge to `g`.
(x/tools puts the `$bound` / `$thunk` function itself in `MakeClosure.Fn` / the operand and the wrapper
itself in the method set, so real edges to wrappers are justified by the `named` disjunct.) -/
theorem wrapper_clause_unsound :
    wf witnessWrapper = true ∧ OperandTableComplete pinnedTables ∧
    (funcRefs (fnAt witnessWrapper 2)).contains 1 = true ∧
    (namedBy witnessWrapper (closure pinnedTables witnessWrapper [0])).contains 1 = true ∧
    provOK witnessWrapper (closure pinnedTables witnessWrapper [0]) [(0, 0, 2)] = false ∧
    2 ∈ Cg.reach (cgEdges [(0, 0, 2)]) [0] ∧ 2 ∉ closure pinnedTables witnessWrapper [0] := by
  decide

/-! ### non-vacuity -/

/-- `func main() { run(cb) }; func run(f func()) { f() }; func cb() {}` : 0 = main, 1 = run, 2 = cb.
The call in `run` is dynamic (callee = a parameter). -/
def exDyn : Prog :=
  { fns := [ { name := "main", hasPkg := true, pkgName := "main", anon := [],
               instrs := [ { kind := "Call", ops := [("Value", .fn 1), ("Args", .fn 2)],
                             call := some ⟨false, "", []⟩ } ] },
             { name := "run", hasPkg := true, pkgName := "main", anon := [],
               instrs := [ { kind := "Call", ops := [("Value", .other)], call := some ⟨false, "", []⟩ } ] },
             { name := "cb", hasPkg := true, pkgName := "main", anon := [], instrs := [] } ],
    types := [] }

/-- the pointer call graph of `exDyn`: main →(site 0) run static, run →(site 0) cb dynamic -/
def exDynCg : List Edge := [(0, 0, 1), (1, 0, 2)]

example : wf exDyn = true ∧ hasWidening exDyn = false := by decide
example : entryPoints exDyn false false = [0] := by decide
/-- the static edge is justified by `staticAt`, the dynamic one only by `namedBy` -/
example : staticAt exDyn 0 0 1 = true ∧ staticAt exDyn 1 0 2 = false ∧
    (namedBy exDyn (findReachable pinnedTables exDyn false false)).contains 2 = true := by decide
example : provOK exDyn (findReachable pinnedTables exDyn false false) exDynCg = true := by decide
example : provNamed exDyn (findReachable pinnedTables exDyn false false) exDynCg = true := by decide
example : asSet 3 (Cg.reach (cgEdges exDynCg) [0]) = [0, 1, 2] := by decide
example : asSet 3 (findReachable pinnedTables exDyn false false) = [0, 1, 2] := by decide
/-- the theorem applies (hypotheses satisfiable, conclusion not trivially true of every function) -/
example : ∀ g ∈ Cg.reach (cgEdges exDynCg) (entryPoints exDyn false false),
    g ∈ findReachable pinnedTables exDyn false false :=
  ptr_reach_subset_findReachable pinnedTables exDyn (by decide) false false fixed_table_complete
    (show hasWidening exDyn = false by decide) exDynCg (by decide)
/-- the criterion rejects an edge without provenance: in `exProg` (Props/C18) function 6 is the method `N`
of a type converted to an interface that only lists `M`; it is not computed, and an edge to it is
unjustified -/
example : provOK exProg (findReachable pinnedTables exProg false false) [(0, 0, 2), (0, 1, 6)] = false ∧
    unjustified exProg (findReachable pinnedTables exProg false false) [(0, 0, 2), (0, 1, 6)] = [(0, 1, 6)] ∧
    ¬ 6 ∈ findReachable pinnedTables exProg false false := by decide +kernel

/-- `var i I = T{}; i.M()` : 0 = main, 1 = (T).M, 2 = (T).N; type 0 = I{M}.  The invoke edge is justified by
the dispatch disjunct and by the named disjunct; an edge to (T).N by neither. -/
def exInvoke : Prog :=
  { fns := [ { name := "main", hasPkg := true, pkgName := "main", anon := [],
               instrs := [ { kind := "MakeInterface", ops := [("X", .other)],
                             conv := some ⟨0, [("M", 1), ("N", 2)]⟩ },
                           { kind := "Call", ops := [("Value", .instr 0)], call := some ⟨true, "M", ["M"]⟩ } ] },
             { name := "M", hasPkg := true, pkgName := "main", anon := [], instrs := [] },
             { name := "N", hasPkg := true, pkgName := "main", anon := [], instrs := [] } ],
    types := [ .iface ["M"] [] ] }

example : wf exInvoke = true ∧ hasWidening exInvoke = false ∧
    dispatchAt exInvoke (findReachable pinnedTables exInvoke false false) 0 1 1 = true ∧
    provOK exInvoke (findReachable pinnedTables exInvoke false false) [(0, 1, 1)] = true ∧
    provOK exInvoke (findReachable pinnedTables exInvoke false false) [(0, 1, 2)] = false ∧
    asSet 3 (findReachable pinnedTables exInvoke false false) = [0, 1] := by decide

/-! ### axiom audit -/
#print axioms ptr_reach_subset
#print axioms ptr_reach_subset_named
#print axioms ptr_reach_subset_findReachable
#print axioms ptr_reach_subset_current
#print axioms ptr_reach_widening_witness
#print axioms wrapper_clause_unsound

end Argot.Reach
