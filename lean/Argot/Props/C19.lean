/-
C19 — May-panic analysis reports every goroutine entry without a recovering defer.

Property theorems only (model: Argot/Model/MayPanic.lean, regenerated tables: Argot/Gen/MayPanic.lean
interpreted by Argot/Model/MayPanicGen.lean, specification: Argot/Spec/MayPanic.lean, lemmas:
Argot/Proofs/MayPanic.lean).

Quantifiers: every program `P` (any number of functions, go / defer / call sites of every form, any
call graph `callees`), every exclusion list, every `Tables` (= every variant of the three scans).

* `ReportComplete T` (Spec) is the property at full strength: EVERY launch form.
* `report_complete` proves it for tables that handle every launch form.  The code at the pinned commit does
  not (F9): `report_complete_partial` is what holds for it — per go statement, under the decidable
  hypothesis `handlesGo T form` — and `report_incomplete_of_unhandled` / `pinned_not_complete` are the
  negation witnesses (replayed on the real tool: corpus/findings/F09_maypanic_launch_forms).
* `gen_known`, `gen_covers_pinned`, `gen_allow_pinned` are the obligations over the regenerated table.
-/
import Argot.Proofs.MayPanic
import Argot.Model.MayPanicGen

namespace Argot.MayPanic

/-- **Partial (what holds for the current code).**  A function launched by a go statement whose form the
analysis handles, outside the exclusions, without a defer that may enter a function calling `recover`,
is in the findings together with that creation site. -/
theorem report_complete_partial (T : Tables) (excl : List String) (P : Prog) (hw : wf P = true)
    (f pos : Nat) (fm : CallForm) (hl : LaunchedAt P f pos fm) (hh : handlesGo T fm = true)
    (he : excludedFn T excl P f = false) (hr : defersRecoverSpec P f = false) :
    Reported T excl P f pos := by
  obtain ⟨h, hh', s, hs, hf, rfl, rfl⟩ := hl
  have hsw := wf_go hw hh' hs
  have hlt : f < P.length := siteWf_lt hsw hf
  refine reported_iff.2 ⟨hlt, mem_goPairs.2 ⟨h, hh', s, hs, callees_sub_launchTargets hsw hh hf, rfl⟩, he, ?_⟩
  cases hd : doesDeferRecover T P f with
  | false => rfl
  | true => rw [doesDeferRecover_sound hw hlt hd] at hr; exact Bool.noConfusion hr

/-- **Full strength**, for an analysis that handles every launch form. -/
theorem report_complete (T : Tables) (hT : T.Complete) : ReportComplete T := by
  intro excl P hw f pos fm hl he hr
  refine report_complete_partial T excl P hw f pos fm hl ?_ he hr
  obtain ⟨h1, h2, h3, h4⟩ := hT
  cases fm <;> simp [handlesGo, h1, h2, h3, h4]

/-- the witness program: function 0 contains `go <fm>` that may enter function 1, which has no defer -/
def witnessProg (fm : CallForm) : Prog :=
  [ { pkg := none, file := "", defers := [], calls := [],
      gos := [{ pos := 7, form := fm, target := none, builtin := "", callees := [1] }] },
    { pkg := none, file := "", gos := [], defers := [], calls := [] } ]

/-- **Negation witness (general).**  An analysis that ignores invoke-mode (or function-value) go
statements misses the goroutine of `witnessProg`. -/
theorem report_incomplete_of_unhandled (T : Tables) (fm : CallForm) (hfm : fm = .invoke ∨ fm = .value)
    (hu : handlesGo T fm = false) : ¬ ReportComplete T := by
  intro hc
  have hwf : wf (witnessProg fm) = true := by rcases hfm with rfl | rfl <;> decide
  have hl : LaunchedAt (witnessProg fm) 1 7 fm :=
    ⟨_, List.mem_cons_self, _, List.mem_cons_self, by simp, rfl, rfl⟩
  have hrep := hc [] (witnessProg fm) hwf 1 7 fm hl (by simp [excludedFn, fnAt, witnessProg])
    (by simp [defersRecoverSpec, fnAt, witnessProg])
  have hp := (reported_iff.1 hrep).2.1
  obtain ⟨h, hh, s, hs, hf, -⟩ := mem_goPairs.1 hp
  rcases hfm with rfl | rfl <;>
    simp [witnessProg] at hh <;> rcases hh with rfl | rfl <;> simp at hs <;> subst hs <;>
    simp [launchTargets, handlesGo] at hf hu <;> simp [hu] at hf

/-- **Negation witness (the pinned commit).** -/
theorem pinned_not_complete (allow : List String) : ¬ ReportComplete (pinnedTables allow) :=
  report_incomplete_of_unhandled _ .invoke (Or.inl rfl) rfl

/-- the concrete miss, computed: nothing is reported for the invoke-mode witness … -/
example : report (pinnedTables []) [] (witnessProg .invoke) = [] := by decide
/-- … although the property demands (function 1, position 7). -/
example : missing (pinnedTables []) [] (witnessProg .invoke) = [(1, 7, .invoke)] := by decide
example : missing (pinnedTables []) [] (witnessProg .value) = [(1, 7, .value)] := by decide

/-- **Consequence for runs** (under the semantic assumption packaged in `GoroutineCrash`): the entry
function of a crashing goroutine is reported with its creation site, if its launch form is handled. -/
theorem crash_entry_reported (T : Tables) (excl : List String) (P : Prog) (hw : wf P = true)
    (c : GoroutineCrash P) (hh : handlesGo T c.form = true)
    (he : excludedFn T excl P c.entry = false) (hr : defersRecoverSpec P c.entry = false) :
    Reported T excl P c.entry c.pos :=
  report_complete_partial T excl P hw c.entry c.pos c.form c.launched hh he hr

/-- the oracle's `missing` list is exactly the set of failures of the full-strength statement on `P`:
empty `missing` ⇒ the property holds on this program (criterion evaluated on every dumped program). -/
theorem missing_nil_complete (T : Tables) (excl : List String) (P : Prog) (hw : wf P = true)
    (hm : missing T excl P = []) (f pos : Nat) (fm : CallForm) (hl : LaunchedAt P f pos fm)
    (he : excludedFn T excl P f = false) (hr : defersRecoverSpec P f = false) :
    Reported T excl P f pos := by
  obtain ⟨h, hh', s, hs, hf, rfl, rfl⟩ := hl
  have hlt : f < P.length := siteWf_lt (wf_go hw hh' hs) hf
  have hn : (f, s.pos, s.form) ∈ needed T excl P := by
    simp only [needed, List.mem_flatMap, List.mem_map, List.mem_filter]
    exact ⟨h, hh', s, hs, f, ⟨hf, by simp [hlt, he, hr]⟩, rfl⟩
  have : ¬ (!reportedPair T excl P f s.pos) = true := by
    intro hnot
    have : (f, s.pos, s.form) ∈ missing T excl P := by
      simp only [missing, List.mem_filter]; exact ⟨hn, hnot⟩
    rw [hm] at this; simp at this
  simp only [Bool.not_eq_true', Bool.not_eq_false, reportedPair, Bool.and_eq_true,
    List.contains_iff_mem] at this
  have hrep := this.1
  simp only [isReported, Bool.and_eq_true, Bool.not_eq_true'] at hrep
  exact reported_iff.2 ⟨hlt, mem_creators.1 this.2, hrep.1.2, hrep.2⟩

/-! ### obligations over the regenerated table (T4) -/

/-- every guard path of the current source is one the model interprets (else the model does not
describe the code and nothing above may be claimed for it) -/
theorem gen_known : genKnown = true := by decide +kernel

/-- everything handled at the pinned commit is still handled -/
theorem gen_covers_pinned :
    (pinnedTables []).coversGo genTables = true ∧ genTables.deferFn = true ∧ genTables.deferClosure = true ∧
    genTables.recoverBuiltin = true := by decide +kernel

/-- the allow-list is the pinned one (the built-in exclusion is part of the anchored mechanism) -/
theorem gen_allow_pinned : genTables.allow =
    ["archive", "bufio", "builtin", "bytes", "cmd", "compress", "container", "context", "crypto", "database",
     "debug", "encoding", "errors", "expvar", "flag", "fmt", "go", "golang.org/x", "hash", "html", "image",
     "index", "internal", "io", "log", "math", "mime", "net", "os", "path", "plugin", "reflect", "regexp",
     "runtime", "sort", "strconv", "strings", "sync", "syscall", "text", "time", "unicode", "unsafe"] := by
  decide +kernel

/-- what is proved for the code as it is now: completeness for the forms its table handles -/
theorem report_complete_current (excl : List String) (P : Prog) (hw : wf P = true)
    (f pos : Nat) (fm : CallForm) (hl : LaunchedAt P f pos fm) (hfm : fm = .fn ∨ fm = .closure ∨ fm = .builtin)
    (he : excludedFn genTables excl P f = false) (hr : defersRecoverSpec P f = false) :
    Reported genTables excl P f pos := by
  refine report_complete_partial genTables excl P hw f pos fm hl ?_ he hr
  have hc := gen_covers_pinned.1
  simp only [Tables.coversGo, pinnedTables, Bool.and_eq_true, Bool.or_eq_true, Bool.not_eq_true'] at hc
  rcases hfm with rfl | rfl | rfl
  · simpa [handlesGo] using hc.1.1.1
  · simpa [handlesGo] using hc.1.1.2
  · rfl

/-! ### non-vacuity: a program with a static, a closure, a recovering and an excluded launch -/

/-- 0: host (go 1, go closure 2, go 3, go 4); 1: plain; 2: closure that defers 5 (calls recover);
3: defers a closure 6 that does NOT call recover; 4: in an excluded file; 5: calls recover; 6: no recover -/
def exProg : Prog :=
  [ { pkg := some "m", file := "/p/main.go", defers := [], calls := [],
      gos := [ ⟨10, .fn, some 1, "", [1]⟩, ⟨11, .closure, some 2, "", [2]⟩, ⟨12, .fn, some 3, "", [3]⟩,
               ⟨13, .fn, some 4, "", [4]⟩ ] },
    { pkg := some "m", file := "/p/main.go", gos := [], defers := [], calls := [] },
    { pkg := some "m", file := "/p/main.go", gos := [], defers := [⟨0, .fn, some 5, "", [5]⟩], calls := [] },
    { pkg := some "m", file := "/p/main.go", gos := [], defers := [⟨0, .closure, some 6, "", [6]⟩], calls := [] },
    { pkg := some "m/x", file := "/p/x/x.go", gos := [], defers := [], calls := [] },
    { pkg := some "m", file := "/p/main.go", gos := [], defers := [], calls := [⟨0, .builtin, none, "recover", []⟩] },
    { pkg := some "m", file := "/p/main.go", gos := [], defers := [], calls := [⟨0, .builtin, none, "print", []⟩] } ]

example : wf exProg = true := by decide
example : report (pinnedTables []) [] exProg = [(1, [10]), (3, [12]), (4, [13])] := by decide
example : missing (pinnedTables []) [] exProg = [] := by decide
example : report (pinnedTables []) ["/p/x"] exProg = [(1, [10]), (3, [12])] := by decide +kernel

/-! ### axiom audit (compared with the allowed set by `check`) -/
#print axioms report_complete
#print axioms report_complete_partial
#print axioms report_incomplete_of_unhandled
#print axioms pinned_not_complete
#print axioms crash_entry_reported
#print axioms missing_nil_complete
#print axioms gen_known
#print axioms gen_covers_pinned
#print axioms gen_allow_pinned
#print axioms report_complete_current

end Argot.MayPanic
