/-
C20 — The analyzer's own parallelism is race-free and order-preserving.

Property theorems only. Model: Argot/Model/MapPar.lean (LTS of `funcutil.MapParallel` exactly as
coded), Argot/Model/ReportWriter.lean (BuildGraph's `report-summaries` writer goroutine and the
fork/join of `NewAnalyzerState`'s step group). Helper lemmas: Argot/Proofs/MapPar.lean.

Quantifiers: every element type `α β`, every `f`, every input list `a` (any length), every
`numRoutines : Int` (≤ 0 included), every schedule = every state reachable in the LTS.

What the model cannot exhibit (stated, not hidden): memory-level data races on `AnalyzerState`
(maps, logger, the flow graph) are a property of the Go memory model; that part of the property
is searched with `-race` builds by the driver, not proved (level: partial for shared state).
-/
import Argot.Proofs.MapPar
import Argot.Proofs.ReportWriter
import Argot.Gen.T9GoStmts

namespace Argot.MapPar

variable {α β : Type} {f : α → β} {a : List α} {n : Int} {σ : State β}

/-- **Multiset invariant**: in every reachable state the indices handed out by the producer
(`0 … prodIdx-1`) are, each exactly once, in flight in a worker or collected; every value carried
with index `i` is `f a[i]`. -/
theorem multiset_invariant (h : Reachable f a n σ) :
    (inflight σ.ws ++ σ.xs.map Prod.fst).Perm (List.range (prodIdx a σ.prod)) ∧
    prodIdx a σ.prod ≤ a.length ∧
    (∀ i y, W.hold i y ∈ σ.ws → (a.map f)[i]? = some y) ∧
    (∀ p ∈ σ.xs, (a.map f)[p.1]? = some p.2) :=
  let I := inv_reachable h
  ⟨I.perm, I.pidx, I.vals_ws, I.vals_xs⟩

/-- no schedule crashes (send on closed channel, negative WaitGroup counter, double close,
index out of range in the placement loop) -/
theorem no_crash (h : Reachable f a n σ) : σ.err = false := (inv_reachable h).noerr

/-- **No deadlock**: every reachable state in which `MapParallel` has not returned has an enabled transition. -/
theorem no_deadlock (h : Reachable f a n σ) (hnt : σ.main ≠ .ret) : ∃ σ', Step f a n σ σ' := by
  have I := inv_reachable h
  have he := I.noerr
  have ph := I.phase
  cases hm : σ.main with
  | start => exact ⟨_, .spawnProd, by simp [step, he, hm]; rfl⟩
  | addWg => exact ⟨_, .wgAdd, by simp [step, he, hm]; rfl⟩
  | spawnW =>
    simp only [Phase, hm] at ph
    by_cases hl : σ.ws.length < effWorkers n
    · exact ⟨_, .spawnWorker, by simp [step, he, hm, hl]; rfl⟩
    · exact ⟨_, .spawnCloser, by simp [step, he, hm, hl, ph.2.1]; rfl⟩
  | ret => exact absurd hm hnt
  | place todo =>
    cases todo with
    | nil => exact ⟨_, .return, by simp [step, he, hm]; rfl⟩
    | cons p rest =>
      obtain ⟨i, y⟩ := p
      by_cases hi : i < σ.res.length
      · exact ⟨_, .placeOne, by simp [step, he, hm, hi]; rfl⟩
      · exact ⟨_, .placeOne, by simp [step, he, hm, hi]; rfl⟩
  | collect =>
    simp only [Phase, hm] at ph
    obtain ⟨hpu, hcu, hlen, hwg⟩ := ph
    by_cases ho : σ.outClosed = true
    · exact ⟨_, .collectEnd, by simp [step, he, hm, ho]; rfl⟩
    by_cases h1 : ∃ i y, W.hold i y ∈ σ.ws
    · obtain ⟨i, y, hmem⟩ := h1
      obtain ⟨w, hw⟩ := mem_getElem? hmem
      exact ⟨_, .recvOut w, by simp [step, he, hm, hw, ho]; rfl⟩
    by_cases h2 : ∃ i, W.busy i ∈ σ.ws
    · obtain ⟨i, hmem⟩ := h2
      obtain ⟨w, hw⟩ := mem_getElem? hmem
      have hi : i < a.length := by
        have : i ∈ inflight σ.ws ++ σ.xs.map Prod.fst :=
          List.mem_append_left _ (List.mem_filterMap.2 ⟨_, hmem, rfl⟩)
        have := (I.perm.mem_iff).1 this
        have hp := I.pidx
        simp at this; omega
      exact ⟨_, .compute w, by simp [step, he, hw, List.getElem?_eq_getElem hi]; rfl⟩
    by_cases h3 : W.idle ∈ σ.ws
    · obtain ⟨w, hw⟩ := mem_getElem? h3
      cases hp : σ.prod with
      | unspawned => exact absurd hp hpu
      | loop i =>
        have hic : σ.inClosed = false := by
          cases hic : σ.inClosed with
          | false => rfl
          | true => have := I.in_iff.1 hic; simp [hp] at this
        by_cases hi : i < a.length
        · exact ⟨_, .send w, by simp [step, he, hp, hw, hi, hic]; rfl⟩
        · exact ⟨_, .closeIn, by simp [step, he, hp, hi, hic]; rfl⟩
      | done =>
        have hic := I.in_iff.2 hp
        by_cases h0 : σ.wg = 0
        · exact ⟨_, .workerExit w, by simp [step, he, hw, hic, h0]; rfl⟩
        · exact ⟨_, .workerExit w, by simp [step, he, hw, hic, h0]; rfl⟩
    · have hall : ∀ w ∈ σ.ws, w = .done := by
        intro w hw
        cases w with
        | idle => exact absurd hw h3
        | busy i => exact absurd ⟨i, hw⟩ h2
        | hold i y => exact absurd ⟨i, y, hw⟩ h1
        | done => rfl
      have h0 : σ.wg = 0 := by rw [hwg]; exact live_zero.2 hall
      cases hc : σ.closer with
      | unspawned => exact absurd hc hcu
      | waiting => exact ⟨_, .closerPass, by simp [step, he, hc, h0]; rfl⟩
      | closing => exact ⟨_, .closeOut, by simp [step, he, hc, ho]; rfl⟩
      | done => exact absurd (I.out_iff.2 hc) ho

/-- **All runs terminate**: every transition strictly decreases `measure` (a natural number) … -/
theorem all_runs_terminate {σ σ' : State β} (h : Step f a n σ σ') : measure a n σ' < measure a n σ := by
  obtain ⟨l, hl⟩ := h; exact measure_step hl

/-- … hence there is no infinite schedule, from any state … -/
theorem no_infinite_run (run : Nat → State β) (h : ∀ k, Step f a n (run k) (run (k + 1))) : False := by
  have key : ∀ k, measure a n (run k) + k ≤ measure a n (run 0) := by
    intro k
    induction k with
    | zero => simp
    | succ k ih => have := all_runs_terminate (h k); omega
  have := key (measure a n (run 0) + 1)
  omega

/-- … and a run from the initial state has at most `8 + 3·workers + 8·len` transitions. -/
theorem run_length_bound (run : Nat → State β) (k : Nat) (h0 : run 0 = init)
    (h : ∀ j, j < k → Step f a n (run j) (run (j + 1))) : k ≤ 10 + 2 * effWorkers n + 8 * a.length + 1 := by
  have key : ∀ j, j ≤ k → measure a n (run j) + j ≤ measure a n (run 0) := by
    intro j
    induction j with
    | zero => simp
    | succ j ih => intro hj; have := all_runs_terminate (h j (by omega)); have := ih (by omega); omega
  have := key k (Nat.le_refl k)
  rw [h0] at this
  simp [measure, init, wsWeight] at this
  omega

/-- **Result**: in every terminal state of every schedule the returned slice is `a.map f`, in
input order, with no slot left at its zero value. -/
theorem result_eq_map (h : Reachable f a n σ) (ht : Terminal σ) : σ.result = (a.map f).map some := by
  have I := inv_reachable h
  have ph := I.phase
  simp only [Phase, ht.1] at ph
  obtain ⟨ho, _, _, hres, hcov⟩ := ph
  obtain ⟨_, _, _, _, hperm⟩ := I.closed_facts ho
  apply List.ext_getElem?
  intro i
  simp only [State.result]
  by_cases hi : i < a.length
  · have : i ∈ σ.xs.map Prod.fst := (hperm.mem_iff).2 (by simpa using hi)
    obtain ⟨p, hp, rfl⟩ := List.mem_map.1 this
    rw [hcov p hp]
    have := I.vals_xs p hp
    simp only [List.getElem?_map] at this ⊢
    rw [this]; rfl
  · rw [List.getElem?_eq_none (by omega), List.getElem?_eq_none (by simp; omega)]

/-- **No leak**: when `MapParallel` returns, the producer, every one of the `numRoutines` workers and
the closer have returned and both channels are closed. -/
theorem no_leak (h : Reachable f a n σ) (ht : Terminal σ) :
    σ.prod = .done ∧ σ.ws.length = effWorkers n ∧ (∀ w ∈ σ.ws, w = .done) ∧ σ.closer = .done ∧
    σ.inClosed = true ∧ σ.outClosed = true ∧ σ.wg = 0 := by
  have I := inv_reachable h
  have ph := I.phase
  simp only [Phase, ht.1] at ph
  obtain ⟨ho, _, _, _, _⟩ := ph
  obtain ⟨hall, hlen, hpd, hic, _⟩ := I.closed_facts ho
  exact ⟨hpd, hlen, hall, I.out_iff.1 ho, hic, ho, I.closer_wg (Or.inr (I.out_iff.1 ho))⟩

/-- reachability from a given state -/
inductive ReachFrom (f : α → β) (a : List α) (n : Int) (σ : State β) : State β → Prop where
  | refl : ReachFrom f a n σ σ
  | step {τ τ'} : ReachFrom f a n σ τ → Step f a n τ τ' → ReachFrom f a n σ τ'

theorem ReachFrom.reachable {τ : State β} (h : Reachable f a n σ) (r : ReachFrom f a n σ τ) : Reachable f a n τ := by
  induction r with
  | refl => exact h
  | step _ hs ih => exact .step ih hs

/-- non-vacuity of `Terminal`: from every reachable state every maximal schedule ends in a terminal
state (with the right result, by `result_eq_map`). -/
theorem eventually_returns (h : Reachable f a n σ) : ∃ τ, ReachFrom f a n σ τ ∧ Terminal τ := by
  generalize hk : measure a n σ = k
  induction k using Nat.strongRecOn generalizing σ with
  | _ k ih =>
    by_cases hr : σ.main = .ret
    · exact ⟨σ, .refl, hr, no_crash h⟩
    · obtain ⟨σ', hs⟩ := no_deadlock h hr
      have hlt := all_runs_terminate hs
      obtain ⟨τ, hτ, ht⟩ := ih (measure a n σ') (by omega) (.step h hs) rfl
      refine ⟨τ, ?_, ht⟩
      clear ht ih hlt
      induction hτ with
      | refl => exact .step .refl hs
      | step _ hs' ih' => exact .step ih' hs'

/-! ### non-vacuity on a closed instance: 3 elements, 2 workers, one concrete out-of-order schedule -/

/-- element 1 is delivered before element 0; the result is still in input order -/
example : ((runLabels (fun x : Nat => x * 10) [1, 2, 3] 2
      [.spawnProd, .wgAdd, .spawnWorker, .spawnWorker, .spawnCloser, .send 0, .send 1, .compute 1, .recvOut 1,
       .send 1, .compute 0, .compute 1, .recvOut 1, .recvOut 0, .closeIn, .workerExit 0, .workerExit 1,
       .closerPass, .closeOut, .collectEnd, .placeOne, .placeOne, .placeOne, .return] init).toOption.map
      fun σ => (σ.xs, σ.result, decide (σ.main = Main.ret))) =
    some ([(1, 20), (2, 30), (0, 10)], [some 10, some 20, some 30], true) := by
  decide

#print axioms multiset_invariant
#print axioms no_crash
#print axioms no_deadlock
#print axioms all_runs_terminate
#print axioms no_infinite_run
#print axioms run_length_bound
#print axioms result_eq_map
#print axioms no_leak
#print axioms eventually_returns

end Argot.MapPar


/-! ## The report-summaries writer goroutine of `BuildGraph` (F6) -/

namespace Argot.ReportWriter

/-- **If the writer is joined** (anywhere before `BuildGraph` returns), then under every schedule,
when `BuildGraph` returns the file contains every summary present at spawn time, in iteration
order, no write was attempted on the closed file, and the writer goroutine has returned. -/
theorem report_complete_if_joined (jn : Join) (S : List Nat) (k : Nat) (σ : St) (hj : jn ≠ .none)
    (h : Reachable jn S k σ) (hr : σ.main = .ret) : σ.written = S ∧ σ.lost = [] ∧ σ.writer = .done := by
  have I := inv_reachable h
  have hw := I.joined hj (Or.inr hr)
  have hl := I.joined_lost hj
  have hp := I.prog
  rw [hw] at hp
  exact ⟨hp hl, hl, hw⟩

/-- joined ⇒ at no moment of any schedule is a write attempted after `Close` -/
theorem no_write_after_close_if_joined (jn : Join) (S : List Nat) (k : Nat) (σ : St) (hj : jn ≠ .none)
    (h : Reachable jn S k σ) : σ.lost = [] := (inv_reachable h).joined_lost hj

/-- joined **before STEP 3** ⇒ no map write of STEP 3 overlaps the writer's iteration over the map -/
theorem race_free_if_joined_before_link (S : List Nat) (k : Nat) (σ : St)
    (h : Reachable .beforeLink S k σ) : σ.race = false := ((inv_reachable h).early rfl).2

/-- The property's own wording for this goroutine: no unsynchronised overlap, and "report files are
complete when the analysis returns". -/
def ReportCompleteAndRaceFree (jn : Join) : Prop :=
  ∀ S k σ, Reachable jn S k σ → σ.race = false ∧ (σ.main = .ret → σ.written = S ∧ σ.lost = [])

/-- **negation witness, current code (no join)**: a 4-step schedule in which `BuildGraph` has returned,
the file is closed and empty, and the writer's write is lost. -/
theorem unjoined_incomplete : ∃ σ, Reachable .none [7] 0 σ ∧ σ.main = .ret ∧ σ.written = [] ∧ σ.lost = [7] :=
  ⟨_, runLabels_reachable (σ := init) [.spawn, .linkDone, .close, .write] .init rfl, by decide⟩

/-- **negation witness, current code**: 2 steps — STEP 3 inserts into `g.Summaries` while the writer iterates it -/
theorem unjoined_race : ∃ σ, Reachable .none [7] 1 σ ∧ σ.race = true :=
  ⟨_, runLabels_reachable (σ := init) [.spawn, .linkWrite] .init rfl, by decide⟩

/-- joining only at the end (after STEP 3) makes the file complete but leaves the overlap -/
theorem late_join_race : ∃ σ, Reachable .beforeReturn [7] 1 σ ∧ σ.race = true :=
  ⟨_, runLabels_reachable (σ := init) [.spawn, .linkWrite] .init rfl, by decide⟩

/-- the property holds for this goroutine **iff** it is joined before STEP 3 -/
theorem report_ok_iff_joined_early (jn : Join) : ReportCompleteAndRaceFree jn ↔ jn = .beforeLink := by
  constructor
  · intro h
    cases jn with
    | beforeLink => rfl
    | none =>
      obtain ⟨σ, hr, hrace⟩ := unjoined_race
      have := (h _ _ σ hr).1; rw [hrace] at this; cases this
    | beforeReturn =>
      obtain ⟨σ, hr, hrace⟩ := late_join_race
      have := (h _ _ σ hr).1; rw [hrace] at this; cases this
  · rintro rfl S k σ h
    refine ⟨race_free_if_joined_before_link S k σ h, fun hr => ?_⟩
    have := report_complete_if_joined .beforeLink S k σ (by simp) h hr
    exact ⟨this.1, this.2.1⟩

/-! ### tie T9: what the source says today (regenerated on every run) -/

/-- where `BuildGraph` joins its goroutine in the current source; no goroutine at all = synchronous = joined early -/
def currentJoin : Join :=
  match Argot.Gen.T9.buildGraphGo with
  | [] => .beforeLink
  | g :: _ => Join.ofCode g.join

/-- the shape the two models assume, re-checked against the regenerated table: the translator parsed
everything; `BuildGraph` starts at most one goroutine and it is the one writing `summariesFile`, closed
by a `defer`; every goroutine of `NewAnalyzerState` follows Add / deferred Done / Wait; `MapParallel`
makes two unbuffered channels `in`, `out`, starts three kinds of goroutine, clamps `numRoutines ≤ 0`
to 1, and closes `out` right after `wg.Wait()`. -/
theorem t9_shape :
    Argot.Gen.T9.unparsed = false ∧
    Argot.Gen.T9.buildGraphGo.length ≤ 1 ∧ Argot.Gen.T9.buildGraphGo.all (·.usesFile) = true ∧
    (Argot.Gen.T9.buildGraphGo ≠ [] → Argot.Gen.T9.buildGraphDefersClose = true) ∧
    Argot.Gen.T9.newStateGo.all (fun g => g.wgProtocol && g.join == 1) = true ∧
    Argot.Gen.T9.mapParallelChans = [("in", false), ("out", false)] ∧
    Argot.Gen.T9.mapParallelGo.length = 3 ∧
    Argot.Gen.T9.mapParallelClampsWorkers = true ∧ Argot.Gen.T9.mapParallelClosesAfterWait = true := by
  decide

/-- the verdict for any source: the writer part of C20 holds iff the regenerated table says
"joined before STEP 3" -/
theorem current_code_verdict : ReportCompleteAndRaceFree currentJoin ↔ currentJoin = .beforeLink :=
  report_ok_iff_joined_early currentJoin

/-- **the current source joins the writer before STEP 3** (regenerated table, re-checked by the kernel
on every run; repaired by commit 76f6ba0 — on the pinned tree the join code was 0: finding F6, whose
model is `unjoined_incomplete` / `unjoined_race`, statements about the `.none` variant of the LTS) -/
theorem current_writer_joined : currentJoin = .beforeLink := by decide

/-- hence, for the current source, under every schedule: no overlap of STEP 3 with the writer's
iteration, and when `BuildGraph` returns the report file holds every summary present at spawn time,
nothing was written after `Close`, and the writer has returned. -/
theorem current_report_complete (S : List Nat) (k : Nat) (σ : St) (h : Reachable currentJoin S k σ) :
    σ.race = false ∧ (σ.main = .ret → σ.written = S ∧ σ.lost = [] ∧ σ.writer = .done) := by
  refine ⟨((report_ok_iff_joined_early currentJoin).2 current_writer_joined S k σ h).1, fun hr => ?_⟩
  exact report_complete_if_joined currentJoin S k σ (by rw [current_writer_joined]; simp) h hr

#print axioms report_complete_if_joined
#print axioms no_write_after_close_if_joined
#print axioms race_free_if_joined_before_link
#print axioms unjoined_incomplete
#print axioms unjoined_race
#print axioms late_join_race
#print axioms report_ok_iff_joined_early
#print axioms t9_shape
#print axioms current_code_verdict
#print axioms current_writer_joined
#print axioms current_report_complete

end Argot.ReportWriter

/-! ## The step group of `NewAnalyzerState` -/

namespace Argot.StepGroup

/-- under every schedule of `k` steps: no negative-counter crash, and when `wg.Wait()` has returned
all `k` step goroutines were started and have returned -/
theorem steps_joined (k : Nat) (σ : St) (h : Reachable k σ) :
    σ.err = false ∧ (σ.main = .after → σ.ts.length = k ∧ ∀ t ∈ σ.ts, t = .done) := by
  have I := inv_reachable h
  refine ⟨I.noerr, fun hm => ⟨I.forked (by simp [hm]), ?_⟩⟩
  have := I.after hm
  rw [I.wg] at this
  exact running_zero.1 this

#print axioms steps_joined

end Argot.StepGroup
