/-
C20 (memory-level part) — lock discipline of the state shared by the parallel summary workers.

Full statement of this part of the property: "no unsynchronised concurrent access to shared state".
What is PROVED here is the part of it that is carried by mutexes: for the structs that own a
`sync.Mutex`/`sync.RWMutex` (dataflow.GlobalNode.mutex guarding ReadLocations / WriteLocations / value,
dataflow.AnalyzerState.errorMutex guarding errors), every schedule of any number of workers executing
the tabulated access sites is free of write/any races on the guarded fields, provided the regenerated
table T13 satisfies the decidable discipline; and the current table does satisfy it.
What stays search-only (`-race` runs of the driver): shared state that is not guarded by any mutex
(the maps of AnalyzerState other than `errors`, the logger, the flow graph) — see props/C20.json.

Model: Argot/Model/LockDisc.lean. Table: harness/extract/t13_locks.go -> Argot/Gen/T13Locks.lean.
The discipline is evaluated on `concSites rows` = the rows whose function can run while another
goroutine of the analyzer runs (column `conc`, an over-approximated call-graph reachability from the
functions containing `go` / MapParallel); the other rows (today: `AnalyzerState.CopyTo`, the
inter-procedural visitors reading `Global.ReadLocations`) run in the sequential phases, which C20's
join theorems (`MapPar.no_leak`, `StepGroup.steps_joined`, `current_writer_joined`) separate from the
parallel ones.
-/
import Argot.Model.LockDisc
import Argot.Gen.T13Locks

namespace Argot.LockDisc

/-- **Writes are exclusive ⇒ race free.** If the table satisfies the discipline (every site of a
field that some site writes holds `Lock` when it writes and `Lock` or `RLock` when it reads, one mutex
per field), then in every reachable state — every schedule, any number of workers, any number of
struct instances — no write is concurrent with another access to the same field. -/
theorem writes_exclusive_race_free {tbl : List Site} (hd : disciplineOK tbl = true)
    {σ : State} (hr : Reachable tbl σ) : ¬ Race σ := by
  intro ⟨i, j, s, t, n, hij, hi, hj, hf, hw⟩
  have I := inv_reachable hr
  have hs : s ∈ tbl := I.mem i s n (Or.inr (Or.inl hi))
  have ht : t ∈ tbl := I.mem j t n (Or.inr (Or.inl hj))
  simp only [disciplineOK, List.all_eq_true, Bool.and_eq_true, Bool.or_eq_true, Bool.not_eq_true',
    bne_iff_ne, beq_iff_eq, ne_eq] at hd
  -- the common field is written by a site of the table
  have hwr : written tbl s.field = true := by
    simp only [written, List.any_eq_true, Bool.and_eq_true, beq_iff_eq]
    cases hw with
    | inl h => exact ⟨s, hs, rfl, h⟩
    | inr h => exact ⟨t, ht, hf.symm, h⟩
  have oks : siteOK s = true := by
    cases (hd s hs).1 with
    | inl h => rw [hwr] at h; cases h
    | inr h => exact h
  have okt : siteOK t = true := by
    cases (hd t ht).1 with
    | inl h => rw [← hf, hwr] at h; cases h
    | inr h => exact h
  have hmu : t.mu = s.mu := by
    cases (hd s hs).2 t ht with
    | inl h => exact absurd hf.symm h
    | inr h => exact h
  -- whoever writes holds the mutex exclusively; the other one then holds nothing: contradiction
  have key : ∀ (a b : Nat) (x y : Site), a ≠ b → σ a = .acc x n → σ b = .acc y n → x.mu = y.mu →
      x.acc = .write → siteOK x = true → siteOK y = true → False := by
    intro a b x y hab ha hb hm hxw okx oky
    have hx : x.held = .lock := by simpa [siteOK, hxw] using okx
    have h1 : holds (σ a) x.mu n = .lock := by rw [ha, holds_acc, hx]
    have h2 := I.excl a b x.mu n hab h1
    rw [hb, hm, holds_acc] at h2
    cases hya : y.acc <;> simp [siteOK, hya, h2] at oky
  cases hw with
  | inl h => exact key i j s t hij hi hj hmu.symm h oks okt
  | inr h => exact key j i t s (fun e => hij e.symm) hj hi hmu h okt oks

/-- the hypothesis in the form "every write holds Lock, every read holds Lock or RLock" -/
theorem race_free_of_all_sites_locked {tbl : List Site} (h1 : ∀ s ∈ tbl, siteOK s = true)
    (h2 : ∀ s ∈ tbl, ∀ t ∈ tbl, t.field = s.field → t.mu = s.mu) {σ : State} (hr : Reachable tbl σ) : ¬ Race σ := by
  apply writes_exclusive_race_free _ hr
  simp only [disciplineOK, List.all_eq_true, Bool.and_eq_true, Bool.or_eq_true, bne_iff_ne, beq_iff_eq, ne_eq]
  intro s hs
  refine ⟨Or.inr (h1 s hs), fun t ht => ?_⟩
  by_cases e : t.field = s.field
  · exact Or.inr (h2 s hs t ht e)
  · exact Or.inl e

/-- **The discipline is needed**: two sites on one field, one of them writing, that do not exclude
each other (neither holds `Lock` while the other holds anything) race under some schedule. -/
theorem race_of_not_exclusive {tbl : List Site} {s t : Site} (hs : s ∈ tbl) (ht : t ∈ tbl)
    (hf : s.field = t.field) (hw : s.acc = .write ∨ t.acc = .write)
    (c1 : s.held = .lock → t.held = .none) (c2 : t.held = .lock → s.held = .none) :
    ∃ σ, Reachable tbl σ ∧ Race σ := by
  let σ1 := upd init 0 (.held s 0)
  let σ2 := upd σ1 1 (.held t 0)
  let σ3 := upd σ2 0 (.acc s 0)
  let σ4 := upd σ3 1 (.acc t 0)
  have r1 : Reachable tbl σ1 := by
    refine .step .init (.acquire 0 s 0 rfl hs ?_)
    cases h : s.held <;> simp [canAcquire, init, holds]
  have r2 : Reachable tbl σ2 := by
    refine .step r1 (.acquire 1 t 0 (by simp [σ1, upd, init]) ht ?_)
    cases h : t.held with
    | none => simp [canAcquire]
    | rlock =>
      intro j hj
      by_cases j0 : j = 0
      · subst j0
        simp only [σ1, upd, if_true, holds]
        split
        · intro hl; have := c1 hl; rw [h] at this; cases this
        · simp
      · simp [σ1, upd, j0, init, holds]
    | lock =>
      intro j hj
      by_cases j0 : j = 0
      · subst j0
        simp only [σ1, upd, if_true, holds]
        split
        · exact c2 h
        · rfl
      · simp [σ1, upd, j0, init, holds]
  have r3 : Reachable tbl σ3 := .step r2 (.begin 0 s 0 (by simp [σ2, σ1, upd]))
  have r4 : Reachable tbl σ4 := .step r3 (.begin 1 t 0 (by simp [σ3, σ2, upd]))
  exact ⟨σ4, r4, 0, 1, s, t, 0, by decide, by simp [σ4, σ3, upd], by simp [σ4, upd], hf, hw⟩

/-- **Negation witness** (the mutation "addReadLoc takes RLock on a RWMutex"): a map write under
`RLock` races with another write under `RLock` — two workers in `addReadLoc` on the same global. -/
theorem rlock_write_races : ∃ σ, Reachable [⟨0, 0, .write, .rlock⟩] σ ∧ Race σ :=
  race_of_not_exclusive (s := ⟨0, 0, .write, .rlock⟩) (t := ⟨0, 0, .write, .rlock⟩)
    (by simp) (by simp) rfl (Or.inl rfl) (by simp) (by simp)

/-- the other mutation (lock dropped in one accessor): an unlocked write races with a locked one -/
theorem unlocked_write_races : ∃ σ, Reachable [⟨0, 0, .write, .lock⟩, ⟨0, 0, .write, .none⟩] σ ∧ Race σ :=
  race_of_not_exclusive (s := ⟨0, 0, .write, .none⟩) (t := ⟨0, 0, .write, .lock⟩)
    (by simp) (by simp) rfl (Or.inl rfl) (by simp) (by simp)

/-- both witnesses are rejected by the decidable discipline -/
theorem witnesses_rejected :
    disciplineOK [⟨0, 0, .write, .rlock⟩] = false ∧
    disciplineOK [⟨0, 0, .write, .lock⟩, ⟨0, 0, .write, .none⟩] = false := by decide

/-! ## The current code (regenerated table T13) -/

/-- **Obligation over the regenerated table**: the translator classified every site, and the sites
that can run concurrently satisfy the discipline. -/
theorem current_lock_discipline :
    disciplineOK (concSites Argot.Gen.T13.rows) = true ∧ Argot.Gen.T13.unparsed = false := by decide

/-- the table is not vacuous: it contains concurrent writes under `Lock` on two different mutexes'
fields (GlobalNode's location maps, AnalyzerState.errors) -/
theorem current_table_nonvacuous :
    2 ≤ ((concSites Argot.Gen.T13.rows).filter (fun s => s.acc == .write && s.held == .lock)).length := by decide

/-- for the current code: under every schedule of any number of workers executing the concurrent
access sites of the mutex-guarded structs, no write to a guarded field is concurrent with another
access to it -/
theorem current_guarded_state_race_free {σ : State} (hr : Reachable (concSites Argot.Gen.T13.rows) σ) : ¬ Race σ :=
  writes_exclusive_race_free current_lock_discipline.1 hr

/-- non-vacuity of the LTS: a state with two concurrent readers under `RLock` is reachable and is not a race -/
example : ∃ σ, Reachable [⟨0, 0, .read, .rlock⟩] σ ∧ σ 0 = .acc ⟨0, 0, .read, .rlock⟩ 0 ∧ σ 1 = .acc ⟨0, 0, .read, .rlock⟩ 0 ∧ ¬ Race σ := by
  let s : Site := ⟨0, 0, .read, .rlock⟩
  let σ1 := upd init 0 (.held s 0)
  let σ2 := upd σ1 1 (.held s 0)
  let σ3 := upd σ2 0 (.acc s 0)
  let σ4 := upd σ3 1 (.acc s 0)
  have r1 : Reachable [s] σ1 := .step .init (.acquire 0 s 0 rfl (by simp) (by simp [s, canAcquire, init, holds]))
  have r2 : Reachable [s] σ2 := by
    refine .step r1 (.acquire 1 s 0 (by simp [σ1, upd, init]) (by simp) ?_)
    intro j _
    by_cases j0 : j = 0
    · subst j0; simp [σ1, upd, holds, s]
    · simp [σ1, upd, j0, init, holds]
  have r3 : Reachable [s] σ3 := .step r2 (.begin 0 s 0 (by simp [σ2, σ1, upd]))
  have r4 : Reachable [s] σ4 := .step r3 (.begin 1 s 0 (by simp [σ3, σ2, upd]))
  exact ⟨σ4, r4, by simp [σ4, σ3, upd, s], by simp [σ4, upd, s], writes_exclusive_race_free (by decide) r4⟩

#print axioms writes_exclusive_race_free
#print axioms race_of_not_exclusive
#print axioms rlock_write_races
#print axioms current_lock_discipline

end Argot.LockDisc
