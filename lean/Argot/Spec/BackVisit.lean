/-
Specification side of C03: what a "connected sequence of dataflow steps" is on a linked summary
graph (`Linked`), what a well-formed trace is (`TraceWF`), and the guaranteed-predecessor relation
whose closure the traversal must cover (`gsucc`, `GReach`).

`Linked G cur next` does not mention the traversal: it only says that `next` is one backward
dataflow step away from `cur` in the graph — an in-edge, or one of the inter-procedural links
(parameter → argument at a call site of the function, argument → parameter of the callee,
bound argument → out-edge, call → return of the callee, global read → write, bound variable →
free variable of the closure, free variable → bound variable of a closure *of that function*,
closure → bound variable).
-/
import Argot.Model.BackVisit

namespace Argot.BackVisit

/-- `c` is a MakeClosure node creating a closure of the function with summary `g`. -/
def ClosureOf (G : LGraph) (c g : Nat) : Prop :=
  c ∈ (G.ginfo g).refClosures ∨ (G.node c).closGraph = some g

inductive Linked (G : LGraph) : Nat → Nat → Prop
  | inEdge {cur next : Nat} {i : Int} : (next, i) ∈ (G.node cur).ins → Linked G cur next
  | paramToArg {cur cs next : Nat} : G.kind cur = .param →
      cs ∈ (G.ginfo (G.graphOf cur)).callsites →
      (G.node cs).args[(G.node cur).index]? = some next → Linked G cur next
  | argToParam {cur next : Nat} : G.kind cur = .arg →
      (G.node (G.node cur).parent).calleeParam[(G.node cur).index]? = some (some next) → Linked G cur next
  | argOut {cur next : Nat} {i : Int} : G.kind cur = .arg → (G.node cur).bound = true →
      (next, i) ∈ (G.node cur).outs → Linked G cur next
  | callToRet {cur next : Nat} : G.kind cur = .call → next ∈ (G.node cur).rets → Linked G cur next
  | readToWrite {cur next : Nat} : G.kind cur = .gread → next ∈ (G.node cur).writes → Linked G cur next
  | bvToFv {cur next : Nat} : G.kind cur = .boundVar →
      (G.node (G.node cur).parent).closFvs[(G.node cur).index]? = some (some next) → Linked G cur next
  | fvToBv {cur c next : Nat} : G.kind cur = .freeVar → ClosureOf G c (G.graphOf cur) →
      (G.node c).bvs[(G.node cur).index]? = some next → Linked G cur next
  | closureToBv {cur next : Nat} : G.kind cur = .closure → next ∈ (G.node cur).bvs → Linked G cur next

/-- `Linked` plus the jump the current code can make: from a free variable to the bound variable
(same position) of *whatever* closure is on top of the closure trace. -/
inductive LinkedW (G : LGraph) : Nat → Nat → Prop
  | link {cur next : Nat} : Linked G cur next → LinkedW G cur next
  | ctxJump {cur c next : Nat} : G.kind cur = .freeVar →
      (G.node c).bvs[(G.node cur).index]? = some next → LinkedW G cur next

/-- consecutive elements `a, b` of a trace (origin first) satisfy `R b a`: `a` was reached from `b`. -/
def ChainL (R : Nat → Nat → Prop) : List Nat → Prop
  | [] => True
  | [_] => True
  | a :: b :: rest => R b a ∧ ChainL R (b :: rest)

/-- "ends at the backtrace-point argument and is a connected sequence of dataflow steps" -/
structure TraceWF (R : Nat → Nat → Prop) (entry : Nat) (t : List Nat) : Prop where
  last : t.getLast? = some entry
  chain : ChainL R t

/-- The property's last sentence, at full strength, for one visit. -/
def TracesWellformed (G : LGraph) (cfg : Cfg) : Prop :=
  ∀ (ρ : VNode → List Cand → List Cand), (∀ v l c, c ∈ ρ v l → c ∈ l) →
  ∀ (fuel entry : Nat) (pei0 : List (Nat × Int)),
  ∀ t ∈ (run G cfg ρ fuel entry pei0).traces, TraceWF (Linked G) entry t

/-! ### completeness -/

/-- `Linked`, with the call → return step restricted to tuple components that are used: some edge
leaving the call (`Out()` keeps every EdgeInfo) carries the return value's index. -/
def LinkedO (G : LGraph) (cur next : Nat) : Prop :=
  Linked G cur next ∧
  (G.kind cur = .call → next ∈ (G.node cur).rets →
    (∃ i, (next, i) ∈ (G.node cur).ins) ∨ ∃ a, (a, ((G.node next).index : Int)) ∈ (G.node cur).outs)

/-- The property's first sentence at full strength, on the graph level: whatever the map iteration
order, every node on every index-respecting backward dataflow chain from the entry argument occurs in
some reported trace. -/
def BackCompleteFull (G : LGraph) (cfg : Cfg) : Prop :=
  ∀ (ρ : VNode → List Cand → List Cand), (∀ v l c, c ∈ ρ v l ↔ c ∈ l) →
  ∀ (fuel entry : Nat), (run G cfg ρ fuel entry).finished = true →
  ∀ t, TraceWF (LinkedO G) entry t → ∀ n ∈ t, ∃ t' ∈ (run G cfg ρ fuel entry).traces, n ∈ t'

/-- keys reachable from the entry through guaranteed successors only -/
inductive GReach (G : LGraph) (cfg : Cfg) (entry : Nat) : Key → Prop
  | root {k : Key} : k ∈ rsucc G cfg entry → GReach G cfg entry k
  | step {k k' : Key} : GReach G cfg entry k → k' ∈ gsucc G cfg k → GReach G cfg entry k'

/-- every call to a backtrace point is an analysis entry -/
def EntriesComplete (G : LGraph) : Prop := ∀ a ∈ pointArgs G, a ∈ entryArgs G

end Argot.BackVisit
