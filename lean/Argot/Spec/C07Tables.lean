/-
Hand-written expectations for the regenerated tables of C07 (committed; the tables themselves are
regenerated from /repo on every run into Argot/Gen and never committed).

T1  instruction dispatch (`lang.InstrSwitch`)      — `genericOnlyKinds`
T8  `panic(` call sites                            — `classified`
T12 trace expressions of the visitors              — `traceExprs`
-/
namespace Argot.C07.Spec

/-- SSA instruction kinds that x/tools emits only inside the bodies of *generic* (uninstantiated)
functions: `MultiConvert` is created by `emitConv` only when the source or destination type is a type
parameter whose type set has several underlying types (go/ssa/emit.go).  Every analysis entry point
loads programs with `ssa.InstantiateGenerics`, every function reachable from `main`/`init` in the call
graph is then a ground instance, and `InstrSwitch` is applied to reachable functions only.  The driver
re-validates this on every run: no instruction of these kinds occurs in a function for which a summary
is built (programs with union-constrained conversions are part of the sweep). -/
def genericOnlyKinds : List String := ["MultiConvert"]

inductive PanicClass where
  /-- guarded by an invariant of data the tool built itself in an earlier pass, or by an x/tools SSA invariant -/
  | inv
  /-- misuse of an exported Go API by a client other than the tool's own entry points -/
  | api
  /-- error of an in-memory writer that cannot fail (`strings.Builder`) -/
  | io
  /-- reached by the driver on a well-typed program at the pinned commit: a finding (see known_findings.json) -/
  | reached
  deriving DecidableEq, Repr

structure Site where
  file : String
  fn   : String
  msg  : String
  cls  : PanicClass
  deriving DecidableEq, Repr

def Site.key (s : Site) : String × String × String := (s.file, s.fn, s.msg)

/-- every `panic(` call site of analysis/** and internal/{funcutil,graphutil,analysisutil}, classified by hand. -/
def classified : List Site := [
  ⟨"analysis/backtrace/backtrace.go", "(*Visitor).Visit", "fmt:invalid trace: %v", .inv⟩,
  ⟨"analysis/backtrace/backtrace.go", "(*Visitor).onDemandIntraProcedural", "fmt:failed to run intra-procedural analysis : %v", .inv⟩,
  ⟨"analysis/backtrace/backtrace.go", "(*Visitor).visit", "fmt:[No Context] no arg at call site %v when visiting node %v: %v", .inv⟩,
  ⟨"analysis/backtrace/backtrace.go", "(*Visitor).visit", "fmt:[No Context] no bound variable matching free variable in %s at position %d", .inv⟩,
  ⟨"analysis/backtrace/backtrace.go", "(*Visitor).visit", "fmt:[No Context] no referring make closure nodes from %v", .inv⟩,
  ⟨"analysis/backtrace/backtrace.go", "(*Visitor).visit", "fmt:callsite %v has no callee", .inv⟩,
  ⟨"analysis/backtrace/backtrace.go", "(*Visitor).visit", "fmt:closure's parent function does not exist for free variable: %v", .inv⟩,
  ⟨"analysis/backtrace/backtrace.go", "(*Visitor).visit", "fmt:no bound variable matching free variable in %s at position %d", .reached⟩,
  ⟨"analysis/backtrace/backtrace.go", "(*Visitor).visit", "fmt:no free variable matching bound variable in %s at position %d", .inv⟩,
  ⟨"analysis/backtrace/backtrace.go", "(*Visitor).visit", "fmt:node's callee summary is nil: %v", .reached⟩,
  ⟨"analysis/backtrace/backtrace.go", "(*Visitor).visit", "fmt:unhandled graph node type: %T", .inv⟩,
  ⟨"analysis/backtrace/backtrace.go", "(*Visitor).visit", "lit:nil callee", .inv⟩,
  ⟨"analysis/backtrace/backtrace.go", "(*Visitor).visit", "lit:nil param", .inv⟩,
  ⟨"analysis/backtrace/backtrace.go", "(*Visitor).visit", "lit:no bound vars", .inv⟩,
  ⟨"analysis/backtrace/backtrace.go", "(Trace).String", "fmt:failed to write first node to trace string: %v", .io⟩,
  ⟨"analysis/backtrace/backtrace.go", "(Trace).String", "fmt:failed to write to trace string: %v", .io⟩,
  ⟨"analysis/backtrace/backtrace.go", "(Trace).String", "fmt:failed to write to trace string: %v", .io⟩,
  ⟨"analysis/backtrace/backtrace.go", "(Trace).String", "fmt:failed to write trace node %v to string: %v", .io⟩,
  ⟨"analysis/dataflow/flow_info.go", "(*FlowInformation).GetNewMark", "fmt:Malformed constraint: a tuple %v but index %d out of bounds", .inv⟩,
  ⟨"analysis/dataflow/function_summary_graph.go", "(*SummaryGraph).addCallArgEdge", "lit:attempting to set call arg edge but no call arg node", .inv⟩,
  ⟨"analysis/dataflow/function_summary_graph.go", "(*SummaryGraph).addCallInstr", "lit:critical information missing in analysis", .reached⟩,
  ⟨"analysis/dataflow/function_summary_graph.go", "addInEdge", "fmt:invalid dest node type: %T", .inv⟩,
  ⟨"analysis/dataflow/inter_procedural.go", "BuildSummary", "fmt:single function analysis failed for %v: %v", .inv⟩,
  ⟨"analysis/dataflow/intra_procedural_instruction_ops.go", "(*IntraAnalysisState).DoSelect", "lit:unexpected select channel type", .inv⟩,
  ⟨"analysis/dataflow/intra_procedural_monotone_analysis.go", "(*IntraAnalysisState).initialize", "lit:AnalysisState must be initialized with initialized flowInfo", .api⟩,
  ⟨"analysis/escape/dataflow_interface.go", "(*escapeAnalysisImpl).ComputeArbitraryContext", "fmt:computing context for un-summarized function %s", .inv⟩,
  ⟨"analysis/escape/dataflow_interface.go", "(*escapeAnalysisImpl).ComputeInstructionLocalityAndCallsites", "fmt:Cannot compute locality of function that is not summarized %v", .inv⟩,
  ⟨"analysis/escape/dataflow_interface.go", "(*escapeAnalysisImpl).ComputeInstructionLocalityAndCallsites", "lit:Cannot compute locality of function with a different function's EscapeCallContext", .api⟩,
  ⟨"analysis/escape/dataflow_interface.go", "(*escapeAnalysisImpl).ComputeInstructionLocalityAndCallsites", "lit:You should not have implemented the EscapeCallContext interface for another type.", .api⟩,
  ⟨"analysis/escape/dataflow_interface.go", "(*escapeCallsiteInfoImpl).Resolve", "fmt:Argument mismatch %s params %v args %v", .inv⟩,
  ⟨"analysis/escape/dataflow_interface.go", "(*escapeCallsiteInfoImpl).Resolve", "lit:Cannot resolve escape context for non-summarized function", .inv⟩,
  ⟨"analysis/escape/dataflow_interface.go", "(*escapeContextImpl).Matches", "lit:Cannot compare EscapeCallContexts of different functions", .api⟩,
  ⟨"analysis/escape/dataflow_interface.go", "(*escapeContextImpl).Matches", "lit:You should not have implemented the EscapeCallContext interface for another type.", .api⟩,
  ⟨"analysis/escape/dataflow_interface.go", "(*escapeContextImpl).Merge", "lit:Cannot merge EscapeCallContexts of different functions", .api⟩,
  ⟨"analysis/escape/dataflow_interface.go", "(*escapeContextImpl).Merge", "lit:You should not have implemented the EscapeCallContext interface for another type.", .api⟩,
  ⟨"analysis/escape/escape.go", "(*EscapeGraph).copyStruct", "fmt:expected to copy struct type, not %v", .inv⟩,
  ⟨"analysis/escape/escape.go", "(*EscapeGraph).copyStruct", "fmt:expected to copy struct type, not %v", .inv⟩,
  ⟨"analysis/escape/escape.go", "(*functionAnalysisState).Resummarize", "expr:wellFormedErr", .inv⟩,
  ⟨"analysis/escape/escape.go", "(*functionAnalysisState).transferCallIndirect", "expr:err", .inv⟩,
  ⟨"analysis/escape/escape.go", "(*functionAnalysisState).transferCallIndirect", "expr:err", .inv⟩,
  ⟨"analysis/escape/escape.go", "(*functionAnalysisState).transferCallIndirect", "expr:err", .inv⟩,
  ⟨"analysis/escape/escape.go", "(*functionAnalysisState).transferFunction", "expr:err", .inv⟩,
  ⟨"analysis/escape/escape.go", "(*functionAnalysisState).transferFunction", "fmt:Go statment of unknown value type %s", .inv⟩,
  ⟨"analysis/escape/escape.go", "(*functionAnalysisState).transferFunction", "lit:Extract from phi?", .inv⟩,
  ⟨"analysis/escape/escape.go", "(*functionAnalysisState).transferFunction", "lit:IndexAddr of direct array", .inv⟩,
  ⟨"analysis/escape/escape.go", "(*functionAnalysisState).transferFunction", "lit:Slice of BasicKind that isn't string: …", .inv⟩,
  ⟨"analysis/escape/escape.go", "(*functionAnalysisState).transferFunction", "lit:Slice of pointer to non-array?", .inv⟩,
  ⟨"analysis/escape/escape.go", "(*functionAnalysisState).transferFunction", "lit:Store of non-nilable, non-struct type not supported", .inv⟩,
  ⟨"analysis/escape/escape.go", "(*functionAnalysisState).transferFunction", "lit:Unexpected select send/recv type", .inv⟩,
  ⟨"analysis/escape/escape.go", "assertGraphInvariants", "expr:err", .inv⟩,
  ⟨"analysis/escape/escape.go", "transferCallBuiltin", "lit:Append must have exactly 2 args", .inv⟩,
  ⟨"analysis/escape/escape.go", "transferCallBuiltin", "lit:Copy must have exactly 2 args", .inv⟩,
  ⟨"analysis/escape/graph.go", "(*EscapeGraph).AnalogousSubnode", "lit:Subnode argument is not a subnode: reason not found", .inv⟩,
  ⟨"analysis/escape/graph.go", "(*EscapeGraph).Call", "lit:Incorrect nil-ness of corresponding free var nodes", .inv⟩,
  ⟨"analysis/escape/graph.go", "(*EscapeGraph).Call", "lit:Incorrect nil-ness of corresponding parameter nodes", .inv⟩,
  ⟨"analysis/escape/graph.go", "(*EscapeGraph).Call", "lit:Incorrect number of arguments", .inv⟩,
  ⟨"analysis/escape/graph.go", "(*EscapeGraph).ImplementationSubnode", "lit:Adding implementation subnode to an existing subnode", .inv⟩,
  ⟨"analysis/escape/graph.go", "(*NodeGroup).ValueNode", "lit:Non-nil constant not supported…", .inv⟩,
  ⟨"analysis/escape/graph.go", "(*NodeGroup).ValueNode", "lit:Not expecting built-in", .inv⟩,
  ⟨"analysis/lang/constructors.go", "NewTypeExpr", "fmt:implement NewTypeExpr for %s", .inv⟩,
  ⟨"analysis/lang/instructions.go", "InstrSwitch", "expr:instr", .inv⟩,
  ⟨"analysis/taint/dataflow_visitor.go", "(*Visitor).Visit", "fmt:[No Context] no referring make closure nodes from %v", .inv⟩,
  ⟨"analysis/taint/dataflow_visitor.go", "(*Visitor).Visit", "fmt:[No Context] no referring make closure nodes from %v", .inv⟩,
  ⟨"analysis/taint/dataflow_visitor.go", "(*Visitor).Visit", "fmt:no bound variable matching free variable in %s at position %d", .reached⟩,
  ⟨"analysis/taint/dataflow_visitor.go", "(*Visitor).Visit", "fmt:unexpected missing callee summary for reachable function %s", .inv⟩,
  ⟨"analysis/taint/dataflow_visitor.go", "(*Visitor).Visit", "lit:callsite has no callee", .inv⟩,
  ⟨"analysis/taint/dataflow_visitor.go", "(*Visitor).Visit", "lit:nil param", .inv⟩,
  ⟨"analysis/taint/dataflow_visitor.go", "(*Visitor).Visit", "lit:no bound vars", .inv⟩,
  ⟨"analysis/taint/dataflow_visitor.go", "(*Visitor).addNext", "lit:access paths should always at least be the empty string", .inv⟩,
  ⟨"analysis/taint/dataflow_visitor.go", "(*Visitor).onDemandIntraProcedural", "fmt:failed to run intra-procedural analysis : %v", .inv⟩,
  ⟨"analysis/taint/report.go", "panicOnUnexpectedMissingFreeVar", "fmt:[No Context] no bound variable matching free variable in %s at position %d", .inv⟩,
  ⟨"internal/funcutil/option.go", "(none).Value", "expr:s", .inv⟩
]

/-- how a trace expression relates to the current element's trace (`traceStep` of the model). -/
inductive TraceDeriv where
  | same       -- the current trace (or the successor's own trace, for the intermediate tracing node)
  | ancestor   -- `.Parent`, `UnwindCallStackToFunc`, `nil`: an ancestor of the current trace
  | add        -- `.Add(label)`: one more label
  | viaLocal   -- a local variable; its definitions are listed as `local:<name>` rows
  | unrelated  -- same identifier, but not a `NodeWithTrace` trace (backtrace.Trace values, report strings)
  deriving DecidableEq, Repr

structure TraceExpr where
  file : String
  what : String
  expr : String
  cls  : TraceDeriv
  deriving DecidableEq, Repr

def TraceExpr.key (s : TraceExpr) : String × String × String := (s.file, s.what, s.expr)

/-- every way the two visitors build the `Trace` / `ClosureTrace` of a successor (table T12), classified by hand. -/
def traceExprs : List TraceExpr := [
  ⟨"analysis/backtrace/backtrace.go", "ClosureTrace", "cur.ClosureTrace", .same⟩,
  ⟨"analysis/backtrace/backtrace.go", "ClosureTrace", "cur.ClosureTrace.Add(closureNode)", .add⟩,
  ⟨"analysis/backtrace/backtrace.go", "ClosureTrace", "cur.ClosureTrace.Parent", .ancestor⟩,
  ⟨"analysis/backtrace/backtrace.go", "ClosureTrace", "nil", .ancestor⟩,
  ⟨"analysis/backtrace/backtrace.go", "Trace", "cur.Trace", .same⟩,
  ⟨"analysis/backtrace/backtrace.go", "Trace", "cur.Trace.Add(callSite)", .add⟩,
  ⟨"analysis/backtrace/backtrace.go", "Trace", "cur.Trace.Add(graphNode)", .add⟩,
  ⟨"analysis/backtrace/backtrace.go", "Trace", "nil", .ancestor⟩,
  ⟨"analysis/backtrace/backtrace.go", "Trace", "tr", .viaLocal⟩,
  ⟨"analysis/backtrace/backtrace.go", "Trace", "trace", .viaLocal⟩,
  ⟨"analysis/backtrace/backtrace.go", "local:tr", "<zero value>", .ancestor⟩,
  ⟨"analysis/backtrace/backtrace.go", "local:tr", "cur.Trace.Parent", .ancestor⟩,
  ⟨"analysis/backtrace/backtrace.go", "local:trace", "<zero value>", .ancestor⟩,
  ⟨"analysis/backtrace/backtrace.go", "local:trace", "Trace{}", .unrelated⟩,
  ⟨"analysis/backtrace/backtrace.go", "local:trace", "append(trace, node)", .unrelated⟩,
  ⟨"analysis/backtrace/backtrace.go", "local:trace", "range traces", .unrelated⟩,
  ⟨"analysis/taint/dataflow_visitor.go", "ClosureTrace", "cur.ClosureTrace", .same⟩,
  ⟨"analysis/taint/dataflow_visitor.go", "ClosureTrace", "cur.ClosureTrace.Add(closureNode)", .add⟩,
  ⟨"analysis/taint/dataflow_visitor.go", "ClosureTrace", "cur.ClosureTrace.Parent", .ancestor⟩,
  ⟨"analysis/taint/dataflow_visitor.go", "ClosureTrace", "nextNodeWithTrace.ClosureTrace", .same⟩,
  ⟨"analysis/taint/dataflow_visitor.go", "ClosureTrace", "nil", .ancestor⟩,
  ⟨"analysis/taint/dataflow_visitor.go", "Trace", "cur.Trace", .same⟩,
  ⟨"analysis/taint/dataflow_visitor.go", "Trace", "cur.Trace.Add(graphNode)", .add⟩,
  ⟨"analysis/taint/dataflow_visitor.go", "Trace", "cur.Trace.Parent", .ancestor⟩,
  ⟨"analysis/taint/dataflow_visitor.go", "Trace", "cur.Trace.SummaryString()", .unrelated⟩,
  ⟨"analysis/taint/dataflow_visitor.go", "Trace", "df.UnwindCallStackToFunc(cur.Trace, closureNode.Graph().Parent)", .ancestor⟩,
  ⟨"analysis/taint/dataflow_visitor.go", "Trace", "newCallStack", .viaLocal⟩,
  ⟨"analysis/taint/dataflow_visitor.go", "Trace", "nextNodeWithTrace.Trace", .same⟩,
  ⟨"analysis/taint/dataflow_visitor.go", "Trace", "nil", .ancestor⟩,
  ⟨"analysis/taint/dataflow_visitor.go", "Trace", "trace", .viaLocal⟩,
  ⟨"analysis/taint/dataflow_visitor.go", "local:newCallStack", "cur.Trace.Add(callSite)", .add⟩,
  ⟨"analysis/taint/dataflow_visitor.go", "local:trace", "<zero value>", .ancestor⟩,
  ⟨"analysis/taint/dataflow_visitor.go", "local:trace", "cur.Trace.Parent", .ancestor⟩
]

end Argot.C07.Spec
