/-
Declarative reading of "a specification matches a code identifier" (what the property statement
says): every *given* field of the specification is a regular expression that is found by unanchored
search in the corresponding field of the identifier, and the kinds are equal.  The `Interface` and
`Label` fields are not part of the property statement (`Interface` is resolved by expansion to
implementations, `Label` is free text).
-/
import Argot.Model.CodeId

namespace Argot.CodeId
open Argot.Regex

/-- the fields the property speaks about -/
def specFields : List Fld := [.context, .package, .method, .receiver, .field, .type, .valueMatch]

/-- field `f` of the specification is not given, or it is found by unanchored search -/
def FieldOk (spec cid : CodeId) (f : Fld) : Prop :=
  spec.get f = "" ∨ ∃ re, parse (spec.get f).toList = .ok re ∧ Search re (cid.get f).toList

def Matches (spec cid : CodeId) : Prop :=
  (∀ f ∈ specFields, FieldOk spec cid f) ∧ spec.kind = cid.kind

end Argot.CodeId
