/-
Path semantics of defer stacks over a CFG: the specification side of C16.

`eff` is what the Go runtime does (a `defer` statement always pushes; `RunDefers` pops everything).
`AtEntry g b s` : some control-flow path from the entry block 0 to the *entry* of block `b`
                  produces runtime defer stack `s`.
`StacksAt g (b,j) s` : ... to the point just *before* instruction `j` of block `b`.
`eff'`/`AtEntry'`/`StacksAt'` : the same with "push unless already on the stack" (what the analysis
tracks); `Repeats g` says some path executes a defer statement that is already on its stack.
-/
import Argot.Model.Defers

namespace Argot.Defers

def blockOf (g : Cfg) (b : Nat) : Block := g.getD b default

def eff (b j : Nat) : IK → Stack → Stack
  | .defer, s => s ++ [(b, j)]
  | .runDefers, _ => []
  | .other, s => s

def eff' (b j : Nat) : IK → Stack → Stack
  | .defer, s => pushUnless (b, j) s
  | .runDefers, _ => []
  | .other, s => s

/-- effect of the instruction list `iks`, whose first element has index `j` in block `b`. -/
def effs (b : Nat) : Nat → List IK → Stack → Stack
  | _, [], s => s
  | j, ik :: iks, s => effs b (j + 1) iks (eff b j ik s)

def effs' (b : Nat) : Nat → List IK → Stack → Stack
  | _, [], s => s
  | j, ik :: iks, s => effs' b (j + 1) iks (eff' b j ik s)

inductive AtEntry (g : Cfg) : Nat → Stack → Prop
  | entry : AtEntry g 0 []
  | step {b c : Nat} {s : Stack} : AtEntry g b s → c ∈ (blockOf g b).succs →
      AtEntry g c (effs b 0 (blockOf g b).instrs s)

inductive AtEntry' (g : Cfg) : Nat → Stack → Prop
  | entry : AtEntry' g 0 []
  | step {b c : Nat} {s : Stack} : AtEntry' g b s → c ∈ (blockOf g b).succs →
      AtEntry' g c (effs' b 0 (blockOf g b).instrs s)

def StacksAt (g : Cfg) (p : Site) (s : Stack) : Prop :=
  ∃ s0, AtEntry g p.1 s0 ∧ s = effs p.1 0 ((blockOf g p.1).instrs.take p.2) s0

def StacksAt' (g : Cfg) (p : Site) (s : Stack) : Prop :=
  ∃ s0, AtEntry' g p.1 s0 ∧ s = effs' p.1 0 ((blockOf g p.1).instrs.take p.2) s0

/-- Some path reaches a `defer` statement that is already on the stack it has built
(i.e. executes the same defer statement twice without an intervening RunDefers). -/
def Repeats (g : Cfg) : Prop :=
  ∃ b j s, (blockOf g b).instrs[j]? = some IK.defer ∧ StacksAt' g (b, j) s ∧ (b, j) ∈ s

/-- Same, stated with the real (always pushing) semantics. -/
def RepeatsReal (g : Cfg) : Prop :=
  ∃ b j s, (blockOf g b).instrs[j]? = some IK.defer ∧ StacksAt g (b, j) s ∧ (b, j) ∈ s

end Argot.Defers
