/-
Specification side of the escape-graph lattice (C15): well-formedness, the order, equivalence,
and the declarative meaning of status propagation (least closed status above a base).
-/
import Argot.Model.EGraph

namespace Argot.EGraph
namespace EGraph

/-- there is an edge (of any kind) from `a` to `b` -/
def Edge (g : EGraph) (a b : Node) : Prop := (g.fl a b).any = true

/-- `U` is closed along the edges given by `fl`: the status never decreases along an edge -/
def ClosedFl (fl : Node → Node → Flags) (U : Node → Nat) : Prop :=
  ∀ a b, (fl a b).any = true → U a ≤ U b

/-- Representation invariants of a graph (the repository's `wellFormedEscapeGraph` — every node with
a status has an edge row and vice versa, every edge end has a status — plus: statuses are one of
Local/Escaped/Leaked and a node without status reads as Local). -/
structure Rep (g : EGraph) : Prop where
  le2 : ∀ n, g.st n ≤ 2
  zero : ∀ n, n ∉ g.dom → g.st n = 0
  out : ∀ n, g.out n = true ↔ n ∈ g.dom
  ends : ∀ a b, (g.fl a b).any = true → a ∈ g.dom ∧ b ∈ g.dom

/-- Well-formed: representation invariants, status at least the intrinsic status of the node kind,
status closed along edges (`a → b ⇒ st a ≤ st b`, the invariant of computeEdgeClosure). -/
structure WF (I : Node → Nat) (g : EGraph) : Prop extends Rep g where
  intr : ∀ n, n ∈ g.dom → I n ≤ g.st n
  closed : ClosedFl g.fl g.st

/-- the lattice order, declaratively -/
structure LE (g h : EGraph) : Prop where
  fl : ∀ a b, Flags.le (g.fl a b) (h.fl a b) = true
  dom : ∀ n, n ∈ g.dom → n ∈ h.dom
  st : ∀ n, g.st n ≤ h.st n

/-- equality of graphs as the Go maps see it -/
structure Equiv (g h : EGraph) : Prop where
  dom : ∀ n, n ∈ g.dom ↔ n ∈ h.dom
  st : ∀ n, g.st n = h.st n
  out : ∀ n, g.out n = h.out n
  fl : ∀ a b, g.fl a b = h.fl a b

/-- `st` is the least status that is above `base` and closed along `fl`
(the declarative closure: `st n = sup { base m | m ⟶* n }`, see `isLeast_iff_reach`). -/
structure IsLeast (fl : Node → Node → Flags) (base st : Node → Nat) : Prop where
  above : ∀ n, base n ≤ st n
  closed : ClosedFl fl st
  least : ∀ U, ClosedFl fl U → (∀ n, base n ≤ U n) → ∀ n, st n ≤ U n

/-- reachability along edges -/
inductive Reach (fl : Node → Node → Flags) : Node → Node → Prop where
  | refl (a) : Reach fl a a
  | step {a b c} : Reach fl a b → (fl b c).any = true → Reach fl a c

end EGraph
end Argot.EGraph
