/-
Declarative side of C04 for code locations: the possible callees of a call site (the generator's
knowledge of the program) and "some specification matches a possible callee in the context of the site".
-/
import Argot.Spec.CodeId
import Argot.Model.Entry

namespace Argot.Entry
open Argot.CodeId

/-- the functions a call site can run, as named by a specification: the static callee; for an invoke the
interface method itself and every implementation; for function values / bound methods the functions
that flow to the called value -/
def possibleCallees (s : Site) : List Fn :=
  match s.form with
  | .staticFn | .staticMethod | .methodExpr | .closureCall | .generic => [s.callee]
  | .invoke => s.callee :: s.impls
  | .funcValue | .boundMethod => s.impls

/-- the identifier the property speaks about: callee package path and name, receiver type, enclosing
function (context), text of the call (value-match) -/
def truthCid (s : Site) (c : Fn) : CodeId :=
  { ctx := s.parent, pkg := c.pkgPath, meth := c.name, recv := c.recv, vmatch := s.instr }

/-- `SpecMatches`: specification `sp` matches callee `c` in the context of site `s` -/
def SpecMatches (sp : CodeId) (c : Fn) (s : Site) : Prop := Matches sp (truthCid s c)

/-- some specification matches some possible callee -/
def ShouldIdentify (specs : List CodeId) (s : Site) : Prop :=
  ∃ c ∈ possibleCallees s, ∃ sp ∈ specs, SpecMatches sp c s

/-- executable version (equal to `ShouldIdentify` for compiled specifications, `truth_iff`) -/
def truth (specs : List CodeId) (s : Site) : Bool :=
  (possibleCallees s).any fun c => specs.any fun sp => matchB sp (truthCid s c)

/-- sink-side: the callee is fixed by the graph node; for an invoke the specification may also name the
interface method -/
def truthCallee (specs : List CodeId) (s : Site) (c : Fn) : Bool :=
  specs.any fun sp => matchB sp (truthCid s c) || (s.form == .invoke && matchB sp (truthCid s s.callee))

/-! ### non-call locations -/

/-- the Go spelling of a type shape with unqualified names -/
def Ty.render : Ty → String
  | .named _ n => n
  | .basic n => n
  | .pointer t => "*" ++ t.render
  | .slice t => "[]" ++ t.render
  | .array n t => "[" ++ toString n ++ "]" ++ t.render
  | .chan t => "chan " ++ t.render
  | .map k t => "map[" ++ k ++ "]" ++ t.render
  | .other => "?"

/-- the declared type at the core of a shape (package name), if any -/
def Ty.decl : Ty → Option String
  | .named p _ => some p
  | .basic _ | .other => none
  | .pointer t | .slice t | .array _ t | .chan t | .map _ t => t.decl

/-- the identifier of a non-call location: declaring package, spelled type, field, and the kind
of access ("" for allocations and field reads) -/
def nodeTruthCid (n : NodeFacts) (p : String) : CodeId :=
  match n.nk with
  | .fieldRead => { ctx := n.parent, pkg := p, fld := n.field, typ := n.ty.render }
  | .alloc => { ctx := n.parent, pkg := p, typ := n.ty.render }
  | .fieldStore => { ctx := n.parent, pkg := p, fld := n.field, typ := n.ty.render, kind := "store" }
  | .chanRecv => { ctx := n.parent, pkg := p, typ := n.ty.render, kind := "channel receive" }

def ShouldSelect (specs : List CodeId) (n : NodeFacts) : Prop :=
  ∃ p, n.ty.decl = some p ∧ ∃ sp ∈ specs, Matches sp (nodeTruthCid n p)

/-! ### the domain on which the current code is proved to agree with the specification -/

/-- entry points (sources, backtrace points): plain calls of a statically known function or method that is not
also used as a value; specifications without value-match, and without receiver for methods -/
def entryDomain (specs : List CodeId) (s : Site) : Bool :=
  (s.kind == .call) &&
  ((s.form == .staticFn && !s.addrTaken && s.callee.recv == "") || s.form == .staticMethod) &&
  specs.all fun sp => sp.vmatch == "" && (sp.recv == "" || s.form == .staticFn)

/-- sinks / sanitizers / validators on a call with a resolved callee: every Call / Go / Defer of a statically
known function or method, every specification -/
def sinkDomain (s : Site) (c : Fn) : Bool :=
  ((s.form == .staticFn && s.callee.recv == "") || s.form == .staticMethod) && c == s.callee

/-- call-argument graph nodes: as `sinkDomain`; when the callee has a summary the callee is also tested as a bare
function (no context, no receiver, its own name as value-match), so those three fields must not be given -/
def argDomain (specs : List CodeId) (s : Site) (c : Fn) (hasSummary : Bool) : Bool :=
  sinkDomain s c && (!hasSummary || specs.all fun sp => sp.ctx == "" && sp.recv == "" && sp.vmatch == "")

/-- every specification compiles and none uses the `Interface` field -/
def specsOk (specs : List CodeId) : Bool := specs.all fun sp => specOk sp && sp.iface == ""

end Argot.Entry
