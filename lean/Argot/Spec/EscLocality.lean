/-
C14 — specification side of the instruction-locality table (T7).

`memAccess` lists the instruction kinds of the pointer machine (Argot/Spec/EscCore.lean) that read or
write memory through a pointer-like operand, with the operand field that holds the pointer.  An
instruction of such a kind is safe to call thread-local only after consulting `derefsAreLocal` on
that operand.  `handledElsewhere` are the kinds whose memory effects belong to other instructions
(the body of the callee; the deferred call).
-/
namespace Argot.EscLoc

/-- row of the regenerated table `Gen.Escape.localityCases` -/
abbrev LocRow := List String × List String × Bool × Bool

/-- kinds consulting `derefsAreLocal` on `op`: a case lists the kind, passes `op` to
`derefsAreLocal`, and is not the unconditional `return nil` -/
def covered (cases : List LocRow) (k op : String) : Bool :=
  cases.any fun c => c.1.contains k && c.2.1.contains op && !c.2.2.1

/-- kinds classified local unconditionally (`return nil` is the whole case body) -/
def alwaysLocal (cases : List LocRow) (k : String) : Bool :=
  cases.any fun c => c.1.contains k && c.2.2.1

/-- memory-accessing instruction kinds with a non-call form, and the pointer operand -/
def memAccessCore : List (String × String) :=
  [("*ssa.Store", "Addr"), ("*ssa.UnOp", "X"), ("*ssa.Send", "Chan"), ("*ssa.Range", "X"),
   ("*ssa.Next", "Iter"), ("*ssa.Select", "state.Chan"), ("*ssa.MapUpdate", "Map"), ("*ssa.Lookup", "X")]

/-- further memory-accessing forms: `string(byteSlice)` (a `Convert` reading the backing array) and
calls of the builtins delete/len/cap/append/copy/clear (a `Call` without callee body) -/
def memAccessExtra : List (String × String) :=
  [("*ssa.Convert", "X"), ("*ssa.Call", "Call.Args")]

def memAccess : List (String × String) := memAccessCore ++ memAccessExtra

/-- kinds whose memory effects are classified at other instructions -/
def handledElsewhere : List String := ["*ssa.Go", "*ssa.Defer", "*ssa.RunDefers"]

/-- **Full statement** (C14, table part): every memory-accessing instruction kind consults
`derefsAreLocal` on its pointer operand. -/
def LocalityCoversMemoryAccess (cases : List LocRow) : Prop :=
  ∀ p, p ∈ memAccess → covered cases p.1 p.2 = true

/-- the table of the pinned commit (25e32d0), for the negation witness and the regression guard -/
def pinnedLocality : List LocRow := [
  (["*ssa.Store"], ["Addr"], false, false),
  (["*ssa.UnOp"], ["X"], false, true),
  (["*ssa.Send"], ["Chan"], false, false),
  (["*ssa.Range"], ["X"], false, true),
  (["*ssa.Next"], ["Iter"], false, true),
  (["*ssa.Select"], ["state.Chan"], false, true),
  (["*ssa.BinOp"], [], true, true),
  (["*ssa.Go"], [], true, true),
  (["*ssa.Call"], [], true, true),
  (["*ssa.MakeClosure"], [], true, true),
  (["*ssa.Defer", "*ssa.RunDefers"], [], true, true),
  (["*ssa.Alloc", "*ssa.MakeMap", "*ssa.MakeChan", "*ssa.MakeSlice"], [], true, true),
  (["*ssa.FieldAddr", "*ssa.IndexAddr"], [], true, true),
  (["*ssa.Field", "*ssa.Index"], [], true, true),
  (["*ssa.Slice", "*ssa.SliceToArrayPointer"], [], true, true),
  (["*ssa.MakeInterface", "*ssa.Convert", "*ssa.ChangeInterface", "*ssa.ChangeType", "*ssa.Phi", "*ssa.Extract"], [], true, true),
  (["*ssa.TypeAssert"], ["X"], false, false),
  (["*ssa.Return", "*ssa.Jump", "*ssa.If"], [], true, true),
  (["*ssa.Panic"], [], true, true),
  (["*ssa.MapUpdate"], ["Map"], false, false),
  (["*ssa.Lookup"], ["X"], false, false)]

/-- row of `Gen.Escape.transferCases` -/
abbrev TrRow := List String × Bool

/-- the kind has a case with a non-empty body in `transferFunction` -/
def handled (cases : List TrRow) (k : String) : Bool :=
  cases.any fun c => c.1.contains ("*ssa." ++ k) && !c.2

/-- **Full statement**: the escape transfer function has a non-empty case for every SSA
instruction kind. -/
def TransferTotal (kinds : List String) (cases : List TrRow) : Prop :=
  ∀ k, k ∈ kinds → handled cases k = true

/-- kinds without effect on the graph today: `Defer` has an empty case (F11), `RunDefers` and
`MultiConvert` have none -/
def transferGaps : List String := ["Defer", "RunDefers", "MultiConvert"]

def pinnedTransfer : List TrRow :=
  [(["*ssa.Alloc"], false), (["*ssa.MakeClosure"], false), (["*ssa.MakeMap"], false), (["*ssa.MakeChan"], false),
   (["*ssa.MakeSlice"], false), (["*ssa.FieldAddr"], false), (["*ssa.Field"], false), (["*ssa.IndexAddr"], false),
   (["*ssa.Store"], false), (["*ssa.UnOp"], false), (["*ssa.Send"], false), (["*ssa.Slice"], false),
   (["*ssa.Return"], false), (["*ssa.Jump"], false), (["*ssa.If"], false), (["*ssa.Select"], false),
   (["*ssa.Panic"], false), (["*ssa.Call"], false), (["*ssa.Go"], false), (["*ssa.Defer"], true),
   (["*ssa.Index"], false), (["*ssa.Lookup"], false), (["*ssa.MapUpdate"], false), (["*ssa.Next"], false),
   (["*ssa.Range"], false), (["*ssa.MakeInterface"], false), (["*ssa.TypeAssert"], false), (["*ssa.Convert"], false),
   (["*ssa.ChangeInterface"], false), (["*ssa.ChangeType"], false), (["*ssa.SliceToArrayPointer"], false),
   (["*ssa.Phi"], false), (["*ssa.Extract"], false), (["*ssa.BinOp"], false), (["*ssa.DebugRef"], false)]

end Argot.EscLoc
