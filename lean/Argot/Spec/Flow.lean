/- Abstract semantics used by C01 (layer L4/L5 of DESIGN.md §4 C01): valid inter-procedural paths
   over a linked summary graph.

   A configuration is a visitor `Item` (node, call stack, closure stack, tracing status, access
   paths, and how the node was entered).  One step of a valid path is one candidate that `Visit`
   hands to `addNext` (`stepSpec`): an intra-procedural summary edge, a call (argument → parameter,
   push), a return (result → call node of the top of the stack, pop; or to every call site when the
   stack is empty), the flow of a parameter back to its call-site argument, closure creation /
   free-variable / bound-variable jumps, and global write → read.  The lasso cut-off and the `seen`
   set are NOT part of the specification.

   That every explicit data flow of a real execution is such a path (given sound summaries, C08, a
   sound call graph, C12, and sound aliasing, C11) is trusted and validated on every run by the
   marker ground truth of the generated programs (Props/C01.lean, `trusted_base`). -/
import Argot.Model.TaintVisit

namespace Argot.TaintVisit
open Argot.Closure

/-- `a` is the end of a valid path from the source `(src, tr)` -/
def ValidPathTo (G : LGraph) (src : Nat) (tr : List Nat) (a : Item) : Prop :=
  IReach (stepSpec G src) [root src tr] a

/-- `a` is the end of a valid path all of whose configurations are lasso-free
    (no call node / closure node twice on a stack) -/
def LassoFreePathTo (G : LGraph) (src : Nat) (tr : List Nat) (a : Item) : Prop :=
  IReach (fun x => (stepSpec G src x).filter (lassoFree G)) [root src tr] a

/-- a finished run of the visitor, in ANY traversal order -/
def FinishedRun (G : LGraph) (src : Nat) (tr : List Nat) (s : State Item Key) : Prop :=
  Steps key (succ G src) ⟨[root src tr], [], []⟩ s ∧ s.queue = []

/-- C01, layer L4/L5 at full strength: every sink configuration at the end of a valid path is
    reported by every finished run.  FALSE on the current code (Props/C01.lean: two witnesses). -/
def TaintSound (G : LGraph) (src : Nat) (tr : List Nat) : Prop :=
  ∀ s, FinishedRun G src tr s → ∀ a, ValidPathTo G src tr a → reported G a = true →
    a.node ∈ flowsOf G s

/-- the same with the lasso hypothesis only (still false: F14) -/
def TaintSoundLassoFree (G : LGraph) (src : Nat) (tr : List Nat) : Prop :=
  ∀ s, FinishedRun G src tr s → ∀ a, LassoFreePathTo G src tr a → reported G a = true →
    a.node ∈ flowsOf G s

end Argot.TaintVisit
