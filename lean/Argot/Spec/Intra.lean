/-
Specification side of C08: what "a chain of value-computing instructions leads from an origin to a
use" means on the first-order image of an SSA function, independently of the analysis.

`Reach f i j`        : CFG path (instruction level) from `i` to `j` (reflexive, transitive).
`StepOK f o x a`     : `a` is a data operand of the value-computing instruction `x` of one of the
                       kinds the property lists, and origin `o` is carried from `a` to the result of
                       `x` (`Extract` selects: the origin's own tuple index out of the origin call;
                       component 0 out of a comma-ok tuple).
`Chain f o i v`      : at program point `i`, SSA value `v` derives from origin `o`
                       (operand→result steps of the listed kinds composed with CFG steps).
`DefUse f o v`       : the same at the level of values only (plain reachability over SSA operands).
-/
import Argot.Model.Intra

namespace Argot.Intra

/-- instruction `i` of `f` (a no-op instruction outside the function). -/
def Func.instr (f : Func) (i : Nat) : Instr := f.instrs.getD i default

inductive Reach (f : Func) : Nat → Nat → Prop
  | refl (i : Nat) : Reach f i i
  | step {i j k : Nat} : Reach f i j → k ∈ (f.instr j).succs → Reach f i k

/-- reachable by at least one CFG step. -/
def ReachPlus (f : Func) (i k : Nat) : Prop := ∃ j, j ∈ (f.instr i).succs ∧ Reach f j k

def StepOK (f : Func) (o : Origin) (x : Instr) (a : Nat) : Prop :=
  x.res ≠ 0 ∧ a ∈ dataOps x ∧ passes f o x a = true

inductive Chain (f : Func) (o : Origin) : Nat → Nat → Prop
  | base : Chain f o o.loc o.val
  | carry {i j v : Nat} : Chain f o i v → j ∈ (f.instr i).succs → Chain f o j v
  | step {i a : Nat} : Chain f o i a → StepOK f o (f.instr i) a → Chain f o i (f.instr i).res

/-- value-level dependence: reflexive-transitive closure of operand → result over the listed kinds,
restricted to instructions reachable from the entry. -/
inductive DefUse (f : Func) (o : Origin) : Nat → Prop
  | base : DefUse f o o.val
  | step {i a : Nat} : DefUse f o a → Reach f 0 i → StepOK f o (f.instr i) a → DefUse f o (f.instr i).res

end Argot.Intra
