/-
C19, specification side: what "reports every goroutine entry without a recovering defer" means on
the dumped facts.

* `LaunchedAt P f pos fm` — some `go` statement of the program, at position `pos`, whose call value has
  form `fm`, may start a goroutine whose entry function is `f`: for a static call value / closure that is
  the function itself; for invoke-mode and function-value `go` it is every call-graph callee
  (`Site.callees`, dumped from a sound call graph).
* exclusion is the anchored mechanism (`excludedFn`: allow-list and `-exclude`, by the launched
  function's package / file; functions without package are never excluded).
* "does not itself defer a function that calls recover" is `defersRecoverSpec P f = false`
  (no defer statement of `f` may enter a function containing a `recover()` call).

Semantic assumption (modelled, validated by native runs — not proved): the entry function of a goroutine
created by the `go` statement at `pos` is one of the `f` with `LaunchedAt P f pos _`.
-/
import Argot.Model.MayPanic

namespace Argot.MayPanic

def LaunchedAt (P : Prog) (f pos : Nat) (fm : CallForm) : Prop :=
  ∃ h ∈ P, ∃ s ∈ h.gos, f ∈ s.callees ∧ s.pos = pos ∧ s.form = fm

/-- `f` is in the findings and `pos` is among its creation sites -/
def Reported (T : Tables) (excl : List String) (P : Prog) (f pos : Nat) : Prop :=
  ∃ cs, (f, cs) ∈ report T excl P ∧ pos ∈ cs

/-- **C19 at full strength** for an analysis described by the tables `T`: every launch form. -/
def ReportComplete (T : Tables) : Prop :=
  ∀ (excl : List String) (P : Prog), wf P = true → ∀ f pos fm, LaunchedAt P f pos fm →
    excludedFn T excl P f = false → defersRecoverSpec P f = false → Reported T excl P f pos

/-- every launch form is handled -/
def Tables.Complete (T : Tables) : Prop :=
  T.goFn = true ∧ T.goClosure = true ∧ T.goInvoke = true ∧ T.goValue = true

instance (T : Tables) : Decidable T.Complete := by unfold Tables.Complete; infer_instance

/-- the tables of the pinned commit (what is proved today must stay handled) -/
def pinnedTables (allow : List String) : Tables :=
  { goFn := true, goClosure := true, goInvoke := false, goValue := false,
    deferFn := true, deferClosure := true, recoverBuiltin := true, allow := allow }

/-- `T` handles every launch form `S` handles -/
def Tables.coversGo (S T : Tables) : Bool :=
  (!S.goFn || T.goFn) && (!S.goClosure || T.goClosure) && (!S.goInvoke || T.goInvoke) && (!S.goValue || T.goValue)

/-- A run that is terminated by a panic in a goroutine created at `pos` with entry function `f`
(the semantic assumption turns the run into `LaunchedAt`). -/
structure GoroutineCrash (P : Prog) where
  entry : Nat
  pos   : Nat
  form  : CallForm
  launched : LaunchedAt P entry pos form

end Argot.MayPanic
