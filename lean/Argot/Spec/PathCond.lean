/-
Specification side of C02: CFG walks, "the branch edge lies on every path" (`MustPass`), the runtime
meaning of validator conditions, and executions of a function as walks that respect the outcome of
the conditions they branch on.
-/
import Argot.Model.PathCond

namespace Argot.PathCond

/-- consecutive blocks are CFG edges. -/
inductive IsWalk (g : Cfg) : List Nat → Prop
  | nil : IsWalk g []
  | single (a : Nat) : IsWalk g [a]
  | cons {a b : Nat} {rest : List Nat} : b ∈ succsOf g a → IsWalk g (b :: rest) → IsWalk g (a :: b :: rest)

/-- `p` is a walk from `a` to `b` that takes at least one edge (what `FindPathBetweenBlocks` looks
for: it starts from the successors of `begin`). -/
def WalkFromTo (g : Cfg) (a b : Nat) (p : List Nat) : Prop :=
  IsWalk g p ∧ p.head? = some a ∧ p.getLast? = some b ∧ 2 ≤ p.length

def Reach1 (g : Cfg) (a b : Nat) : Prop := ∃ p, WalkFromTo g a b p

/-- `a` is immediately followed by `c` somewhere in `p`. -/
def Consec (p : List Nat) (a c : Nat) : Prop := ∃ l r, p = l ++ a :: c :: r

/-- the edge `a → c` lies on **every** walk from `sb` to `db`. -/
def MustPass (g : Cfg) (sb db a c : Nat) : Prop := ∀ p, WalkFromTo g sb db p → Consec p a c

/-- `t` is the successor taken from the `If` of block `a` when its condition evaluates to `pol`,
as `SimplePathCondition` reads it (successor 0 first, successor 1 only if it is not also successor 0). -/
def BranchEdge (g : Cfg) (a : Nat) (pol : Bool) (t : Nat) : Prop :=
  if pol then (blockOf g a).succs[0]? = some t
  else (blockOf g a).succs[1]? = some t ∧ (blockOf g a).succs[0]? ≠ some t

/-! ### runtime meaning of condition values

`ρ k` is the verdict of the validator call with value id `k` at the moment the condition is
evaluated: `true` = the validator accepted its argument (returned `true`, or a nil error, as its
last result). `verdict ρ e` is the truth value of a boolean `e` / the acceptance denoted by an
error-typed or tuple-typed `e`, when it is determined by the verdicts. -/

abbrev Env := Nat → Bool

def verdict (ρ : Env) : VExpr → Option Bool
  | .call k _ _ _ => some (ρ k)
  | .nilCheck _ x isEq => (verdict ρ x).map (fun v => if isEq then v else !v)
  | .not _ x => (verdict ρ x).map (fun v => !v)
  | .extract _ t isLast => if isLast then verdict ρ t else none
  | _ => none

/-- `k` is a validator call that `e` tests (through `!`, nil checks and tuple extraction). -/
def IsValCall (k : Nat) : VExpr → Prop
  | .call k' _ isVal _ => k' = k ∧ isVal = true
  | .nilCheck _ x _ => IsValCall k x
  | .not _ x => IsValCall k x
  | .extract _ t _ => IsValCall k t
  | _ => False

/-- `b` denotes the value `a` itself, up to tuple projection and interface boxing (SSA values are
immutable, so a verdict about `a` is a verdict about the data in `b`). This is what
`ValuesWithSameData` establishes when its two memory rules are not used. -/
inductive SameReg : VExpr → VExpr → Prop
  | same {a b : VExpr} : a.id = b.id → SameReg a b
  | extract {a t : VExpr} {i : Nat} {l : Bool} : SameReg a t → SameReg a (.extract i t l)
  | boxL {x b : VExpr} {i : Nat} : SameReg x b → SameReg (.makeIface i x) b
  | boxR {a x : VExpr} {i : Nat} : SameReg a x → SameReg a (.makeIface i x)

/-- the call tested by `e` has an argument that is the destination value `arg` itself. -/
def TestsArg (arg : VExpr) : VExpr → Prop
  | .call _ _ _ args => ∃ a ∈ args, SameReg a arg
  | .nilCheck _ x _ => TestsArg arg x
  | .not _ x => TestsArg arg x
  | .extract _ t _ => TestsArg arg t
  | _ => False

/-- `k` is a validator call tested by `e` and applied to the destination value `arg` itself. -/
def IsValCallOn (k : Nat) (arg : VExpr) : VExpr → Prop
  | .call k' _ isVal args => k' = k ∧ isVal = true ∧ ∃ a ∈ args, SameReg a arg
  | .nilCheck _ x _ => IsValCallOn k arg x
  | .not _ x => IsValCallOn k arg x
  | .extract _ t _ => IsValCallOn k arg t
  | _ => False

/-- one step of an execution: from block `a` (whose instructions ran under verdicts `ρ`) to `b`. -/
def StepOK (g : Cfg) (tbl : CondTable) (a : Nat) (ρ : Env) (b : Nat) : Prop :=
  b ∈ succsOf g a ∧
  ((blockOf g a).isIf = true → ∀ x t f, verdict ρ (lookupCond tbl (blockOf g a).cond) = some x →
    (blockOf g a).succs = [t, f] → b = if x then t else f)

/-- an execution fragment: the blocks it goes through, each with the verdicts current when it ran. -/
abbrev Run := List (Nat × Env)

def RunOK (g : Cfg) (tbl : CondTable) : Run → Prop
  | (a, ρ) :: (b, ρ') :: rest => StepOK g tbl a ρ b ∧ RunOK g tbl ((b, ρ') :: rest)
  | _ => True

/-- somewhere on the run a validator call tested by a branch accepted. -/
def Accepted (g : Cfg) (tbl : CondTable) (run : Run) : Prop :=
  ∃ a ρ k, (a, ρ) ∈ run ∧ (blockOf g a).isIf = true ∧
    IsValCall k (lookupCond tbl (blockOf g a).cond) ∧ ρ k = true

/-- the same, and the accepting validator call was applied to the destination value itself. -/
def AcceptedFor (g : Cfg) (tbl : CondTable) (arg : VExpr) (run : Run) : Prop :=
  ∃ a ρ k, (a, ρ) ∈ run ∧ (blockOf g a).isIf = true ∧
    IsValCallOn k arg (lookupCond tbl (blockOf g a).cond) ∧ ρ k = true

/-- **Full-strength statement** (false on the current code, see `validator_drop_sound_false`):
whenever the conditions attached to an edge make the visitor drop it, every execution from the
source block to the destination block goes through an accepting validator check. -/
def ValidatorDropSound : Prop :=
  ∀ (g : Cfg) (tbl : CondTable) (sb si db di : Nat) (arg : VExpr) (cs : List Cond),
    edgeConds g tbl sb si db di arg (fuelBound g) = some cs → dropEdge tbl cs = true →
    ∀ run : Run, RunOK g tbl run → WalkFromTo g sb db (run.map (·.1)) → Accepted g tbl run

end Argot.PathCond
