/-
The pointer machine: the abstract semantics against which C11 / C12 are stated.

A small-step, multi-threaded machine over the first-order SSA facts of `Model/Ptr.lean`.
It deliberately has MORE behaviours than Go:
  * control flow inside a function is ignored (any instruction of the running function may execute
    next, any number of times; SSA dominance is not assumed; registers start as nil);
  * `go` and `defer` both spawn a thread that runs the callee at any later time;
  * a map / channel / array has one cell per concrete index (`CSel.key i`, `val i`, `buf i`, `elem i`)
    and every access picks an arbitrary index;
  * allocation picks an arbitrary object identity (fresh or not);
so that every real execution of the program is (by the trusted-base statement of props/C11.json, validated
by native runs on every check) an execution of the machine, and a soundness theorem over ALL
machine executions covers all real ones.

Objects carry their allocation site; a pointer is (object, concrete path); its abstraction is the
label (site, abstract path).
-/
import Argot.Model.Ptr

namespace Argot.Ptr

inductive CSel where
  | field (n : Nat) | elem (i : Nat) | key (i : Nat) | val (i : Nat) | buf (i : Nat) | pay
  deriving DecidableEq, Repr

def CSel.abs : CSel → ASel
  | .field n => .field n
  | .elem _ => .elem
  | .key _ => .key
  | .val _ => .val
  | .buf _ => .buf
  | .pay => .pay

structure Obj where
  id : Nat
  site : Site
  deriving DecidableEq, Repr

inductive Val where
  | nil
  | ptr (o : Obj) (p : List CSel)
  | fn (f : Nat)
  deriving DecidableEq, Repr

def absPath (p : List CSel) : List ASel := p.map CSel.abs

/-- the label a run-time value is abstracted to -/
def Val.label : Val → Option Label
  | .nil => none
  | .ptr o p => some (o.site, absPath p)
  | .fn f => some (Site.fn f, [])

structure Frame where
  fn : Nat
  regs : Nat → Val
  /-- registers of the caller frame that receive the results -/
  dsts : List Nat

structure Mem where
  /-- cells; the payload of a tagged (interface) object lives at the paths `CSel.pay :: …` -/
  heap : Obj → List CSel → Val
  /-- captured values of closure objects -/
  env : Obj → List Val

def Frame.set (fr : Frame) (r : Nat) (v : Val) : Frame :=
  { fr with regs := fun r' => if r' = r then v else fr.regs r' }

def bind : List Nat → List Val → (Nat → Val) → (Nat → Val)
  | r :: rs, v :: vs, ρ => bind rs vs (fun r' => if r' = r then v else ρ r')
  | _, _, ρ => ρ

def Frame.setMany (fr : Frame) (rs : List Nat) (vs : List Val) : Frame :=
  { fr with regs := bind rs vs fr.regs }

def Mem.setHeap (m : Mem) (o : Obj) (q : List CSel) (v : Val) : Mem :=
  { m with heap := fun o' q' => if o' = o ∧ q' = q then v else m.heap o' q' }

def Mem.setHeapMany (m : Mem) (o : Obj) : List (List CSel × Val) → Mem
  | [] => m
  | c :: cs => (m.setHeap o c.1 c.2).setHeapMany o cs

def Mem.setEnv (m : Mem) (o : Obj) (vs : List Val) : Mem :=
  { m with env := fun o' => if o' = o then vs else m.env o' }

def globObj (g : Nat) : Obj := ⟨0, Site.glob g⟩

def eval (fr : Frame) : Opnd → Val
  | .reg r => fr.regs r
  | .glob g => .ptr (globObj g) []
  | .fn f => .fn f
  | .const => .nil

/-- the concrete cell designated by pointer path `p` and selector `s` -/
def Ext (p : List CSel) (s : List ASel) (q : List CSel) : Prop :=
  ∃ cs : List CSel, absPath cs = s ∧ q = p ++ cs

/-- the cells written by a MakeInterface: one per pointer-like part of the payload -/
def PayCells (fr : Frame) : List (List ASel × Opnd) → List (List CSel × Val) → Prop
  | [], [] => True
  | py :: pay, c :: cells => (∃ cs, absPath cs = py.1 ∧ c.1 = CSel.pay :: cs) ∧ c.2 = eval fr py.2 ∧ PayCells fr pay cells
  | _, _ => False

/-- a call event: (caller function, call-site id, callee function) -/
abbrev Event := Nat × Nat × Nat

/-- what executing one instruction in the top frame does -/
inductive Out where
  | next (fr' : Frame) (m' : Mem)
  | call (callee : Frame) (spawn : Bool) (ev : Event)
  | ret (vals : List Val)

def newFrame (P : Prog) (g : Nat) (captured : List Val) (actuals : List Val) (dsts : List Nat) : Frame :=
  ⟨g, bind (P.fvs g) captured (bind (P.params g) actuals (fun _ => Val.nil)), dsts⟩

/-- resolution of the callee of a call instruction in frame `fr`: (function, captured values, actual
parameters) -/
inductive Resolve (P : Prog) (fr : Frame) (m : Mem) (args : List Opnd) : Callee → Nat → List Val → List Val → Prop
  | static (g : Nat) : Resolve P fr m args (.static g) g [] (args.map (eval fr))
  | func (x : Opnd) (g : Nat) : eval fr x = .fn g → Resolve P fr m args (.dyn x) g [] (args.map (eval fr))
  | closure (x : Opnd) (o : Obj) (g : Nat) : eval fr x = .ptr o [] → o.site = Site.fn g →
      Resolve P fr m args (.dyn x) g (m.env o) (args.map (eval fr))
  | invoke (x : Opnd) (mth : Nat) (o : Obj) (n t g : Nat) (paths : List (List ASel)) (cells : List (List CSel)) :
      eval fr x = .ptr o [] → o.site = Site.iface n t →
      P.method t mth = some (g, paths) → cells.map absPath = paths →
      Resolve P fr m args (.invoke x mth) g []
        ((cells.map fun cs => m.heap o (CSel.pay :: cs)) ++ args.map (eval fr))

inductive Exec (P : Prog) (fr : Frame) (m : Mem) : Instr → Out → Prop
  | alloc (r n id : Nat) : Exec P fr m (.alloc r n) (.next (fr.set r (.ptr ⟨id, Site.alloc n⟩ [])) m)
  | copy (r : Nat) (x : Opnd) : Exec P fr m (.copy r x) (.next (fr.set r (eval fr x)) m)
  | addr (r : Nat) (x : Opnd) (s : ASel) (o : Obj) (p : List CSel) (cs : CSel) :
      eval fr x = .ptr o p → cs.abs = s → Exec P fr m (.addr r x s) (.next (fr.set r (.ptr o (p ++ [cs]))) m)
  | load (r : Nat) (x : Opnd) (s : List ASel) (o : Obj) (p q : List CSel) :
      eval fr x = .ptr o p → Ext p s q → Exec P fr m (.load r x s) (.next (fr.set r (m.heap o q)) m)
  | store (x : Opnd) (s : List ASel) (v : Opnd) (o : Obj) (p q : List CSel) :
      eval fr x = .ptr o p → Ext p s q → Exec P fr m (.store x s v) (.next fr (m.setHeap o q (eval fr v)))
  | hcopy (x : Opnd) (sx : List ASel) (y : Opnd) (sy : List ASel) (only : Option Site) (o o' : Obj) (p p' q q' : List CSel) :
      eval fr x = .ptr o p → eval fr y = .ptr o' p' → Ext p sx q → Ext p' sy q' →
      (∀ st, only = some st → o.site = st) →
      Exec P fr m (.hcopy x sx y sy only) (.next fr (m.setHeap o q (m.heap o' q')))
  | mkiface (r n t : Nat) (pay : List (List ASel × Opnd)) (id : Nat) (cells : List (List CSel × Val)) :
      PayCells fr pay cells →
      Exec P fr m (.mkiface r n t pay)
        (.next (fr.set r (.ptr ⟨id, Site.iface n t⟩ [])) (m.setHeapMany ⟨id, Site.iface n t⟩ cells))
  | tassert (r : Nat) (x : Opnd) (t : Nat) (π : List ASel) (o : Obj) (n : Nat) (cs : List CSel) :
      eval fr x = .ptr o [] → o.site = Site.iface n t → absPath cs = π →
      Exec P fr m (.tassert r x t π) (.next (fr.set r (m.heap o (CSel.pay :: cs))) m)
  | tfilter (r : Nat) (x : Opnd) (ts : List Nat) (o : Obj) (n t : Nat) :
      eval fr x = .ptr o [] → o.site = Site.iface n t → t ∈ ts → Exec P fr m (.tfilter r x ts) (.next (fr.set r (.ptr o [])) m)
  | mkclosure (r g : Nat) (bs : List Opnd) (id : Nat) :
      Exec P fr m (.mkclosure r g bs)
        (.next (fr.set r (.ptr ⟨id, Site.fn g⟩ [])) (m.setEnv ⟨id, Site.fn g⟩ (bs.map (eval fr))))
  | call (c : Nat) (callee : Callee) (args : List Opnd) (dsts : List Nat) (spawn : Bool)
      (g : Nat) (captured actuals : List Val) :
      Resolve P fr m args callee g captured actuals →
      Exec P fr m (.call c callee args dsts spawn)
        (.call (newFrame P g captured actuals (if spawn then [] else dsts)) spawn (fr.fn, c, g))
  | ret (vs : List Opnd) : Exec P fr m (.ret vs) (.ret (vs.map (eval fr)))

/-- one step of one thread (a stack of frames) over the shared memory; the third component of the
result is a newly spawned thread's initial frame -/
inductive TStep (P : Prog) : List Frame → Mem → Option Event → List Frame → Mem → Option Frame → Prop
  | next (fr : Frame) (stk : List Frame) (m : Mem) (i : Instr) (fr' : Frame) (m' : Mem) :
      i ∈ P.code fr.fn → Exec P fr m i (.next fr' m') → TStep P (fr :: stk) m none (fr' :: stk) m' none
  | call (fr : Frame) (stk : List Frame) (m : Mem) (i : Instr) (nf : Frame) (ev : Event) :
      i ∈ P.code fr.fn → Exec P fr m i (.call nf false ev) → TStep P (fr :: stk) m (some ev) (nf :: fr :: stk) m none
  | spawn (fr : Frame) (stk : List Frame) (m : Mem) (i : Instr) (nf : Frame) (ev : Event) :
      i ∈ P.code fr.fn → Exec P fr m i (.call nf true ev) → TStep P (fr :: stk) m (some ev) (fr :: stk) m (some nf)
  | ret (fr caller : Frame) (stk : List Frame) (m : Mem) (i : Instr) (vals : List Val) :
      i ∈ P.code fr.fn → Exec P fr m i (.ret vals) →
      TStep P (fr :: caller :: stk) m none (caller.setMany fr.dsts vals :: stk) m none
  | exit (fr : Frame) (m : Mem) (i : Instr) (vals : List Val) :
      i ∈ P.code fr.fn → Exec P fr m i (.ret vals) → TStep P [fr] m none [] m none

structure State where
  threads : List (List Frame)
  mem : Mem

inductive Step (P : Prog) : State → Option Event → State → Prop
  | mk (pre post : List (List Frame)) (stk stk' : List Frame) (m m' : Mem) (ev : Option Event) (sp : Option Frame) :
      TStep P stk m ev stk' m' sp →
      Step P ⟨pre ++ stk :: post, m⟩ ev ⟨pre ++ stk' :: post ++ (sp.toList.map fun f => [f]), m'⟩

def emptyMem : Mem := ⟨fun _ _ => .nil, fun _ => []⟩

/-- initial states: one thread per root function (`init`, `main`; running them concurrently includes
running them one after the other), empty registers, empty memory -/
def initState (P : Prog) : State :=
  ⟨P.roots.map fun g => [⟨g, fun _ => Val.nil, []⟩], emptyMem⟩

inductive Reachable (P : Prog) : State → Prop
  | init : Reachable P (initState P)
  | step {σ σ' : State} {ev : Option Event} : Reachable P σ → Step P σ ev σ' → Reachable P σ'

end Argot.Ptr
