/-
C18, specification side: an RTA-style abstract execution semantics over the dumped facts.

`Exec P roots f` — "f may execute in some run started from `roots`" — is the least set that contains the
roots and is closed under
  * ref:    an executed function mentions the function `g` as an operand of one of its instructions
            (static call, go, defer, argument, stored / returned / captured / sent function value …);
  * invoke: an executed function invokes method `c.method` on an interface value, an executed function
            converts a value of a concrete type to an interface (`MakeInterface`, method set `m.mset`),
            the conversion may flow to the receiver (`canFlow`), and `g` is that type's method.
`canFlow` encodes the typing fact that, in a program without interface-to-interface widening
(`TypeAssert` to an interface that has methods), an interface value of static type J holding a value
converted to interface I satisfies methods(J) ⊆ methods(I) (or I is the empty interface).

Modelled, not verified (validated by native runs that log every function entry): real executions of
programs without reflection / cgo / unsafe stay inside `Exec` for roots = {main.main, main.init}.
-/
import Argot.Model.Reach

namespace Argot.Reach

inductive Exec (P : Prog) (roots : List Nat) : Nat → Prop
  | root {r : Nat} : r ∈ roots → Exec P roots r
  | ref {f g : Nat} : Exec P roots f → g ∈ funcRefs (fnAt P f) → Exec P roots g
  | invoke {f f' g : Nat} {ins ins' : Instr} {c : CallInfo} {m : MkIface} :
      Exec P roots f → ins ∈ (fnAt P f).instrs → ins.call = some c → c.invoke = true →
      Exec P roots f' → ins' ∈ (fnAt P f').instrs → ins'.conv = some m →
      canFlow P m c = true → (c.method, g) ∈ m.mset → Exec P roots g

/-- every operand position that can hold a function value is visited, and the three mechanisms of
`findCallees` that soundness relies on are present (a `decide` obligation over the regenerated table) -/
def OperandTableComplete (T : Tables) : Prop :=
  (∀ p ∈ canHoldFunc, p ∈ T.instrOps) ∧ T.mkIface = true ∧ T.valueActionFn = true ∧ T.instrLoop = true

instance (T : Tables) : Decidable (OperandTableComplete T) := by
  unfold OperandTableComplete; infer_instance

def NoInterfaceWidening (P : Prog) : Prop := hasWidening P = false

/-- the successor relation of the worklist -/
def Callee (T : Tables) (P : Prog) (f g : Nat) : Prop := g ∈ findCallees T P f

/-- the instruction operand table BEFORE the repair of F8 (repository commit 3c101cd): the arguments of
`Defer` and `Go` are missing.  Kept as a literal for the negation witnesses. -/
def oldInstrOps : List (String × String) :=
  [("BinOp", "X"), ("BinOp", "Y"), ("Call", "Args"), ("Call", "Value"), ("ChangeInterface", "X"), ("ChangeType", "X"),
   ("Convert", "X"), ("DebugRef", "X"), ("Defer", "Value"), ("Extract", "Tuple"), ("Field", "X"), ("FieldAddr", "X"),
   ("Go", "Value"), ("If", "Cond"), ("Index", "Index"), ("Index", "X"), ("IndexAddr", "Index"), ("IndexAddr", "X"),
   ("Lookup", "Index"), ("Lookup", "X"), ("MakeChan", "Size"), ("MakeClosure", "Bindings"), ("MakeClosure", "Fn"),
   ("MakeInterface", "X"), ("MakeMap", "Reserve"), ("MakeSlice", "Cap"), ("MakeSlice", "Len"), ("MapUpdate", "Key"),
   ("MapUpdate", "Map"), ("MapUpdate", "Value"), ("Next", "Iter"), ("Panic", "X"), ("Phi", "Edges"), ("Range", "X"),
   ("Return", "Results"), ("Select", "Chan"), ("Select", "Send"), ("Send", "Chan"), ("Send", "X"), ("Slice", "X"),
   ("Slice", "Low"), ("Slice", "High"), ("Slice", "Max"), ("Store", "Addr"), ("Store", "Val"), ("TypeAssert", "X"),
   ("UnOp", "X")]

/-- the operand table of the pinned code (after the repair): the old one plus the arguments of Defer and Go -/
def pinnedInstrOps : List (String × String) := ("Defer", "Args") :: ("Go", "Args") :: oldInstrOps

def pinnedValueOps : List (String × String) :=
  [("BinOp", "X"), ("BinOp", "Y"), ("Call", "Args"), ("Call", "Value"), ("ChangeInterface", "X"), ("ChangeType", "X"),
   ("Convert", "X"), ("Extract", "Tuple"), ("Field", "X"), ("FieldAddr", "X"), ("Function", "AnonFuncs"),
   ("Function", "FreeVars"), ("Function", "Locals"), ("Function", "Params"), ("Index", "Index"), ("Index", "X"),
   ("IndexAddr", "Index"), ("IndexAddr", "X"), ("Lookup", "Index"), ("Lookup", "X"), ("MakeChan", "Size"),
   ("MakeClosure", "Bindings"), ("MakeClosure", "Fn"), ("MakeInterface", "X"), ("MakeMap", "Reserve"),
   ("MakeSlice", "Cap"), ("MakeSlice", "Len"), ("Next", "Iter"), ("Phi", "Edges"), ("Range", "X"), ("Select", "Chan"),
   ("Select", "Send"), ("Slice", "High"), ("Slice", "Low"), ("Slice", "Max"), ("Slice", "X"), ("TypeAssert", "X"),
   ("UnOp", "X")]

def pinnedTables : Tables :=
  { instrOps := pinnedInstrOps, valueOps := pinnedValueOps, goFn := true, goClosure := true, mkIface := true,
    valueActionFn := true, instrLoop := true }

/-- the tables before the repair of F8 -/
def oldTables : Tables := { pinnedTables with instrOps := oldInstrOps }

/-- `T` visits / handles everything `S` does -/
def Tables.covers (S T : Tables) : Bool :=
  S.instrOps.all (fun p => T.instrOps.contains p) && S.valueOps.all (fun p => T.valueOps.contains p) &&
  (!S.goFn || T.goFn) && (!S.goClosure || T.goClosure) && (!S.mkIface || T.mkIface) &&
  (!S.valueActionFn || T.valueActionFn) && (!S.instrLoop || T.instrLoop)

end Argot.Reach
