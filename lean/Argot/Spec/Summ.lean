/- Hand-written expectations about the regenerated standard-library summary table (C09). -/
namespace Argot.Summ

/-- Rows known not to fit their signature on the pinned tree (one known finding per row in
/verif/known_findings.json, keyed `std-misfit:<key>`; the driver checks that the two lists agree).
A row listed here that has been repaired simply conforms; a row *not* listed here that stops
conforming breaks `std_table_conforms`. -/
def knownMisfits : List String := [
  "(*bufio.Scanner).Scan", "(*bufio.Scanner).Split", "(*encoding/json.Decoder).UseNumber",
  "flag.BoolVar", "flag.Float64Var", "flag.IntVar", "flag.StringVar", "flag.Uint64Var", "flag.UintVar",
  "log.Printf", "(*net/http.Request).WithContext", "net/url.Parse", "strconv.ParseFloat", "strings.Join",
  "(*sync.Map).Delete", "(*time.Ticker).Stop" ]

end Argot.Summ
