/- Line-protocol driver for the taint visitor model (C01).
   graph <fn> <constructed> <callsites> <params> <freevars> <referring>          (ids by order of appearance)
   node <kind> <graph> <index> <parent> <sink> <san> <flt> <callee> <site> <csum> <args> <cls> <clsum> <bvs> <w> <rl> <dcn>
   edge <src> <dst> <index> <validated>     rel <=in> <=out>   (applies to the last edge)
   run <id> <src node> <fuel> <trace>   ->   res <id> term=.. ebe=.. lassocut=.. visited=.. flows=..
   c06run <id> <src node> <fuel> <trace>  ->  c06 <id> term=.. ebe=.. keydet=.. domain=.. visited=.. flows=..
       (C06: the per-run criterion `Argot.C06Real.inProvedDomain` of Props/C06Real.lean)
   reset
   lists are comma separated, "-" = empty list, "_" = none -/
import Argot.Model.TaintVisit
import Argot.Model.C06Real
open Argot.TaintVisit Argot

def pNats (s : String) : Option (List Nat) :=
  if s == "-" then some [] else (s.splitOn ",").mapM String.toNat?

def pOptNat (s : String) : Option (Option Nat) :=
  if s == "_" then some none else s.toNat?.map some

def pOptNats (s : String) : Option (List (Option Nat)) :=
  if s == "-" then some [] else (s.splitOn ",").mapM pOptNat

def pBool (s : String) : Option Bool :=
  if s == "1" then some true else if s == "0" then some false else none

def pInt (s : String) : Option Int :=
  if s.startsWith "-" then (s.drop 1).toNat?.map fun n => -(n : Int) else s.toNat?.map fun n => (n : Int)

def pKind : String → Option NKind
  | "param" => some .param | "callArg" => some .callArg | "call" => some .call | "ret" => some .ret
  | "closure" => some .closure | "boundVar" => some .boundVar | "freeVar" => some .freeVar
  | "global" => some .global | "synthetic" => some .synthetic | "boundLabel" => some .boundLabel
  | "ifNode" => some .ifNode | "other" => some .other | _ => none

def pStr (s : String) : Option String := if s.startsWith "=" then some (s.drop 1).toString else none

def insertSorted (x : Nat) : List Nat → List Nat
  | [] => [x]
  | y :: ys => if x < y then x :: y :: ys else if x == y then y :: ys else y :: insertSorted x ys

def showNats (l : List Nat) : String :=
  if l.isEmpty then "-" else ",".intercalate (l.map toString)

structure St where
  g : LGraph := {}
  lastSrc : Nat := 0
  bad : Nat := 0

def addEdge (st : St) (src : Nat) (e : Edge) : St :=
  if h : src < st.g.nodes.size then
    let n := st.g.nodes[src]
    { st with g := { st.g with nodes := st.g.nodes.set src { n with out := n.out ++ [e] } }, lastSrc := src }
  else { st with bad := st.bad + 1 }

def addRel (st : St) (i o : String) : St :=
  if h : st.lastSrc < st.g.nodes.size then
    let n := st.g.nodes[st.lastSrc]
    match n.out.reverse with
    | [] => { st with bad := st.bad + 1 }
    | e :: rest =>
      let e' := { e with rel := e.rel ++ [(i, o)] }
      { st with g := { st.g with nodes := st.g.nodes.set st.lastSrc { n with out := (e' :: rest).reverse } } }
  else { st with bad := st.bad + 1 }

def b01 (x : Bool) : String := if x then "1" else "0"

def answer (st : St) (id : String) (src fuel : Nat) (trace : List Nat) : String :=
  let s := run st.g src trace fuel
  let term := s.queue.isEmpty
  let flows := (flowsOf st.g s).foldl (fun acc x => insertSorted x acc) []
  let ebe := entryBeforeExit st.g src trace s
  -- was any candidate of a visited item dropped by the lasso cut-off?
  let cutAny := lassoCut st.g src trace s
  let pcut := pathCut st.g src trace s
  -- the full-key traversal is only needed to attribute a miss when EntryBeforeExit fails; its key
  -- set (tracing info is part of it) can be large, so it gets a small budget: an unfinished ideal
  -- run is inconclusive (idealterm=0) and attributes nothing
  let si := if ebe then ({ queue := [], seen := [], visited := [] } : Closure.State Item KeyFull)
            else runIdeal st.g src trace (min fuel 3000)
  let iflows := if ebe then flows else (flowsOfIdeal st.g si).foldl (fun acc x => insertSorted x acc) []
  s!"res {id} term={b01 term} ebe={b01 ebe} lassocut={b01 cutAny} pathcut={b01 pcut} visited={s.visited.length} bad={st.bad} flows={showNats flows} idealterm={b01 si.queue.isEmpty} ideal={showNats iflows}"

/-- C06: the decidable criterion of `taint_deterministic_of_flags`, evaluated on the model's own run -/
def answerC06 (st : St) (id : String) (src fuel : Nat) (trace : List Nat) : String :=
  let s := run st.g src trace fuel
  let flows := (flowsOf st.g s).foldl (fun acc x => insertSorted x acc) []
  s!"c06 {id} term={b01 s.queue.isEmpty} ebe={b01 (entryBeforeExit st.g src trace s)} keydet={b01 (Argot.C06Real.keyDetOn st.g src trace s)} domain={b01 (Argot.C06Real.inProvedDomain st.g src trace fuel)} visited={s.visited.length} bad={st.bad} flows={showNats flows}"

def showItem (a : Item) : String :=
  s!"(node {a.node} trace {a.trace} ctrace {a.ctrace} ct {a.ct} tinfo {a.tinfo} paths {a.paths} prev {a.prev})"

/-- witnesses of a failing EntryBeforeExit: offered candidate, successor nobody offers -/
def explain (st : St) (src fuel : Nat) (trace : List Nat) : List String :=
  let s := run st.g src trace fuel
  let off := offered st.g src trace s
  (off.flatMap fun c => (succ st.g src c).filterMap fun c' =>
    if off.any (fun o => equiv st.g o c') then none
    else some s!"offered {showItem c} flag={flag st.g c} visitedRep={(s.visited.filter (fun v => key v == key c)).map showItem} -> lacks {showItem c'}").take 6

partial def loop (h : IO.FS.Stream) (st : St) : IO Unit := do
  let line ← h.getLine
  if line.isEmpty then return ()
  let ws := (line.trimAscii.toString.splitOn " ").filter (· ≠ "")
  match ws with
  | ["reset"] => loop h {}
  | ["graph", fn, c, cs, ps, fvs, rf] =>
    match fn.toNat?, pBool c, pNats cs, pOptNats ps, pOptNats fvs, pNats rf with
    | some fn, some c, some cs, some ps, some fvs, some rf =>
      let gr : Graph := { fn := fn, constructed := c, callsites := cs, params := ps, freeVars := fvs, referring := rf }
      loop h { st with g := { st.g with graphs := st.g.graphs.push gr } }
    | _, _, _, _, _, _ => loop h { st with bad := st.bad + 1 }
  | ["node", k, g, idx, par, snk, san, flt, callee, site, csum, args, cls, clsum, bvs, w, rl, dcn] =>
    match pKind k, g.toNat?, idx.toNat?, par.toNat?, pBool snk, pBool san, pBool flt, callee.toNat?, site.toNat? with
    | some k, some g, some idx, some par, some snk, some san, some flt, some callee, some site =>
      match pOptNat csum, pNats args, cls.toNat?, pOptNat clsum, pNats bvs, pBool w, pNats rl, pOptNat dcn with
      | some csum, some args, some cls, some clsum, some bvs, some w, some rl, some dcn =>
        let nd : Node :=
          { kind := k, graph := g, index := idx, parent := par, sink := snk, sanitizer := san, filtered := flt,
            callee := callee, callSite := site, calleeSummary := csum, args := args, lassoClass := cls,
            closureSummary := clsum, boundVars := bvs, isWrite := w, readLocs := rl, destClosureNode := dcn }
        loop h { st with g := { st.g with nodes := st.g.nodes.push nd } }
      | _, _, _, _, _, _, _, _ => loop h { st with bad := st.bad + 1 }
    | _, _, _, _, _, _, _, _, _ => loop h { st with bad := st.bad + 1 }
  | ["edge", s, d, i, v] =>
    match s.toNat?, d.toNat?, pInt i, pBool v with
    | some s, some d, some i, some v => loop h (addEdge st s { dst := d, index := i, validated := v })
    | _, _, _, _ => loop h { st with bad := st.bad + 1 }
  | ["rel", i, o] =>
    match pStr i, pStr o with
    | some i, some o => loop h (addRel st i o)
    | _, _ => loop h { st with bad := st.bad + 1 }
  | ["run", id, src, fuel, tr] =>
    match src.toNat?, fuel.toNat?, pNats tr with
    | some src, some fuel, some tr => IO.println (answer st id src fuel tr)
    | _, _, _ => IO.println s!"bad-record {id}"
    loop h st
  | ["c06run", id, src, fuel, tr] =>
    match src.toNat?, fuel.toNat?, pNats tr with
    | some src, some fuel, some tr => IO.println (answerC06 st id src fuel tr)
    | _, _, _ => IO.println s!"bad-record {id}"
    loop h st
  | ["explain", src, fuel, tr] =>
    match src.toNat?, fuel.toNat?, pNats tr with
    | some src, some fuel, some tr => for l in explain st src fuel tr do IO.println s!"why {l}"
    | _, _, _ => IO.println "bad-record"
    loop h st
  | [] => loop h st
  | _ => loop h { st with bad := st.bad + 1 }

def main : IO Unit := do loop (← IO.getStdin) {}
