/- Line-protocol driver for the path-condition / validator model (C02).

   fn <id>                          start a function (resets blocks and the condition table)
   blk <succs|-> <isIf> <condId>    next block (index order)
   val <condId> <vexpr…>            unfolding of an If condition value
   path <b> <e>                     -> path <b> <e> F <blocks> C <conds|->   |  … N  |  … O
   edge <tag> <sb> <si> <db> <di> <vexpr…>
                                    -> edge <tag> none | edge <tag> C <conds|-> D <0|1> J <0|1> R <0|1>
   vc <pol> <vexpr…>                -> vc <0|1>                 (isValidatorCond)
   pred <condId> <vexpr…>           -> pred <0|1>               (isPredTo arg (cond value))
   same <vexpr…> | <vexpr…>         -> same <0|1>               (sameData)
   must <sb> <db> <pol> <condId>    -> must <0|1>               (condMustPass)
   drop <sb> <db> <conds|-> <vexpr…> -> drop D <0|1> J <0|1>    (dropEdge / dropJustified on those of the given
                                                                 conditions that are predicates to the argument)

   vexpr tokens (prefix): call id pred isVal n a1 … an | nil id isEq x | bin id | not id x | load id x
                          | un id | fa id x | ext id isLast t | mi id x | leaf id
   Malformed records are answered `bad-record`, never defaulted. -/
import Argot.Model.PathCond
open Argot.PathCond

def parseNats (s : String) : Option (List Nat) :=
  if s == "-" then some [] else (s.splitOn ",").mapM String.toNat?

def parseBool (s : String) : Option Bool :=
  if s == "1" then some true else if s == "0" then some false else none

/-- prefix parser; returns the expression and the remaining tokens. -/
partial def parseV : List String → Option (VExpr × List String)
  | "call" :: id :: pred :: isVal :: n :: rest => do
    let id ← id.toNat?; let pred ← parseBool pred; let isVal ← parseBool isVal; let n ← n.toNat?
    let rec args (k : Nat) (toks : List String) (acc : List VExpr) : Option (List VExpr × List String) :=
      if k = 0 then some (acc.reverse, toks) else do
        let (a, toks') ← parseV toks
        args (k - 1) toks' (a :: acc)
    let (as, rest') ← args n rest []
    pure (.call id pred isVal as, rest')
  | "nil" :: id :: isEq :: rest => do
    let id ← id.toNat?; let isEq ← parseBool isEq
    let (x, r) ← parseV rest
    pure (.nilCheck id x isEq, r)
  | "bin" :: id :: rest => do pure (.binOther (← id.toNat?), rest)
  | "not" :: id :: rest => do
    let id ← id.toNat?
    let (x, r) ← parseV rest
    pure (.not id x, r)
  | "load" :: id :: rest => do
    let id ← id.toNat?
    let (x, r) ← parseV rest
    pure (.load id x, r)
  | "un" :: id :: rest => do pure (.unOther (← id.toNat?), rest)
  | "fa" :: id :: rest => do
    let id ← id.toNat?
    let (x, r) ← parseV rest
    pure (.fieldAddr id x, r)
  | "ext" :: id :: isLast :: rest => do
    let id ← id.toNat?; let isLast ← parseBool isLast
    let (x, r) ← parseV rest
    pure (.extract id x isLast, r)
  | "mi" :: id :: rest => do
    let id ← id.toNat?
    let (x, r) ← parseV rest
    pure (.makeIface id x, r)
  | "leaf" :: id :: rest => do pure (.leaf (← id.toNat?), rest)
  | _ => none

def parseVAll (toks : List String) : Option VExpr :=
  match parseV toks with
  | some (v, []) => some v
  | _ => none

def parseCond (s : String) : Option Cond :=
  match s.toList with
  | '+' :: r => (String.ofList r).toNat?.map fun n => (true, n)
  | '-' :: r => (String.ofList r).toNat?.map fun n => (false, n)
  | _ => none

def parseConds (s : String) : Option (List Cond) :=
  if s == "-" then some [] else (s.splitOn ",").mapM parseCond

def showConds (cs : List Cond) : String :=
  if cs.isEmpty then "-" else ",".intercalate (cs.map fun c => (if c.1 then "+" else "-") ++ toString c.2)

def showNats (l : List Nat) : String :=
  if l.isEmpty then "-" else ",".intercalate (l.map toString)

def b01 (b : Bool) : String := if b then "1" else "0"

structure PAcc where
  id : String := ""
  blocks : Array Block := #[]
  tbl : CondTable := []

partial def loop (h : IO.FS.Stream) (acc : PAcc) : IO Unit := do
  let line ← h.getLine
  if line.isEmpty then return ()
  let ws := (line.trimAscii.toString.splitOn " ").filter (· ≠ "")
  let g : Cfg := acc.blocks.toList
  let bad : IO Unit := IO.println s!"bad-record {line.trimAscii.toString}"
  match ws with
  | ["fn", id] => loop h { id := id }
  | ["blk", ss, isIf, c] =>
    match parseNats ss, parseBool isIf, c.toNat? with
    | some s, some i, some c => loop h { acc with blocks := acc.blocks.push ⟨s, i, c⟩ }
    | _, _, _ => bad; loop h acc
  | "val" :: c :: rest =>
    match c.toNat?, parseVAll rest with
    | some c, some v => loop h { acc with tbl := acc.tbl ++ [(c, v)] }
    | _, _ => bad; loop h acc
  | ["path", b, e] =>
    match b.toNat?, e.toNat? with
    | some b, some e =>
      (match findPath g b e (fuelBound g) with
        | .found p => IO.println s!"path {b} {e} F {showNats p} C {showConds (pathConds g p)}"
        | .notFound => IO.println s!"path {b} {e} N"
        | .outOfFuel => IO.println s!"path {b} {e} O")
      loop h acc
    | _, _ => bad; loop h acc
  | "edge" :: tag :: sb :: si :: db :: di :: rest =>
    match sb.toNat?, si.toNat?, db.toNat?, di.toNat?, parseVAll rest with
    | some sb, some si, some db, some di, some arg =>
      (match edgeConds g acc.tbl sb si db di arg (fuelBound g) with
        | none => IO.println s!"edge {tag} none"
        | some cs =>
          IO.println s!"edge {tag} C {showConds cs} D {b01 (dropEdge acc.tbl cs)} J {b01 (dropJustified g acc.tbl sb db cs)} R {b01 (dropJustifiedReg g acc.tbl sb db arg cs)}")
      loop h acc
    | _, _, _, _, _ => bad; loop h acc
  | "vc" :: pol :: rest =>
    match parseBool pol, parseVAll rest with
    | some pol, some v => IO.println s!"vc {b01 (isValidatorCond v pol)}"; loop h acc
    | _, _ => bad; loop h acc
  | "pred" :: c :: rest =>
    match c.toNat?, parseVAll rest with
    | some c, some arg => IO.println s!"pred {b01 (isPredTo arg (lookupCond acc.tbl c))}"; loop h acc
    | _, _ => bad; loop h acc
  | "same" :: rest =>
    match rest.span (· ≠ "|") with
    | (l, _ :: r) =>
      match parseVAll l, parseVAll r with
      | some a, some b => IO.println s!"same {b01 (sameData (sameDataFuel a b) a b)}"; loop h acc
      | _, _ => bad; loop h acc
    | _ => bad; loop h acc
  | ["must", sb, db, pol, c] =>
    match sb.toNat?, db.toNat?, parseBool pol, c.toNat? with
    | some sb, some db, some pol, some c =>
      IO.println s!"must {b01 (condMustPass g sb db (pol, c))}"; loop h acc
    | _, _, _, _ => bad; loop h acc
  | "drop" :: sb :: db :: cs :: rest =>
    match sb.toNat?, db.toNat?, parseConds cs, parseVAll rest with
    | some sb, some db, some cs, some arg =>
      let cs' := asPredicateTo acc.tbl arg cs
      IO.println s!"drop D {b01 (dropEdge acc.tbl cs')} J {b01 (dropJustified g acc.tbl sb db cs')}"; loop h acc
    | _, _, _, _ => bad; loop h acc
  | [] => loop h acc
  | _ => bad; loop h acc

def main : IO Unit := do loop (← IO.getStdin) {}
