/- Line-protocol driver for the backward-traversal model (C03).

   graph <ngraphs> <nnodes>         start a new graph (forgets the previous one)
   g <gid> <constructed> <callsites> <refClosures>
   n <id> <kind> <gid> <index> <parent> <nillable> <bound> <ins> <outs> <calleeGraph> <args>
     <calleeParams> <rets> <siteKey> <bvs> <closGraph> <closFvs> <writes> <goDefer> <isPoint>
   cfg <onDemand> <skipBoundLabels>
   hyp                              -> hyp tuple=<0|1> entries=<..> points=<..>
   trace <id> <n0,n1,…>             -> trace <id> wf=<0|1> weak=<0|1> replay=<0|1>      (a REAL trace, origin first)
   run <id> <entry> <fuel>          -> run <id> fin=.. inc=.. panic=.. traces=t1;t2;…    (model, dump order)
   lists are comma separated, `-` = empty; edges are `node:index`; -1 = none for option fields. -/
import Argot.Model.BackVisit
open Argot.BackVisit

def parseNats (s : String) : Option (List Nat) :=
  if s == "-" then some [] else (s.splitOn ",").mapM String.toNat?

def parseInt (s : String) : Option Int :=
  if s.startsWith "-" then (s.drop 1).toNat?.map fun n => -(n : Int) else s.toNat?.map fun n => (n : Int)

def parseOptNat (s : String) : Option (Option Nat) :=
  if s == "-1" then some none else s.toNat?.map some

def parseOptNats (s : String) : Option (List (Option Nat)) :=
  if s == "-" then some [] else (s.splitOn ",").mapM parseOptNat

def parseEdges (s : String) : Option (List (Nat × Int)) :=
  if s == "-" then some [] else
  (s.splitOn ",").mapM fun e =>
    match e.splitOn ":" with
    | [a, b] => do let x ← a.toNat?; let y ← parseInt b; pure (x, y)
    | _ => none

def parseKind : String → Option NKind
  | "P" => some .param | "A" => some .arg | "C" => some .call | "R" => some .ret | "S" => some .synth
  | "G" => some .gread | "W" => some .gwrite | "B" => some .boundVar | "F" => some .freeVar
  | "K" => some .closure | "L" => some .boundLabel | "I" => some .ifn | _ => none

def parseBool : String → Option Bool
  | "0" => some false | "1" => some true | _ => none

def parseNode (ws : List String) : Option (Nat × Node) :=
  match ws with
  | [id, k, g, idx, par, nill, bnd, ins, outs, cg, args, cp, rets, sk, bvs, kg, fvs, wr, gd, pt] => do
    let id ← id.toNat?
    let kind ← parseKind k
    let graph ← g.toNat?
    let index ← idx.toNat?
    let parent := ((parseOptNat par).getD none).getD 0
    let nillable ← parseBool nill
    let bound ← parseBool bnd
    let ins ← parseEdges ins
    let outs ← parseEdges outs
    let calleeGraph ← parseOptNat cg
    let args ← parseNats args
    let calleeParam ← parseOptNats cp
    let rets ← parseNats rets
    let siteKey := ((parseOptNat sk).getD none).getD 0
    let bvs ← parseNats bvs
    let closGraph ← parseOptNat kg
    let closFvs ← parseOptNats fvs
    let writes ← parseNats wr
    let goDefer ← parseBool gd
    let isPoint ← parseBool pt
    pure (id, { kind, graph, index, parent, nillable, bound, ins, outs, calleeGraph, args, calleeParam,
                rets, siteKey, bvs, closGraph, closFvs, writes, goDefer, isPoint })
  | _ => none

structure OSt where
  nodes : Array Node := #[]
  graphs : Array GraphInfo := #[]
  cfg : Cfg := {}
  bad : Bool := false

def showNats (l : List Nat) : String := if l.isEmpty then "-" else ",".intercalate (l.map toString)
def b01 (b : Bool) : String := if b then "1" else "0"

partial def loopIO (h : IO.FS.Stream) (st : OSt) : IO Unit := do
  let line ← h.getLine
  if line.isEmpty then return ()
  let ws := (line.trimAscii.toString.splitOn " ").filter (· ≠ "")
  let G : LGraph := { nodes := st.nodes, graphs := st.graphs }
  match ws with
  | ["graph", _, _] => loopIO h {}
  | ["g", gid, c, cs, rc] =>
    match gid.toNat?, parseBool c, parseNats cs, parseNats rc with
    | some gid, some c, some cs, some rc =>
      if gid == st.graphs.size then
        loopIO h { st with graphs := st.graphs.push { constructed := c, callsites := cs, refClosures := rc } }
      else loopIO h { st with bad := true }
    | _, _, _, _ => loopIO h { st with bad := true }
  | "n" :: rest =>
    match parseNode rest with
    | some (id, nd) =>
      if id == st.nodes.size then loopIO h { st with nodes := st.nodes.push nd }
      else loopIO h { st with bad := true }
    | none => loopIO h { st with bad := true }
  | ["cfg", od, sb] =>
    match parseBool od, parseBool sb with
    | some od, some sb => loopIO h { st with cfg := { onDemand := od, skipBoundLabels := sb } }
    | _, _ => loopIO h { st with bad := true }
  | ["hyp"] =>
    if st.bad then IO.println "bad-record hyp" else
    IO.println s!"hyp tuple={b01 (tupleConsistent G)} wk={b01 (wellKinded G)} intra={b01 (intraEdges G)} entries={showNats (entryArgs G)} points={showNats (pointArgs G)}"
    loopIO h st
  | ["reach", id, entry, fuel] =>
    match entry.toNat?, fuel.toNat? with
    | some e, some f =>
      if st.bad then IO.println s!"bad-record reach {id}" else
      let ks := greach G st.cfg f e
      let leaves := ((ks.map (·.1)).filter (staticLeaf G st.cfg)).eraseDups
      let leaves := if staticLeaf G st.cfg e && !leaves.contains e then e :: leaves else leaves
      IO.println s!"reach {id} keys={ks.length} leaves={showNats leaves} nodes={showNats (ks.map (·.1))}"
    | _, _ => IO.println s!"bad-record reach {id}"
    loopIO h st
  | ["trace", id, ns] =>
    match parseNats ns with
    | some t =>
      if st.bad then IO.println s!"bad-record trace {id}" else
      let entry := t.getLast?.getD 0
      let wf := traceWFB G entry t
      let weak := chainB (fun a b => linkedB G a b || ctxJumpB G a b) t
      -- replay in the model of the code as it is (r0) and in the model of the proposed repair (r1):
      -- either is accepted, so that applying a closure-trace repair does not raise a false alarm
      let r1 := replayB G { st.cfg with closureCheck := true } t
      let r0 := replayB G { st.cfg with closureCheck := false } t
      IO.println s!"trace {id} wf={b01 wf} weak={b01 weak} replay={b01 (r0 || r1)} replay0={b01 r0} replay1={b01 r1}"
    | none => IO.println s!"bad-record trace {id}"
    loopIO h st
  | ["run", id, entry, fuel] =>
    match entry.toNat?, fuel.toNat? with
    | some e, some f =>
      if st.bad then IO.println s!"bad-record run {id}" else
      let r := run G st.cfg idOrder f e
      let ts := ";".intercalate (r.traces.map showNats)
      IO.println s!"run {id} fin={b01 r.finished} inc={b01 r.incoherent} panic={b01 r.panicked} traces={ts}"
    | _, _ => IO.println s!"bad-record run {id}"
    loopIO h st
  | [] => loopIO h st
  | _ => loopIO h { st with bad := true }

def main : IO Unit := do loopIO (← IO.getStdin) {}
