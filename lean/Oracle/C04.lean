/- Line-protocol driver for the code-identifier models (C04).
   Records are TAB-separated; strings escape `\\`, `\t`, `\n`, `\r` with a backslash.
     re <pattern> <text>                      -> re <ok|invalid|unsupported> <0|1>
     spec <10 fields> / cid <10 fields>       (appended to the spec / identifier tables)
     matrix                                   -> one line per spec: m <outcome per cid: 1 0 p u>
     reset                                    (clears the tables)
     aliasprefix <p>                          (how the real code renders the package of alias labels: "package " or "")
     site <form> <kind> <parent> <instr> <reg> <calleePkg> <calleeName> <calleeRecv> <ifaceType> <addrTaken> <wrapper> <aliasPrefix> <n> (<pkg> <name> <recv>)*
     rawsite                                  (a call without generator knowledge: only its facts are known)
     facts <kind> <parent> <instr> <isInvoke> <valueName> <valueType> <methodName> <calleePkg -|+p> <sigRecv> <n> (<-|+p> <name>)*
                                              -> facts ok | facts diff <model facts>     (compares with factsOf of the last site)
     cids entry <withPtr> | cids sink <-|+calleePkg> | cids argat <site index> <-|+pnf> <summary fn pkg> <name> <full> <hasSummary>
                                              -> c <identifier>*    (for the last site, from its facts)
     node <nk> <parent> <field> <declPath> <ty tokens…> / nodefacts <-|+pkgName> <typeName>  -> nodefacts ok|diff
     cids node                                -> c <identifier>*
     entrymatrix                              -> per site: e <model> <truth> <domain>   (one char per spec)
     pair <site index> <-|+PackageNameFromFunction(callee)> <pkg> <name> <recv> (the callee the generator knows) / sinkmatrix -> per pair: s <model> <truth> <domain>
     nodematrix                               -> per node: n <model> <truth>
     apair <site index> <-|+pnf> <pkg> <name> <recv> <summary fn pkg> <name> <full> <hasSummary> / argmatrix -> per apair: a <model> <truth> <domain>
   fields: context package interface method receiver field type label kind value-match -/
import Argot.Spec.Entry
open Argot.Regex Argot.CodeId Argot.Entry

def splitTabs (cs : List Char) : List (List Char) :=
  let rec go (cs : List Char) (cur : List Char) (acc : List (List Char)) : List (List Char) :=
    match cs with
    | [] => (cur.reverse :: acc).reverse
    | '\t' :: t => go t [] (cur.reverse :: acc)
    | c :: t => go t (c :: cur) acc
  go cs [] []

def unesc : List Char → List Char
  | '\\' :: 't' :: t => '\t' :: unesc t
  | '\\' :: 'n' :: t => '\n' :: unesc t
  | '\\' :: 'r' :: t => '\r' :: unesc t
  | '\\' :: '\\' :: t => '\\' :: unesc t
  | c :: t => c :: unesc t
  | [] => []

def fieldsOf (line : String) : List String :=
  let cs := line.toList
  let cs := if cs.getLast? == some '\n' then cs.dropLast else cs
  (splitTabs cs).map fun f => String.ofList (unesc f)

def mkCid : List String → Option CodeId
  | [a, b, c, d, e, f, g, h, i, j] =>
    some { ctx := a, pkg := b, iface := c, meth := d, recv := e, fld := f, typ := g, label := h, kind := i, vmatch := j }
  | _ => none

def outcomeChar : Outcome → Char
  | .val true => '1' | .val false => '0' | .panic => 'p' | .unsupported => 'u'


def optS (s : String) : Option String := if s == "-" then none else some ((s.toList.drop 1) |> String.ofList)

def parseKind : String → Option Kind
  | "call" => some .call | "go" => some .go | "defer" => some .defer | _ => none

def parseForm : String → Option Form
  | "staticFn" => some .staticFn | "staticMethod" => some .staticMethod | "invoke" => some .invoke
  | "funcValue" => some .funcValue | "boundMethod" => some .boundMethod | "methodExpr" => some .methodExpr
  | "closureCall" => some .closureCall | "generic" => some .generic | _ => none

def parseFns : List String → Option (List Fn)
  | [] => some []
  | p :: n :: r :: rest => (parseFns rest).map fun l => ({ pkgPath := p, name := n, recv := r } : Fn) :: l
  | _ => none

def parseAliases : List String → Option (List (Option String × String))
  | [] => some []
  | p :: n :: rest => (parseAliases rest).map fun l => (optS p, n) :: l
  | _ => none

def parseSite : List String → Option Site
  | form :: kind :: parent :: instr :: reg :: cp :: cn :: cr   :: it :: adt :: wr :: ap :: _n :: rest => do
    let f ← parseForm form
    let k ← parseKind kind
    let impls ← parseFns rest
    some { form := f, kind := k, parent := parent, instr := instr, reg := reg,
           callee := { pkgPath := cp, name := cn, recv := cr }, impls := impls, ifaceType := it,
           addrTaken := adt == "1", wrapperName := wr, aliasPrefix := ap }
  | _ => none

def parseFacts : List String → Option Facts
  | kind :: parent :: instr :: inv :: vn :: vt :: mn :: cp :: sr :: _n :: rest => do
    let k ← parseKind kind
    let al ← parseAliases rest
    some { kind := k, parent := parent, instr := instr, isInvoke := inv == "1", valueName := vn, valueType := vt,
           methodName := mn, calleePkg := optS cp, sigRecv := sr, aliases := al }
  | _ => none

def parseTy : List String → Option Ty
  | [] => none
  | t :: rest =>
    match t.splitOn ":" with
    | ["named", p, n] => some (.named p n)
    | ["basic", n] => some (.basic n)
    | ["other"] => some .other
    | ["ptr"] => (parseTy rest).map .pointer
    | ["slice"] => (parseTy rest).map .slice
    | ["chan"] => (parseTy rest).map .chan
    | ["arr", n] => do let k ← n.toNat?; (parseTy rest).map (.array k)
    | ["map", k] => (parseTy rest).map (.map k)
    | _ => none

def parseNK : String → Option NodeKind
  | "fieldRead" => some .fieldRead | "alloc" => some .alloc | "fieldStore" => some .fieldStore
  | "chanRecv" => some .chanRecv | _ => none

def showOpt : Option String → String
  | none => "-" | some s => "+" ++ s

def escS (s : String) : String :=
  String.ofList (s.toList.flatMap fun c =>
    if c == '\\' then ['\\', '\\'] else if c == '\t' then ['\\', 't'] else if c == '\n' then ['\\', 'n']
    else if c == '\r' then ['\\', 'r'] else [c])

def showCid (c : CodeId) : String :=
  "\t".intercalate ([c.ctx, c.pkg, c.iface, c.meth, c.recv, c.fld, c.typ, c.label, c.kind, c.vmatch].map escS)

def showCids (cs : List CodeId) : String :=
  "c" ++ String.join (cs.map fun c => "\t|\t" ++ showCid c)

def showFacts (f : Facts) : String :=
  let k := match f.kind with | .call => "call" | .go => "go" | .defer => "defer"
  "\t".intercalate (([k, f.parent, f.instr, if f.isInvoke then "1" else "0", f.valueName, f.valueType, f.methodName,
    showOpt f.calleePkg, f.sigRecv, toString f.aliases.length] ++ f.aliases.flatMap fun a => [showOpt a.1, a.2]).map escS)

/-- first outcome that is not `false` when the predicate `ExistsCid [spec]` is applied to the identifiers in order -/
def anyO (spec : CodeId) : List CodeId → Outcome
  | [] => .val false
  | c :: cs => match matchesO spec c with
    | .val false => anyO spec cs
    | o => o

def bchar (b : Bool) : Char := if b then '1' else '0'

structure St where
  specs : Array CodeId := #[]
  cids : Array CodeId := #[]
  sites : Array (Option Site × Facts) := #[]
  pairs : Array (Nat × Option String × Fn) := #[]
  nodes : Array (NodeFacts × String) := #[]
  apairs : Array (Nat × Option String × Fn × Option (Fn × String)) := #[]
  aliasPrefix : String := ""

def lastFacts (st : St) : Option Facts := st.sites.back?.map (·.2)

partial def loop (h : IO.FS.Stream) (st : St) : IO Unit := do
  let line ← h.getLine
  if line.isEmpty then return ()
  match fieldsOf line with
  | ["re", p, s] =>
    match parse p.toList with
    | .ok re => IO.println s!"re ok {if search re s.toList then 1 else 0}"
    | .error .invalid => IO.println "re invalid 0"
    | .error .unsupported => IO.println "re unsupported 0"
    loop h st
  | "spec" :: rest =>
    match mkCid rest with
    | some c => loop h { st with specs := st.specs.push c }
    | none => IO.println "bad-record spec"; loop h st
  | "cid" :: rest =>
    match mkCid rest with
    | some c => loop h { st with cids := st.cids.push c }
    | none => IO.println "bad-record cid"; loop h st
  | ["matrix"] =>
    for s in st.specs do
      IO.println ("m " ++ String.ofList (st.cids.toList.map fun c => outcomeChar (matchesO s c)))
    loop h st
  | "site" :: rest =>
    match parseSite rest with
    | some s => loop h { st with sites := st.sites.push (some s, factsOf s) }
    | none => IO.println "bad-record site"; loop h st
  | "rawsite" :: rest =>
    match parseFacts rest with
    | some f => loop h { st with sites := st.sites.push (none, f) }
    | none => IO.println "bad-record rawsite"; loop h st
  | "facts" :: rest =>
    match parseFacts rest, lastFacts st with
    | some f, some m => IO.println (if f = m then "facts ok" else "facts diff\t" ++ showFacts m)
    | _, _ => IO.println "bad-record facts"
    loop h st
  | ["cids", "entry", wp] =>
    match lastFacts st with
    | some f => IO.println (showCids (entryCids (wp == "1") st.aliasPrefix f))
    | none => IO.println "bad-record cids"
    loop h st
  | ["cids", "sink", cp] =>
    match lastFacts st with
    | some f => IO.println (showCids (sinkCids f (optS cp)))
    | none => IO.println "bad-record cids"
    loop h st
  | ["cids", "argat", idx, pnf, sp, sn, full, hs] =>
    match idx.toNat?.bind (st.sites[·]?) with
    | some (_, f) =>
      IO.println (showCids (sinkCids f (optS pnf) ++ (if hs == "1" then [fnCid { pkgPath := sp, name := sn } full] else [])))
    | none => IO.println "bad-record cids argat"
    loop h st
  | "node" :: nk :: parent :: field :: decl :: ty =>
    match parseNK nk, parseTy ty with
    | some k, some t => loop h { st with nodes := st.nodes.push ({ nk := k, parent := parent, ty := t, field := field }, decl) }
    | _, _ => IO.println "bad-record node"; loop h st
  | ["nodefacts", p, t] =>
    match st.nodes.back? with
    | some (n, _) =>
      let m := eltTypePackage n.ty id
      let r : Option (String × String) := (optS p).map fun p => (p, t)
      IO.println (if m = r then "nodefacts ok" else s!"nodefacts diff {repr m}")
    | none => IO.println "bad-record nodefacts"
    loop h st
  | ["cids", "node"] =>
    match st.nodes.back? with
    | some (n, _) => IO.println (showCids (nodeCids n))
    | none => IO.println "bad-record cids"
    loop h st
  | ["entrymatrix"] =>
    let specs := st.specs.toList
    for (so, f) in st.sites do
      let model := String.ofList (specs.map fun sp => outcomeChar (anyO sp (entryCids true st.aliasPrefix f)))
      match so with
      | some s =>
        let truth := String.ofList (specs.map fun sp => bchar (truth [sp] s))
        let dom := String.ofList (specs.map fun sp => bchar (entryDomain [sp] s && specsOk [sp]))
        IO.println s!"e {model} {truth} {dom}"
      | none => IO.println s!"e {model} - -"
    loop h st
  | ["pair", idx, pnf, p, n, r] =>
    match idx.toNat? with
    | some i => loop h { st with pairs := st.pairs.push (i, optS pnf, { pkgPath := p, name := n, recv := r }) }
    | none => IO.println "bad-record pair"; loop h st
  | ["apair", idx, pnf, p, n, r, sp, sn, full, hs] =>
    match idx.toNat? with
    | some i =>
      let sum : Option (Fn × String) := if hs == "1" then some ({ pkgPath := sp, name := sn }, full) else none
      loop h { st with apairs := st.apairs.push (i, optS pnf, { pkgPath := p, name := n, recv := r }, sum) }
    | none => IO.println "bad-record apair"; loop h st
  | ["argmatrix"] =>
    let specs := st.specs.toList
    for (i, pnf, c, sum) in st.apairs do
      match st.sites[i]? with
      | some (so, f) =>
        let cids := sinkCids f pnf ++ (match sum with | some (sf, full) => [fnCid sf full] | none => [])
        let model := String.ofList (specs.map fun sp => outcomeChar (anyO sp cids))
        match so with
        | some s =>
          let truth := String.ofList (specs.map fun sp => bchar (truthCallee [sp] s c))
          let dom := String.ofList (specs.map fun sp => bchar (argDomain [sp] s c sum.isSome && specsOk [sp]))
          IO.println s!"a {model} {truth} {dom}"
        | none => IO.println s!"a {model} - -"
      | none => IO.println "bad-record apair-index"
    loop h st
  | ["sinkmatrix"] =>
    let specs := st.specs.toList
    for (i, pnf, c) in st.pairs do
      match st.sites[i]? with
      | some (so, f) =>
        let model := String.ofList (specs.map fun sp => outcomeChar (anyO sp (sinkCids f pnf)))
        match so with
        | some s =>
          let truth := String.ofList (specs.map fun sp => bchar (truthCallee [sp] s c))
          let dom := String.ofList (specs.map fun sp => bchar (sinkDomain s c && specsOk [sp]))
          IO.println s!"s {model} {truth} {dom}"
        | none => IO.println s!"s {model} - -"
      | none => IO.println "bad-record pair-index"
    loop h st
  | ["nodematrix"] =>
    let specs := st.specs.toList
    for (n, decl) in st.nodes do
      let model := String.ofList (specs.map fun sp => outcomeChar (anyO sp (nodeCids n)))
      let truth := String.ofList (specs.map fun sp =>
        bchar ((n.ty.decl.isSome) && matchB sp (nodeTruthCid n decl)))
      IO.println s!"n {model} {truth}"
    loop h st
  | ["aliasprefix", p] => loop h { st with aliasPrefix := p }
  | ["clearspecs"] => loop h { st with specs := #[] }
  | ["reset"] => loop h {}
  | [""] => loop h st
  | _ => IO.println "bad-record"; loop h st

def main : IO Unit := do loop (← IO.getStdin) {}
