/- Line-protocol driver for the code-identifier models (C04).
   Records are TAB-separated; strings escape `\\`, `\t`, `\n`, `\r` with a backslash.
     re <pattern> <text>                      -> re <ok|invalid|unsupported> <0|1>
     spec <10 fields> / cid <10 fields>       (appended to the spec / identifier tables)
     matrix                                   -> one line per spec: m <outcome per cid: 1 0 p u>
     reset                                    (clears the tables)
   fields: context package interface method receiver field type label kind value-match -/
import Argot.Model.CodeId
open Argot.Regex Argot.CodeId

def splitTabs (cs : List Char) : List (List Char) :=
  let rec go (cs : List Char) (cur : List Char) (acc : List (List Char)) : List (List Char) :=
    match cs with
    | [] => (cur.reverse :: acc).reverse
    | '\t' :: t => go t [] (cur.reverse :: acc)
    | c :: t => go t (c :: cur) acc
  go cs [] []

def unesc : List Char → List Char
  | '\\' :: 't' :: t => '\t' :: unesc t
  | '\\' :: 'n' :: t => '\n' :: unesc t
  | '\\' :: 'r' :: t => '\r' :: unesc t
  | '\\' :: '\\' :: t => '\\' :: unesc t
  | c :: t => c :: unesc t
  | [] => []

def fieldsOf (line : String) : List String :=
  let cs := line.toList
  let cs := if cs.getLast? == some '\n' then cs.dropLast else cs
  (splitTabs cs).map fun f => String.ofList (unesc f)

def mkCid : List String → Option CodeId
  | [a, b, c, d, e, f, g, h, i, j] =>
    some { ctx := a, pkg := b, iface := c, meth := d, recv := e, fld := f, typ := g, label := h, kind := i, vmatch := j }
  | _ => none

def outcomeChar : Outcome → Char
  | .val true => '1' | .val false => '0' | .panic => 'p' | .unsupported => 'u'

structure St where
  specs : Array CodeId := #[]
  cids : Array CodeId := #[]

partial def loop (h : IO.FS.Stream) (st : St) : IO Unit := do
  let line ← h.getLine
  if line.isEmpty then return ()
  match fieldsOf line with
  | ["re", p, s] =>
    match parse p.toList with
    | .ok re => IO.println s!"re ok {if search re s.toList then 1 else 0}"
    | .error .invalid => IO.println "re invalid 0"
    | .error .unsupported => IO.println "re unsupported 0"
    loop h st
  | "spec" :: rest =>
    match mkCid rest with
    | some c => loop h { st with specs := st.specs.push c }
    | none => IO.println "bad-record spec"; loop h st
  | "cid" :: rest =>
    match mkCid rest with
    | some c => loop h { st with cids := st.cids.push c }
    | none => IO.println "bad-record cid"; loop h st
  | ["matrix"] =>
    for s in st.specs do
      IO.println ("m " ++ String.ofList (st.cids.toList.map fun c => outcomeChar (matchesO s c)))
    loop h st
  | ["reset"] => loop h {}
  | [""] => loop h st
  | _ => IO.println "bad-record"; loop h st

def main : IO Unit := do loop (← IO.getStdin) {}
