/- Line-protocol driver for C05.
   t2                          -> t2 reads=<0|1> writes=<0|1> missingReads=<K.F,…|-> missingWrites=<…>
   alarms <id> <k> <rk> <rinf> -> alarms <id> ok | alarms <id> fail <why>     (lists: `;`-separated, `-` = empty) -/
import Argot.Model.LazyScan
import Argot.Model.AlarmsCrit
import Argot.Gen.T1Dispatch
import Argot.Gen.T2FnReads
open Argot.LazyScan Argot.AlarmsCrit

def showPairs (l : List (String × String)) : String :=
  if l.isEmpty then "-" else ",".intercalate (l.map fun p => p.1 ++ "." ++ p.2)

def parseList (s : String) : List String :=
  if s == "-" then [] else s.splitOn ";"

partial def loop (h : IO.FS.Stream) : IO Unit := do
  let line ← h.getLine
  if line.isEmpty then return ()
  let ws := (line.trimAscii.toString.splitOn " ").filter (· ≠ "")
  match ws with
  | ["t2"] =>
    let ops := Argot.Gen.T1.ssaOperands
    let r := tableCompleteB ops Argot.Gen.T2.fnReads Argot.Gen.T2.fnReadsGeneric
    let w := tableCompleteB ops Argot.Gen.T2.fnWrites Argot.Gen.T2.fnWritesGeneric
    let b (x : Bool) := if x then "1" else "0"
    IO.println s!"t2 reads={b r} writes={b w} missingReads={showPairs (missing ops Argot.Gen.T2.fnReads Argot.Gen.T2.fnReadsGeneric)} missingWrites={showPairs (missing ops Argot.Gen.T2.fnWrites Argot.Gen.T2.fnWritesGeneric)}"
  | ["alarms", id, k, rk, rinf] =>
    match k.toNat? with
    | some k =>
      let a := parseList rk
      let b := parseList rinf
      if maxAlarmsOK k a b then IO.println s!"alarms {id} ok" else IO.println s!"alarms {id} fail {why k a b}"
    | none => IO.println s!"bad-record {id}"
  | [] => pure ()
  | _ => IO.println "bad-record"
  loop h

def main : IO Unit := do loop (← IO.getStdin)
