/- Line-protocol driver for the C07 models (path search, traces, calling contexts).

   cfg <id>                      start a CFG; then one `b <succs,comma-separated | ->` line per block
   hp <src> <tgt> <fuel>         -> hp <id> <src> <tgt> old=<ans>,<steps>,<done> fix=<ans>,<steps>,<done>
   sweep <fuel>                  -> sweep <id> old=<max steps over all src, absent tgt>,<all done> fix=… wf=<b> n=<blocks> d=<maxDeg>
   dia <n>                       -> dia <the model's `diamonds n` as b-lines joined by ;>
   lasso <l1> … <lk>             (root first, current node last) -> lasso <0|1>
   ctxgraph <n>                  start a call-node graph with nodes 0..n-1; then
     callers <i> <list | ->        call nodes that are call sites of the function containing call node i
     entry <list | ->              entry-point call nodes
   ctx <start> <limit> <fuel>    -> ctx pops=<n> done=<b> results=<stacks, each a .-joined list, sorted, joined by ;>
-/
import Argot.Model.C07Path
import Argot.Model.C07Visit
open Argot.C07

def parseNats (s : String) : Option (List Nat) :=
  if s == "-" then some [] else (s.splitOn ",").mapM String.toNat?

def b2s (b : Bool) : String := if b then "1" else "0"

def showRes (r : PResult) : String := s!"{b2s r.answer},{r.steps},{b2s r.done}"

def showCfg (g : Cfg) : String :=
  ";".intercalate (g.map fun ss => if ss.isEmpty then "-" else ",".intercalate (ss.map toString))

def sweepOne (run : Nat → PResult) (n : Nat) : Nat × Bool :=
  (List.range n).foldl (fun (acc : Nat × Bool) src =>
    let r := run src
    (max acc.1 r.steps, acc.2 && r.done)) (0, true)

def insertSorted (s : String) : List String → List String
  | [] => [s]
  | t :: ts => if s ≤ t then s :: t :: ts else t :: insertSorted s ts

structure St where
  id : String := ""
  blocks : Array (List Nat) := #[]
  nodes : Nat := 0
  callers : List (Nat × List Nat) := []
  entries : List Nat := []

def ctxAnswer (st : St) (start limit fuel : Nat) : String :=
  let callers := fun i => (st.callers.lookup i).getD []
  let isEntry := fun i => st.entries.contains i
  let r := ctxRun callers isEntry limit start fuel
  let isResult := fun (elt : List Nat) =>
    match elt with
    | [] => false
    | top :: _ => isEntry top || (limit > 0 && elt.length ≥ limit)
  let res := (r.final.seen.filter isResult).map fun elt => ".".intercalate (elt.map toString)
  let sorted := res.foldr insertSorted []
  s!"ctx pops={r.pops} done={b2s r.done} results={";".intercalate sorted}"

partial def loop (h : IO.FS.Stream) (st : St) : IO Unit := do
  let line ← h.getLine
  if line.isEmpty then return ()
  let ws := (line.trimAscii.toString.splitOn " ").filter (· ≠ "")
  match ws with
  | ["cfg", id] => loop h { st with id := id, blocks := #[] }
  | ["b", ss] =>
    match parseNats ss with
    | some s => loop h { st with blocks := st.blocks.push s }
    | none => IO.println s!"bad-record {st.id}"; loop h st
  | ["hp", src, tgt, fuel] =>
    match src.toNat?, tgt.toNat?, fuel.toNat? with
    | some s, some t, some f =>
      let g := st.blocks.toList
      IO.println s!"hp {st.id} {s} {t} old={showRes (hasPathOld g s t f)} fix={showRes (hasPathFix g s t f)}"
    | _, _, _ => IO.println s!"bad-record {st.id}"
    loop h st
  | ["sweep", fuel] =>
    match fuel.toNat? with
    | some f =>
      let g := st.blocks.toList
      let n := g.length
      let c := sweepOne (fun s => hasPathOld g s n f) n
      let x := sweepOne (fun s => hasPathFix g s n f) n
      IO.println s!"sweep {st.id} old={c.1},{b2s c.2} fix={x.1},{b2s x.2} wf={b2s (wf g)} n={n} d={maxDeg g}"
    | none => IO.println s!"bad-record {st.id}"
    loop h st
  | ["dia", n] =>
    match n.toNat? with
    | some k => IO.println s!"dia {showCfg (diamonds k)}"
    | none => IO.println "bad-record dia"
    loop h st
  | "lasso" :: labels =>
    IO.println s!"lasso {b2s (lasso labels.reverse)}"
    loop h st
  | ["ctxgraph", n] =>
    match n.toNat? with
    | some k => loop h { st with nodes := k, callers := [], entries := [] }
    | none => IO.println "bad-record ctxgraph"; loop h st
  | ["callers", i, cs] =>
    match i.toNat?, parseNats cs with
    | some i, some cs => loop h { st with callers := (i, cs) :: st.callers }
    | _, _ => IO.println "bad-record callers"; loop h st
  | ["entry", es] =>
    match parseNats es with
    | some es => loop h { st with entries := es }
    | none => IO.println "bad-record entry"; loop h st
  | ["ctx", start, limit, fuel] =>
    match start.toNat?, limit.toNat?, fuel.toNat? with
    | some s, some l, some f => IO.println (ctxAnswer st s l f)
    | _, _, _ => IO.println "bad-record ctx"
    loop h st
  | [] => loop h st
  | _ => IO.println "bad-record"; loop h st

def main : IO Unit := do loop (← IO.getStdin) {}
