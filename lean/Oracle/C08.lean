/- Line-protocol driver for the intra-procedural closure criterion (C08).

   fn <id>
   i <kind> <res> <ops|-> <aux> <succs|->       one per instruction, flat order
   o <mark> <val> <loc> <idx|-> <nodes|->       origin
   t <loc> <val> <nodes|->                      boundary target
   s <instr> <v:m,v:m,...>                      real state (origin marks only), sorted
   e <src> <dst> <idx+1|0>                      real summary edge
   go
   ->  ok <id> ssa=<0|1>     |  fail <id> ssa=<0|1> <rule> <details> [; <rule> <details>]...
   tbl                                           -> table line about the regenerated builtin table (T5)

   memory rows (Model/IntraMem.lean), optional, before `go`:
   ms <loc> <addr> <vals|->                      store row (Store / MapUpdate / Send / select-send / container of the address)
   ml <loc> <addr> <res>                         load row
   ma <addr> <b1,b2,...|->                       values the REAL pointer analysis says may alias <addr>
   -> a SECOND answer line per function:
      mem <id> none|ok|fail stores=<n> loads=<n> aliases=<n> exempt=<k> [<rule> <details> ; ...]
-/
import Argot.Model.IntraMem
import Argot.Gen.T5Builtins
open Argot.Intra Argot.BuiltinTable Argot.Gen

def parseNats (s : String) : Option (List Nat) :=
  if s == "-" then some [] else (s.splitOn ",").mapM String.toNat?

def parseKind (s : String) : Option IK :=
  match s with
  | "binop" => some .binop | "unop" => some .unop | "convert" => some .convert
  | "changeType" => some .changeType | "changeInterface" => some .changeInterface
  | "makeInterface" => some .makeInterface | "sliceToArrayPtr" => some .sliceToArrayPtr
  | "field" => some .field | "fieldAddr" => some .fieldAddr | "index" => some .index
  | "indexAddr" => some .indexAddr | "lookup" => some .lookup | "phi" => some .phi
  | "extract" => some .extract | "typeAssert" => some .typeAssert | "slice" => some .slice
  | "call" => some .call | "ret" => some .ret | "ifc" => some .ifc
  | "makeClosure" => some .makeClosure | "other" => some .other
  | "range" => some .range | "next" => some .next | "select" => some .select
  | _ => if s.startsWith "builtin:" then some (.builtin (s.drop 8).toString) else none

def parseFacts (s : String) : Option (List Fact) :=
  if s == "-" then some [] else
  (s.splitOn ",").mapM fun p =>
    match p.splitOn ":" with
    | [a, b] => do let x ← a.toNat?; let y ← b.toNat?; pure (x, y)
    | _ => none

structure PAcc where
  id : String := ""
  instrs : Array Instr := #[]
  origins : Array Origin := #[]
  targets : Array Target := #[]
  state : Array (Nat × List Fact) := #[]
  edges : Array Edge := #[]
  stores : Array StoreRow := #[]
  loads : Array LoadRow := #[]
  al : Array (Nat × List Nat) := #[]
  bad : Option String := none

/-! diagnostics: re-run the rules and name the first offenders (not part of the model) -/

def kindName (k : IK) : String := (reprStr k)

def diag (f : Func) (S : State) (E : List Edge) (R : Array Bool) : List String := Id.run do
  let mut out : List String := []
  let n := f.instrs.size
  if !reachOK f R then out := out ++ ["reach -"]
  for o in f.origins do
    if R.getD o.loc false && !has S o.loc o.val o.mark then
      out := out ++ [s!"init loc={o.loc} val={o.val} mark={o.mark}"]
  for i in List.range n do
    let x := f.instrs.getD i default
    for j in x.succs do
      if !subsetS factLt (S i) (S j) then
        let miss := (S i).filter fun p => !(S j).contains p
        let p := miss.headD (0, 0)
        out := out ++ [s!"carry from={i} to={j} val={p.1} mark={p.2}"]
    if x.res != 0 then
      for a in dataOps x do
        let ms := (marksOf (S i) a).filter (markPasses f x a)
        if !subsetS (· < ·) ms (marksOf (S i) x.res) then
          let miss := ms.filter fun m => !has S i x.res m
          out := out ++ [s!"xfer at={i} kind={kindName x.kind} aux={x.aux} op={a} res={x.res} mark={miss.headD 0} opdef={match defKind f a with | some k => kindName k | none => "none"}"]
  for (o, P) in originReach f R do
    if !(o.idx.isNone || ((f.instrs.getD o.loc default).kind == .call && closedFrom f P (f.instrs.getD o.loc default).succs)) then
      out := out ++ [s!"originwf loc={o.loc} mark={o.mark}"]
  for t in f.targets do
    let ms := marksOf (S t.loc) t.val
    for (o, P) in originReach f R do
      if ms.contains o.mark && (P.getD t.loc false || (t.loc == o.loc && t.val == o.val)) then
        for sn in o.nodes do
          for tn in t.nodes do
            if !E.contains (sn, tn, eidx o) then
              out := out ++ [s!"edge at={t.loc} val={t.val} mark={o.mark} src={sn} dst={tn} idx={eidx o}"]
  return out.take 200

/-- SSA sanity: the definition of every data operand / boundary value reaches its use. -/
def answer (acc : PAcc) : String :=
  let f : Func := { instrs := acc.instrs, origins := acc.origins.toList, targets := acc.targets.toList }
  let n := f.instrs.size
  let sarr : Array (List Fact) := acc.state.foldl (fun a (i, l) => a.setIfInBounds i l) (Array.replicate n [])
  let S : State := fun i => sarr.getD i []
  let E := acc.edges.toList
  let R := reachFrom f 0
  let ssa := if ssaOK f R then "1" else "0"
  if closed f S E R then s!"ok {acc.id} ssa={ssa}"
  else s!"fail {acc.id} ssa={ssa} " ++ " ; ".intercalate (diag f S E R)

/-- diagnostics for the memory rows (not part of the model). -/
def diagMem (f : Func) (M : Mem) (S : State) : List String := Id.run do
  let mut out : List String := []
  for r in M.stores do
    for d in r.vals do
      if !subsetS (· < ·) (marksOf (S r.loc) d) (marksOf (S r.loc) r.addr) then
        let miss := (marksOf (S r.loc) d).filter fun m => !has S r.loc r.addr m
        out := out ++ [s!"mstore at={r.loc} addr={r.addr} val={d} mark={miss.headD 0}"]
    let ms := (marksOf (S r.loc) r.addr).filter fun m => !selfInit f r.addr m
    for b in M.aliases r.addr do
      if !subsetS (· < ·) ms (marksOf (S r.loc) b) then
        let miss := ms.filter fun m => !has S r.loc b m
        out := out ++ [s!"malias at={r.loc} addr={r.addr} alias={b} mark={miss.headD 0}"]
  for r in M.loads do
    if !subsetS (· < ·) (marksOf (S r.loc) r.addr) (marksOf (S r.loc) r.res) then
      let miss := (marksOf (S r.loc) r.addr).filter fun m => !has S r.loc r.res m
      out := out ++ [s!"mload at={r.loc} addr={r.addr} res={r.res} mark={miss.headD 0}"]
  return out.take 50

def answerMem (acc : PAcc) : String :=
  let f : Func := { instrs := acc.instrs, origins := acc.origins.toList, targets := acc.targets.toList }
  let M : Mem := { stores := acc.stores.toList, loads := acc.loads.toList, al := acc.al.toList }
  let n := f.instrs.size
  let sarr : Array (List Fact) := acc.state.foldl (fun a (i, l) => a.setIfInBounds i l) (Array.replicate n [])
  let S : State := fun i => sarr.getD i []
  let na := M.stores.foldl (fun k r => k + (M.aliases r.addr).length - 1) 0
  let cnt := s!"stores={M.stores.length} loads={M.loads.length} aliases={na} exempt={exemptCount f M S}"
  if M.stores.isEmpty && M.loads.isEmpty then s!"mem {acc.id} none {cnt}"
  else if closedMem f M S then s!"mem {acc.id} ok {cnt}"
  else s!"mem {acc.id} fail {cnt} " ++ " ; ".intercalate (diagMem f M S)

partial def loop (h : IO.FS.Stream) (acc : PAcc) : IO Unit := do
  let line ← h.getLine
  if line.isEmpty then return ()
  let ws := (line.trimAscii.toString.splitOn " ").filter (· ≠ "")
  let badl (a : PAcc) : PAcc := { a with bad := some line.trimAscii.toString }
  match ws with
  | ["fn", id] => loop h { id := id }
  | ["i", k, r, ops, aux, ss] =>
    match parseKind k, r.toNat?, parseNats ops, aux.toNat?, parseNats ss with
    | some k, some r, some ops, some aux, some ss =>
      loop h { acc with instrs := acc.instrs.push { kind := k, res := r, ops := ops, aux := aux, succs := ss } }
    | _, _, _, _, _ => loop h (badl acc)
  | ["o", m, v, l, ix, ns] =>
    match m.toNat?, v.toNat?, l.toNat?, parseNats ns with
    | some m, some v, some l, some ns =>
      if ix == "-" then loop h { acc with origins := acc.origins.push ⟨m, v, l, none, ns⟩ }
      else match ix.toNat? with
        | some k => loop h { acc with origins := acc.origins.push ⟨m, v, l, some k, ns⟩ }
        | none => loop h (badl acc)
    | _, _, _, _ => loop h (badl acc)
  | ["t", l, v, ns] =>
    match l.toNat?, v.toNat?, parseNats ns with
    | some l, some v, some ns => loop h { acc with targets := acc.targets.push ⟨l, v, ns⟩ }
    | _, _, _ => loop h (badl acc)
  | ["s", i, fs] =>
    match i.toNat?, parseFacts fs with
    | some i, some fs => loop h { acc with state := acc.state.push (i, fs) }
    | _, _ => loop h (badl acc)
  | ["e", a, b, c] =>
    match a.toNat?, b.toNat?, c.toNat? with
    | some a, some b, some c => loop h { acc with edges := acc.edges.push (a, b, c) }
    | _, _, _ => loop h (badl acc)
  | ["ms", l, a, vs] =>
    match l.toNat?, a.toNat?, parseNats vs with
    | some l, some a, some vs => loop h { acc with stores := acc.stores.push ⟨l, a, vs⟩ }
    | _, _, _ => loop h (badl acc)
  | ["ml", l, a, r] =>
    match l.toNat?, a.toNat?, r.toNat? with
    | some l, some a, some r => loop h { acc with loads := acc.loads.push ⟨l, a, r⟩ }
    | _, _, _ => loop h (badl acc)
  | ["ma", a, bs] =>
    match a.toNat?, parseNats bs with
    | some a, some bs => loop h { acc with al := acc.al.push (a, bs) }
    | _, _ => loop h (badl acc)
  | ["go"] =>
    match acc.bad with
    | some l => IO.println s!"bad-record {acc.id} {l}"; IO.println s!"mem {acc.id} none bad-record"
    | none => IO.println (answer acc); IO.println (answerMem acc)
    (← IO.getStdout).flush
    loop h {}
  | ["tbl"] =>
    let b (x : Bool) := if x then "1" else "0"
    IO.println s!"tbl byType={b T5.identifiedByType} byName={b T5.identifiedByName} minmaxAll={b (coversAllArities T5.rows "min" && coversAllArities T5.rows "max")} minmaxPinnedDefect={b (pinnedMinMaxDefect T5.rows)} fixedCovers={b (fixedCases.all fun c => covers T5.handled T5.rows c.1 c.2)}"
    loop h acc
  | [] => loop h acc
  | _ => loop h (badl acc)

def main : IO Unit := do loop (← IO.getStdin) {}
