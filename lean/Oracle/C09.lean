/- Line-protocol driver for C09 (tab-separated fields).
   pkgs                                   -> `pkg`/`missing` lines (stdPackages keys)
   list                                   -> one `entry` line per row of the compiled-in regenerated table
   fn <key> <nParams> <nResults> <hasRet> <args> <rets>
                                          -> res <key> found= tableEq= sigEq= conf= out= in= dropped=
   app <id> <nParams> <nResults> <hasRet> <args> <rets>   (no table lookup; used by C10 too)
                                          -> app <id> conf= out= in= dropped=
   matrices: rows separated by ';', entries by ',', "-" = no rows.                                     -/
import Argot.Model.Summ
import Argot.Gen.StdTable
import Argot.Spec.Summ
open Argot.Summ Argot.SGraph

def parseRow (s : String) : Option (List Int) :=
  if s == "" then some [] else (s.splitOn ",").mapM String.toInt?

def parseMatrix (s : String) : Option (List (List Int)) :=
  if s == "-" then some [] else (s.splitOn ";").mapM parseRow

def showNode : PNode → String
  | .param i => s!"p{i}"
  | .ret j => s!"r{j}"

def showPos : Pos → String
  | .arg a b => s!"a{a}.{b}"
  | .ret a b => s!"r{a}.{b}"

def insertSorted (s : String) : List String → List String
  | [] => [s]
  | t :: ts => if s ≤ t then s :: t :: ts else t :: insertSorted s ts

def sortStrings (l : List String) : List String := l.foldr insertSorted []

def showApplied (a : Applied) : String :=
  let out := sortStrings (a.g.out.map fun e => s!"{showNode e.1}>{showNode e.2.1}:{e.2.2}")
  let inn := sortStrings (a.g.inn.map fun e => s!"{showNode e.2.1}>{showNode e.1}:{e.2.2}")
  let j (l : List String) := if l.isEmpty then "-" else ",".intercalate l
  s!"out={j out}\tin={j inn}\tdropped={j (a.dropped.map showPos)}"

def b (x : Bool) : String := if x then "1" else "0"

def lookup (key : String) : Option StdEntry := Argot.Gen.stdTable.find? (·.key == key)

partial def loop (h : IO.FS.Stream) : IO Unit := do
  let line ← h.getLine
  if line.isEmpty then return ()
  let line := if line.endsWith "\n" then (line.dropEnd 1).toString else line
  let ws := line.splitOn "\t"
  match ws with
  | ["pkgs"] =>
    for p in Argot.Gen.stdPackages do IO.println s!"pkg\t{p.1}\t{p.2}"
    for p in Argot.Gen.stdPackagesNotInstalled do IO.println s!"missing\t{p}"
    loop h
  | ["list"] =>
    for e in Argot.Gen.stdTable do
      let (r, np, nr) := match e.sig with | some sg => (true, sg.nParams, sg.nResults) | none => (false, 0, 0)
      let mis := match e.sig with | some sg => misfits sg true e.summ | none => []
      let shape := match e.sig with | some sg => shapeOk sg e.summ | none => true
      let ml := if mis.isEmpty then "-" else ",".intercalate (mis.map showPos)
      IO.println s!"entry\t{e.table}\t{e.key}\t{b r}\t{np}\t{nr}\t{b e.conforms}\t{b (knownMisfits.contains e.key)}\t{b shape}\t{ml}\t{e.note}"
    IO.println "end"
    loop h
  | ["fn", key, np, nr, hr, args, rets] =>
    match np.toNat?, nr.toNat?, parseMatrix args, parseMatrix rets with
    | some np, some nr, some a, some r =>
      let sg : Sig := ⟨np, nr⟩
      let hasRet := hr == "1"
      let s : Summary := ⟨a, r⟩
      match lookup key with
      | none => IO.println s!"res\t{key}\tfound=0"
      | some e =>
        let ap := apply sg hasRet e.summ
        IO.println s!"res\t{key}\tfound=1\ttableEq={b (e.summ == s)}\tsigEq={b (e.sig == some sg)}\tconf={b (conforms sg hasRet e.summ)}\t{showApplied ap}"
    | _, _, _, _ => IO.println s!"bad-record\t{key}"
    loop h
  | ["app", id, np, nr, hr, args, rets] =>
    match np.toNat?, nr.toNat?, parseMatrix args, parseMatrix rets with
    | some np, some nr, some a, some r =>
      let sg : Sig := ⟨np, nr⟩
      let hasRet := hr == "1"
      let s : Summary := ⟨a, r⟩
      IO.println s!"app\t{id}\tconf={b (conforms sg hasRet s)}\t{showApplied (apply sg hasRet s)}"
    | _, _, _, _ => IO.println s!"bad-record\t{id}"
    loop h
  | [""] => loop h
  | _ => IO.println "bad-record"; loop h

def main : IO Unit := do loop (← IO.getStdin)
