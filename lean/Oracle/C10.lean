/- Line-protocol driver for C10 (tab-separated fields).
   app <id> <nParams> <nResults> <hasRet> <args> <rets>   -> app <id> conf= out= in= dropped=
   visit <id> <nParams> <nResults> <i> <ptrmask> <residx,…> <args> <rets>
        -> vis <id> conv= reported=R<j>,A<k>,…  visited=<n>
   link <id> <static|-> <invoke 0/1> <methodKey> <cg,…|-> <ifaceContract parent|-|nil> <funcContracts: name,…|-> <built: name,…|-> <other interface-contract keys|->
        -> lnk <id> callees=<name:type,…> linked=<contract:parent:iface|body:name|none per callee>
   matrices: rows separated by ';', entries by ',', "-" = no rows.                                     -/
import Argot.Model.Contract
open Argot.Summ Argot.SGraph Argot.Contract

def parseRow (s : String) : Option (List Int) :=
  if s == "" then some [] else (s.splitOn ",").mapM String.toInt?

def parseMatrix (s : String) : Option (List (List Int)) :=
  if s == "-" then some [] else (s.splitOn ";").mapM parseRow

def showNode : PNode → String
  | .param i => s!"p{i}"
  | .ret j => s!"r{j}"

def showPos : Pos → String
  | .arg a b => s!"a{a}.{b}"
  | .ret a b => s!"r{a}.{b}"

def insertSorted (s : String) : List String → List String
  | [] => [s]
  | t :: ts => if s ≤ t then s :: t :: ts else t :: insertSorted s ts

def sortStrings (l : List String) : List String := l.foldr insertSorted []

def joinOr (l : List String) : String := if l.isEmpty then "-" else ",".intercalate l

def showApplied (a : Applied) : String :=
  let out := sortStrings (a.g.out.map fun e => s!"{showNode e.1}>{showNode e.2.1}:{e.2.2}")
  let inn := sortStrings (a.g.inn.map fun e => s!"{showNode e.2.1}>{showNode e.1}:{e.2.2}")
  s!"out={joinOr out}\tin={joinOr inn}\tdropped={joinOr (a.dropped.map showPos)}"

def b (x : Bool) : String := if x then "1" else "0"

def dedup (l : List String) : List String := l.foldl (fun acc x => if acc.contains x then acc else acc ++ [x]) []

def showTy : CalleeType → String
  | .static => "SA" | .callGraph => "CG" | .interfaceContract => "IC" | .interfaceMethod => "IM"

def parseList (s : String) : List String := if s == "-" then [] else s.splitOn ","

partial def loop (h : IO.FS.Stream) : IO Unit := do
  let line ← h.getLine
  if line.isEmpty then return ()
  let line := if line.endsWith "\n" then (line.dropEnd 1).toString else line
  let ws := line.splitOn "\t"
  match ws with
  | ["app", id, np, nr, hr, args, rets] =>
    match np.toNat?, nr.toNat?, parseMatrix args, parseMatrix rets with
    | some np, some nr, some a, some r =>
      let sg : Sig := ⟨np, nr⟩
      let s : Summary := ⟨a, r⟩
      IO.println s!"app\t{id}\tconf={b (conforms sg (hr == "1") s)}\t{showApplied (apply sg (hr == "1") s)}"
    | _, _, _, _ => IO.println s!"bad-record\t{id}"
    loop h
  | ["visit", id, np, nr, i, ptr, ridx, args, rets] =>
    match np.toNat?, nr.toNat?, i.toNat?, parseMatrix args, parseMatrix rets, parseRow (if ridx == "-" then "" else ridx) with
    | some np, some nr, some i, some a, some r, some ri =>
      let pm := ptr.toList
      let p : OneCall := { sg := ⟨np, nr⟩, spec := ⟨a, r⟩, i := i,
                           ptr := fun k => pm.getD k '0' == '1', resIdx := fun j => ri.getD j (-1) }
      let run := visitOneCall p (defaultFuel p)
      let rep := dedup (run.reported.map fun x => match x with | .inl j => s!"R{j}" | .inr k => s!"A{k}")
      IO.println s!"vis\t{id}\tconv={b run.converged}\treported={joinOr (sortStrings rep)}\tvisited={run.visited.length}"
    | _, _, _, _, _, _ => IO.println s!"bad-record\t{id}"
    loop h
  | ["link", id, st, inv, mk, cg, ic, fcs, built, oic] =>
    let fcl := parseList fcs
    let oicl := parseList oic
    let env : Env String := {
      contracts := fun k =>
        if k == mk && ic != "-" then (if ic == "nil" then some none else some (some ⟨ic, ⟨[], []⟩, true⟩))
        else if oicl.contains k then some (some ⟨cg, ⟨[[0]], [[0]]⟩, true⟩)  -- contracts of other interfaces (e.g. the declaring one)
        else if fcl.contains k then some (some ⟨k, ⟨[], []⟩, false⟩) else none,
      keys := fun _ => none, impls := fun _ => [], built := fun k => if (parseList built).contains k then some k else none,
      predef := fun _ => none }
    let c : Call := { static := if st == "-" then none else some st, invoke := inv == "1", methodKey := mk, cg := parseList cg }
    let callees := resolveCallee env c true
    let linked := callees.map fun ce => match linkCallee env c ce with
      | .contract g => s!"contract:{g.parent}:{b g.isInterface}"
      | .body x => s!"body:{x}"
      | .predefined _ => "predefined"
      | .none => "none"
    IO.println s!"lnk\t{id}\tcallees={joinOr (callees.map fun ce => s!"{ce.1}:{showTy ce.2}")}\tlinked={joinOr linked}"
    loop h
  | [""] => loop h
  | _ => IO.println "bad-record"; loop h

def main : IO Unit := do loop (← IO.getStdin)
