/- Oracle for C11 (and the shared part of C12): evaluates the proven-sufficient criteria `ptrClosed` /
   `cgClosed` (Argot/Model/Ptr.lean) on the dumped SSA facts + REAL points-to sets / call graph.

   output:  closed ptr=<0|1> cg=<0|1> bad=<n>
            fail ptr <f> <instr index> | fail cg <f> <instr index> | fail root <g>     (every failing rule instance)
            alias <0|1>      one per `alias f1 r1 f2 r2` query, in input order (label-set intersection) -/
import Argot.Model.PtrFacts
open Argot.Ptr PtrFacts

def b2s (b : Bool) : String := if b then "1" else "0"

def main : IO Unit := do
  let F ← readAll (← IO.getStdin) {}
  let P := F.prog
  let R := F.res P
  let out ← IO.getStdout
  out.putStrLn s!"closed ptr={b2s (ptrClosed P R)} cg={b2s (cgClosed P R)} bad={F.bad.length} iq={b2s (iqClosed R)}"
  for e in R.iq do
    if R.reach e.1 && !(srcs (R.pt e.1 e.2.1) fun S => S.all fun l => subL (R.heap l) e.2.2) then
      out.putStrLn s!"fail iq {e.1} {e.2.1}"
  for l in F.bad.reverse.take 5 do
    out.putStrLn s!"bad-record {l}"
  for g in P.roots do
    if !R.reach g then out.putStrLn s!"fail root {g}"
  for f in [0:P.funcs.size] do
    if R.reach f then
      let mut idx := 0
      for i in P.code f do
        if !instrOK P R f i then out.putStrLn s!"fail ptr {f} {idx}"
        if !cgInstrOK P R f i then out.putStrLn s!"fail cg {f} {idx}"
        idx := idx + 1
  for (f1, r1, f2, r2) in F.queries.reverse do
    match R.pt f1 r1, R.pt f2 r2 with
    | some A, some B => out.putStrLn s!"alias {b2s (mayAlias A B)}"
    | _, _ => out.putStrLn "alias ?"
