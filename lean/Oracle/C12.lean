/- Oracle for C12: the criteria `cgClosed` / `ptrClosed` on the dumped facts + REAL call graph, the model
   `Cg.reach` of CallGraphReachable on the dumped edges, the model `Cg.resolveCallee` of ResolveCallee.

   output:  closed ptr=<0|1> cg=<0|1> bad=<n>
            fail ptr|cg <f> <idx> | fail root <g>
            reach <f,f,...|->                 (sorted; to be compared with the real ReachableFunctions)
            resolve <g,g,...|->               one per `resolve f c static|- byType|-` line, in input order (sorted) -/
import Argot.Model.PtrFacts
import Argot.Model.Cg
open Argot.Ptr PtrFacts Argot.Cg

def b2s (b : Bool) : String := if b then "1" else "0"

def showNats (l : List Nat) : String :=
  if l.isEmpty then "-" else ",".intercalate ((l.toArray.qsort (· < ·)).toList.eraseDups.map toString)

def main : IO Unit := do
  let F ← readAll (← IO.getStdin) {}
  let P := F.prog
  let R := F.res P
  let out ← IO.getStdout
  out.putStrLn s!"closed ptr={b2s (ptrClosed P R)} cg={b2s (cgClosed P R)} bad={F.bad.length}"
  for l in F.bad.reverse.take 5 do
    out.putStrLn s!"bad-record {l}"
  for g in P.roots do
    if !R.reach g then out.putStrLn s!"fail root {g}"
  for f in [0:P.funcs.size] do
    if R.reach f then
      let mut idx := 0
      for i in P.code f do
        if !instrOK P R f i then out.putStrLn s!"fail ptr {f} {idx}"
        if !cgInstrOK P R f i then out.putStrLn s!"fail cg {f} {idx}"
        idx := idx + 1
  let edges := (F.cgList.map fun e => (e.1, e.2.2)).eraseDups
  out.putStrLn s!"reach {showNats (reach edges P.roots)}"
  for (f, c, st, bt) in F.resolves.reverse do
    let cgs := (F.cgList.filter fun e => e.1 == f && e.2.1 == c).map fun e => e.2.2
    out.putStrLn s!"resolve {showNats (resolveCallee st cgs bt)}"
