/- Line-protocol driver for the escape-graph model (C15, also used by C14).
   A small register machine over named graphs:
     u <N> <kinds>                       node universe: N nodes, kinds = one digit per node
     g <r> st=<n:s,..|-> out=<n,..|-> e=<a>b:f,..|->     define register r
     addnode <r> <g> <n> | addedge <r> <g> <a> <b> <f> | mns <r> <g> <n> <s> | merge <r> <g> <h>
     le <g> <h> | matches <g> <h> | show <g> | chk <g>   queries, one output line each
   Output of `show` has the format of the Go hook's `Dump`. -/
import Argot.Model.EGraph
import Std.Data.HashMap
open Argot.EGraph Argot.EGraph.EGraph

def intrinsicOfKind (k : Nat) : Nat :=
  if k = 1 ∨ k = 2 then 1 else if k = 3 ∨ k = 8 then 2 else 0

structure OState where
  n : Nat := 0
  kinds : Array Nat := #[]
  regs : Std.HashMap String EGraph := {}

def OState.intr (s : OState) : Node → Nat := fun n => intrinsicOfKind (s.kinds.getD n 0)

/-- re-tabulate the function fields into arrays, so look-ups stay O(1) after many updates -/
def tabulate (N : Nat) (g : EGraph) : EGraph :=
  let st := (Array.range N).map g.st
  let out := (Array.range N).map g.out
  let fl := (Array.range N).map fun a => (Array.range N).map fun b => g.fl a b
  { dom := g.dom, st := fun n => st.getD n 0, out := fun n => out.getD n false,
    fl := fun a b => (fl.getD a #[]).getD b Flags.none }

def sortStrs (l : List String) : List String := (l.toArray.qsort (· < ·)).toList

def showGraph (N : Nat) (g : EGraph) : String :=
  let st := sortStrs (g.dom.map fun n => s!"{n}:{g.st n}")
  let out := sortStrs (((List.range N).filter g.out).map toString)
  let es := sortStrs ((List.range N).flatMap fun a => ((List.range N).filter fun b => (g.fl a b).any).map fun b =>
    s!"{a}>{b}:{(g.fl a b).toNat}")
  "st=" ++ ",".intercalate st ++ " out=" ++ ",".intercalate out ++ " e=" ++ ",".intercalate es

def parseList (s : String) : Option (List String) :=
  if s == "-" || s == "" then some [] else some (s.splitOn ",")

def parsePair (sep : String) (s : String) : Option (Nat × Nat) :=
  match s.splitOn sep with
  | [a, b] => do let x ← a.toNat?; let y ← b.toNat?; pure (x, y)
  | _ => none

def parseEdge (s : String) : Option (Nat × Nat × Nat) :=
  match s.splitOn ":" with
  | [ab, f] => do let (a, b) ← parsePair ">" ab; let ff ← f.toNat?; pure (a, b, ff)
  | _ => none

def dropPrefix (p s : String) : Option String :=
  if s.startsWith p then some (s.drop p.length).toString else none

def parseGraph (N : Nat) (sst sout se : String) : Option EGraph := do
  let st ← (← parseList (← dropPrefix "st=" sst)).mapM (parsePair ":")
  let out ← (← parseList (← dropPrefix "out=" sout)).mapM String.toNat?
  let es ← (← parseList (← dropPrefix "e=" se)).mapM parseEdge
  if st.any (fun p => p.1 ≥ N) || out.any (· ≥ N) || es.any (fun e => e.1 ≥ N || e.2.1 ≥ N || e.2.2 > 7) then none
  let g : EGraph :=
    { dom := st.map (·.1)
      st := fun n => match st.find? (·.1 = n) with | some p => p.2 | none => 0
      out := fun n => out.contains n
      fl := fun a b => match es.find? (fun e => e.1 = a ∧ e.2.1 = b) with
        | some e => Flags.ofNat e.2.2 | none => Flags.none }
  pure (tabulate N g)

def b01 (b : Bool) : String := if b then "1" else "0"

partial def loop (h : IO.FS.Stream) (s : OState) : IO Unit := do
  let line ← h.getLine
  if line.isEmpty then return ()
  let ws := (line.trimAscii.toString.splitOn " ").filter (· ≠ "")
  let bad : IO Unit := IO.println s!"bad-record {line.trimAscii.toString}"
  let reg (r : String) : Option EGraph := s.regs[r]?
  let put (r : String) (g : EGraph) : OState := { s with regs := s.regs.insert r (tabulate s.n g) }
  match ws with
  | [] => loop h s
  | ["u", n, ks] =>
    match n.toNat? with
    | some n =>
      let kinds := ks.toList.map fun c => c.toNat - '0'.toNat
      if kinds.length ≠ n then do bad; loop h s
      else loop h { n := n, kinds := kinds.toArray, regs := {} }
    | none => do bad; loop h s
  | ["g", r, sst, sout, se] =>
    match parseGraph s.n sst sout se with
    | some g => loop h (put r g)
    | none => do bad; loop h s
  | ["addnode", r, g, n] =>
    match reg g, n.toNat? with
    | some g, some n => if n < s.n then loop h (put r (addNode s.intr g n)) else do bad; loop h s
    | _, _ => do bad; loop h s
  | ["addedge", r, g, a, b, f] =>
    match reg g, a.toNat?, b.toNat?, f.toNat? with
    | some g, some a, some b, some f =>
      if a < s.n ∧ b < s.n ∧ 0 < f ∧ f ≤ 7 then loop h (put r (addEdge s.intr g a b (Flags.ofNat f))) else do bad; loop h s
    | _, _, _, _ => do bad; loop h s
  | ["mns", r, g, n, v] =>
    match reg g, n.toNat?, v.toNat? with
    | some g, some n, some v => if n < s.n ∧ v ≤ 2 then loop h (put r (mergeNodeStatus g n v)) else do bad; loop h s
    | _, _, _ => do bad; loop h s
  | ["merge", r, g, k] =>
    match reg g, reg k with
    | some g, some k => loop h (put r (merge s.intr g k))
    | _, _ => do bad; loop h s
  | ["le", g, k] =>
    match reg g, reg k with
    | some g, some k => do IO.println s!"le {b01 (lessEqual g k)}"; loop h s
    | _, _ => do bad; loop h s
  | ["matches", g, k] =>
    match reg g, reg k with
    | some g, some k => do IO.println s!"matches {b01 (matchesG g k)}"; loop h s
    | _, _ => do bad; loop h s
  | ["show", g] =>
    match reg g with
    | some g => do IO.println (showGraph s.n g); loop h s
    | none => do bad; loop h s
  | ["chk", g] =>
    match reg g with
    | some g => do
      IO.println s!"chk rep={b01 (g.repOk s.n)} closed={b01 g.closedB} wf={b01 (g.wfB s.intr s.n)}"
      loop h s
    | none => do bad; loop h s
  | _ => do bad; loop h s

def main : IO Unit := do loop (← IO.getStdin) {}
