/- Line-protocol driver for the escape-graph model (C15, also used by C14).
   A small register machine over named graphs:
     u <N> <kinds>                       node universe: N nodes, kinds = one digit per node
     g <r> st=<n:s,..|-> out=<n,..|-> e=<a>b:f,..|->     define register r
     addnode <r> <g> <n> | addedge <r> <g> <a> <b> <f> | mns <r> <g> <n> <s> | merge <r> <g> <h>
     clonereach <r> <g> <roots|->       CloneReachable
     simplify <r> <g>                   simplifySummary
     le <g> <h> | matches <g> <h> | show <g> | chk <g>   queries, one output line each
   Output of `show` has the format of the Go hook's `Dump`. -/
import Argot.Model.EGraph
import Argot.Model.EGraphClone
import Argot.Model.EGraphSimplify
import Argot.Model.EscCore
import Std.Data.HashMap
open Argot.EGraph Argot.EGraph.EGraph

def intrinsicOfKind (k : Nat) : Nat :=
  if k = 1 ∨ k = 2 then 1 else if k = 3 ∨ k = 8 then 2 else 0

def emptyNG (n : Nat) (intr : Node → Nat) : NG :=
  { next := n, intr := intr, sub := fun _ _ => none, par := fun _ => none, loadChild := fun _ => none,
    loadBase := fun _ => none, loadOps := fun _ => [] }

structure OState where
  n0 : Nat := 0                -- size of the declared universe
  kinds : Array Nat := #[]
  ng : NG := emptyNG 0 (fun _ => 0)
  regs : Std.HashMap String EGraph := {}
  subMarks : List Nat := []    -- nodes declared subnodes without a modelled parent (`issub`, captured universes)

def OState.n (s : OState) : Nat := s.ng.next
def OState.intr (s : OState) : Node → Nat := s.ng.intr

/-- node kind: declared for the universe; a created load node is KindLoad (2); a created field subnode has the
kind of its base -/
def kindOfN (s : OState) : Nat → Node → Nat
  | 0, n => s.kinds.getD n 0
  | f + 1, n =>
    if n < s.n0 then s.kinds.getD n 0
    else if (s.ng.loadBase n).isSome then 2
    else match s.ng.par n with
      | some (p, _) => kindOfN s f p
      | none => 0

/-- re-tabulate the node group as well -/
def tabNG (ng : NG) : NG :=
  let N := ng.next
  let intr := (Array.range N).map ng.intr
  let par := (Array.range N).map ng.par
  let lc := (Array.range N).map ng.loadChild
  let lb := (Array.range N).map ng.loadBase
  let lo := (Array.range N).map ng.loadOps
  let subs : Array (List (Nat × Node)) := (Array.range N).map fun b =>
    (List.range N).filterMap fun c => match ng.par c with
      | some (p, f) => if p = b ∧ ng.sub b f = some c then some (f, c) else none
      | none => none
  { next := N, intr := fun n => intr.getD n 0, par := fun n => par.getD n none,
    loadChild := fun n => lc.getD n none, loadBase := fun n => lb.getD n none, loadOps := fun n => lo.getD n [],
    sub := fun b f => ((subs.getD b []).find? (·.1 = f)).map (·.2) }

/-- name of a node as the Go hook prints it: index in the declared universe, or the path of its creation -/
partial def nodeName (s : OState) (n : Node) : String :=
  if n < s.n0 then toString n else
  match s.ng.par n with
  | some (p, f) => nodeName s p ++ s!"/f:f{f}"
  | none => match s.ng.loadBase n with
    | some b => nodeName s b ++ "/load"
    | none => s!"?{n}"

/-- re-tabulate the function fields into arrays, so look-ups stay O(1) after many updates -/
def tabulate (N : Nat) (g : EGraph) : EGraph :=
  let st := (Array.range N).map g.st
  let out := (Array.range N).map g.out
  let fl := (Array.range N).map fun a => (Array.range N).map fun b => g.fl a b
  { dom := g.dom, st := fun n => st.getD n 0, out := fun n => out.getD n false,
    fl := fun a b => (fl.getD a #[]).getD b Flags.none }

def sortStrs (l : List String) : List String := (l.toArray.qsort (· < ·)).toList

def showGraph (s : OState) (g : EGraph) : String :=
  let N := s.n
  let nm := nodeName s
  let st := sortStrs (g.dom.map fun n => s!"{nm n}:{g.st n}")
  let out := sortStrs (((List.range N).filter g.out).map nm)
  let es := sortStrs ((List.range N).flatMap fun a => ((List.range N).filter fun b => (g.fl a b).any).map fun b =>
    s!"{nm a}>{nm b}:{(g.fl a b).toNat}")
  "st=" ++ ",".intercalate st ++ " out=" ++ ",".intercalate out ++ " e=" ++ ",".intercalate es

def parseList (s : String) : Option (List String) :=
  if s == "-" || s == "" then some [] else some (s.splitOn ",")

def parsePair (sep : String) (s : String) : Option (Nat × Nat) :=
  match s.splitOn sep with
  | [a, b] => do let x ← a.toNat?; let y ← b.toNat?; pure (x, y)
  | _ => none

def parseEdge (s : String) : Option (Nat × Nat × Nat) :=
  match s.splitOn ":" with
  | [ab, f] => do let (a, b) ← parsePair ">" ab; let ff ← f.toNat?; pure (a, b, ff)
  | _ => none

def dropPrefix (p s : String) : Option String :=
  if s.startsWith p then some (s.drop p.length).toString else none

def parseGraph (N : Nat) (sst sout se : String) : Option EGraph := do
  let st ← (← parseList (← dropPrefix "st=" sst)).mapM (parsePair ":")
  let out ← (← parseList (← dropPrefix "out=" sout)).mapM String.toNat?
  let es ← (← parseList (← dropPrefix "e=" se)).mapM parseEdge
  if st.any (fun p => p.1 ≥ N) || out.any (· ≥ N) || es.any (fun e => e.1 ≥ N || e.2.1 ≥ N || e.2.2 > 7) then none
  let g : EGraph :=
    { dom := st.map (·.1)
      st := fun n => match st.find? (·.1 = n) with | some p => p.2 | none => 0
      out := fun n => out.contains n
      fl := fun a b => match es.find? (fun e => e.1 = a ∧ e.2.1 = b) with
        | some e => Flags.ofNat e.2.2 | none => Flags.none }
  pure (tabulate N g)

def b01 (b : Bool) : String := if b then "1" else "0"

partial def loop (h : IO.FS.Stream) (s : OState) : IO Unit := do
  let line ← h.getLine
  if line.isEmpty then return ()
  let ws := (line.trimAscii.toString.splitOn " ").filter (· ≠ "")
  let bad : IO Unit := IO.println s!"bad-record {line.trimAscii.toString}"
  let reg (r : String) : Option EGraph := s.regs[r]?
  let put (r : String) (g : EGraph) : OState := { s with regs := s.regs.insert r (tabulate s.n g) }
  match ws with
  | [] => loop h s
  | ["u", n, ks] =>
    match n.toNat? with
    | some n =>
      let kinds := ks.toList.map fun c => c.toNat - '0'.toNat
      if kinds.length ≠ n then do bad; loop h s
      else
        let ka := kinds.toArray
        loop h { n0 := n, kinds := ka, ng := emptyNG n (fun x => intrinsicOfKind (ka.getD x 0)), regs := {} }
    | none => do bad; loop h s
  | ["g", r, sst, sout, se] =>
    match parseGraph s.n sst sout se with
    | some g => loop h (put r g)
    | none => do bad; loop h s
  | ["addnode", r, g, n] =>
    match reg g, n.toNat? with
    | some g, some n => if n < s.n then loop h (put r (addNode s.intr g n)) else do bad; loop h s
    | _, _ => do bad; loop h s
  | ["addedge", r, g, a, b, f] =>
    match reg g, a.toNat?, b.toNat?, f.toNat? with
    | some g, some a, some b, some f =>
      if a < s.n ∧ b < s.n ∧ 0 < f ∧ f ≤ 7 then loop h (put r (addEdge s.intr g a b (Flags.ofNat f))) else do bad; loop h s
    | _, _, _, _ => do bad; loop h s
  | ["mns", r, g, n, v] =>
    match reg g, n.toNat?, v.toNat? with
    | some g, some n, some v => if n < s.n ∧ v ≤ 2 then loop h (put r (mergeNodeStatus g n v)) else do bad; loop h s
    | _, _, _ => do bad; loop h s
  | ["merge", r, g, k] =>
    match reg g, reg k with
    | some g, some k => loop h (put r (merge s.intr g k))
    | _, _ => do bad; loop h s
  | ["le", g, k] =>
    match reg g, reg k with
    | some g, some k => do IO.println s!"le {b01 (lessEqual g k)}"; loop h s
    | _, _ => do bad; loop h s
  | ["matches", g, k] =>
    match reg g, reg k with
    | some g, some k => do IO.println s!"matches {b01 (matchesG g k)}"; loop h s
    | _, _ => do bad; loop h s
  | ["show", g] =>
    match reg g with
    | some g => do IO.println (showGraph s g); loop h s
    | none => do bad; loop h s
  | ["chk", g] =>
    match reg g with
    | some g => do
      IO.println s!"chk rep={b01 (g.repOk s.n)} closed={b01 g.closedB} wf={b01 (g.wfB s.intr s.n)}"
      loop h s
    | none => do bad; loop h s
  | ["sub", b, f, c] =>
    -- register node c (of the declared universe) as field subnode f of b
    match b.toNat?, f.toNat?, c.toNat? with
    | some b, some f, some c =>
      if b < s.n0 ∧ c < s.n0 then
        let ng := s.ng
        let ng' : NG := { ng with sub := fun x y => if x = b ∧ y = f then some c else ng.sub x y,
                                  par := fun x => if x = c then some (b, f) else ng.par x }
        loop h { s with ng := tabNG ng' }
      else do bad; loop h s
    | _, _, _ => do bad; loop h s
  | ["wa", r, g, d, sr] =>
    match reg g, d.toNat?, sr.toNat? with
    | some g, some d, some sr =>
      if d < s.n ∧ sr < s.n then
        let res := weakAssign (s.ng.next + 2) s.ng g d sr
        let s' := { s with ng := tabNG res.1 }
        loop h { s' with regs := s'.regs.insert r (tabulate s'.n res.2) }
      else do bad; loop h s
    | _, _, _ => do bad; loop h s
  | ["store", r, g, a, v, f] =>
    match reg g, a.toNat?, v.toNat? with
    | some g, some a, some v =>
      if a < s.n ∧ v < s.n ∧ (f == "-" || f.toNat?.isSome) then
        let res := storeField s.ng g a v f.toNat?
        let s' := { s with ng := tabNG res.1 }
        loop h { s' with regs := s'.regs.insert r (tabulate s'.n res.2) }
      else do bad; loop h s
    | _, _, _ => do bad; loop h s
  | ["load", r, g, v, a, op, f] =>
    match reg g, v.toNat?, a.toNat?, op.toNat? with
    | some g, some v, some a, some op =>
      if a < s.n ∧ v < s.n ∧ (f == "-" || f.toNat?.isSome) then
        let res := loadField s.ng g v a op f.toNat?
        let s' := { s with ng := tabNG res.1 }
        loop h { s' with regs := s'.regs.insert r (tabulate s'.n res.2) }
      else do bad; loop h s
    | _, _, _, _ => do bad; loop h s
  | ["fieldaddr", r, g, v, x, f] =>
    -- FieldAddr: for every pointee p of x: AddEdge(v, FieldSubnode(p, f), internal)
    match reg g, v.toNat?, x.toNat?, f.toNat? with
    | some g, some v, some x, some f =>
      if v < s.n ∧ x < s.n then
        let res := (pointees g x).foldl (fun (acc : NG × EGraph) p =>
          let r := fieldSubnode acc.1 acc.2 p f
          (r.1, addEdge r.1.intr r.2.1 v r.2.2 Flags.internal)) (s.ng, g)
        let s' := { s with ng := tabNG res.1 }
        loop h { s' with regs := s'.regs.insert r (tabulate s'.n res.2) }
      else do bad; loop h s
    | _, _, _, _ => do bad; loop h s
  | ["local", g, p] =>
    match reg g, p.toNat? with
    | some g, some p => do IO.println s!"local {b01 (Argot.EscCore.derefsAreLocal g p)}"; loop h s
    | _, _ => do bad; loop h s
  | ["callunknown", r, g, as] =>
    match reg g, (as.splitOn ",").mapM String.toNat? with
    | some g, some as => if as.all (· < s.n) then loop h (put r (callUnknown g as)) else do bad; loop h s
    | _, _ => do bad; loop h s
  | ["clonereach", r, g, rs] =>
    match reg g, (if rs = "-" then some [] else (rs.splitOn ",").mapM String.toNat?) with
    | some g, some rs =>
      if rs.all (· < s.n) then
        if g.reachConv rs then loop h (put r (cloneReachable g rs))
        else do IO.println "clonereach-worklist-not-empty"; loop h s
      else do bad; loop h s
    | _, _ => do bad; loop h s
  | ["issub", n] =>
    match n.toNat? with
    | some n => loop h { s with subMarks := n :: s.subMarks }
    | none => do bad; loop h s
  | ["simplify", r, g] =>
    match reg g with
    | some g =>
      let isLoad := fun n => kindOfN s (s.n + 1) n == 2
      let isSub := fun n => (s.ng.par n).isSome || s.subMarks.contains n
      loop h (put r (simplifySummary isLoad isSub g))
    | none => do bad; loop h s
  | _ => do bad; loop h s

def main : IO Unit := do loop (← IO.getStdin) {}
