/- Line-protocol driver for the defers model (C16).
   fn <id> / ord i j k / blk <kinds> <succs> ... / go   ->   res <id> wf=.. conv=.. bounded=.. sets=.. -/
import Argot.Model.Defers
open Argot.Defers

def parseKinds (s : String) : Option (List IK) :=
  if s == "-" then some [] else
  s.toList.mapM fun c => match c with
    | 'd' => some IK.defer | 'r' => some IK.runDefers | 'o' => some IK.other | _ => none

def parseNats (s : String) : Option (List Nat) :=
  if s == "-" then some [] else (s.splitOn ",").mapM String.toNat?

def showStack (s : Stack) : String :=
  if s.isEmpty then "e" else ".".intercalate (s.map fun p => s!"{p.1}-{p.2}")

def showSet (S : StackSet) : String :=
  if S.isEmpty then "empty" else "|".intercalate (S.map showStack)

def runDefersTerminal (g : Cfg) : Bool :=
  g.all (fun blk => !(blk.instrs.contains IK.runDefers) || blk.succs.isEmpty)

def runDefersSites (g : Cfg) : List Site :=
  (g.zipIdx.map fun (blk, b) =>
    (blk.instrs.zipIdx.filterMap fun (ik, j) => if ik = .runDefers then some (b, j) else none)).flatten

def answer (id : String) (g : Cfg) (ord : List Nat) (fuel : Nat) : String :=
  let r := analyze g ord fuel
  let sets := (runDefersSites g).map fun p =>
    s!"{p.1},{p.2}:" ++ (match r.setAt g p with | none => "none" | some S => showSet S)
  let b (x : Bool) := if x then "1" else "0"
  s!"res {id} wf={b (wf g && runDefersTerminal g)} conv={b r.converged} bounded={b r.bounded} sets={";".intercalate sets}"

structure PAcc where
  id : String := ""
  ord : List Nat := []
  blocks : Array Block := #[]
  bad : Bool := false

partial def loop (h : IO.FS.Stream) (acc : PAcc) : IO Unit := do
  let line ← h.getLine
  if line.isEmpty then return ()
  let ws := (line.trimAscii.toString.splitOn " ").filter (· ≠ "")
  match ws with
  | ["fn", id] => loop h { id := id }
  | "ord" :: rest =>
    match rest.mapM String.toNat? with
    | some o => loop h { acc with ord := o }
    | none => loop h { acc with bad := true }
  | ["blk", ks, ss] =>
    match parseKinds ks, parseNats ss with
    | some k, some s => loop h { acc with blocks := acc.blocks.push ⟨k, s⟩ }
    | _, _ => loop h { acc with bad := true }
  | ["go", fuel] =>
    match fuel.toNat? with
    | some f =>
      if acc.bad then IO.println s!"bad-record {acc.id}"
      else if acc.blocks.isEmpty then IO.println s!"res {acc.id} wf=1 conv=1 bounded=1 sets="
      else IO.println (answer acc.id acc.blocks.toList acc.ord f)
    | none => IO.println s!"bad-record {acc.id}"
    loop h {}
  | [] => loop h acc
  | _ => loop h { acc with bad := true }

def main : IO Unit := do loop (← IO.getStdin) {}
