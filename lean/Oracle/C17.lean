/- Line-protocol driver for C17 (tab-separated fields). One record = one dumped real graph:
   begin <id> / site n s / cinstr c i / out s d idx / in d s idx / callee n S / callsite S site n /
   closure c S / referring S instr c / owncall n / ownclosure c / access node S global isWrite / constructed S / read g node / write g node / end
   -> res <id> inv= edges= calls= closures= globals= maps= single= index= nodes… convc= staleRef= staleSite= orphanRef= orphanSite= (+ first offending items)      -/
import Argot.Model.SGraph
import Argot.Model.SGraphConv
open Argot.SGraph

structure PAcc where
  id : String := ""
  sites : Array Nat := #[]     -- indexed by node id
  cinstrs : Array Nat := #[]
  calleeR : Array (Nat × Nat) := #[]
  callsiteR : Array (Nat × Nat × Nat) := #[]
  closureR : Array (Nat × Nat) := #[]
  referringR : Array (Nat × Nat × Nat) := #[]
  accessR : Array AccessNode := #[]
  constructedR : Array Nat := #[]
  readR : Array (Nat × Nat) := #[]
  writeR : Array (Nat × Nat) := #[]
  outR : Array (Nat × Nat × Int) := #[]
  innR : Array (Nat × Nat × Int) := #[]
  ownCallR : Array Nat := #[]
  ownClosR : Array Nat := #[]
  bad : Bool := false

def setAt (a : Array Nat) (i v : Nat) : Array Nat :=
  let a := if a.size ≤ i then a ++ Array.replicate (i + 1 - a.size) 0 else a
  a.set! i v

def b (x : Bool) : String := if x then "1" else "0"

def nat3 (a b c : String) : Option (Nat × Nat × Nat) := do
  let x ← a.toNat?; let y ← b.toNat?; let z ← c.toNat?; pure (x, y, z)

def showT (t : Nat × Nat × Int) : String := s!"{t.1}>{t.2.1}:{t.2.2}"

def finish (a : PAcc) : String :=
  let st : State := { e := { out := a.outR.toList, inn := a.innR.toList },
                      calleeSummary := a.calleeR.toList, callsites := a.callsiteR.toList,
                      closureSummary := a.closureR.toList, referring := a.referringR.toList,
                      access := a.accessR.toList, constructed := a.constructedR.toList,
                      readLoc := a.readR.toList, writeLoc := a.writeR.toList }
  let sites := a.sites
  let cinstrs := a.cinstrs
  let σ : Static := { site := fun n => sites.getD n 0, cinstr := fun n => cinstrs.getD n 0 }
  let e := invEdges st
  let c := invCalls σ st
  let cl := invClosures σ st
  let g := invGlobals st
  let m := invMaps st
  let si := singleIndex st
  let ix := invIndex st
  -- diagnostics (not part of the model): first offending items
  let badOut := (st.e.out.filter fun t => !(st.e.inn.any fun f => f.1 = t.2.1 && f.2.1 = t.1)).take 3
  let badIn := (st.e.inn.filter fun f => !(st.e.out.any fun t => f.1 = t.2.1 && f.2.1 = t.1 && f.2.2 = t.2.2)).take 3
  let badIdx := (st.e.out.filter fun t => !(st.e.inn.any fun f => f.1 = t.2.1 && f.2.1 = t.1 && f.2.2 = t.2.2)).take 3
  let badCallee := (st.calleeSummary.filter fun p => !(st.callsites.contains (p.2, σ.site p.1, p.1))).take 3
  let badSite := (st.callsites.filter fun t => !(σ.site t.2.2 = t.2.1 && st.calleeSummary.contains (t.2.2, t.1))).take 3
  let badClos := (st.closureSummary.filter fun p => !(st.referring.contains (p.2, σ.cinstr p.1, p.1))).take 3
  -- the converse registrations (Model/SGraphConv.lean; theorems in Props/C17Conv.lean)
  let own : Owned := { calls := a.ownCallR.toList, closures := a.ownClosR.toList }
  let sRef := staleReferring σ st
  let sSite := staleCallsites σ st
  let oRef := orphanReferring own st
  let oSite := orphanCallsites own st
  let conv := s!"convc={b (invClosuresConv σ st)}\tstaleRef={sRef.length}\tstaleSite={sSite.length}\torphanRef={oRef.length}\torphanSite={oSite.length}\tnReferring={st.referring.length}\tnCallsite={st.callsites.length}"
  let d := s!"staleRef={sRef.take 3} staleSite={sSite.take 3} orphanRef={oRef.take 3} orphanSite={oSite.take 3} badOut={badOut.map showT} badIn={badIn.map showT} badIdx={badIdx.map showT} badCallee={badCallee} badSite={badSite} badClos={badClos}"
  s!"res\t{a.id}\tinv={b (inv σ st)}\tedges={b e}\tcalls={b c}\tclosures={b cl}\tglobals={b g}\tmaps={b m}\tsingle={b si}\tindex={b ix}\tnOut={st.e.out.length}\tnIn={st.e.inn.length}\tnCallee={st.calleeSummary.length}\tnClosure={st.closureSummary.length}\tnAccess={st.access.length}\tnRead={st.readLoc.length}\tnWrite={st.writeLoc.length}\t{conv}\t{d}"

partial def loop (h : IO.FS.Stream) (a : PAcc) : IO Unit := do
  let line ← h.getLine
  if line.isEmpty then return ()
  let line := if line.endsWith "\n" then (line.dropEnd 1).toString else line
  let ws := line.splitOn "\t"
  match ws with
  | ["begin", id] => loop h { id := id }
  | ["end"] =>
    if a.bad then IO.println s!"bad-record\t{a.id}" else IO.println (finish a)
    loop h {}
  | ["site", n, s] =>
    match n.toNat?, s.toNat? with
    | some n, some s => loop h { a with sites := setAt a.sites n s }
    | _, _ => loop h { a with bad := true }
  | ["cinstr", n, s] =>
    match n.toNat?, s.toNat? with
    | some n, some s => loop h { a with cinstrs := setAt a.cinstrs n s }
    | _, _ => loop h { a with bad := true }
  | ["out", s, d, i] =>
    match s.toNat?, d.toNat?, i.toInt? with
    | some s, some d, some i => loop h { a with outR := a.outR.push (s, d, i) }
    | _, _, _ => loop h { a with bad := true }
  | ["in", d, s, i] =>
    match d.toNat?, s.toNat?, i.toInt? with
    | some d, some s, some i => loop h { a with innR := a.innR.push (d, s, i) }
    | _, _, _ => loop h { a with bad := true }
  | ["callee", n, s] =>
    match n.toNat?, s.toNat? with
    | some n, some s => loop h { a with calleeR := a.calleeR.push (n, s) }
    | _, _ => loop h { a with bad := true }
  | ["callsite", s, t, n] =>
    match nat3 s t n with
    | some x => loop h { a with callsiteR := a.callsiteR.push x }
    | none => loop h { a with bad := true }
  | ["closure", c, s] =>
    match c.toNat?, s.toNat? with
    | some c, some s => loop h { a with closureR := a.closureR.push (c, s) }
    | _, _ => loop h { a with bad := true }
  | ["referring", s, t, n] =>
    match nat3 s t n with
    | some x => loop h { a with referringR := a.referringR.push x }
    | none => loop h { a with bad := true }
  | ["access", n, s, g, w] =>
    match nat3 n s g with
    | some (n, s, g) => loop h { a with accessR := a.accessR.push ⟨n, s, g, w == "1"⟩ }
    | none => loop h { a with bad := true }
  | ["owncall", n] =>
    match n.toNat? with
    | some n => loop h { a with ownCallR := a.ownCallR.push n }
    | none => loop h { a with bad := true }
  | ["ownclosure", n] =>
    match n.toNat? with
    | some n => loop h { a with ownClosR := a.ownClosR.push n }
    | none => loop h { a with bad := true }
  | ["constructed", s] =>
    match s.toNat? with
    | some s => loop h { a with constructedR := a.constructedR.push s }
    | none => loop h { a with bad := true }
  | ["read", g, n] =>
    match g.toNat?, n.toNat? with
    | some g, some n => loop h { a with readR := a.readR.push (g, n) }
    | _, _ => loop h { a with bad := true }
  | ["write", g, n] =>
    match g.toNat?, n.toNat? with
    | some g, some n => loop h { a with writeR := a.writeR.push (g, n) }
    | _, _ => loop h { a with bad := true }
  | [""] => loop h a
  | _ => loop h { a with bad := true }

def main : IO Unit := do loop (← IO.getStdin) {}
