/- Line-protocol driver for the reachability model (C18).
   prog <id> / opt noexec / type named <u> | type iface <names|-> <embedded|-> | type other /
   fn <name> <hasPkg> <pkgName|-> <anon|-> / i <kind> <ops|-> <call> <conv> <widen> /
   edge <caller> <site> <callee> (real pointer call graph, optional) / end
   ->  res <id> wf=.. known=.. complete=.. widening=.. r00=.. r01=.. r10=.. r11=.. exec=.. stable=.. missing=g:reason;..
       prov=<-| n:f/s/g;..>   (number of call-graph edges : the edges `Reach.provOK` does not justify w.r.t. r00) -/
import Argot.Model.ReachGen
import Argot.Model.ReachPtr
import Argot.Spec.Reach
open Argot.Reach

def parseList (s : String) : List String := if s == "-" then [] else s.splitOn ","

def parseNatList (s : String) : Option (List Nat) := (parseList s).mapM String.toNat?

def parseRef (s : String) : Option VRef :=
  if s == "O" then some .other
  else if s.startsWith "F" then (s.drop 1).toString.toNat?.map .fn
  else if s.startsWith "I" then (s.drop 1).toString.toNat?.map .instr
  else none

def parseOps (s : String) : Option (List (String × VRef)) :=
  (parseList s).mapM fun o =>
    match o.splitOn "=" with
    | [f, r] => (parseRef r).map fun v => (f, v)
    | _ => none

def parseCall (s : String) : Option (Option CallInfo) :=
  if s == "-" then some none
  else if s == "s" then some (some ⟨false, "", []⟩)
  else match s.splitOn ":" with
    | ["i", m, jm] => some (some ⟨true, m, parseList jm⟩)
    | _ => none

def parseConv (s : String) : Option (Option MkIface) :=
  if s == "-" then some none
  else match s.splitOn ":" with
    | [t, ms] => do
      let tn ← t.toNat?
      let es ← (parseList ms).mapM fun e =>
        match e.splitOn "=" with
        | [n, f] => f.toNat?.map fun g => (n, g)
        | _ => none
      some (some ⟨tn, es⟩)
    | _ => none

structure PAcc where
  id : String := ""
  types : Array TypeNode := #[]
  fns : Array Fn := #[]
  cur : Option (String × Bool × String × List Nat) := none
  instrs : Array Instr := #[]
  noexec : Bool := false
  edges : Array Edge := #[]
  bad : Bool := false

def PAcc.flush (a : PAcc) : PAcc :=
  match a.cur with
  | none => a
  | some (name, hp, pn, anon) =>
    { a with fns := a.fns.push { name := name, hasPkg := hp, pkgName := pn, instrs := a.instrs.toList, anon := anon },
             cur := none, instrs := #[] }

def dedupSorted : List Nat → List Nat
  | a :: b :: r => if a == b then dedupSorted (b :: r) else a :: dedupSorted (b :: r)
  | l => l

def asSet (l : List Nat) : List Nat := dedupSorted (l.mergeSort (· ≤ ·))

def showNats (l : List Nat) : String := ",".intercalate (l.map toString)

/-- `g` is reached by invoke dispatch only.  If some conversion in a reported function has `g` in its
method set under a name the conversion's interface lists (or the interface is empty), `findInterfaceCallees`
should have reported it: the MakeInterface mechanism itself is broken.  Otherwise it is the widening gap. -/
def dispatchReason (P : Prog) (R : List Nat) (g : Nat) : String :=
  let applied := R.any fun f' => (fnAt P f').instrs.any fun ins' =>
    match ins'.conv with
    | some m => (ifaceCallees P m).contains g
    | none => false
  if applied then "MakeInterface-not-applied" else "widening"

/-- why is `g` (executed according to `Exec`, not reported) missing: the unvisited operand position, or the
interface widening, through which a reported function reaches it; functions only reachable through other
missing functions inherit the reason. -/
def directReason (T : Tables) (P : Prog) (R : List Nat) (g : Nat) : Option String :=
  R.findSome? fun f =>
    let fn := fnAt P f
    match fn.instrs.findSome? (fun ins => ins.ops.findSome? fun o =>
        if o.2 == VRef.fn g && !T.instrOps.contains (ins.kind, o.1) then some (ins.kind ++ "." ++ o.1) else none) with
    | some r => some r
    | none => if (dispatch P R f).contains g then some (dispatchReason P R g) else
              if (funcRefs fn).contains g then some "unexplained-ref" else none

/-- one round of attribution: direct causes from reported functions, else the reason of an already
attributed function that mentions / dispatches to `g` -/
def blameRound (T : Tables) (P : Prog) (reach : List Nat) (todo : List Nat) (acc : List (Nat × String)) :
    List (Nat × String) :=
  let K := reach ++ acc.map (·.1)
  todo.filterMap fun g =>
    match directReason T P reach g with
    | some r => some (g, r)
    | none =>
      match acc.findSome? (fun (f, r) =>
          if (funcRefs (fnAt P f)).contains g || (dispatch P K f).contains g then some (g, r) else none) with
      | some x => some x
      | none => if K.any (fun f => (dispatch P K f).contains g) then some (g, "indirect-dispatch") else none

def blame (T : Tables) (P : Prog) (reach : List Nat) : Nat → List Nat → List (Nat × String) → List (Nat × String)
  | 0, todo, acc => acc ++ todo.map fun g => (g, "unexplained")
  | k + 1, todo, acc =>
    let step := blameRound T P reach todo acc
    if step.isEmpty then acc ++ todo.map fun g => (g, "unexplained")
    else
      let done := step.map (·.1)
      blame T P reach k (todo.filter fun g => !done.contains g) (acc ++ step)

def answer (id : String) (P : Prog) (noexec : Bool) (edges : List Edge) : String :=
  let T := genTables
  let b (x : Bool) := if x then "1" else "0"
  let r00 := asSet (findReachable T P false false)
  let r01 := asSet (findReachable T P false true)
  let r10 := asSet (findReachable T P true false)
  let r11 := asSet (findReachable T P true true)
  let roots := entryPoints P false false
  let E := if noexec then [] else execSet P roots
  let st := noexec || stable P roots E
  let miss := (asSet E).filter fun g => !r00.contains g
  let reasons := blame T P r00 (miss.length + 1) miss []
  let ms := reasons.map fun (g, r) => s!"{g}:{r}"
  -- criterion of Props/C18Ptr.ptr_reach_subset on the real call graph (small programs only)
  let prov := if edges.isEmpty then "-" else
    let U := unjustified P r00 edges
    s!"{edges.length}:" ++ ";".intercalate (U.map fun e => s!"{e.1}/{e.2.1}/{e.2.2}")
  s!"res {id} wf={b (wf P)} known={b genKnown} complete={b (decide (OperandTableComplete T))} widening={b (hasWidening P)} r00={showNats r00} r01={showNats r01} r10={showNats r10} r11={showNats r11} exec={showNats (asSet E)} stable={b st} missing={";".intercalate ms} prov={prov}"

partial def loop (h : IO.FS.Stream) (acc : PAcc) : IO Unit := do
  let line ← h.getLine
  if line.isEmpty then return ()
  let ws := (line.trimAscii.toString.splitOn " ").filter (· ≠ "")
  match ws with
  | ["prog", id] => loop h { id := id }
  | ["opt", "noexec"] => loop h { acc with noexec := true }
  | ["type", "named", u] =>
    match u.toNat? with
    | some n => loop h { acc with types := acc.types.push (.named n) }
    | none => loop h { acc with bad := true }
  | ["type", "iface", names, emb] =>
    match parseNatList emb with
    | some es => loop h { acc with types := acc.types.push (.iface (parseList names) es) }
    | none => loop h { acc with bad := true }
  | ["type", "other"] => loop h { acc with types := acc.types.push .other }
  | ["fn", name, hp, pn, anon] =>
    let a := acc.flush
    match parseNatList anon with
    | some an => loop h { a with cur := some (name, hp == "1", if pn == "-" then "" else pn, an) }
    | none => loop h { a with bad := true }
  | ["i", kind, ops, call, conv, widen] =>
    match parseOps ops, parseCall call, parseConv conv, acc.cur with
    | some o, some c, some m, some _ =>
      loop h { acc with instrs := acc.instrs.push { kind := kind, ops := o, call := c, conv := m, widen := widen == "1" } }
    | _, _, _, _ => loop h { acc with bad := true }
  | ["edge", f, st, g] =>
    match f.toNat?, st.toNat?, g.toNat? with
    | some f, some st, some g => loop h { acc with edges := acc.edges.push (f, st, g) }
    | _, _, _ => loop h { acc with bad := true }
  | ["end"] =>
    let a := acc.flush
    if a.bad then IO.println s!"bad-record {a.id}"
    else IO.println (answer a.id { fns := a.fns.toList, types := a.types.toList } a.noexec a.edges.toList)
    loop h {}
  | [] => loop h acc
  | _ => loop h { acc with bad := true }

def main : IO Unit := do loop (← IO.getStdin) {}
