/- Line-protocol driver for the may-panic model (C19).
   prog <id> / excl <path> / fn <pkg|-> <file|-> / g|d|c <pos> <form> <target|-> <builtin|-> <callees|-> / end
   ->  res <id> wf=.. known=.. tables=.. report=f:p,p;.. missing=f:p:form;.. launched=.. excluded=.. specrec=.. -/
import Argot.Model.MayPanicGen
open Argot.MayPanic

def parseForm (s : String) : Option CallForm :=
  match s with
  | "invoke" => some .invoke | "fn" => some .fn | "closure" => some .closure
  | "builtin" => some .builtin | "value" => some .value | _ => none

def showForm : CallForm → String
  | .invoke => "invoke" | .fn => "fn" | .closure => "closure" | .builtin => "builtin" | .value => "value"

def parseNats (s : String) : Option (List Nat) :=
  if s == "-" then some [] else (s.splitOn ",").mapM String.toNat?

def parseSite (ws : List String) : Option Site :=
  match ws with
  | [pos, form, target, builtin, callees] => do
    let p ← pos.toNat?
    let f ← parseForm form
    let t ← if target == "-" then some none else target.toNat?.map some
    let cs ← parseNats callees
    some { pos := p, form := f, target := t, builtin := if builtin == "-" then "" else builtin, callees := cs }
  | _ => none

structure PAcc where
  id : String := ""
  excl : Array String := #[]
  fns : Array Fn := #[]
  cur : Option (Option String × String) := none
  gos : Array Site := #[]
  defers : Array Site := #[]
  calls : Array Site := #[]
  bad : Bool := false

def PAcc.flush (a : PAcc) : PAcc :=
  match a.cur with
  | none => a
  | some (pkg, file) =>
    { a with fns := a.fns.push { pkg := pkg, file := file, gos := a.gos.toList, defers := a.defers.toList,
                                  calls := a.calls.toList },
             cur := none, gos := #[], defers := #[], calls := #[] }

def dedupSorted : List Nat → List Nat
  | a :: b :: r => if a == b then dedupSorted (b :: r) else a :: dedupSorted (b :: r)
  | l => l

def showNats (l : List Nat) : String := ",".intercalate (l.map toString)

def answer (id : String) (excl : List String) (P : Prog) : String :=
  let T := genTables
  let b (x : Bool) := if x then "1" else "0"
  let rep := (report T excl P).map fun (f, cs) => s!"{f}:{showNats (cs.mergeSort (· ≤ ·))}"
  let mis := (missing T excl P).map fun (f, p, fm) => s!"{f}:{p}:{showForm fm}"
  let launched := dedupSorted ((P.flatMap fun h => h.gos.flatMap fun s => s.callees).mergeSort (· ≤ ·))
  let launched := launched.filter (· < P.length)
  let ex := launched.filter (excludedFn T excl P)
  let sr := launched.filter (defersRecoverSpec P)
  let tb := s!"{b T.goFn}{b T.goClosure}{b T.goInvoke}{b T.goValue}{b T.deferFn}{b T.deferClosure}{b T.recoverBuiltin}"
  s!"res {id} wf={b (wf P)} known={b genKnown} tables={tb} report={";".intercalate rep} missing={";".intercalate mis} launched={showNats launched} excluded={showNats ex} specrec={showNats sr}"

partial def loop (h : IO.FS.Stream) (acc : PAcc) : IO Unit := do
  let line ← h.getLine
  if line.isEmpty then return ()
  let ws := (line.trimAscii.toString.splitOn " ").filter (· ≠ "")
  match ws with
  | ["prog", id] => loop h { id := id }
  | ["excl", p] => loop h { acc with excl := acc.excl.push p }
  | ["fn", pkg, file] =>
    let a := acc.flush
    loop h { a with cur := some (if pkg == "-" then none else some pkg, if file == "-" then "" else file) }
  | "g" :: rest =>
    match parseSite rest, acc.cur with
    | some s, some _ => loop h { acc with gos := acc.gos.push s }
    | _, _ => loop h { acc with bad := true }
  | "d" :: rest =>
    match parseSite rest, acc.cur with
    | some s, some _ => loop h { acc with defers := acc.defers.push s }
    | _, _ => loop h { acc with bad := true }
  | "c" :: rest =>
    match parseSite rest, acc.cur with
    | some s, some _ => loop h { acc with calls := acc.calls.push s }
    | _, _ => loop h { acc with bad := true }
  | ["end"] =>
    let a := acc.flush
    if a.bad then IO.println s!"bad-record {a.id}"
    else IO.println (answer a.id a.excl.toList a.fns.toList)
    loop h {}
  | [] => loop h acc
  | _ => loop h { acc with bad := true }

def main : IO Unit := do loop (← IO.getStdin) {}
