/- Line-protocol driver for C20 (MapParallel LTS replay; T9 verdict).
   t9                                   -> t9 join=<0|1|2> gos=<n>
   case <id> <len> <numRoutines>        start a record; a[i] = i, f x = 3*x+1
   ev s <i> <w> | ev e <i> <w>          observed events of the instrumented f, global order
   res <r0,r1,…|->                      what the real MapParallel returned
   go                                   -> ok <id> events=<k> | reject <id> <why> | resdiff <id> model=<…> -/
import Argot.Model.MapPar
import Argot.Model.ReportWriter
import Argot.Gen.T9GoStmts
open Argot.MapPar

def fC20 (x : Nat) : Nat := 3 * x + 1

structure Rec where
  id : String := ""
  len : Nat := 0
  n : Int := 0
  evs : Array Ev := #[]
  res : Option (List Nat) := none
  bad : Bool := false

def showRes (r : List (Option Nat)) : String :=
  if r.isEmpty then "-" else ",".intercalate (r.map fun o => match o with | some v => toString v | none => "zero")

def answer (r : Rec) : String :=
  if r.bad then s!"bad-record {r.id}" else
  let a := List.range r.len
  match replay fC20 a r.n r.evs.toList with
  | .error e => s!"reject {r.id} {e}"
  | .ok σ =>
    if σ.err then s!"reject {r.id} model-crash"
    else if σ.main != Main.ret then s!"reject {r.id} model-not-terminal main={repr σ.main}"
    else match r.res with
      | none => s!"bad-record {r.id}"
      | some real =>
        if σ.result == real.map some then s!"ok {r.id} events={r.evs.size}"
        else s!"resdiff {r.id} model={showRes σ.result}"

partial def loop (h : IO.FS.Stream) (acc : Rec) : IO Unit := do
  let line ← h.getLine
  if line.isEmpty then return ()
  let ws := (line.trimAscii.toString.splitOn " ").filter (· ≠ "")
  match ws with
  | ["t9"] =>
    let code := match Argot.Gen.T9.buildGraphGo with | [] => 1 | g :: _ => g.join
    IO.println s!"t9 join={code} gos={Argot.Gen.T9.buildGraphGo.length}"
    loop h acc
  | ["case", id, len, n] =>
    match len.toNat?, n.toInt? with
    | some l, some k => loop h { id := id, len := l, n := k }
    | _, _ => loop h { id := id, bad := true }
  | ["ev", k, i, w] =>
    match i.toNat?, w.toNat? with
    | some i, some w =>
      if k == "s" then loop h { acc with evs := acc.evs.push (.start i w) }
      else if k == "e" then loop h { acc with evs := acc.evs.push (.fin i w) }
      else loop h { acc with bad := true }
    | _, _ => loop h { acc with bad := true }
  | ["res", r] =>
    if r == "-" then loop h { acc with res := some [] }
    else match (r.splitOn ",").mapM String.toNat? with
      | some l => loop h { acc with res := some l }
      | none => loop h { acc with bad := true }
  | ["go"] =>
    IO.println (answer acc)
    loop h {}
  | [] => loop h acc
  | _ => loop h { acc with bad := true }

def main : IO Unit := do loop (← IO.getStdin) {}
