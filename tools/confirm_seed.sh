#!/bin/bash
# usage: tools/confirm_seed.sh <outdir e.g. /tmp/seed-c16-out/m1> <demo package dir in repo e.g. analysis/defers> <go test packages to run with the patch...>
# Confirms in a scratch worktree of the pinned commit: patch applies, builds, demo passes pristine,
# demo fails patched, listed packages' existing tests pass patched. Prints a JSON summary line.
src=$1; demodir=$2; shift 2; pkgs="$@"
export GOFLAGS=-mod=mod GOPROXY=off GOSUMDB=off GOTOOLCHAIN=local GOWORK=off
wt=/tmp/wt-confirm-$$
git -C /repo worktree add -q --detach $wt 25e32d0 || exit 2
trap "git -C /repo worktree remove --force $wt" EXIT
cd $wt
demo=$(ls $src/*_test.go | head -1)
run=$(grep -oE "func (Test[A-Za-z0-9_]+)" $demo | head -1 | awk '{print $2}')
cp $demo $demodir/zz_demo_test.go
go test -vet=off -count=1 -timeout 60m -run "^${run}\$" ./$demodir/ > /tmp/confirm-$$-pristine.log 2>&1; p=$?
git apply $src/patch.diff || { echo '{"applies":false}'; exit 1; }
go build ./... > /tmp/confirm-$$-build.log 2>&1; b=$?
go test -vet=off -count=1 -timeout 60m -run "^${run}\$" ./$demodir/ > /tmp/confirm-$$-patched.log 2>&1; q=$?
rm $demodir/zz_demo_test.go
s=0
if [ -n "$pkgs" ]; then go test -vet=off -count=1 -timeout 120m $pkgs > /tmp/confirm-$$-suite.log 2>&1; s=$?; fi
echo "{\"applies\":true,\"build_rc\":$b,\"demo_pristine_rc\":$p,\"demo_patched_rc\":$q,\"suite_patched_rc\":$s,\"suite_pkgs\":\"$pkgs\",\"demo_test\":\"$run\"}"
