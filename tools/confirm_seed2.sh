#!/bin/bash
# usage: tools/confirm_seed2.sh <outdir with patch.diff, demo_test.go, [demo_testdata/], meta.json> [go test packages to run patched...]
# Round-2 confirmation against /repo HEAD (scratch worktree, removed afterwards): patch applies, builds, the demo
# passes pristine and fails patched, the listed packages' existing tests pass patched. Prints a JSON line.
src=$(readlink -f "$1"); shift; pkgs="$@"
export GOFLAGS=-mod=mod GOPROXY=off GOSUMDB=off GOTOOLCHAIN=local GOWORK=off
demodir=$(python3 -c "import json,sys;print(json.load(open('$src/meta.json'))['demo_pkg_dir'])")
run=$(python3 -c "import json,sys;print(json.load(open('$src/meta.json'))['demo_test_name'])")
wt=/tmp/wt-confirm-$$
git -C /repo worktree add -q --detach $wt HEAD || exit 2
trap "git -C /repo worktree remove --force $wt; rm -f /tmp/confirm-$$-*.log" EXIT
cd $wt
cp $src/demo_test.go $demodir/zz_demo_test.go
[ -d $src/demo_testdata ] && cp -r $src/demo_testdata $demodir/demo_testdata
go test -vet=off -count=1 -p 1 -timeout 60m -run "^${run}\$" ./$demodir/ > /tmp/confirm-$$-pristine.log 2>&1; p=$?
git apply $src/patch.diff || { echo '{"applies":false}'; exit 1; }
go build ./... > /tmp/confirm-$$-build.log 2>&1; b=$?
go test -vet=off -count=1 -p 1 -timeout 60m -run "^${run}\$" ./$demodir/ > /tmp/confirm-$$-patched.log 2>&1; q=$?
rm -rf $demodir/zz_demo_test.go $demodir/demo_testdata
s=-1
if [ -n "$pkgs" ]; then go test -vet=off -count=1 -p 1 -timeout 120m $pkgs > /tmp/confirm-$$-suite.log 2>&1; s=$?; tail -5 /tmp/confirm-$$-suite.log >&2; fi
echo "{\"applies\":true,\"build_rc\":$b,\"demo_pristine_rc\":$p,\"demo_patched_rc\":$q,\"suite_patched_rc\":$s,\"suite_pkgs\":\"$pkgs\",\"demo_test\":\"$run\",\"base\":\"$(git -C /repo rev-parse --short HEAD)\"}"
