#!/usr/bin/env python3
"""Regenerate /verif/MANIFEST.json from props/*.json (one file per claimed property) and
props/_pending.json (properties not claimed yet, with the reason)."""
import glob, json, os
ROOT = os.path.dirname(os.path.dirname(os.path.abspath(__file__)))
ids = [json.loads(l)["id"] for l in open(os.path.join(ROOT, "properties.jsonl"))]
checks, claimed = [], set()
for p in sorted(glob.glob(os.path.join(ROOT, "props", "C*.json"))):
    c = json.load(open(p))
    if not c.get("claimed", True):
        continue
    claimed.add(c["id"])
    checks.append({
        "property_id": c["id"],
        "quick_cmd": "./check %s quick" % c["id"],
        "thorough_cmd": "./check %s thorough" % c["id"],
        "evidence_file": "/verif/evidence/%s.json" % c["id"],
        "replay_cmd_template": "cat {path}",
        "engine": "lean4-proof+correspondence",
        "level_claimed": {"category": c.get("level", "proof"), "text": c.get("level_text", ""), "design_ref": c.get("design_ref", "DESIGN.md §4 " + c["id"])},
        "level_note": c.get("level_note", "; ".join(c.get("trusted_base", []))),
        "technique": c.get("technique", "Lean 4 theorems over an executable model + correspondence check against the Go code"),
    })
pending = json.load(open(os.path.join(ROOT, "props", "_pending.json")))
na = [{"property_id": i, "reason": pending.get(i, "not yet built in this round; see DESIGN.md §8")} for i in ids if i not in claimed]
hooks = json.load(open(os.path.join(ROOT, "props", "_hooks.json")))
import subprocess
try:
    out = subprocess.run(["git", "-C", "/repo", "log", "--format=%H %s"], capture_output=True, text=True).stdout
    hooks["source_commits"] = [l.split()[0] for l in out.split("\n") if len(l.split()) > 1 and l.split(" ", 1)[1].startswith("verif:")]
except Exception:
    pass
m = {
    "version": 1,
    "setup_cmd": "./setup",
    "hooks": hooks,
    "engines": [{"name": "lean4-proof+correspondence", "path": "/verif/check", "serves_properties": sorted(claimed),
                 "kind_free_text": "Lean 4 library /verif/lean (models, specs, theorems; kernel-checked, axiom-audited on every run) + Go harness /verif/harness (generators, dumpers, drivers running the real code in-process and piping the same inputs to compiled Lean oracles) + translator /verif/harness/extract (Go source tables -> Lean data)"}],
    "checks": checks,
    "not_applicable": na,
    "notes": "Every check rebuilds from VERIF_REPO (default /repo) working tree. Known findings: /verif/known_findings.json. Seeded mutants: /verif/seeded/.",
}
json.dump(m, open(os.path.join(ROOT, "MANIFEST.json"), "w"), indent=1)
print("claimed:", sorted(claimed), "pending:", len(na))
