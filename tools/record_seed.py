#!/usr/bin/env python3
"""usage: tools/record_seed.py <Cxx> <srcdir> <name> <confirm-json> <caught: yes|no|no-input> <note>
Copies a red-team mutant (patch.diff, demo, meta.json) into /verif/seeded/<name>/ and records the
lead's own confirmation and which check catches it."""
import json, os, shutil, sys, glob
prop, src, name, confirm, caught, note = sys.argv[1:7]
dst = os.path.join(os.path.dirname(os.path.dirname(os.path.abspath(__file__))), "seeded", name)
os.makedirs(dst, exist_ok=True)
for f in glob.glob(os.path.join(src, "*")):
    b = os.path.basename(f)
    if os.path.isfile(f) and os.path.getsize(f) < 400000 and not b.endswith(".log") and not b.endswith(".test"):
        shutil.copy(f, os.path.join(dst, b + (".txt" if b.endswith("_test.go") or b.endswith(".go") else "")))
meta = {}
mp = os.path.join(src, "meta.json")
if os.path.exists(mp):
    try:
        meta = json.load(open(mp))
    except Exception as e:
        meta = {"unparsed_meta": open(mp).read()[:2000]}
meta["property"] = prop
meta["lead_confirmation"] = json.loads(confirm) if confirm.strip().startswith("{") else {"note": confirm}
meta["lead_confirmation"]["how"] = "tools/confirm_seed.sh in a scratch worktree of the pinned commit: patch applies, go build ./..., demo passes pristine / fails patched, listed packages' tests pass patched; full-suite run by the author of the mutant (see commands_run)"
meta["caught_by_check"] = caught
meta["detection_note"] = note
json.dump(meta, open(os.path.join(dst, "meta.json"), "w"), indent=1)
print("recorded", dst)
