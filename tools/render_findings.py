#!/usr/bin/env python3
"""Render /verif/known_findings.json as FINDINGS.md (one table per property: open findings, fixed findings)."""
import json, os, subprocess
ROOT = os.path.dirname(os.path.dirname(os.path.abspath(__file__)))
d = json.load(open(os.path.join(ROOT, "known_findings.json")))["findings"]
out = ["# Known findings (generated from known_findings.json by tools/render_findings.py)", "",
       "`open` = genuine defect of the pinned tree, reproduced by the check on every run (prints KNOWN-FINDING, exit 0); "
       "`fixed` = repaired by the named `fix:` commit in /repo — suppresses nothing: the replay input stays in the corpus as a regression case.", ""]
log = subprocess.run(["git", "-C", "/repo", "log", "--format=%h %s"], capture_output=True, text=True).stdout.strip().split("\n")
out += ["## `fix:` commits in /repo", ""] + ["* `%s`" % l for l in log if " fix:" in l] + [""]
props = sorted({f["property"] for f in d})
for p in props:
    fs = [f for f in d if f["property"] == p]
    out += ["## %s  (%d open, %d fixed)" % (p, sum(f["status"] == "open" for f in fs), sum(f["status"] == "fixed" for f in fs)), "",
            "| id | status | what fails | replay |", "|----|--------|-----------|--------|"]
    for f in fs:
        st = f["status"] + ((" `%s`" % f.get("commit", "")[:7]) if f["status"] == "fixed" else "")
        out.append("| %s | %s | %s | %s |" % (f.get("id", ""), st, f.get("what_fails", "").replace("|", "\\|")[:400], f.get("replay", "").replace("/verif/", "")))
    out.append("")
open(os.path.join(ROOT, "FINDINGS.md"), "w").write("\n".join(out))
print("FINDINGS.md:", len(d), "findings")
