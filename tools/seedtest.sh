#!/bin/bash
# usage: tools/seedtest.sh Cxx path/to/patch.diff [quick|thorough]
# Runs ./check Cxx against a scratch worktree of /repo with the patch applied, from a scratch copy of
# /verif (so nothing in /repo or /verif is disturbed). Prints the VIOLATION / check lines; exit 0 = caught.
id=$1; patch=$(readlink -f "$2"); tier=${3:-quick}
tag=$(basename "$(dirname "$patch")")-$$
wt=/tmp/wt-$id-$tag; vm=/tmp/vm-$id-$tag
cleanup() { git -C /repo worktree remove --force "$wt" 2>/dev/null; rm -rf "$vm"; }
trap cleanup EXIT
git -C /repo worktree add -q --detach "$wt" HEAD || exit 2
git -C "$wt" apply "$patch" || { echo "PATCH-DOES-NOT-APPLY $patch"; exit 2; }
rsync -a --exclude .git --exclude '.work/replay' --exclude '.work/C[0-9]*' --exclude '.work/lead' --exclude '.work/*.log' /verif/ "$vm"/
(cd "$vm" && VERIF_REPO="$wt" timeout 3000 ./check "$id" "$tier") > "/tmp/seedtest-$id-$tag.log" 2>&1
rc=$?
grep -E "^VIOLATION|^KNOWN|^check|broken obligation|what:" "/tmp/seedtest-$id-$tag.log" | head -12
first=$(grep -m1 -oE "replay=[^ ]+" "/tmp/seedtest-$id-$tag.log" | cut -d= -f2)
[ -n "$first" ] && [ -f "$first" ] && { echo "--- first replay (head):"; head -25 "$first"; }
if grep -q "\[timeout\]" "/tmp/seedtest-$id-$tag.log"; then echo "SEEDTEST $id $tag: INCONCLUSIVE (a step timed out) log=/tmp/seedtest-$id-$tag.log"; exit 3; fi
if grep -q "^VIOLATION property=$id" "/tmp/seedtest-$id-$tag.log"; then echo "SEEDTEST $id $tag: CAUGHT"; exit 0; else echo "SEEDTEST $id $tag: MISSED (rc=$rc) log=/tmp/seedtest-$id-$tag.log"; exit 1; fi
