#!/bin/bash
# usage: tools/sweep.sh <tier> <seed>... — run every claimed check for each seed, one line per run.
# SWEEP_IDS="C11 C12" restricts the properties.
# Meant for unchanged-tree sweeps (`vp run -- tools/sweep.sh quick 1 2 3 4 5`).
cd "$(dirname "$0")/.."
mkdir -p .work
tier=$1; shift
[ -x .work/bin/extract ] || ./setup > .work/setup.log 2>&1
ids=${SWEEP_IDS:-$(python3 -c "import json;print(' '.join(c['property_id'] for c in json.load(open('MANIFEST.json'))['checks']))")}
for seed in "$@"; do
  for id in $ids; do
    t0=$(date +%s)
    VERIF_SEED=$seed ./check $id $tier > .work/sweep_${id}_${tier}_${seed}.log 2>&1
    rc=$?
    echo "sweep $id $tier seed=$seed rc=$rc wall=$(( $(date +%s) - t0 ))s $(grep -c '^VIOLATION' .work/sweep_${id}_${tier}_${seed}.log) violations, $(grep -c '^KNOWN-FINDING' .work/sweep_${id}_${tier}_${seed}.log) known"
  done
done
